(* C03 -- property theorems only.  Each is closed by `exact <lemma>`.
   Vocabulary: Model/ClientMgr.v (`init`, `step`, `run`, `apply`, `req_lookup`, `classify_frame`, `mk_id`, outputs `OComplete h r`)
   and the specification part of Proofs/ClientMgrC03.v:
     front_handle e / front_handles es   the handle a front-end event introduces (FCall/FBatch/FSubscribe/FSubMethod/FUnsub)
     outs_of tr                         all outputs of a trace, in order
     ncompl h o                         number of `OComplete h _` in o
     doomed s                           dying s <> None \/ dead s = true
     s_at cfg es                        fst (run (init cfg) es)
     issued_call cfg es h i             es = es1 ++ FCall h me p :: es2, issued in a live state s0 = s_at es1, i = mk_id s0 (next_id s0)
   The k-th trace element of a run is the output of `step` in the state reached by the first k events (C03_trace_index). *)
From Coq Require Import List NArith.
From JV Require Import Base.Bytes Base.Dec Model.Wire Model.ClientMgr Proofs.ClientMgrInv Proofs.ClientMgrC03 Proofs.ClientMgrC18.
Import ListNotations.
Local Open Scope N_scope.

(* indexing: what "output at step k" means *)
Theorem C03_trace_index : forall (s : st) (es : list ev) (e : ev) (rest : list ev),
  nth_error (snd (run s (es ++ e :: rest))) (length es) =
  Some (snd (fst (step (fst (run s es)) e)), snd (step (fst (run s es)) e)).
Proof. exact run_nth. Qed.
Print Assumptions C03_trace_index.

(* the front end never inserts an occupied key: no call, subscribe or batch ever fails with Occupied *)
Theorem C03_keys_fresh : forall (idstr : bool) (qc bc : nat) (gate : bool) (es : list ev),
  Forall (fun x => forall h, ~ In (OComplete h (CErr EOccupied)) (fst x)) (snd (run (init idstr qc bc gate) es)).
Proof. exact keys_fresh. Qed.
Print Assumptions C03_keys_fresh.

(* the premise under which "the response bearing its own id" is well defined: in every reachable state the ids of
   outstanding single requests (table keys and queued messages; `queued_ids`, `queued_ranges`, `in_range` are in
   Proofs/ClientMgrC18.v) are pairwise distinct, batch ranges are pairwise disjoint, and no single id lies in a batch range *)
Theorem C03_wire_ids_distinct : forall (idstr : bool) (qc bc : nat) (gate : bool) (es : list ev),
  let s := fst (run (init idstr qc bc gate) es) in
  NoDup (map fst (requests (m s)) ++ queued_ids s) /\
  (forall r1 r2, In r1 (map fst (batches (m s)) ++ queued_ranges s) -> In r2 (map fst (batches (m s)) ++ queued_ranges s) ->
     r1 <> r2 -> forall n, ~ (in_range r1 n /\ in_range r2 n)) /\
  (forall n r, In (mk_id s n) (map fst (requests (m s)) ++ queued_ids s) ->
     In r (map fst (batches (m s)) ++ queued_ranges s) -> ~ in_range r n).
Proof. exact wire_ids_distinct. Qed.
Print Assumptions C03_wire_ids_distinct.

(* routing, state form (any state, any event): a response completes handle h only if h is the waiter stored under the
   response's own id, and only while the client is alive *)
Theorem C03_routing : forall (s : st) (e : ev) (h : handle) (r : response),
  In (OComplete h (CResp r)) (snd (fst (step s e))) ->
  dead s = false /\ dying s = None /\ req_lookup (rs_id r) (m s) = Some (KCall (Some h)) /\
  exists raw, e = Back raw /\ classify_frame raw = FSingle (IResp r).
Proof. exact routing_state. Qed.
Print Assumptions C03_routing.

(* the value handed to the caller is the parsed frame itself, untouched *)
Theorem C03_payload_exact : forall (s : st) (e : ev) (h : handle) (r : response),
  In (OComplete h (CResp r)) (snd (fst (step s e))) ->
  exists raw, e = Back raw /\ classify_frame raw = FSingle (IResp r).
Proof. exact payload_exact. Qed.
Print Assumptions C03_payload_exact.

(* routing, trace form: in every run from `init`, the response delivered to h bears the id that an earlier `FCall h`
   put on the wire *)
Theorem C03_routing_trace : forall (idstr : bool) (qc bc : nat) (gate : bool) (es : list ev) (e : ev) (h : handle) (r : response),
  In (OComplete h (CResp r)) (snd (fst (step (fst (run (init idstr qc bc gate) es)) e))) ->
  (exists es1 me p es2, es = es1 ++ FCall h me p :: es2 /\
     let s0 := fst (run (init idstr qc bc gate) es1) in dead s0 = false /\ rs_id r = mk_id s0 (next_id s0)) /\
  exists raw, e = Back raw /\ classify_frame raw = FSingle (IResp r).
Proof. exact routing_trace. Qed.
Print Assumptions C03_routing_trace.

(* what `FCall h me p` puts on the wire in a live state: the request with id mk_id s0 (next_id s0) *)
Theorem C03_call_wire_id : forall (idstr : bool) (qc bc : nat) (gate : bool) (es : list ev) (h : handle) (me : bytes) (p : option bytes),
  dead (fst (run (init idstr qc bc gate) es)) = false ->
  let s0 := fst (run (init idstr qc bc gate) es) in let i := mk_id s0 (next_id s0) in
  fst (fst (apply s0 (FCall h me p))) =
    enqueue (upd_next s0 (next_id s0 + 1)) (MRequest i (Some h) (ser_request {| rq_id := i; rq_method := me; rq_params := p |})).
Proof. exact call_wire_id. Qed.
Print Assumptions C03_call_wire_id.

(* with pairwise distinct front handles, "the call of h" is one event *)
Theorem C03_call_event_unique : forall (es : list ev) (h : handle) a me p b a' me' p' b',
  NoDup (front_handles es) -> es = a ++ FCall h me p :: b -> es = a' ++ FCall h me' p' :: b' ->
  a = a' /\ me = me' /\ p = p' /\ b = b'.
Proof. exact call_event_unique. Qed.
Print Assumptions C03_call_event_unique.

(* never twice: with pairwise distinct front handles every handle is completed at most once over the whole run *)
Theorem C03_at_most_once : forall (idstr : bool) (qc bc : nat) (gate : bool) (es : list ev) (h : handle),
  NoDup (front_handles es) -> (ncompl h (outs_of (snd (run (init idstr qc bc gate) es))) <= 1)%nat.
Proof. exact at_most_once. Qed.
Print Assumptions C03_at_most_once.

(* a response whose id matches nothing pending (or names a live subscription) completes no call, no batch, no subscribe,
   and ends the client *)
Theorem C03_unknown_id_completes_nothing : forall (s : st) (raw : bytes) (r : response),
  classify_frame raw = FSingle (IResp r) -> dying s = None -> dead s = false ->
  (req_lookup (rs_id r) (m s) = None \/ exists u ch um, req_lookup (rs_id r) (m s) = Some (KSub u ch um)) ->
  (forall o, In o (snd (fst (step s (Back raw)))) ->
     match o with OComplete _ (CResp _) | OComplete _ (CBatch _) | OComplete _ (CSubOk _) => False | _ => True end) /\
  doomed (fst (fst (step s (Back raw)))).
Proof. exact unknown_id_completes_nothing. Qed.
Print Assumptions C03_unknown_id_completes_nothing.

(* ---------- non-vacuity ---------- *)
Definition ex_cfg : st := init false 4 4 false.
Definition ex_resp (i : N) (v : bytes) : bytes := b#"{""jsonrpc"":""2.0"",""id"":" ++ print_N i ++ b#",""result"":" ++ v ++ b#"}".

(* two calls answered in reverse order: each gets the response bearing its own id, with that response's value *)
Example C03_ex_routed :
  map (fun x => filter (fun o => match o with OComplete _ _ => true | _ => false end) (fst x))
      (snd (run ex_cfg [FCall 7 b#"m" None; FCall 8 b#"m" None; Back (ex_resp 1 b#"""b"""); Back (ex_resp 0 b#"""a""")]))
  = [[]; [];
     [OComplete 8 (CResp {| rs_jsonrpc := true; rs_payload := PResult b#"""b"""; rs_id := IdNum 1 |})];
     [OComplete 7 (CResp {| rs_jsonrpc := true; rs_payload := PResult b#"""a"""; rs_id := IdNum 0 |})]].
Proof. vm_compute. reflexivity. Qed.

(* string ids *)
Example C03_ex_routed_str :
  nth 1 (map fst (snd (run (init true 4 4 false) [FCall 7 b#"m" None;
           Back b#"{""jsonrpc"":""2.0"",""id"":""0"",""result"":1}"]))) []
  = [OComplete 7 (CResp {| rs_jsonrpc := true; rs_payload := PResult b#"1"; rs_id := IdStr b#"0" |})].
Proof. vm_compute. reflexivity. Qed.

(* a foreign id kills the client: the pending call fails with Disconnected and its own late answer completes nothing *)
Example C03_ex_foreign_id :
  tl (map fst (snd (run ex_cfg [FCall 7 b#"m" None; Back (ex_resp 9 b#"1"); Back (ex_resp 0 b#"1")])))
  = [[OFatal FNotPending; OComplete 7 (CErr EDisconnected)]; []].
Proof. vm_compute. reflexivity. Qed.

(* a duplicated answer: the first completes the call, the second matches nothing *)
Example C03_ex_duplicate :
  tl (map fst (snd (run ex_cfg [FCall 7 b#"m" None; Back (ex_resp 0 b#"1"); Back (ex_resp 0 b#"1")])))
  = [[OComplete 7 (CResp {| rs_jsonrpc := true; rs_payload := PResult b#"1"; rs_id := IdNum 0 |})]; [OFatal FNotPending]].
Proof. vm_compute. reflexivity. Qed.

(* ---- down to the bytes on the wire (Proofs/ClientWire.v) ---- *)
From JV Require Import Proofs.WireFacts Proofs.ClientWire.

Theorem C03_response_frame_classified : forall r : response,
  wf_response r -> classify_frame (ser_response r) = FSingle (IResp r).
Proof. exact classify_frame_response. Qed.
Print Assumptions C03_response_frame_classified.

Theorem C03_answer_completes_call : forall (s : st) (h : handle) (r : response),
  dead s = false -> dying s = None -> wf_response r ->
  req_lookup (rs_id r) (m s) = Some (KCall (Some h)) -> alive s h = true ->
  In (OComplete h (CResp r)) (snd (fst (step s (Back (ser_response r))))).
Proof. exact answer_completes_call. Qed.
Print Assumptions C03_answer_completes_call.

(* ---- the HTTP client's single call (Model/HttpBatch.v `http_single`, `http_single_resp`: client.rs `request` after the
   body passed read_body and was parsed as one Response; `outcome_of r` = SOk result | SCall error object) ---- *)
From JV Require Import Model.HttpBatch Proofs.HttpBatchFacts.
From JV Require Model.HttpGate.

(* a reply bearing the call's id yields exactly that reply's result / error object *)
Theorem C03_http_single_own_id : forall (i : id) (r : response),
  rs_id r = i -> http_single_resp i r = outcome_of r.
Proof. exact http_single_own_id. Qed.
Print Assumptions C03_http_single_own_id.

(* a reply bearing any other id (other number, string where a number was sent or the reverse, null) never yields Ok:
   a result is refused (NotPendingRequest); an error object is reported as the call's error whatever its id, because the
   code converts the reply to ResponseSuccess before it compares ids *)
Theorem C03_http_single_foreign_id : forall (i : id) (r : response),
  rs_id r <> i ->
  http_single_resp i r = match rs_payload r with PResult _ => SErr HNotPending | PError e => SCall e end /\
  forall raw, http_single_resp i r <> SOk raw.
Proof. exact http_single_foreign_id. Qed.
Print Assumptions C03_http_single_foreign_id.

(* from the bytes of the HTTP body: Ok exactly for a body that parses to a reply with the call's own id and a result *)
Theorem C03_http_single_ok : forall (i : id) (body raw : bytes),
  http_single i body = SOk raw <->
  exists text single r,
    HttpGate.read_body [] [HttpGate.FData body] http_max_response = HttpGate.RbOk text single /\
    parse_response text = Some r /\ rs_id r = i /\ rs_payload r = PResult raw.
Proof. exact http_single_ok. Qed.
Print Assumptions C03_http_single_ok.

Example C03_http_single_witness :
  http_single (IdNum 1) b#"{""jsonrpc"":""2.0"",""id"":1,""result"":""a""}" = SOk b#"""a""" /\
  http_single (IdNum 1) b#"{""jsonrpc"":""2.0"",""id"":""1"",""result"":""a""}" = SErr HNotPending /\
  http_single (IdStr b#"1") b#"{""jsonrpc"":""2.0"",""id"":1,""result"":""a""}" = SErr HNotPending /\
  http_single (IdNum 1) b#"{""jsonrpc"":""2.0"",""id"":null,""result"":""a""}" = SErr HNotPending /\
  http_single (IdNum 1) b#"{""jsonrpc"":""2.0"",""id"":2,""error"":{""code"":-1,""message"":""x""}}"
    = SCall {| e_code := (-1)%Z; e_message := b#"x"; e_data := None |} /\
  http_single (IdNum 1) b#"[1]" = SErr HParse /\ http_single (IdNum 1) b#"1" = SErr HTransport.
Proof. vm_compute. repeat split. Qed.
