(* C04 -- a subscription's notifications are its own, ordered, and stop at close.
   Property theorems only; each is closed by `exact <lemma>`; statements are pinned in tools/pinned/C04.statements.
   `reach caps base meth tr` is the state and the observations after ANY trace tr of the subscription LTS
   (Model/SubBook.v: all interleavings of handler steps, unsubscribe calls, writer steps, disconnects, server stop,
   over any number of connections with capacities `caps`).  `sent cn` = frames written ++ frames still queued. *)
From Coq Require Import List NArith ZArith Bool.
From JV Require Import Model.SubBook Proofs.SubBookFacts.
Import ListNotations.

Theorem C04_own_id_and_method : forall caps base meth tr c cn f, let s := fst (reach caps base meth tr) in nth_error (conns s) c = Some cn -> In f (sent cn) -> is_notif f = true -> exists h b, nth_error (subs s) h = Some b /\ s_conn b = c /\ frame_sid f = s_id b /\ frame_meth f = s_meth b /\ s_meth b = notif_meth s /\ s_id b = (id_base s + N.of_nat h)%N /\ s_state b = SActive.
Proof. exact own_id_and_method. Qed.
Print Assumptions C04_own_id_and_method.

Theorem C04_after_accept : forall caps base meth tr c cn, nth_error (conns (fst (reach caps base meth tr))) c = Some cn -> notif_after_accept (sent cn) /\ notif_after_accept (c_wire cn).
Proof. exact after_accept. Qed.
Print Assumptions C04_after_accept.

Theorem C04_fifo_per_subscription : forall caps base meth tr h b cn, let s := fst (reach caps base meth tr) in nth_error (subs s) h = Some b -> nth_error (conns s) (s_conn b) = Some cn -> filter_map (plain_item (s_id b)) (sent cn) = log_of h (snd (reach caps base meth tr)) /\ exists pending, log_of h (snd (reach caps base meth tr)) = filter_map (plain_item (s_id b)) (c_wire cn) ++ pending.
Proof. exact fifo_per_subscription. Qed.
Print Assumptions C04_fifo_per_subscription.

Theorem C04_rejected_is_silent : forall caps base meth tr h b, let s := fst (reach caps base meth tr) in nth_error (subs s) h = Some b -> ~ accepted b -> (forall c cn f, nth_error (conns s) c = Some cn -> In f (sent cn) -> is_notif f = true -> frame_sid f <> s_id b) /\ s_ret b = None.
Proof. exact rejected_is_silent. Qed.
Print Assumptions C04_rejected_is_silent.

Theorem C04_send_after_close_fails : forall caps base meth tr1 a tr2 h b, let s0 := fst (reach caps base meth tr1) in let s2 := fst (reach caps base meth (tr1 ++ a :: tr2)) in nth_error (subs s0) h = Some b -> s_state b = SActive -> closes s0 a b -> exists b2, nth_error (subs s2) h = Some b2 /\ s_state b2 = SActive /\ sink_closed s2 b2 = true /\ forall k x, In k (s_sinks b2) -> step s2 (IsClosed h k) = (s2, [OClosed h k true]) /\ (~ In k (map fst (s_inflight b2)) -> step s2 (SendCheck h k x) = (s2, [OSendResult h k x false])).
Proof. exact send_after_close_fails. Qed.
Print Assumptions C04_send_after_close_fails.

Theorem C04_close_notification_at_most_once_and_only_if_accepted : forall caps base meth tr h b cn, let s := fst (reach caps base meth tr) in nth_error (subs s) h = Some b -> nth_error (conns s) (s_conn b) = Some cn -> count_closing (s_id b) (sent cn) <= 1 /\ (1 <= count_closing (s_id b) (sent cn) -> s_state b = SActive /\ s_returned b = true) /\ (forall c2 cn2, c2 <> s_conn b -> nth_error (conns s) c2 = Some cn2 -> count_closing (s_id b) (sent cn2) = 0).
Proof. exact close_notification_once. Qed.
Print Assumptions C04_close_notification_at_most_once_and_only_if_accepted.

Theorem C04_stop_closes_idle_connections : forall caps base meth tr, let s := fst (reach caps base meth tr) in stopped s = true -> forall c cn, nth_error (conns s) c = Some cn -> c_open cn = true -> has_pending s c = true.
Proof. exact stop_closes_idle. Qed.
Print Assumptions C04_stop_closes_idle_connections.

(* ---- non-vacuity: concrete traces on which the hypotheses hold and the interesting conclusions are visible ---- *)
Definition ex_trace : list act :=
  [SubscribeCall 0 1; Accept1 0; Accept2 0; SendCheck 0 0 7; SendEnqueue 0 0; SendCheck 0 0 8; SendEnqueue 0 0;
   HandlerReturn 0 (CNotif 9); CloseNotify 0; WriterStep 0; WriterStep 0; WriterStep 0].

Example C04_delivery_nonvacuous : let r := reach [2] 1000 5 ex_trace in map c_wire (conns (fst r)) = [[FSubOk 1 1000; FNotif 5 1000 7 false; FNotif 5 1000 8 false]] /\ map c_queue (conns (fst r)) = [[FNotif 5 1000 9 true]] /\ log_of 0 (snd r) = [7%N; 8%N].
Proof. vm_compute. repeat split. Qed.

Example C04_close_nonvacuous : let s0 := fst (reach [2] 1000 5 ex_trace) in exists b, nth_error (subs s0) 0 = Some b /\ s_state b = SActive /\ closes s0 (UnsubscribeCall 0 2 1000) b /\ snd (step (fst (step s0 (UnsubscribeCall 0 2 1000))) (SendCheck 0 0 3)) = [OSendResult 0 0 3 false].
Proof.
  vm_compute. eexists. split; [reflexivity|]. split; [reflexivity|]. split; [|reflexivity].
  left. exists 2%N. split; [reflexivity|]. left. reflexivity.
Qed.

Example C04_rejected_nonvacuous : let s := fst (reach [1] 1000 5 [SubscribeCall 0 1; Reject 0 7; HandlerReturn 0 (CNotif 3); CloseNotify 0; WriterStep 0]) in exists b, nth_error (subs s) 0 = Some b /\ ~ accepted b /\ map c_wire (conns s) = [[FErr 1 (ERejected 7)]].
Proof. vm_compute. eexists. split; [reflexivity|]. split; [intros [H | H]; discriminate H | reflexivity]. Qed.

(* ==================================================================================================================
   C04, back-pressure block (engine `sinkbp`).  Model/SinkQueue.v: ONE subscription's sink over the bounded channel
   of capacity c (Methods::subscribe / raw_json_request), with SubscriptionSink::{send, try_send, send_timeout},
   the messages the failed sends hand back to the handler (`held`, by slot), their re-send through any of the three
   paths, the receiver (`recv`) and its `close`.  `run sid me (init c) ops` = final state and trace (op, result) of
   ANY list of operations; `received` = frames the receiver got, `oklog` = payloads of the sends that reported Ok in
   the order they succeeded (computed from the trace alone), `produced` = payloads of the fresh sends of the history;
   `to_json sid me (NeedsData (payload x))` is the notification {"jsonrpc":"2.0","method":me,"params":{"subscription":
   sid,"result":x}} of payload x.
   ================================================================================================================== *)
From JV Require Import Base.Bytes Model.SinkQueue Proofs.SinkQueueFacts.

Theorem C04_bp_wrap_idempotent : forall sid me c ops, let r := run sid me (init c) ops in (forall m, to_json sid me (Complete (to_json sid me m)) = to_json sid me m) /\ (forall f, In f (received (snd r) ++ q (fst r)) -> exists x, In x (produced ops) /\ f = to_json sid me (NeedsData (payload x))) /\ (forall k m, In (k, m) (held (fst r)) -> exists x, In x (produced ops) /\ to_json sid me m = to_json sid me (NeedsData (payload x)) /\ (m = Complete (to_json sid me (NeedsData (payload x))) \/ (closed (fst r) = true /\ m = NeedsData (payload x)))).
Proof. exact wrap_idempotent. Qed.
Print Assumptions C04_bp_wrap_idempotent.

Theorem C04_bp_fifo_exact : forall sid me c ops, let r := run sid me (init c) ops in received (snd r) ++ q (fst r) = map (fun x => to_json sid me (NeedsData (payload x))) (oklog (snd r)).
Proof. exact fifo_exact. Qed.
Print Assumptions C04_bp_fifo_exact.

Theorem C04_bp_bounded : forall sid me, (forall c ops, length (q (fst (run sid me (init c) ops))) <= c) /\ (forall s o, is_send o = true -> snd (SinkQueue.step sid me s o) <> ROk -> q (fst (SinkQueue.step sid me s o)) = q s /\ closed (fst (SinkQueue.step sid me s o)) = closed s /\ cap (fst (SinkQueue.step sid me s o)) = cap s).
Proof. exact bounded. Qed.
Print Assumptions C04_bp_bounded.

Theorem C04_bp_nothing_after_close : forall sid me c ops1 ops2, let s1 := fst (run sid me (init c) (ops1 ++ [OClose])) in let r2 := run sid me s1 ops2 in closed s1 = true /\ (forall o, ~ In (o, ROk) (snd r2)) /\ q s1 = received (snd r2) ++ q (fst r2) /\ closed (fst r2) = true.
Proof. exact nothing_after_close. Qed.
Print Assumptions C04_bp_nothing_after_close.

(* own id and method, for EVERY id an IdProvider can return: `sid` is a Wire.subid = SubscriptionId::{Num(u64), Str(String)}
   (`wf_subid`: the number fits u64 / the string is UTF-8, i.e. it is a value of the Rust type -- any characters, quotes,
   backslashes, control characters, non-ASCII); every frame received or still queued, and every full notification text
   handed back to the handler, reads back (Wire.parse_sub_notif = the client's SubscriptionResponse parser) as exactly
   (notification method, that id, a produced payload).  Payloads are u64 as in the harness. *)
From JV Require Base.Utf8 Base.Dec Model.Wire Proofs.WireFacts.

Theorem C04_bp_notification_carries_own_id : forall (sid : Wire.subid) me c ops, WireFacts.wf_subid sid -> Utf8.utf8_valid me = true -> (forall x, In x (produced ops) -> (x <= Dec.u64_max)%N) -> let r := run sid me (init c) ops in (forall f, In f (received (snd r) ++ q (fst r)) -> exists x, In x (produced ops) /\ Wire.parse_sub_notif Wire.k_result f = Some (me, sid, payload x)) /\ (forall k j, In (k, Complete j) (held (fst r)) -> exists x, In x (produced ops) /\ Wire.parse_sub_notif Wire.k_result j = Some (me, sid, payload x)).
Proof. exact notification_carries_own_id. Qed.
Print Assumptions C04_bp_notification_carries_own_id.

(* non-vacuity: capacity 1; 7 goes in, 8 times out and comes back Complete, 7 is received, 8 is re-sent (try_send) and
   received exactly as produced; after close a fresh 9 is refused and handed back as it was given *)
Definition ex_bp_ops : list op := [OSend PSend 7 7; OSend PTimeout 8 8; ORecv; OResend PTry 8; ORecv; OClose; OSend PTry 9 9; ORecv].

Example C04_bp_nonvacuous : let r := run 1000 b#"note" (init 1) ex_bp_ops in let it := fun x => to_json 1000 b#"note" (NeedsData (payload x)) in map snd (snd r) = [ROk; RTimeout (Complete (it 8%N)); RFrame (it 7%N); ROk; RFrame (it 8%N); RDone; RClosed (NeedsData (payload 9)); REnd] /\ received (snd r) = [it 7%N; it 8%N] /\ oklog (snd r) = [7%N; 8%N] /\ held (fst r) = [(9%N, NeedsData (payload 9))] /\ it 8%N = b#"{""jsonrpc"":""2.0"",""method"":""note"",""params"":{""subscription"":1000,""result"":8}}".
Proof. vm_compute. repeat split. Qed.

(* a string id that needs escaping (a, quote, b, backslash, c, line feed, 0x01): the frame carries it escaped and reads
   back as that id; so does the full notification text handed back by the failed try_send *)
Definition ex_bp_sid : Wire.subid := Wire.SubStr (b#"a""b\c" ++ [x0a; x01]).

Example C04_bp_string_id_nonvacuous : let r := run ex_bp_sid b#"note" (init 1) [OSend PTry 7 7; OSend PTry 8 8; ORecv] in let f := b#"{""jsonrpc"":""2.0"",""method"":""note"",""params"":{""subscription"":""a\""b\\c\n\u0001"",""result"":7}}" in WireFacts.wf_subid ex_bp_sid /\ received (snd r) = [f] /\ Wire.parse_sub_notif Wire.k_result f = Some (b#"note", ex_bp_sid, payload 7) /\ exists j, held (fst r) = [(8%N, Complete j)] /\ Wire.parse_sub_notif Wire.k_result j = Some (b#"note", ex_bp_sid, payload 8).
Proof. cbv zeta. split; [vm_compute; reflexivity|]. split; [vm_compute; reflexivity|]. split; [vm_compute; reflexivity|]. eexists. split; [vm_compute; reflexivity | vm_compute; reflexivity]. Qed.

(* ==================================================================================================================
   C04, connection-queue block (engine `connq`).  Model/ConnQueue.v: ONE connection's bounded outgoing queue (MethodSink
   over a tokio mpsc of capacity cap = message_buffer_capacity) shared by any number of subscriptions and calls; a
   send that finds the queue full WAITS in a first-come-first-served line; accept / reject / send parked there can be
   CANCELLED by the handler (tokio::time::timeout / select!), after which the handler may return any closing value.
   accept() is interpreted step by step from Gen/AcceptOrderGen.accept_steps (the order read from the source).
   `ConnQueue.run cap base init ops` = final state and the reports of every step of ANY list of steps `ops`
   (Subscribe, Acc, Rej, Send, Try, Cancel (with or without a closing value returned in the same poll), Ret, Unsub,
   Call, W = the writer takes one frame, Close); subscription id of the h-th subscribe call = sid base h = base + h;
   `frames s` = popped s ++ q s = everything that has been handed to the connection, in order; `OAcc h ROk` = accept
   returned Ok(sink) to handler h (at once, or when the parked accept completed); `oklog h` = payloads of handler h's
   send / try_send that reported Ok (at once or when the parked send completed), in that order.
   ================================================================================================================== *)
From JV Require Import Model.AcceptSteps Gen.AcceptOrderGen Model.ConnQueue Proofs.ConnQueueFacts.

Theorem C04_cq_nothing_before_accept_response : forall cap base ops pre f post sd, ConnQueue.frames (fst (ConnQueue.run cap base ConnQueue.init ops)) = pre ++ f :: post -> ConnQueue.notif_sid f = Some sd -> exists c, In (ConnQueue.FSubOk c sd) pre.
Proof. exact ConnQueueFacts.nothing_before_accept_response. Qed.
Print Assumptions C04_cq_nothing_before_accept_response.

Theorem C04_cq_never_accepted_is_silent : forall cap base ops h, ~ In (OAcc h ConnQueue.ROk) (concat (snd (ConnQueue.run cap base ConnQueue.init ops))) -> forall f, In f (ConnQueue.frames (fst (ConnQueue.run cap base ConnQueue.init ops))) -> ConnQueue.frame_sid f <> Some (ConnQueue.sid base h).
Proof. exact ConnQueueFacts.never_accepted_is_silent. Qed.
Print Assumptions C04_cq_never_accepted_is_silent.

Theorem C04_cq_fifo_per_subscription : forall cap base ops h, ConnQueue.filter_map (ConnQueue.plain_item (ConnQueue.sid base h)) (ConnQueue.frames (fst (ConnQueue.run cap base ConnQueue.init ops))) = ConnQueue.oklog h (snd (ConnQueue.run cap base ConnQueue.init ops)).
Proof. exact ConnQueueFacts.fifo_per_subscription. Qed.
Print Assumptions C04_cq_fifo_per_subscription.

Theorem C04_cq_bounded : forall cap base ops, length (ConnQueue.q (fst (ConnQueue.run cap base ConnQueue.init ops))) <= cap.
Proof. exact ConnQueueFacts.bounded. Qed.
Print Assumptions C04_cq_bounded.

Theorem C04_cq_waits_only_when_full : forall cap base ops, let s := fst (ConnQueue.run cap base ConnQueue.init ops) in waiters s <> [] -> ConnQueue.closed s = false /\ length (ConnQueue.q s) = cap.
Proof. exact ConnQueueFacts.waits_only_when_full. Qed.
Print Assumptions C04_cq_waits_only_when_full.

(* the scenario: capacity 1, the queue filled by the answer of an ordinary call (id 7); subscribe (call id 1, handle 0,
   subscription id 1000); accept PARKS; the handler gives up and returns the closing value NotifErr(5) in the same
   poll: the call is answered InternalError (that answer waits for a place), no frame ever names subscription 1000,
   accept never reported Ok; the writer takes the call's answer, then the error response of the subscribe call *)
Definition ex_cq_ops : list ConnQueue.op := [Call 7; Subscribe 1; Acc 0; Cancel 0 (Some (CErr 5)); W; W; W].

Example C04_cq_cancelled_parked_accept : let r := ConnQueue.run 1 1000 ConnQueue.init ex_cq_ops in snd r = [[OCall 7 false (FResp 7)]; []; [OAcc 0 RParked]; [OCancel 0 ConnQueue.RDone; OCall 1 false (FInternal 1)]; [OFrame (FResp 7)]; [OFrame (FInternal 1)]; [OEmpty]] /\ ConnQueue.frames (fst r) = [FResp 7; FInternal 1] /\ map s_h (subs (fst r)) = [HGone] /\ map s_armed (subs (fst r)) = [false] /\ map s_ret (subs (fst r)) = [Some (CErr 5)] /\ render b#"note" (FInternal 1) = b#"{""jsonrpc"":""2.0"",""id"":1,""error"":{""code"":-32603,""message"":""Internal error""}}".
Proof. vm_compute. repeat split. Qed.

(* the same scenario when the writer is faster: accept completes, an item and the closing value are delivered after
   the accepting response *)
Example C04_cq_nonvacuous : let r := ConnQueue.run 1 1000 ConnQueue.init [Call 7; Subscribe 1; Acc 0; W; Send 0 3; W; Ret 0 (CErr 5); W; W] in ConnQueue.frames (fst r) = [FResp 7; FSubOk 1 1000; ConnQueue.FNotif 1000 3; FClosing 1000 true 5] /\ In (OAcc 0 ConnQueue.ROk) (concat (snd r)) /\ ConnQueue.oklog 0 (snd r) = [3%N] /\ render b#"note" (FClosing 1000 true 5) = b#"{""jsonrpc"":""2.0"",""method"":""note"",""params"":{""subscription"":1000,""error"":5}}".
Proof. vm_compute. repeat split. repeat (first [left; reflexivity | right]). Qed.

(* why the order of the two sends in accept() matters: with the subscribe call notified BEFORE the answer is handed to
   the queue, the same steps deliver a closing notification for a subscription that was never accepted *)
Example C04_cq_swapped_order_refuted : let r := run_with 1 1000 [ANotifyCall; ASendToSink; ATableInsert; ABuildSink] ConnQueue.init ex_cq_ops in ~ In (OAcc 0 ConnQueue.ROk) (concat (snd r)) /\ ConnQueue.frames (fst r) = [FResp 7; FClosing 1000 true 5] /\ head_ok [ANotifyCall; ASendToSink; ATableInsert; ABuildSink] = false /\ head_ok accept_steps = true.
Proof. vm_compute. split; [|repeat split]. intro H. repeat (destruct H as [H | H]; [discriminate H|]). exact H. Qed.
