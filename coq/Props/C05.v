(* C05 -- a client subscription stream yields exactly its own notifications, in order.  Property theorems only; each is
   closed by `exact <lemma>`.  Vocabulary: Model/ClientMgr.v (`chan`, `chan_send` = SubscriptionSender::send,
   `poll_next`, `sub_deliver`, `sub_close`, `notif_deliver`, `handle_back`, `handle_front`, `do_unsubscribe`, `kill`,
   `apply`) and the specification part of Proofs/ClientMgrC05.v:
     chan_poll c            Subscription::poll_next on the channel alone;  polls c n = the results of n polls
     accepts c              not lagged, receiver alive, length buf < cap
     push_buf / set_lag     the channel with x appended / with the lagged flag set
     cop, cstep, crun       an abstract run of ONE channel (pushes, polls, either end dropped) recording what was
                            pushed, accepted and polled
     prefix a b             exists rest, a ++ rest = b
     sub_chan s sid         the channel of the subscription named sid: subs[sid] = rid, requests[rid] = KSub _ ch _
     pending_msgs s         the messages on their way to the send task (queue, then blocked senders)
     is_notif, notif_step   subscription / close / plain notifications and their effect on the state
     run_frames s frs       the read task handling the frames frs one after the other
     ungated s              gated = false, dead = false, dying = None, sendfail = false, busy = false: nothing blocks or
                            ends the send task
     frame s q w u          s with queue := q, waiting := w, unsubw := u (handle_front neither reads nor writes them)
     process s msgs         handle_front folded over msgs: final state and the concatenated outputs
     marks tags u           unsubw after the blocked senders with these tags were admitted to the queue
     wires_of o             the frames written among the outputs o  *)
From Coq Require Import List NArith ZArith Bool.
From JV Require Import Base.Bytes Base.Dec Model.Wire Model.ClientMgr Proofs.ClientMgrC05.
Import ListNotations.
Local Open Scope N_scope.

(* ------------------------------------------------------------------ one channel: FIFO *)

(* `chan_send` appends at the tail iff the channel is not lagged, its receiver is alive and there is room ... *)
Theorem C05_send_accepted_iff : forall c x, snd (chan_send c x) = SentOk <-> accepts c.
Proof. exact chan_send_ok_iff. Qed.
Print Assumptions C05_send_accepted_iff.

Theorem C05_send_appends : forall c x, accepts c -> chan_send c x = (push_buf c x, SentOk).
Proof. exact chan_send_accept. Qed.
Print Assumptions C05_send_appends.

(* ... and otherwise leaves buffer, ends and capacity as they were *)
Theorem C05_send_refused : forall c x, ~ accepts c ->
  snd (chan_send c x) <> SentOk /\ c_buf (fst (chan_send c x)) = c_buf c /\
  c_rx (fst (chan_send c x)) = c_rx c /\ c_tx (fst (chan_send c x)) = c_tx c /\ c_cap (fst (chan_send c x)) = c_cap c.
Proof. exact chan_send_refuse. Qed.
Print Assumptions C05_send_refused.

(* a poll yields the head *)
Theorem C05_poll_head : forall c x b, c_rx c = true -> c_buf c = x :: b ->
  chan_poll c = ({| c_cap := c_cap c; c_buf := b; c_tx := c_tx c; c_rx := true; c_lag := c_lag c |}, NItem x).
Proof. exact chan_poll_head. Qed.
Print Assumptions C05_poll_head.

(* the state-level `poll_next` is `chan_poll` on that stream's channel and touches nothing else *)
Theorem C05_poll_next_is_chan_poll : forall s sh c, chan_of s sh = Some c ->
  snd (poll_next s sh) = snd (chan_poll c) /\
  chan_of (fst (poll_next s sh)) sh = Some (fst (chan_poll c)) /\
  (forall h, h <> sh -> chan_of (fst (poll_next s sh)) h = chan_of s h) /\
  m (fst (poll_next s sh)) = m s.
Proof. exact poll_next_chan. Qed.
Print Assumptions C05_poll_next_is_chan_poll.

(* every run of one channel: what was polled, followed by what is buffered, is what was accepted (while the receiver
   lives); polled is a prefix of accepted, accepted a prefix of pushed -- the whole of it as long as the channel is
   neither lagged nor dropped; the buffer never exceeds the capacity *)
Theorem C05_fifo : forall (cap : nat) (ops : list cop),
  let t := crun (cinit cap) ops in
  (c_rx (r_chan t) = true -> r_polled t ++ c_buf (r_chan t) = r_accepted t) /\
  prefix (r_polled t) (r_accepted t) /\
  prefix (r_accepted t) (r_pushed t) /\
  (c_lag (r_chan t) = false -> c_rx (r_chan t) = true -> r_accepted t = r_pushed t) /\
  (length (c_buf (r_chan t)) <= cap)%nat.
Proof. exact chan_fifo. Qed.
Print Assumptions C05_fifo.

(* ------------------------------------------------------------------ lag *)

(* once the flag is set it stays set and nothing is ever accepted again, whatever happens to the channel *)
Theorem C05_lag_is_final : forall t ops, c_lag (r_chan t) = true ->
  c_lag (r_chan (crun t ops)) = true /\ r_accepted (crun t ops) = r_accepted t.
Proof. exact lag_final. Qed.
Print Assumptions C05_lag_is_final.

Theorem C05_lagged_send_refused : forall c x, c_lag c = true -> chan_send c x = (c, SentTooSlow).
Proof. exact chan_send_lagged. Qed.
Print Assumptions C05_lagged_send_refused.

(* capacity n with n unread items: the next push is dropped and sets the flag, later pushes change nothing, and once
   the sender is gone the consumer reads the n items and then the end, reason lagged *)
Theorem C05_lag_scenario : forall c x,
  c_lag c = false -> c_rx c = true -> length (c_buf c) = c_cap c ->
  chan_send c x = (set_lag c, SentTooSlow) /\
  (forall y, chan_send (set_lag c) y = (set_lag c, SentTooSlow)) /\
  snd (polls (chan_drop_tx (set_lag c)) (S (length (c_buf c)))) = map NItem (c_buf c) ++ [NEndLagged].
Proof. exact lag_scenario. Qed.
Print Assumptions C05_lag_scenario.

(* the same in the client state: the dropped push leaves the tables alone, sets the flag on that subscription's channel,
   sends one MSubClosed naming it towards the send task; further pushes for it change nothing; when the send task
   handles the message the sender is dropped, and the consumer drains its n items and gets NEndLagged *)
Theorem C05_lag_closes_stream : forall s sid ch c p,
  sub_chan s sid = Some ch -> chan_of s ch = Some c ->
  c_lag c = false -> c_rx c = true -> length (c_buf c) = c_cap c ->
  let s1 := sub_deliver s sid p in
  m s1 = m s /\
  chan_of s1 ch = Some (set_lag c) /\
  pending_msgs s1 = pending_msgs s ++ [MSubClosed sid] /\
  (forall q, chan_of (sub_deliver s1 sid q) ch = Some (set_lag c)) /\
  chan_of (fst (handle_front s1 (MSubClosed sid))) ch = Some (chan_drop_tx (set_lag c)) /\
  snd (polls (chan_drop_tx (set_lag c)) (S (length (c_buf c)))) = map NItem (c_buf c) ++ [NEndLagged].
Proof. exact lag_closes_stream. Qed.
Print Assumptions C05_lag_closes_stream.

(* ------------------------------------------------------------------ only its own notifications *)

(* a subscription notification never changes the tables, is the identity for an unknown id, and otherwise changes only
   the channel of the subscription it names -- by exactly `chan_send payload` *)
Theorem C05_own_only : forall s sid p,
  m (sub_deliver s sid p) = m s /\
  match sub_chan s sid with
  | None => sub_deliver s sid p = s
  | Some ch =>
    (forall h, h <> ch -> chan_of (sub_deliver s sid p) h = chan_of s h) /\
    chan_of (sub_deliver s sid p) ch = option_map (fun c => fst (chan_send c p)) (chan_of s ch)
  end.
Proof. exact sub_deliver_own_only. Qed.
Print Assumptions C05_own_only.

Theorem C05_accepted_item_is_appended : forall s sid p ch c,
  sub_chan s sid = Some ch -> chan_of s ch = Some c -> snd (chan_send c p) = SentOk ->
  sub_deliver s sid p = set_chan s ch (push_buf c p).
Proof. exact sub_deliver_accepted. Qed.
Print Assumptions C05_accepted_item_is_appended.

Theorem C05_refused_item_requests_unsubscribe : forall s sid p ch c,
  sub_chan s sid = Some ch -> chan_of s ch = Some c -> snd (chan_send c p) <> SentOk ->
  pending_msgs (sub_deliver s sid p) = pending_msgs s ++ [MSubClosed sid].
Proof. exact sub_deliver_refused. Qed.
Print Assumptions C05_refused_item_requests_unsubscribe.

(* a plain notification: requests, subscriptions and batches untouched; identity for a method nobody registered;
   otherwise only the handler channel of that method can change *)
Theorem C05_own_only_notification : forall s me p,
  requests (m (notif_deliver s me p)) = requests (m s) /\
  subs (m (notif_deliver s me p)) = subs (m s) /\
  batches (m (notif_deliver s me p)) = batches (m s) /\
  match alookup bytes_eqb me (nhandlers (m s)) with
  | None => notif_deliver s me p = s
  | Some ch => forall h, h <> ch -> chan_of (notif_deliver s me p) h = chan_of s h
  end.
Proof. exact notif_deliver_own_only. Qed.
Print Assumptions C05_own_only_notification.

(* ------------------------------------------------------------------ grouping *)

(* an array frame made of notifications only is handled exactly like its elements one by one *)
Theorem C05_array_of_notifications : forall s ms,
  forallb is_notif ms = true -> ms <> [] -> handle_back s (FArray ms) = ROk (fold_left notif_step ms s) [].
Proof. exact array_of_notifs. Qed.
Print Assumptions C05_array_of_notifications.

Theorem C05_single_notification : forall s x, is_notif x = true -> handle_back s (FSingle x) = ROk (notif_step s x) [].
Proof. exact handle_single_notif. Qed.
Print Assumptions C05_single_notification.

(* ANY way of cutting a sequence of notifications into consecutive non-empty arrays gives the state (hence the streams)
   that one frame per notification gives *)
Theorem C05_grouping_irrelevant : forall s (parts : list (list inmsg)),
  (forall p, In p parts -> p <> [] /\ forallb is_notif p = true) ->
  run_frames s (map FArray parts) = run_frames s (map FSingle (concat parts)) /\
  run_frames s (map FArray parts) = ROk (fold_left notif_step (concat parts) s) [].
Proof. exact grouping_irrelevant. Qed.
Print Assumptions C05_grouping_irrelevant.

(* bytes: a text that is a JSON array is classified element by element, each element from its own text *)
Theorem C05_array_classified_elementwise : forall raw ts,
  raw_array raw = Some ts -> classify_frame raw = FArray (map classify_elem ts).
Proof. exact classify_array. Qed.
Print Assumptions C05_array_classified_elementwise.

(* ------------------------------------------------------------------ how a stream ends *)

(* a close / error notification for an active subscription: its sender is dropped, its entries are forgotten (so
   nothing is delivered to it any more), no other channel changes *)
Theorem C05_close_ends_stream : forall s sid rid u ch um,
  alookup subid_eqb sid (subs (m s)) = Some rid -> req_lookup rid (m s) = Some (KSub u ch um) ->
  let s' := sub_close s sid in
  alookup subid_eqb sid (subs (m s')) = None /\
  req_lookup rid (m s') = None /\
  sub_chan s' sid = None /\
  chan_of s' ch = option_map chan_drop_tx (chan_of s ch) /\
  (forall h, h <> ch -> chan_of s' h = chan_of s h).
Proof. exact sub_close_spec. Qed.
Print Assumptions C05_close_ends_stream.

Theorem C05_close_unknown_is_identity : forall s sid, alookup subid_eqb sid (subs (m s)) = None -> sub_close s sid = s.
Proof. exact sub_close_unknown. Qed.
Print Assumptions C05_close_unknown_is_identity.

(* a stream whose sender is gone: the buffered items in order, then the end -- lagged iff the flag is set *)
Theorem C05_closed_stream_drains : forall c, c_rx c = true ->
  snd (polls (chan_drop_tx c) (S (length (c_buf c)))) = map NItem (c_buf c) ++ [end_reason c].
Proof. exact closed_stream_drains. Qed.
Print Assumptions C05_closed_stream_drains.

(* the connection ends: every stream loses its sender (buffers stay readable), all tables are empty *)
Theorem C05_connection_end : forall s f h,
  chan_of (fst (kill s f)) h = option_map chan_drop_tx (chan_of s h) /\
  m (fst (kill s f)) = empty_mgr /\ dead (fst (kill s f)) = true.
Proof. exact kill_closes_all. Qed.
Print Assumptions C05_connection_end.

(* ------------------------------------------------------------------ unsubscribe: at most once *)

(* the send task handling MSubClosed for an active subscription writes exactly one unsubscribe request naming it
   (unless that very write fails, which ends the connection), drops the sink and forgets the id *)
Theorem C05_unsubscribe_spec : forall s sid rid u ch um,
  alookup subid_eqb sid (subs (m s)) = Some rid -> req_lookup rid (m s) = Some (KSub u ch um) ->
  let r := do_unsubscribe s sid in
  snd r = (if sendfail s then [] else [OWire (unsub_request s u um sid)]) /\
  alookup subid_eqb sid (subs (m (fst r))) = None /\
  sub_chan (fst r) sid = None /\
  chan_of (fst r) ch = option_map chan_drop_tx (chan_of s ch) /\
  (forall h, h <> ch -> chan_of (fst r) h = chan_of s h).
Proof. exact do_unsubscribe_spec. Qed.
Print Assumptions C05_unsubscribe_spec.

(* MSubClosed for an id that is not (or no longer) subscribed writes nothing and changes nothing *)
Theorem C05_unknown_sub_closed_is_silent : forall s sid,
  alookup subid_eqb sid (subs (m s)) = None -> handle_front s (MSubClosed sid) = (s, []).
Proof. exact do_unsubscribe_unknown. Qed.
Print Assumptions C05_unknown_sub_closed_is_silent.

(* hence a second MSubClosed for the same subscription (lag + drop, unsubscribe + lag, ...) writes nothing *)
Theorem C05_unsubscribe_at_most_once : forall s sid rid u ch um,
  alookup subid_eqb sid (subs (m s)) = Some rid -> req_lookup rid (m s) = Some (KSub u ch um) ->
  let s1 := fst (handle_front s (MSubClosed sid)) in
  snd (handle_front s (MSubClosed sid)) = (if sendfail s then [] else [OWire (unsub_request s u um sid)]) /\
  handle_front s1 (MSubClosed sid) = (s1, []).
Proof. exact unsubscribe_at_most_once. Qed.
Print Assumptions C05_unsubscribe_at_most_once.

(* dropping the stream value: the receiver goes away and MSubClosed is queued iff the queue has room *)
Theorem C05_drop : forall s sh sid c,
  dead s = false -> alookup N.eqb sh (subkind s) = Some (inl sid) -> chan_of s sh = Some c ->
  let s' := fst (fst (apply s (FDrop sh))) in
  snd (fst (apply s (FDrop sh))) = [] /\
  m s' = m s /\
  chan_of s' sh = Some (chan_drop_rx c) /\
  (forall h, h <> sh -> chan_of s' h = chan_of s h) /\
  waiting s' = waiting s /\
  queue s' = (if Nat.ltb (length (queue s)) (qcap s) then queue s ++ [MSubClosed sid] else queue s).
Proof. exact drop_spec. Qed.
Print Assumptions C05_drop.

(* ... and if it was not, the next notification for that subscription finds the receiver gone, delivers nothing, and
   sends MSubClosed itself *)
Theorem C05_next_notification_after_drop : forall s sid p ch c,
  sub_chan s sid = Some ch -> chan_of s ch = Some c -> c_rx c = false ->
  pending_msgs (sub_deliver s sid p) = pending_msgs s ++ [MSubClosed sid] /\
  option_map c_buf (chan_of (sub_deliver s sid p) ch) = Some (c_buf c).
Proof. exact next_notification_after_drop. Qed.
Print Assumptions C05_next_notification_after_drop.

(* ------------------------------------------------------------------ the send task consumes what is queued *)

(* when nothing blocks it, the send task handles EVERY queued and blocked message, in order (state and outputs are the
   fold of handle_front over queue ++ blocked senders), and ends with an empty inbox *)
Theorem C05_drain_ungated : forall fuel s,
  ungated s -> (0 < qcap s)%nat -> (length (pending_msgs s) < fuel)%nat ->
  drain fuel s =
  (frame (fst (process s (pending_msgs s))) [] [] (marks (map snd (waiting s)) (unsubw s)),
   snd (process s (pending_msgs s))).
Proof. exact drain_ungated. Qed.
Print Assumptions C05_drain_ungated.

(* hence `settle` (run after every event, with exactly that fuel) is: handle everything pending, then complete the
   unsubscribe() futures that are done; the five flags and the capacity are preserved *)
Theorem C05_settle_ungated : forall s, ungated s -> (0 < qcap s)%nat ->
  let P := process s (pending_msgs s) in
  let D := frame (fst P) [] [] (marks (map snd (waiting s)) (unsubw s)) in
  settle s = (fst (finish_unsubs D), snd P ++ snd (finish_unsubs D)) /\
  ungated D /\ qcap D = qcap s.
Proof. exact settle_ungated. Qed.
Print Assumptions C05_settle_ungated.

Theorem C05_settle_quiescent : forall s, ungated s -> (0 < qcap s)%nat ->
  queue (fst (settle s)) = [] /\ waiting (fst (settle s)) = [] /\ ungated (fst (settle s)) /\
  qcap (fst (settle s)) = qcap s.
Proof. exact settle_quiescent. Qed.
Print Assumptions C05_settle_quiescent.

(* a push for an active subscription that its channel refuses (lagged, full, or receiver gone), arriving in a state
   whose send task is idle: within that very step exactly one frame is written, the unsubscribe request naming sid, the
   subscription is forgotten, and the inbox is empty again *)
Theorem C05_lag_unsubscribes_exactly_once : forall s raw me sid p rid u ch um c,
  ungated s -> (0 < qcap s)%nat -> queue s = [] -> waiting s = [] ->
  classify_frame raw = FSingle (ISubNotif me sid p) ->
  alookup subid_eqb sid (subs (m s)) = Some rid -> req_lookup rid (m s) = Some (KSub u ch um) ->
  chan_of s ch = Some c -> snd (chan_send c p) <> SentOk ->
  let r := fst (step s (Back raw)) in
  wires_of (snd r) = [unsub_request s u um sid] /\
  (unsubw s = [] -> snd r = [OWire (unsub_request s u um sid)]) /\
  alookup subid_eqb sid (subs (m (fst r))) = None /\
  queue (fst r) = [] /\ waiting (fst r) = [].
Proof. exact refused_push_unsubscribes_once. Qed.
Print Assumptions C05_lag_unsubscribes_exactly_once.

(* explicit unsubscribe of an established subscription (its stream handle sh is its channel): exactly one unsubscribe
   frame for sid, and the caller's future completes in the same step *)
Theorem C05_explicit_unsubscribe_completes : forall s h sh sid rid u um,
  ungated s -> (0 < qcap s)%nat -> queue s = [] -> waiting s = [] ->
  alookup N.eqb sh (subkind s) = Some (inl sid) ->
  alookup subid_eqb sid (subs (m s)) = Some rid -> req_lookup rid (m s) = Some (KSub u sh um) ->
  alive s h = true ->
  let r := fst (step s (FUnsub h sh)) in
  wires_of (snd r) = [unsub_request s u um sid] /\
  In (OComplete h CDone) (snd r) /\
  (unsubw s = [] -> snd r = [OWire (unsub_request s u um sid); OComplete h CDone]) /\
  alookup subid_eqb sid (subs (m (fst r))) = None /\
  queue (fst r) = [] /\ waiting (fst r) = [].
Proof. exact explicit_unsubscribe_completes. Qed.
Print Assumptions C05_explicit_unsubscribe_completes.

(* dropping the stream while the queue has room: exactly one unsubscribe frame, in the same step *)
Theorem C05_drop_unsubscribes_exactly_once : forall s sh sid c rid u ch um,
  ungated s -> (0 < qcap s)%nat -> queue s = [] -> waiting s = [] ->
  alookup N.eqb sh (subkind s) = Some (inl sid) -> chan_of s sh = Some c ->
  alookup subid_eqb sid (subs (m s)) = Some rid -> req_lookup rid (m s) = Some (KSub u ch um) ->
  let r := fst (step s (FDrop sh)) in
  wires_of (snd r) = [unsub_request s u um sid] /\
  (unsubw s = [] -> snd r = [OWire (unsub_request s u um sid)]) /\
  alookup subid_eqb sid (subs (m (fst r))) = None /\
  queue (fst r) = [] /\ waiting (fst r) = [].
Proof. exact drop_unsubscribes_once. Qed.
Print Assumptions C05_drop_unsubscribes_exactly_once.

(* ------------------------------------------------------------------ non-vacuity: whole histories through `run` *)
Definition sub1 : ev := FSubscribe 1 b#"sub" b#"unsub" None.
Definition sub2 : ev := FSubscribe 2 b#"sub" b#"unsub" None.
Definition ack1 : ev := Back b#"{""jsonrpc"":""2.0"",""id"":0,""result"":7}".
Definition ack2 : ev := Back b#"{""jsonrpc"":""2.0"",""id"":2,""result"":""s8""}".
Definition n7 (v : bytes) : bytes := b#"{""jsonrpc"":""2.0"",""method"":""sub"",""params"":{""subscription"":7,""result"":" ++ v ++ b#"}}".
Definition n8 (v : bytes) : bytes := b#"{""jsonrpc"":""2.0"",""method"":""sub"",""params"":{""subscription"":""s8"",""result"":" ++ v ++ b#"}}".
Definition e7 : bytes := b#"{""jsonrpc"":""2.0"",""method"":""sub"",""params"":{""subscription"":7,""error"":""bye""}}".
Definition n99 : bytes := b#"{""jsonrpc"":""2.0"",""method"":""sub"",""params"":{""subscription"":99,""result"":0}}".
Definition arr (l : list bytes) : bytes := x5b :: join [x2c] l ++ [x5d].
Definition nexts (s0 : st) (es : list ev) : list nextres :=
  flat_map (fun x => match snd x with Some r => [r] | None => [] end) (snd (run s0 es)).
Definition wires (s0 : st) (es : list ev) : list bytes :=
  flat_map (fun x => flat_map (fun o => match o with OWire w => [w] | _ => [] end) (fst x)) (snd (run s0 es)).
Definition unsub7 : bytes := b#"{""jsonrpc"":""2.0"",""id"":1,""method"":""unsub"",""params"":[7]}".
Definition subreq : bytes := b#"{""jsonrpc"":""2.0"",""id"":0,""method"":""sub""}".

(* two subscriptions, interleaved pushes and one for an unknown id: one frame each or packed in one array, each stream
   gets its own items in order *)
Example C05_witness_own_items_any_grouping :
  let s0 := init false 4 4 false in
  let pre := [sub1; ack1; sub2; ack2] in
  let polls5 := [FNext 1; FNext 1; FNext 1; FNext 2; FNext 2] in
  let singles := [Back (n7 b#"1"); Back (n8 b#"""x"""); Back n99; Back (n7 b#"2")] in
  let packed := [Back (arr [n7 b#"1"; n8 b#"""x"""; n99; n7 b#"2"])] in
  let split := [Back (arr [n7 b#"1"]); Back (arr [n8 b#"""x"""; n99; n7 b#"2"])] in
  nexts s0 (pre ++ singles ++ polls5) = [NItem b#"1"; NItem b#"2"; NPending; NItem b#"""x"""; NPending] /\
  nexts s0 (pre ++ packed ++ polls5) = nexts s0 (pre ++ singles ++ polls5) /\
  nexts s0 (pre ++ split ++ polls5) = nexts s0 (pre ++ singles ++ polls5) /\
  fst (run s0 (pre ++ packed)) = fst (run s0 (pre ++ singles)) /\
  fst (run s0 (pre ++ split)) = fst (run s0 (pre ++ singles)).
Proof. vm_compute. repeat split. Qed.

(* buffer 1: push 1 is kept, push 2 is dropped (one unsubscribe goes out), push 3 is dropped too; the stream is 1, end(lagged) *)
Example C05_witness_lag :
  let s0 := init false 4 1 false in
  let es := [sub1; ack1; Back (n7 b#"1"); Back (n7 b#"2"); Back (n7 b#"3"); FNext 1; FNext 1] in
  nexts s0 es = [NItem b#"1"; NEndLagged] /\ wires s0 es = [subreq; unsub7].
Proof. vm_compute. split; reflexivity. Qed.

(* a close notification inside an array ends the stream there; the tables are empty afterwards *)
Example C05_witness_close_in_array :
  let s0 := init false 4 4 false in
  let es := [sub1; ack1; Back (arr [n7 b#"1"; e7; n7 b#"2"]); FNext 1; FNext 1; FNext 1] in
  nexts s0 es = [NItem b#"1"; NEndClosed; NEndClosed] /\ table_sizes (fst (run s0 es)) = (0, 0, 0, 0).
Proof. vm_compute. split; reflexivity. Qed.

(* drop with room in the queue: one unsubscribe at once, none later.  Drop with a full queue (capacity 1, send task
   blocked in a write): nothing at the drop, exactly one unsubscribe at the next notification, none at the one after *)
Example C05_witness_drop :
  wires (init false 4 4 false) [sub1; ack1; FDrop 1; Back (n7 b#"1")] = [subreq; unsub7] /\
  let es := [sub1; Release; ack1; FCall 5 b#"a" None; FCall 6 b#"a" None; FDrop 1; Release; Release] in
  wires (init false 1 4 true) es
    = [subreq; b#"{""jsonrpc"":""2.0"",""id"":2,""method"":""a""}"; b#"{""jsonrpc"":""2.0"",""id"":3,""method"":""a""}"] /\
  wires (init false 1 4 true) (es ++ [Back (n7 b#"1"); Release; Back (n7 b#"2")])
    = wires (init false 1 4 true) es ++ [unsub7].
Proof. vm_compute. repeat split. Qed.

(* explicit unsubscribe: one request, the future completes, later pushes are ignored *)
Example C05_witness_unsubscribe :
  let s0 := init false 4 4 false in
  let es := [sub1; ack1; Back (n7 b#"1"); FUnsub 9 1; Back (n7 b#"2")] in
  wires s0 es = [subreq; unsub7] /\
  nth 3 (snd (run s0 es)) ([], None) = ([OWire unsub7; OComplete 9 CDone], None).
Proof. vm_compute. split; reflexivity. Qed.

(* ---- down to the bytes on the wire (Proofs/ClientWire.v) ---- *)
From JV Require Import Base.Utf8 Proofs.WireFacts Proofs.ClientWire.

Theorem C05_push_frame_classified : forall (me : bytes) (sid : subid) (raw : bytes),
  utf8_valid me = true -> wf_subid sid -> raw_payload raw ->
  classify_frame (ser_sub_notif me sid false raw) = FSingle (ISubNotif me sid raw).
Proof. exact classify_frame_sub_notif. Qed.
Print Assumptions C05_push_frame_classified.

Theorem C05_close_frame_classified : forall (me : bytes) (sid : subid) (raw : bytes),
  utf8_valid me = true -> wf_subid sid -> raw_payload raw ->
  classify_frame (ser_sub_notif me sid true raw) = FSingle (ISubErr me sid raw).
Proof. exact classify_frame_sub_close. Qed.
Print Assumptions C05_close_frame_classified.

(* the same for an ELEMENT of an array (the reader chain of the loop is read from the source separately from the one
   of a whole message: Proofs/ClientWireElem.v) *)
From JV Require Import Proofs.ClientWireElem.
Theorem C05_push_element_classified : forall (me : bytes) (sid : subid) (raw : bytes),
  utf8_valid me = true -> wf_subid sid -> raw_payload raw ->
  classify_elem (ser_sub_notif me sid false raw) = ISubNotif me sid raw.
Proof. exact classify_elem_sub_notif. Qed.
Print Assumptions C05_push_element_classified.

Theorem C05_close_element_classified : forall (me : bytes) (sid : subid) (raw : bytes),
  utf8_valid me = true -> wf_subid sid -> raw_payload raw ->
  classify_elem (ser_sub_notif me sid true raw) = ISubErr me sid raw.
Proof. exact classify_elem_sub_close. Qed.
Print Assumptions C05_close_element_classified.

(* ---- the dispatch of handle_recv_message is READ FROM THE SOURCE (tools/translators/client_dispatch.py ->
   Gen/ClientDispatchGen.client_dispatch; Model/ClientDispatch.v is its alphabet) and interpreted by Model/ClientMgr.v:
     classify_frame_with d / handle_back_with d    the classifier / the frame handler under the dispatch d
                                                   (classify_frame, handle_back = these at client_dispatch)
     read_with d s raw                             handle_back_with d s (classify_frame_with d raw)
     reorder_readers rs d                          d with the readers of both tables tried in the order rs, arms unchanged
     array_run s ms acc rng got                    the loop of the array arm under client_dispatch: inl (state, batch, range,
                                                   got_notif) after the last element, or inr (the value the function
                                                   returned from inside the loop) ---- *)
From JV Require Import Model.ClientDispatch Gen.ClientDispatchGen.

(* the dependency on the ORDER of the readers is real: with Notification tried before SubscriptionResponse (everything
   else as in the source) a notification of an active subscription with room in its stream is NOT delivered to it *)
Theorem C05_dispatch_order_matters :
  let d_swapped := reorder_readers [TryResponse; TryNotification; TrySubResponse; TrySubError] client_dispatch in
  exists (s : st) (raw : bytes) (sid : subid) (ch : handle) (c : chan) (item : bytes),
    sub_chan s sid = Some ch /\ chan_of s ch = Some c /\ accepts c /\
    classify_frame raw = FSingle (ISubNotif b#"sub" sid item) /\
    (exists s1, read_with client_dispatch s raw = ROk s1 [] /\ chan_of s1 ch = Some (push_buf c item)) /\
    (exists s1, read_with client_dispatch s (x5b :: raw ++ [x5d]) = ROk s1 [] /\ chan_of s1 ch = Some (push_buf c item)) /\
    (exists s2, read_with d_swapped s raw = ROk s2 [] /\ chan_of s2 ch = Some c) /\
    (exists s2, read_with d_swapped s (x5b :: raw ++ [x5d]) = ROk s2 [] /\ chan_of s2 ch = Some c).
Proof. exact dispatch_order_matters. Qed.
Print Assumptions C05_dispatch_order_matters.

(* a close requested while element i of an array is handled (the item was refused: C05_refused_item_requests_unsubscribe)
   is PUSHED, not returned: the elements after it are handled all the same, from the state `sub_deliver` left, with the
   batch and the range collected so far *)
Theorem C05_array_close_is_pushed : forall s pre me sid p post acc rng got,
  array_run s (pre ++ ISubNotif me sid p :: post) acc rng got =
  match array_run s pre acc rng got with
  | inl (s1, acc1, rng1, got1) => array_run (sub_deliver s1 sid p) post acc1 rng1 true
  | inr r => inr r
  end.
Proof. exact array_close_is_pushed. Qed.
Print Assumptions C05_array_close_is_pushed.
