(* C06 -- subscription bookkeeping is exact and respects the per-connection cap.
   Property theorems only; each is closed by `exact <lemma>`; statements are pinned in tools/pinned/C06.statements.
   `reach caps base meth tr` = state and observations after ANY trace of the subscription LTS (Model/SubBook.v), whose
   DropSink is the repaired drop (fixes/C06.patch: the table entry goes with the LAST clone).
   `count_live s c` counts the subscriptions of connection c that exist: pending, being accepted, or active with at
   least one sink still held.  `active_here s c t`: t names an accepted, not unsubscribed subscription of connection c
   whose handler still holds a sink. *)
From Coq Require Import List NArith ZArith Bool.
From JV Require Import Model.SubBook Proofs.SubBookFacts.
Import ListNotations.

Theorem C06_unsubscribe_truth_table : forall caps base meth tr c cn req t, let s := fst (reach caps base meth tr) in nth_error (conns s) c = Some cn -> c_open cn = true -> stopped s = false -> exists r, snd (step s (UnsubscribeCall c req t)) = [OUnsubAnswer c req t r] /\ (r = true <-> active_here s c t) /\ (exists cn', nth_error (conns (fst (step s (UnsubscribeCall c req t)))) c = Some cn' /\ sent cn' = sent cn ++ [FUnsub req r]).
Proof. exact unsubscribe_truth_table. Qed.
Print Assumptions C06_unsubscribe_truth_table.

Theorem C06_cap : forall caps base meth tr c cn, let s := fst (reach caps base meth tr) in nth_error (conns s) c = Some cn -> count_live s c + c_permits cn = c_cap cn /\ count_live s c <= c_cap cn.
Proof. exact cap_respected. Qed.
Print Assumptions C06_cap.

Theorem C06_cap_excess_refused : forall caps base meth tr c cn req, let s := fst (reach caps base meth tr) in nth_error (conns s) c = Some cn -> c_open cn = true -> stopped s = false -> (count_live s c = c_cap cn -> snd (step s (SubscribeCall c req)) = [ORefused c req] /\ subs (fst (step s (SubscribeCall c req))) = subs s /\ exists cn', nth_error (conns (fst (step s (SubscribeCall c req)))) c = Some cn' /\ sent cn' = sent cn ++ [FErr req ETooMany]) /\ (count_live s c < c_cap cn -> snd (step s (SubscribeCall c req)) = [OHandler (length (subs s)) c req]).
Proof. exact subscribe_decision. Qed.
Print Assumptions C06_cap_excess_refused.

Theorem C06_slot_returns : forall caps base meth tr c cn reqs, let s := fst (reach caps base meth tr) in nth_error (conns s) c = Some cn -> (c_permits cn = c_cap cn - count_live s c) /\ (c_open cn = true -> stopped s = false -> length reqs = c_cap cn - count_live s c -> snd (run s (map (SubscribeCall c) reqs)) = handler_obs (length (subs s)) c reqs).
Proof. exact slot_returns. Qed.
Print Assumptions C06_slot_returns.

Theorem C06_stays_active : forall caps base meth tr h b cn, let s := fst (reach caps base meth tr) in let o := snd (reach caps base meth tr) in nth_error (subs s) h = Some b -> s_state b = SActive -> s_sinks b <> [] -> nth_error (conns s) (s_conn b) = Some cn -> c_open cn = true -> (forall req, ~ In (OUnsubAnswer (s_conn b) req (s_id b) true) o) -> In (s_conn b, s_id b) (table s) /\ forall k, In k (s_sinks b) -> step s (IsClosed h k) = (s, [OClosed h k false]).
Proof. exact stays_active. Qed.
Print Assumptions C06_stays_active.

(* history: the same statement is FALSE of the unrepaired `Drop for SubscriptionSink` (step_old / drop_sink_old) *)
Theorem C06_stays_active_refuted_old : let s := fst (run_old (init [2] 1000 0) old_witness) in let o := snd (run_old (init [2] 1000 0) old_witness) in exists h b cn, nth_error (subs s) h = Some b /\ s_state b = SActive /\ s_sinks b <> [] /\ nth_error (conns s) (s_conn b) = Some cn /\ c_open cn = true /\ (forall req, ~ In (OUnsubAnswer (s_conn b) req (s_id b) true) o) /\ ~ In (s_conn b, s_id b) (table s) /\ exists k, In k (s_sinks b) /\ step_old s (IsClosed h k) = (s, [OClosed h k true]).
Proof. exact stays_active_refuted_old. Qed.
Print Assumptions C06_stays_active_refuted_old.

(* ---- non-vacuity ---- *)
Definition ex_book : list act :=
  [SubscribeCall 0 1; SubscribeCall 0 2; Accept1 0; Accept2 0; CloneSink 0 0 1; DropSink 0 1].

Example C06_repaired_witness : let s := fst (reach [1; 1] 1000 0 ex_book) in snd (reach [1; 1] 1000 0 ex_book) = [OHandler 0 0 1; ORefused 0 2; OAck; OAccept 0 true; OAck; OAck] /\ table s = [(0, 1000%N)] /\ snd (step s (IsClosed 0 0)) = [OClosed 0 0 false] /\ snd (step s (UnsubscribeCall 0 3 1000)) = [OUnsubAnswer 0 3 1000 true] /\ snd (step s (UnsubscribeCall 1 3 1000)) = [OUnsubAnswer 1 3 1000 false] /\ count_live s 0 = 1.
Proof. vm_compute. repeat split. Qed.

Example C06_slot_reuse_nonvacuous : let s := fst (reach [1] 1000 0 (ex_book ++ [DropSink 0 0])) in count_live s 0 = 0 /\ table s = [] /\ snd (step s (SubscribeCall 0 4)) = [OHandler 1 0 4].
Proof. vm_compute. repeat split. Qed.
