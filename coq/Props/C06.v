(* C06 -- subscription bookkeeping is exact and respects the per-connection cap.
   Property theorems only; each is closed by `exact <lemma>`; statements are pinned in tools/pinned/C06.statements.
   `reach caps base meth tr` = state and observations after ANY trace of the subscription LTS (Model/SubBook.v), whose
   DropSink is the repaired drop (fixes/C06.patch: the table entry goes with the LAST clone).
   `count_live s c` counts the subscriptions of connection c that exist: pending, being accepted, or active with at
   least one sink still held.  `active_here s c t`: t names an accepted, not unsubscribed subscription of connection c
   whose handler still holds a sink. *)
From Coq Require Import List NArith ZArith Bool.
From JV Require Import Model.AcceptSteps Gen.AcceptOrderGen Model.TableOps Gen.TableOpsGen Model.SubBook Proofs.SubBookFacts Proofs.SubBookThreadFacts.
From JV Require Import Gen.SubLimiterGen Proofs.SubBookConnFacts.
Import ListNotations.

Theorem C06_unsubscribe_truth_table : forall caps base meth tr c cn req t, let s := fst (reach caps base meth tr) in nth_error (conns s) c = Some cn -> c_open cn = true -> stopped s = false -> exists r, snd (step s (UnsubscribeCall c req t)) = [OUnsubAnswer c req t r] /\ (r = true <-> active_here s c t) /\ (exists cn', nth_error (conns (fst (step s (UnsubscribeCall c req t)))) c = Some cn' /\ sent cn' = sent cn ++ [FUnsub req r]).
Proof. exact unsubscribe_truth_table. Qed.
Print Assumptions C06_unsubscribe_truth_table.

Theorem C06_cap : forall caps base meth tr c cn, let s := fst (reach caps base meth tr) in nth_error (conns s) c = Some cn -> count_live s c + c_permits cn = c_cap cn /\ count_live s c <= c_cap cn.
Proof. exact cap_respected. Qed.
Print Assumptions C06_cap.

Theorem C06_cap_excess_refused : forall caps base meth tr c cn req, let s := fst (reach caps base meth tr) in nth_error (conns s) c = Some cn -> c_open cn = true -> stopped s = false -> (count_live s c = c_cap cn -> snd (step s (SubscribeCall c req)) = [ORefused c req] /\ subs (fst (step s (SubscribeCall c req))) = subs s /\ exists cn', nth_error (conns (fst (step s (SubscribeCall c req)))) c = Some cn' /\ sent cn' = sent cn ++ [FErr req ETooMany]) /\ (count_live s c < c_cap cn -> snd (step s (SubscribeCall c req)) = [OHandler (length (subs s)) c req]).
Proof. exact subscribe_decision. Qed.
Print Assumptions C06_cap_excess_refused.

Theorem C06_slot_returns : forall caps base meth tr c cn reqs, let s := fst (reach caps base meth tr) in nth_error (conns s) c = Some cn -> (c_permits cn = c_cap cn - count_live s c) /\ (c_open cn = true -> stopped s = false -> length reqs = c_cap cn - count_live s c -> snd (run s (map (SubscribeCall c) reqs)) = handler_obs (length (subs s)) c reqs).
Proof. exact slot_returns. Qed.
Print Assumptions C06_slot_returns.

Theorem C06_stays_active : forall caps base meth tr h b cn, let s := fst (reach caps base meth tr) in let o := snd (reach caps base meth tr) in nth_error (subs s) h = Some b -> s_state b = SActive -> s_sinks b <> [] -> nth_error (conns s) (s_conn b) = Some cn -> c_open cn = true -> (forall req, ~ In (OUnsubAnswer (s_conn b) req (s_id b) true) o) -> In (s_conn b, s_id b) (table s) /\ forall k, In k (s_sinks b) -> step s (IsClosed h k) = (s, [OClosed h k false]).
Proof. exact stays_active. Qed.
Print Assumptions C06_stays_active.

(* history: the same statement is FALSE of the unrepaired `Drop for SubscriptionSink` (step_old / drop_sink_old) *)
Theorem C06_stays_active_refuted_old : let s := fst (run_old (init [2] 1000 0) old_witness) in let o := snd (run_old (init [2] 1000 0) old_witness) in exists h b cn, nth_error (subs s) h = Some b /\ s_state b = SActive /\ s_sinks b <> [] /\ nth_error (conns s) (s_conn b) = Some cn /\ c_open cn = true /\ (forall req, ~ In (OUnsubAnswer (s_conn b) req (s_id b) true) o) /\ ~ In (s_conn b, s_id b) (table s) /\ exists k, In k (s_sinks b) /\ step_old s (IsClosed h k) = (s, [OClosed h k true]).
Proof. exact stays_active_refuted_old. Qed.
Print Assumptions C06_stays_active_refuted_old.

(* ---- non-vacuity ---- *)
Definition ex_book : list act :=
  [SubscribeCall 0 1; SubscribeCall 0 2; Accept1 0; Accept2 0; CloneSink 0 0 1; DropSink 0 1].

Example C06_repaired_witness : let s := fst (reach [1; 1] 1000 0 ex_book) in snd (reach [1; 1] 1000 0 ex_book) = [OHandler 0 0 1; ORefused 0 2; OAck; OAccept 0 true; OAck; OAck] /\ table s = [(0, 1000%N)] /\ snd (step s (IsClosed 0 0)) = [OClosed 0 0 false] /\ snd (step s (UnsubscribeCall 0 3 1000)) = [OUnsubAnswer 0 3 1000 true] /\ snd (step s (UnsubscribeCall 1 3 1000)) = [OUnsubAnswer 1 3 1000 false] /\ count_live s 0 = 1.
Proof. vm_compute. repeat split. Qed.

Example C06_slot_reuse_nonvacuous : let s := fst (reach [1] 1000 0 (ex_book ++ [DropSink 0 0])) in count_live s 0 = 0 /\ table s = [] /\ snd (step s (SubscribeCall 0 4)) = [OHandler 1 0 4].
Proof. vm_compute. repeat split. Qed.

(* ---- accept() that FAILS: abandoned subscribe call (AbandonCall: the call future was dropped, e.g. by an rpc middleware,
   while the connection stays open; SAbandoned = the pending sink lives on in a task of its own) or closed connection.
   `step` interprets accept() over Gen/AcceptOrderGen.accept_steps, the order of its effectful steps read from
   core/src/server/subscription.rs on every check (tools/translators/accept_order.py); the theorems are about that
   constant -- with the table insert in front of a fallible send they are false and their proofs do not build. ---- *)
Theorem C06_failed_accept_leaves_no_entry : forall caps base meth tr h b, let s := fst (reach caps base meth tr) in nth_error (subs s) h = Some b -> (s_state b = SPending \/ s_state b = SAbandoned) -> (forall op call fs fc t, ar_ok (accept_run op call b AcceptOrderGen.accept_steps fs fc t) = false -> ar_table (accept_run op call b AcceptOrderGen.accept_steps fs fc t) = t) /\ (In (OAccept h false) (snd (step s (Accept1 h))) <-> (s_state b = SAbandoned \/ conn_open s (s_conn b) = false)) /\ (In (OAccept h false) (snd (step s (Accept1 h))) -> table (fst (step s (Accept1 h))) = table s /\ forall tr2 cn req, let s2 := fst (reach caps base meth (tr ++ Accept1 h :: tr2)) in ~ In (s_conn b, s_id b) (table s2) /\ (nth_error (conns s2) (s_conn b) = Some cn -> c_open cn = true -> stopped s2 = false -> snd (step s2 (UnsubscribeCall (s_conn b) req (s_id b))) = [OUnsubAnswer (s_conn b) req (s_id b) false])).
Proof. exact failed_accept_leaves_no_entry. Qed.
Print Assumptions C06_failed_accept_leaves_no_entry.

Theorem C06_failed_accept_returns_slot : forall caps base meth tr c cn req mid, let s0 := fst (reach caps base meth tr) in let h := length (subs s0) in nth_error (conns s0) c = Some cn -> c_open cn = true -> stopped s0 = false -> count_live s0 c < c_cap cn -> (mid = [AbandonCall h true] \/ mid = [ConnDrop c]) -> let s2 := fst (reach caps base meth (tr ++ SubscribeCall c req :: mid)) in count_live s2 c = count_live s0 c + 1 /\ In (OAccept h false) (snd (step s2 (Accept1 h))) /\ count_live (fst (step s2 (Accept1 h))) c = count_live s0 c.
Proof. exact failed_accept_returns_slot. Qed.
Print Assumptions C06_failed_accept_returns_slot.

Theorem C06_failed_accept_frees_one_slot : forall caps base meth tr h b cn, let s := fst (reach caps base meth tr) in nth_error (subs s) h = Some b -> (s_state b = SPending \/ s_state b = SAbandoned) -> nth_error (conns s) (s_conn b) = Some cn -> In (OAccept h false) (snd (step s (Accept1 h))) -> let s1 := fst (step s (Accept1 h)) in count_live s1 (s_conn b) + 1 = count_live s (s_conn b) /\ exists cn1, nth_error (conns s1) (s_conn b) = Some cn1 /\ c_permits cn1 = c_permits cn + 1 /\ c_cap cn1 = c_cap cn.
Proof. exact failed_accept_frees_slot. Qed.
Print Assumptions C06_failed_accept_frees_one_slot.

(* subscribe; the call is abandoned; accept fails (the response was already enqueued: error 44, then the success response
   of the same call); unsubscribe of that id -> false; with cap 1 the next subscribe is admitted and accepted *)
Definition ex_abandon : list act :=
  [SubscribeCall 0 1; AbandonCall 0 true; Accept1 0; UnsubscribeCall 0 2 1000; SubscribeCall 0 3; Accept1 1; Accept2 1].

Example C06_failed_accept_witness : let r := reach [1] 1000 0 ex_abandon in snd r = [OHandler 0 0 1; OAck; OAccept 0 false; OUnsubAnswer 0 2 1000 false; OHandler 1 0 3; OAck; OAccept 1 true] /\ table (fst r) = [(0, 1001%N)] /\ map sent (conns (fst r)) = [[FErr 1 EAbandoned; FSubOk 1 1000; FUnsub 2 false; FSubOk 3 1001]] /\ count_live (fst r) 0 = 1 /\ snd (step (fst (reach [1] 1000 0 [SubscribeCall 0 1; AbandonCall 0 true])) (SubscribeCall 0 9)) = [ORefused 0 9] /\ AcceptOrderGen.accept_steps = [AcceptSteps.ASendToSink; AcceptSteps.ANotifyCall; AcceptSteps.ATableInsert; AcceptSteps.ABuildSink].
Proof. vm_compute. repeat split. Qed.

(* ---- REAL threads on the shared subscriber table.  Every site that touches the per-method `Subscribers` table (accept's
   insert, the unsubscribe callback's remove, SubscriptionGuard::drop's remove) is read from
   core/src/server/{subscription,rpc_module}.rs on every check (tools/translators/table_ops.py ->
   Gen/TableOpsGen.table_ops_gen) as `TLockThen op` (blocking lock(), operation unconditional) or `TTryLockThen op`
   (operation skipped when another thread holds the mutex).  Thread-level traces are lists of `(act, contended)`:
   `reach_c` / `step_c` interpret the generated record, a contended event at a TTryLockThen site skips its table operation.
   C06_table_ops_unconditional: every generated site is TLockThen, HENCE the contended bits change nothing and the
   truth table holds for all thread-level traces.  With a try_lock at any site the first conjunct is false by
   computation and the proof does not build; C06_trylock_guard_refuted shows what the bit then lets through. ---- *)
Theorem C06_table_ops_unconditional : (TableOpsGen.table_ops_gen = table_ops_locked /\ Forall (fun a => exists op, a = TLockThen op) (sites_of TableOpsGen.table_ops_gen)) /\ (forall caps base meth (tr : list cact), reach_c caps base meth tr = reach caps base meth (map fst tr)) /\ (forall caps base meth (tr : list cact) contended c cn req t, let s := fst (reach_c caps base meth tr) in nth_error (conns s) c = Some cn -> c_open cn = true -> stopped s = false -> exists r, snd (step_c s (UnsubscribeCall c req t, contended)) = [OUnsubAnswer c req t r] /\ (r = true <-> active_here s c t) /\ (exists cn', nth_error (conns (fst (step_c s (UnsubscribeCall c req t, contended)))) c = Some cn' /\ sent cn' = sent cn ++ [FUnsub req r])).
Proof. exact table_ops_unconditional. Qed.
Print Assumptions C06_table_ops_unconditional.

Theorem C06_cap_under_contention : forall caps base meth (tr : list cact) c cn, let s := fst (reach_c caps base meth tr) in nth_error (conns s) c = Some cn -> count_live s c + c_permits cn = c_cap cn /\ count_live s c <= c_cap cn.
Proof. exact cap_respected_contended. Qed.
Print Assumptions C06_cap_under_contention.

(* the hypothetical "never block in Drop" guard: one contended drop of the last sink, and unsubscribe answers true for a
   subscription that is not active (its slot is back, its entry is not); the same trace under blocking locks answers false *)
Theorem C06_trylock_guard_refuted : let s := fst (run_x table_ops_trylock_guard (init [1] 1000 0) trylock_witness) in (exists cn, nth_error (conns s) 0 = Some cn /\ c_open cn = true /\ c_permits cn = c_cap cn) /\ stopped s = false /\ snd (step_x table_ops_trylock_guard false s (UnsubscribeCall 0 2 1000)) = [OUnsubAnswer 0 2 1000 true] /\ ~ active_here s 0 1000 /\ count_live s 0 = 0 /\ table s = [(0, 1000%N)] /\ fst (run_x table_ops_locked (init [1] 1000 0) trylock_witness) = fst (run (init [1] 1000 0) (map fst trylock_witness)) /\ snd (step_x table_ops_locked false (fst (run_x table_ops_locked (init [1] 1000 0) trylock_witness)) (UnsubscribeCall 0 2 1000)) = [OUnsubAnswer 0 2 1000 false].
Proof. exact trylock_guard_refuted. Qed.
Print Assumptions C06_trylock_guard_refuted.

(* non-vacuity of the thread-level alphabet on the generated record: a contended drop of the last sink removes the entry *)
Example C06_contended_drop_witness : let r := reach_c [1] 1000 0 trylock_witness in table (fst r) = [] /\ snd (step_c (fst r) (UnsubscribeCall 0 2 1000, true)) = [OUnsubAnswer 0 2 1000 false] /\ snd (step_c (fst r) (SubscribeCall 0 3, true)) = [OHandler 1 0 3].
Proof. vm_compute. repeat split. Qed.

(* ---- the cap is per CONNECTION, whatever entry point assembled the server (`Server::start` or the tower service of
   `ServerBuilder::to_service_builder()`; engine subhist runs every two-connection family under both, script token E).
   `admitted o`: the subscribe call reached the handler.  `foreign_block c s mid`: every event of mid, in the state in which
   it runs, is a call / writer step / drop of ANOTHER connection or a handler-side event of a subscription of another
   connection (never the global ServerStop).
   First conjunct: ANY two histories -- any caps and any events on the other connections, inserted or removed anywhere --
   that leave connection c open, not stopped, with the same cap and the same OWN live count decide a subscribe on c alike:
   admitted iff the own count is below the cap, otherwise the -32006 refusal.  Second conjunct: a block of events of other
   connections in front of the subscribe (put in, or taken out) moves neither c's record, nor its live count, nor the decision.
   (Handles are global, so a block inserted in the middle renumbers what follows it: that case is the first conjunct.) ---- *)
Theorem C06_cap_is_per_connection : (forall caps1 base1 meth1 tr1 caps2 base2 meth2 tr2 c cn1 cn2 req, let s1 := fst (reach caps1 base1 meth1 tr1) in let s2 := fst (reach caps2 base2 meth2 tr2) in nth_error (conns s1) c = Some cn1 -> nth_error (conns s2) c = Some cn2 -> c_open cn1 = true -> c_open cn2 = true -> stopped s1 = false -> stopped s2 = false -> c_cap cn1 = c_cap cn2 -> count_live s1 c = count_live s2 c -> admitted (snd (step s1 (SubscribeCall c req))) = admitted (snd (step s2 (SubscribeCall c req))) /\ (admitted (snd (step s1 (SubscribeCall c req))) = true <-> count_live s1 c < c_cap cn1) /\ (admitted (snd (step s1 (SubscribeCall c req))) = false <-> snd (step s1 (SubscribeCall c req)) = [ORefused c req])) /\ (forall caps base meth tr mid c req, let s := fst (reach caps base meth tr) in let s' := fst (reach caps base meth (tr ++ mid)) in stopped s = false -> foreign_block c s mid -> nth_error (conns s') c = nth_error (conns s) c /\ stopped s' = false /\ count_live s' c = count_live s c /\ admitted (snd (step s' (SubscribeCall c req))) = admitted (snd (step s (SubscribeCall c req)))).
Proof. exact cap_is_per_connection. Qed.
Print Assumptions C06_cap_is_per_connection.

(* WHERE the code creates the limiter, read from server/src on every check (tools/translators/sub_limiter.py): every
   `BoundedSubscriptions::new(` of the server crate sits in code that runs once per WebSocket connection
   (TowerServiceNoHttp::call's upgrade branch, ws::connect) and every RpcServiceCfg::CallsAndSubscriptions creates its
   limiter on the spot; a limiter created in a builder / shared struct, or handed in as a clone, is a translation error *)
Theorem C06_limiter_created_per_connection : sub_limiter_scope = PerConnection /\ Forall (fun site => snd site = PerConnection) sub_limiter_sites.
Proof. exact limiter_created_per_connection. Qed.
Print Assumptions C06_limiter_created_per_connection.

(* non-vacuity, caps [1; 1]: A (connection 0) is full; B's whole life cycle is a foreign block for A and A is still refused;
   B, holding nothing, is admitted although A is full; after A's own subscription ended A is admitted again *)
Definition ex_two_conns_mid : list act := [SubscribeCall 1 2; Accept1 1; Accept2 1; WriterStep 1; UnsubscribeCall 1 3 1001; DropSink 1 0; SubscribeCall 1 4; SubscribeCall 1 5].

Example C06_per_connection_witness : let s := fst (reach [1; 1] 1000 0 [SubscribeCall 0 1]) in let s' := fst (reach [1; 1] 1000 0 ([SubscribeCall 0 1] ++ ex_two_conns_mid)) in foreign_block 0 s ex_two_conns_mid /\ snd (reach [1; 1] 1000 0 ([SubscribeCall 0 1] ++ ex_two_conns_mid)) = [OHandler 0 0 1; OHandler 1 1 2; OAck; OAccept 1 true; OFrameOut 1 (FSubOk 2 1001); OUnsubAnswer 1 3 1001 true; OAck; OHandler 2 1 4; ORefused 1 5] /\ admitted (snd (step s (SubscribeCall 0 9))) = false /\ admitted (snd (step s' (SubscribeCall 0 9))) = false /\ count_live s' 0 = 1 /\ count_live s' 1 = 1 /\ admitted (snd (step s (SubscribeCall 1 9))) = true /\ admitted (snd (step (fst (step s' (Reject 0 7))) (SubscribeCall 0 9))) = true.
Proof. vm_compute. repeat split; intro H; discriminate H. Qed.
