(* C07 -- property theorems only.  Each is closed by `exact <lemma>`; statements are pinned in tools/pinned/C07.statements.
   `ws_limit_of`, `http_limit_of`, `http_reported_of`, `ws_reported_limit`, `builder_*` are GENERATED from the Rust sources
   (Gen/LimitsWiringGen.v): if an entry point hands any other value than max_request_body_size to soketto or to
   read_body, C07_wiring (and everything below it) stops compiling. *)
From Coq Require Import Sorting.Permutation.
From JV Require Import Base.Bytes Gen.LimitsWiringGen Model.ReqLimit Proofs.ReqLimitFacts.
Local Open Scope N_scope.

Theorem C07_wiring : forall (e : ep) (c : cfg) (l : N), (ws_limit_of e c = Some l -> l = max_request c) /\ (http_limit_of e c = Some l -> l = max_request c) /\ (http_reported_of e c = Some l -> l = max_request c) /\ ws_reported_limit c = max_request c /\ (ws_limit_of e c <> None \/ http_limit_of e c <> None).
Proof. exact wiring. Qed.
Print Assumptions C07_wiring.

Theorem C07_config_builder : forall (b : bstate) (rq rs : N), builder_build (builder_set_response (builder_set_request b rq) rs) = {| max_request := rq; max_response := rs |} /\ builder_build (builder_set_request (builder_set_response b rs) rq) = {| max_request := rq; max_response := rs |}.
Proof. exact config_builder. Qed.
Print Assumptions C07_config_builder.

Theorem C07_decision : forall (e : ep) (c : cfg), (forall n b, ws_processed e c n = Some b -> (b = true <-> n <= max_request c)) /\ (forall cl frames b, max_request c <= u32_max -> cl_honest cl frames -> http_processed e c cl frames = Some b -> (b = true <-> sum_frames frames <= max_request c)).
Proof. exact decision. Qed.
Print Assumptions C07_decision.

Theorem C07_decision_any_content_length : forall (e : ep) (c : cfg) (cl : option N) (frames : list N) (b : bool), http_processed e c cl frames = Some b -> (b = true <-> cl_value cl <= max_request c /\ sum_frames frames <= max_request c).
Proof. exact decision_http_any_cl. Qed.
Print Assumptions C07_decision_any_content_length.

Theorem C07_http_reject_status : forall (e : ep) (c : cfg) (cl : option N) (frames : list N) (r : http_res), http_result e c cl frames = Some r -> r <> HProcessed -> (r = HTooLarge413 (max_request c) /\ http_status r = 413) \/ (r = HStream500 /\ http_status r = 500).
Proof. exact http_reject_status. Qed.
Print Assumptions C07_http_reject_status.

Theorem C07_independent : forall (e : ep) (c1 c2 : cfg), max_request c1 = max_request c2 -> (forall n, ws_processed e c1 n = ws_processed e c2 n) /\ (forall msgs, ws_session e c1 msgs = ws_session e c2 msgs) /\ (forall cl frames, http_result e c1 cl frames = http_result e c2 cl frames).
Proof. exact independent. Qed.
Print Assumptions C07_independent.

Theorem C07_ws_continues : forall (e : ep) (c : cfg) (msgs : list N) (evs : list ws_ev), ws_session e c msgs = Some evs -> evs = map (ws_expected c) msgs.
Proof. exact ws_continues. Qed.
Print Assumptions C07_ws_continues.

Theorem C07_ws_continues_after_reject : forall (e : ep) (c : cfg) (pre : list N) (n : N) (post : list N) (evs : list ws_ev), max_request c < n -> ws_session e c (pre ++ n :: post) = Some evs -> evs = map (ws_expected c) pre ++ EvTooBig (max_request c) :: map (ws_expected c) post.
Proof. exact ws_continues_after_reject. Qed.
Print Assumptions C07_ws_continues_after_reject.

(* non-vacuity: unequal limits, all five entry points, a message between the two limits *)
Example C07_witness_ws : let c := {| max_request := 100; max_response := 40 |} in ws_session EpWsConnect c [100; 101; 41; 400; 7] = Some [EvDispatched 100; EvTooBig 100; EvDispatched 41; EvTooBig 100; EvDispatched 7] /\ ws_session EpServer c [101; 100] = Some [EvTooBig 100; EvDispatched 100] /\ ws_session EpTower {| max_request := 40; max_response := 100 |} [41; 100; 40] = Some [EvTooBig 40; EvTooBig 40; EvDispatched 40].
Proof. vm_compute. repeat split. Qed.

Example C07_witness_http : let c := {| max_request := 100; max_response := 40 |} in http_result EpHttpCallBuilder c (Some 100) [60; 40] = Some HProcessed /\ http_result EpHttpCall c (Some 101) [60; 41] = Some (HTooLarge413 100) /\ http_result EpTower c None [60; 41] = Some HStream500 /\ http_result EpServer c None [30; 30; 40] = Some HProcessed /\ http_result EpServer c (Some 5) [60; 41] = Some HStream500 /\ http_result EpWsConnect c None [1] = None.
Proof. vm_compute. repeat split. Qed.

(* ---- the rejection under back-pressure.  `conn_step l r cap` is the connection with its bounded outgoing channel of
   capacity `cap` (ServerBuilder::set_message_buffer_capacity): receive loop, one spawned task per accepted message, the
   loop itself parked in `send_error(..).await` while the channel is full, send_task writing to a peer that may not be
   reading.  `cap` and the interleaving are universally quantified and do not occur in the result: back-pressure delays
   but never drops, duplicates or alters a reply. *)

Theorem C07_pipeline_each_answered : forall (e : ep) (c : cfg) (l cap : N) (msgs : list pmsg) (k : conn), ws_limit_of e c = Some l -> 1 <= cap -> conn_steps l (ws_reported_limit c) cap (conn_init msgs) k -> conn_stuck l (ws_reported_limit c) cap k -> Permutation (k_wire k) (ws_pipeline_replies c msgs).
Proof. exact pipeline_each_answered. Qed.
Print Assumptions C07_pipeline_each_answered.

Theorem C07_pipeline_counts : forall (e : ep) (c : cfg) (l cap : N) (msgs : list pmsg) (k : conn), ws_limit_of e c = Some l -> 1 <= cap -> conn_steps l (ws_reported_limit c) cap (conn_init msgs) k -> conn_stuck l (ws_reported_limit c) cap k -> count_occ preply_eq_dec (k_wire k) (PRejected (max_request c)) = length (filter (fun m => max_request c <? pm_size m) msgs) /\ (forall id, count_occ preply_eq_dec (k_wire k) (PAnswered id) = length (filter (fun m => (pm_size m <=? max_request c) && (pm_id m =? id)) msgs)) /\ (forall r, r <> max_request c -> count_occ preply_eq_dec (k_wire k) (PRejected r) = 0%nat).
Proof. exact pipeline_counts. Qed.
Print Assumptions C07_pipeline_counts.

Theorem C07_pipeline_delays_only : forall (e : ep) (c : cfg) (l cap : N) (msgs : list pmsg) (k : conn), ws_limit_of e c = Some l -> 1 <= cap -> conn_steps l (ws_reported_limit c) cap (conn_init msgs) k -> (exists rest, Permutation (k_wire k ++ rest) (ws_pipeline_replies c msgs)) /\ ((exists k', conn_step l (ws_reported_limit c) cap k k') \/ Permutation (k_wire k) (ws_pipeline_replies c msgs)).
Proof. exact pipeline_delays_only. Qed.
Print Assumptions C07_pipeline_delays_only.

Theorem C07_pipeline_session : forall (e : ep) (c : cfg) (cap : N) (msgs : list pmsg) (wire : list preply) (parked : bool), ws_pipeline_session e c cap msgs = Some (wire, true, parked) -> Permutation wire (ws_pipeline_replies c msgs).
Proof. exact pipeline_session_spec. Qed.
Print Assumptions C07_pipeline_session.

(* non-vacuity: with capacity 1 and a peer that does not read, the receive loop IS parked behind the full channel when the
   oversized message (id 4, 101 bytes > 100) arrives -- third component `true` -- and the rejection is delivered all the
   same; with the oversized message first it is not parked (control) *)
Example C07_witness_pipeline : let c := {| max_request := 100; max_response := 40 |} in let m i n := {| pm_id := i; pm_size := n |} in ws_pipeline_session EpServer c 1 [m 1 80; m 2 80; m 3 80; m 4 101; m 5 60] = Some ([PAnswered 1; PAnswered 2; PAnswered 3; PRejected 100; PAnswered 5], true, true) /\ ws_pipeline_session EpWsConnect c 1 [m 4 101; m 1 80; m 2 80] = Some ([PRejected 100; PAnswered 1; PAnswered 2], true, false) /\ ws_pipeline_session EpTower c 2 [m 1 80; m 4 400; m 6 101; m 2 100] = Some ([PAnswered 1; PRejected 100; PRejected 100; PAnswered 2], true, true) /\ ws_pipeline_session EpHttpCall c 1 [m 1 80] = None.
Proof. vm_compute. repeat split. Qed.

(* ---- fragmented messages (RFC 6455 continuation frames).  `ws_read l r fresh frames` is the frame-level reader: soketto's
   accumulation in `receive` + the receive loop of background_task; `fresh` = is the Vec handed to receive() a new one per
   call.  The theorems are stated for the GENERATED `ws_recv_buffer_fresh` (read from the unfold closure in
   server/src/transport/ws.rs) and proved by rewriting it to `true`: a buffer that lives across receive() calls stops
   the build here.  `msg_frames fr` = the frames of one message cut into the fragments fr.  C07's rejection / keeps-serving
   clauses are claimed for single-frame messages; for fragmented ones the safety half is claimed for EVERY frame stream
   (C07_frag_no_carry_over), the full outcome for a client that stays in step with soketto's discard (`in_step`: after
   the message it supplies `filler` unframed bytes so that exactly the accumulated length soketto discards in excess of
   the offending frame lies before the next frame header). *)

Theorem C07_frag_total_decides : forall (e : ep) (c : cfg) (l : N) (fr : list bytes) (filler : N) (rest : list wframe), ws_limit_of e c = Some l -> fr <> [] -> in_step (max_request c) fr filler = true -> let rd := ws_read l (ws_reported_limit c) ws_recv_buffer_fresh in rd (msg_frames fr ++ WRaw filler :: rest) = rd (msg_frames [concat fr] ++ rest) /\ rd (msg_frames [concat fr] ++ rest) = (if blen (concat fr) <=? max_request c then FDispatched (concat fr) else FTooBig (max_request c)) :: rd rest.
Proof. exact frag_total_decides. Qed.
Print Assumptions C07_frag_total_decides.

(* every frame stream, in step or not: a dispatched text is never longer than the limit, and it is exactly the text of ONE
   complete message `block` of the stream (Text .. FIN, only Pings between its fragments) which the reader began in the
   state of a new connection (`ws_init`: empty buffer, no fragment pending) -- nothing of what came before it, in
   particular no byte of a rejected message, is part of it *)
Theorem C07_frag_no_carry_over : forall (e : ep) (c : cfg) (l : N) (fs : list wframe) (t : bytes), ws_limit_of e c = Some l -> In (FDispatched t) (ws_read l (ws_reported_limit c) ws_recv_buffer_fresh fs) -> blen t <= max_request c /\ exists (pre block post : list wframe) (evs : list fev), fs = pre ++ block ++ post /\ ws_run l (ws_reported_limit c) ws_recv_buffer_fresh ws_init pre = (evs, Some ws_init) /\ block_text block = Some t.
Proof. exact frag_no_carry_over. Qed.
Print Assumptions C07_frag_no_carry_over.

(* the frame on which a rejection goes out (connection not lost) leaves the reader in the state of a new connection: what
   follows is read as if it came alone *)
Theorem C07_frag_reject_resets : forall (e : ep) (c : cfg) (l : N) (fs0 : list wframe) (f : wframe) (rest : list wframe) (evs0 evs1 : list fev) (st0 st : rstate) (x : N), ws_limit_of e c = Some l -> ws_run l (ws_reported_limit c) ws_recv_buffer_fresh ws_init fs0 = (evs0, Some st0) -> ws_step l (ws_reported_limit c) ws_recv_buffer_fresh st0 f = (evs1, Some st) -> In (FTooBig x) evs1 -> ws_read l (ws_reported_limit c) ws_recv_buffer_fresh (fs0 ++ f :: rest) = evs0 ++ FTooBig (max_request c) :: ws_read l (ws_reported_limit c) ws_recv_buffer_fresh rest.
Proof. exact frag_reject_resets. Qed.
Print Assumptions C07_frag_reject_resets.

(* the in-step hypothesis is satisfiable (112 + 64 bytes under a limit of 128 need 112 filler bytes; 100 + 64 + 10 need
   100 - (6 + 10) = 84; an in-limit message needs none) and not trivially so (no filler keeps 176 + 64 in step: the
   continuation frame follows the rejection) *)
Example C07_witness_in_step : let a := repeat x61 112 in let b := repeat x61 64 in in_step 128 [a; b] 112 = true /\ in_step 128 [a; b] 0 = false /\ in_step 128 [repeat x61 100; b; repeat x61 10] 84 = true /\ in_step 128 [b; b] 0 = true /\ in_step 128 [b; b] 1 = false /\ in_step 128 [b ++ a; b] 0 = false /\ in_step 128 [b ++ a] 0 = true.
Proof. vm_compute. repeat split. Qed.

(* limit 128: fragments 112 + 64 are rejected (the 112 bytes soketto over-discards supplied as filler); the next message of
   44 bytes is judged alone.  With a buffer carried across receive() calls (fresh = false) the same frames hand 112 + 44 =
   156 bytes -- the first fragment of the rejected message and the next message -- to the dispatcher. *)
Example C07_witness_frag : let c := {| max_request := 128; max_response := 65536 |} in let a := repeat x61 112 in let b := repeat x61 64 in let t := repeat x63 44 in let fs := msg_frames [a; b] ++ WRaw 112 :: msg_frames [t] in ws_frag_session EpServer c fs = Some [FTooBig 128; FDispatched t] /\ ws_frag_session EpWsConnect c fs = Some [FTooBig 128; FDispatched t] /\ ws_read 128 128 false fs = [FTooBig 128; FDispatched (a ++ t)] /\ ws_frag_session EpTower c (msg_frames [repeat x61 100; repeat x61 28] ++ msg_frames [[]; t; []] ++ [WData true false t; WPing [x61]; WData false true t]) = Some [FDispatched (repeat x61 128); FDispatched t; FPong [x61]; FDispatched (t ++ t)].
Proof. vm_compute. repeat split. Qed.

(* what the faithful model says about a client that does NOT stay in step (observed on the code too: the engine's naive
   scripts are diffed against the model): the rejection is withheld while soketto waits for bytes to discard, the
   client's next messages are swallowed and the frame stream is left inside a frame; a continuation frame after the
   rejection, or an unsolicited Pong between two fragments of an in-limit message, ends the connection with a protocol
   error.  Nothing is dispatched in any of them. *)
Theorem C07_frag_out_of_step_observed : exists (a b call : bytes), let rd := ws_read 128 128 true in blen (a ++ b) = 176 /\ blen call = 55 /\ rd (msg_frames [a; b]) = [FStalled] /\ rd (msg_frames [a; b] ++ msg_frames [call]) = [FStalled] /\ rd (msg_frames [a; b] ++ msg_frames [call] ++ msg_frames [call]) = [FTooBig 128; FDesync] /\ rd (msg_frames [b ++ a; b] ++ msg_frames [call]) = [FTooBig 128; FProtoErr] /\ rd (msg_frames [b ++ a; b ++ a] ++ msg_frames [call]) = [FTooBig 128; FTooBig 128; FDispatched call] /\ rd ([WData true false call; WPong []; WData false true call] ++ msg_frames [call]) = [FProtoErr].
Proof. exists (repeat x61 112), (repeat x61 64), (repeat x7b 55). vm_compute. repeat split. Qed.
Print Assumptions C07_frag_out_of_step_observed.
