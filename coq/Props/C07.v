(* C07 -- property theorems only.  Each is closed by `exact <lemma>`; statements are pinned in tools/pinned/C07.statements.
   `ws_limit_of`, `http_limit_of`, `http_reported_of`, `ws_reported_limit`, `builder_*` are GENERATED from the Rust sources
   (Gen/LimitsWiringGen.v): if an entry point hands any other value than max_request_body_size to soketto or to
   read_body, C07_wiring (and everything below it) stops compiling. *)
From Coq Require Import Sorting.Permutation.
From JV Require Import Base.Bytes Gen.LimitsWiringGen Model.ReqLimit Proofs.ReqLimitFacts.
Local Open Scope N_scope.

Theorem C07_wiring : forall (e : ep) (c : cfg) (l : N), (ws_limit_of e c = Some l -> l = max_request c) /\ (http_limit_of e c = Some l -> l = max_request c) /\ (http_reported_of e c = Some l -> l = max_request c) /\ ws_reported_limit c = max_request c /\ (ws_limit_of e c <> None \/ http_limit_of e c <> None).
Proof. exact wiring. Qed.
Print Assumptions C07_wiring.

Theorem C07_config_builder : forall (b : bstate) (rq rs : N), builder_build (builder_set_response (builder_set_request b rq) rs) = {| max_request := rq; max_response := rs |} /\ builder_build (builder_set_request (builder_set_response b rs) rq) = {| max_request := rq; max_response := rs |}.
Proof. exact config_builder. Qed.
Print Assumptions C07_config_builder.

Theorem C07_decision : forall (e : ep) (c : cfg), (forall n b, ws_processed e c n = Some b -> (b = true <-> n <= max_request c)) /\ (forall cl frames b, max_request c <= u32_max -> cl_honest cl frames -> http_processed e c cl frames = Some b -> (b = true <-> sum_frames frames <= max_request c)).
Proof. exact decision. Qed.
Print Assumptions C07_decision.

Theorem C07_decision_any_content_length : forall (e : ep) (c : cfg) (cl : option N) (frames : list N) (b : bool), http_processed e c cl frames = Some b -> (b = true <-> cl_value cl <= max_request c /\ sum_frames frames <= max_request c).
Proof. exact decision_http_any_cl. Qed.
Print Assumptions C07_decision_any_content_length.

Theorem C07_http_reject_status : forall (e : ep) (c : cfg) (cl : option N) (frames : list N) (r : http_res), http_result e c cl frames = Some r -> r <> HProcessed -> (r = HTooLarge413 (max_request c) /\ http_status r = 413) \/ (r = HStream500 /\ http_status r = 500).
Proof. exact http_reject_status. Qed.
Print Assumptions C07_http_reject_status.

Theorem C07_independent : forall (e : ep) (c1 c2 : cfg), max_request c1 = max_request c2 -> (forall n, ws_processed e c1 n = ws_processed e c2 n) /\ (forall msgs, ws_session e c1 msgs = ws_session e c2 msgs) /\ (forall cl frames, http_result e c1 cl frames = http_result e c2 cl frames).
Proof. exact independent. Qed.
Print Assumptions C07_independent.

Theorem C07_ws_continues : forall (e : ep) (c : cfg) (msgs : list N) (evs : list ws_ev), ws_session e c msgs = Some evs -> evs = map (ws_expected c) msgs.
Proof. exact ws_continues. Qed.
Print Assumptions C07_ws_continues.

Theorem C07_ws_continues_after_reject : forall (e : ep) (c : cfg) (pre : list N) (n : N) (post : list N) (evs : list ws_ev), max_request c < n -> ws_session e c (pre ++ n :: post) = Some evs -> evs = map (ws_expected c) pre ++ EvTooBig (max_request c) :: map (ws_expected c) post.
Proof. exact ws_continues_after_reject. Qed.
Print Assumptions C07_ws_continues_after_reject.

(* non-vacuity: unequal limits, all five entry points, a message between the two limits *)
Example C07_witness_ws : let c := {| max_request := 100; max_response := 40 |} in ws_session EpWsConnect c [100; 101; 41; 400; 7] = Some [EvDispatched 100; EvTooBig 100; EvDispatched 41; EvTooBig 100; EvDispatched 7] /\ ws_session EpServer c [101; 100] = Some [EvTooBig 100; EvDispatched 100] /\ ws_session EpTower {| max_request := 40; max_response := 100 |} [41; 100; 40] = Some [EvTooBig 40; EvTooBig 40; EvDispatched 40].
Proof. vm_compute. repeat split. Qed.

Example C07_witness_http : let c := {| max_request := 100; max_response := 40 |} in http_result EpHttpCallBuilder c (Some 100) [60; 40] = Some HProcessed /\ http_result EpHttpCall c (Some 101) [60; 41] = Some (HTooLarge413 100) /\ http_result EpTower c None [60; 41] = Some HStream500 /\ http_result EpServer c None [30; 30; 40] = Some HProcessed /\ http_result EpServer c (Some 5) [60; 41] = Some HStream500 /\ http_result EpWsConnect c None [1] = None.
Proof. vm_compute. repeat split. Qed.

(* ---- the rejection under back-pressure.  `conn_step l r cap` is the connection with its bounded outgoing channel of
   capacity `cap` (ServerBuilder::set_message_buffer_capacity): receive loop, one spawned task per accepted message, the
   loop itself parked in `send_error(..).await` while the channel is full, send_task writing to a peer that may not be
   reading.  `cap` and the interleaving are universally quantified and do not occur in the result: back-pressure delays
   but never drops, duplicates or alters a reply. *)

Theorem C07_pipeline_each_answered : forall (e : ep) (c : cfg) (l cap : N) (msgs : list pmsg) (k : conn), ws_limit_of e c = Some l -> 1 <= cap -> conn_steps l (ws_reported_limit c) cap (conn_init msgs) k -> conn_stuck l (ws_reported_limit c) cap k -> Permutation (k_wire k) (ws_pipeline_replies c msgs).
Proof. exact pipeline_each_answered. Qed.
Print Assumptions C07_pipeline_each_answered.

Theorem C07_pipeline_counts : forall (e : ep) (c : cfg) (l cap : N) (msgs : list pmsg) (k : conn), ws_limit_of e c = Some l -> 1 <= cap -> conn_steps l (ws_reported_limit c) cap (conn_init msgs) k -> conn_stuck l (ws_reported_limit c) cap k -> count_occ preply_eq_dec (k_wire k) (PRejected (max_request c)) = length (filter (fun m => max_request c <? pm_size m) msgs) /\ (forall id, count_occ preply_eq_dec (k_wire k) (PAnswered id) = length (filter (fun m => (pm_size m <=? max_request c) && (pm_id m =? id)) msgs)) /\ (forall r, r <> max_request c -> count_occ preply_eq_dec (k_wire k) (PRejected r) = 0%nat).
Proof. exact pipeline_counts. Qed.
Print Assumptions C07_pipeline_counts.

Theorem C07_pipeline_delays_only : forall (e : ep) (c : cfg) (l cap : N) (msgs : list pmsg) (k : conn), ws_limit_of e c = Some l -> 1 <= cap -> conn_steps l (ws_reported_limit c) cap (conn_init msgs) k -> (exists rest, Permutation (k_wire k ++ rest) (ws_pipeline_replies c msgs)) /\ ((exists k', conn_step l (ws_reported_limit c) cap k k') \/ Permutation (k_wire k) (ws_pipeline_replies c msgs)).
Proof. exact pipeline_delays_only. Qed.
Print Assumptions C07_pipeline_delays_only.

Theorem C07_pipeline_session : forall (e : ep) (c : cfg) (cap : N) (msgs : list pmsg) (wire : list preply) (parked : bool), ws_pipeline_session e c cap msgs = Some (wire, true, parked) -> Permutation wire (ws_pipeline_replies c msgs).
Proof. exact pipeline_session_spec. Qed.
Print Assumptions C07_pipeline_session.

(* non-vacuity: with capacity 1 and a peer that does not read, the receive loop IS parked behind the full channel when the
   oversized message (id 4, 101 bytes > 100) arrives -- third component `true` -- and the rejection is delivered all the
   same; with the oversized message first it is not parked (control) *)
Example C07_witness_pipeline : let c := {| max_request := 100; max_response := 40 |} in let m i n := {| pm_id := i; pm_size := n |} in ws_pipeline_session EpServer c 1 [m 1 80; m 2 80; m 3 80; m 4 101; m 5 60] = Some ([PAnswered 1; PAnswered 2; PAnswered 3; PRejected 100; PAnswered 5], true, true) /\ ws_pipeline_session EpWsConnect c 1 [m 4 101; m 1 80; m 2 80] = Some ([PRejected 100; PAnswered 1; PAnswered 2], true, false) /\ ws_pipeline_session EpTower c 2 [m 1 80; m 4 400; m 6 101; m 2 100] = Some ([PAnswered 1; PRejected 100; PRejected 100; PAnswered 2], true, true) /\ ws_pipeline_session EpHttpCall c 1 [m 1 80] = None.
Proof. vm_compute. repeat split. Qed.
