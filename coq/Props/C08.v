(* C08 -- property theorems only.  Each is closed by `exact <lemma>`; statements are pinned in tools/pinned/C08.statements.
   `callback_limit`, `ws_svc_limit_of`, `http_svc_limit_of`, `sink_limit_of`, `batch_limit` and the request-side
   wiring are GENERATED from the Rust sources (Gen/LimitsWiringGen.v).
   Known finding `subscribe-response-unbounded`: the response to a subscribe call is built with the connection sink's
   limit (u32::MAX), so C08_single_exact is stated for every callback kind except CbSubscription and
   C08_sub_refuted exhibits the failing call. *)
From JV Require Import Base.Bytes Base.Dec Base.Utf8 Json.JsonSer Model.Wire Model.ErrShape Gen.LimitsWiringGen
  Gen.ErrorConstsGen Model.RespSize Model.ReqLimit Proofs.ReqLimitFacts Proofs.RespSizeFacts.
Local Open Scope N_scope.

Theorem C08_write_ok_iff : forall (chunks : list bytes) (max : N), (bounded_write chunks max = Some (concat chunks) <-> blen (concat chunks) <= max) /\ (bounded_write chunks max = None <-> max < blen (concat chunks)) /\ (forall b, bounded_write chunks max = Some b -> b = concat chunks).
Proof. exact write_ok_iff. Qed.
Print Assumptions C08_write_ok_iff.

Theorem C08_single_exact : forall (e : ep) (c : cfg) (i : id) (p : rpayload), (forall k r, k <> CbSubscription -> ws_call_reply e c k i p = Some r -> r = exact_reply i p (max_response c)) /\ (forall r, http_call_reply e c i p = Some r -> r = exact_reply i p (max_response c)) /\ (forall chunks max, concat chunks = full_ser i p -> method_response_chunked chunks i p max = exact_reply i p max).
Proof. exact single_exact. Qed.
Print Assumptions C08_single_exact.

Theorem C08_exact_reply_fits : forall (i : id) (p : rpayload) (max : N), blen (full_ser i p) <= max -> exact_reply i p max = (fitting_reply i p, flag_of p).
Proof. exact exact_reply_fits. Qed.
Print Assumptions C08_exact_reply_fits.

Theorem C08_exact_reply_too_big : forall (i : id) (p : rpayload) (max : N), max < blen (full_ser i p) -> exact_reply i p max = (error_response i (oversized_response_error max), FFailed (-32008)%Z).
Proof. exact exact_reply_too_big. Qed.
Print Assumptions C08_exact_reply_too_big.

Theorem C08_exact_reply_bounded : forall (i : id) (p : rpayload) (max : N), (forall partial, p <> RFail partial) -> blen (fst (exact_reply i p max)) <= max \/ fst (exact_reply i p max) = error_response i (oversized_response_error max).
Proof. exact exact_reply_bounded. Qed.
Print Assumptions C08_exact_reply_bounded.

Theorem C08_batch_accounting : forall (done : list bytes) (max : N) (r : bytes), (done <> [] -> blen (buf_of done) = blen (array_of done)) /\ (append (buf_of done) max r = None <-> max < blen (array_of (done ++ [r]))) /\ (forall b, append (buf_of done) max r = Some b -> b = buf_of (done ++ [r])).
Proof. exact batch_accounting. Qed.
Print Assumptions C08_batch_accounting.

Theorem C08_batch_exact : forall (max : N) (rs : list bytes), rs <> [] -> (blen (array_of rs) <= max -> batch_response max rs = array_of rs) /\ (max < blen (array_of rs) -> batch_response max rs = too_big_batch max).
Proof. exact batch_exact. Qed.
Print Assumptions C08_batch_exact.

Theorem C08_batch_wiring : forall (e : ep) (c : cfg), (forall rs b, ws_batch_reply e c rs = Some b -> b = batch_response (max_response c) rs) /\ (forall rs b, http_batch_reply e c rs = Some b -> b = batch_response (max_response c) rs).
Proof. exact batch_wiring. Qed.
Print Assumptions C08_batch_wiring.

Theorem C08_requests_unaffected : forall (e : ep) (c : cfg) (r : N), (forall n, ws_processed e (with_max_response c r) n = ws_processed e c n) /\ (forall msgs, ws_session e (with_max_response c r) msgs = ws_session e c msgs) /\ (forall cl frames, http_result e (with_max_response c r) cl frames = http_result e c cl frames).
Proof. exact requests_unaffected. Qed.
Print Assumptions C08_requests_unaffected.

Theorem C08_fixed_error_bound : forall (lim : N) (i : id) (e : errobj), lim < 2 ^ 64 -> In e (fixed_errors lim) -> blen (error_response i e) <= 152 + blen (ser_id i).
Proof. exact fixed_error_bound_u64. Qed.
Print Assumptions C08_fixed_error_bound.

(* the known finding, in the model: limit 60, an ordinary call with this id and result is replaced by -32008,
   the same id and payload as a subscribe response (result = subscription id) go out unchanged, above the limit *)
Theorem C08_sub_refuted : exists (e : ep) (c : cfg) (i : id) (p : rpayload) (r : bytes * flag), ws_call_reply e c CbSubscription i p = Some r /\ max_response c < blen (fst r) /\ snd r = FSuccess /\ ws_call_reply e c CbSync i p = Some (error_response i (oversized_response_error (max_response c)), FFailed (-32008)%Z).
Proof. exact sub_refuted. Qed.
Print Assumptions C08_sub_refuted.

(* non-vacuity: exactly at the limit / one above, exact bytes *)
Example C08_witness_at_limit : method_response (IdNum 1) (RResult b#"""a""") 37 = (b#"{""jsonrpc"":""2.0"",""id"":1,""result"":""a""}", FSuccess) /\ fst (method_response (IdNum 1) (RResult b#"""a""") 36) = b#"{""jsonrpc"":""2.0"",""id"":1,""error"":{""code"":-32008,""message"":""Response is too big"",""data"":""Exceeded max limit of 36""}}".
Proof. vm_compute. split; reflexivity. Qed.

Example C08_witness_batch : batch_response 77 [b#"{""jsonrpc"":""2.0"",""id"":1,""result"":""a""}"; b#"{""jsonrpc"":""2.0"",""id"":1,""result"":""a""}"] = b#"[{""jsonrpc"":""2.0"",""id"":1,""result"":""a""},{""jsonrpc"":""2.0"",""id"":1,""result"":""a""}]" /\ batch_response 76 [b#"{""jsonrpc"":""2.0"",""id"":1,""result"":""a""}"; b#"{""jsonrpc"":""2.0"",""id"":1,""result"":""a""}"] = b#"{""jsonrpc"":""2.0"",""id"":null,""error"":{""code"":-32011,""message"":""The batch response was too large"",""data"":""Exceeded max limit of 76""}}".
Proof. vm_compute. split; reflexivity. Qed.

(* The library's codes, messages and data prefixes are not written in the models: they are the constants of
   Gen/ErrorConstsGen.v, regenerated from types/src/error.rs and core/src/server/method_response.rs on every check
   (tools/translators/error_consts.py).  What the proofs of C01, C02, C07 and C08 need of them, decided by evaluating
   the generated constants: the codes are pairwise distinct i32 values that print in at most 6 bytes; every message is
   UTF-8, needs no JSON escape and is at most 72 bytes long; the message and the data prefix of every error object that
   quotes a limit (the reject_* helpers, the -32008 construction) are such constants, the prefix is UTF-8 without
   escapes, and together they are at most 62 bytes (the bound of C08_fixed_error_bound); ErrorCode's code/message
   pairs and the constants of the batches-disabled error are among them. *)
Theorem C08_consts_pinned : NoDup all_error_codes /\ Forall (fun c => (-2147483648 <= c < 2147483648)%Z /\ blen (print_Z c) <= 6) all_error_codes /\ Forall (fun m => utf8_valid m = true /\ escape_body m = m /\ blen m <= 72) all_error_msgs /\ Forall (fun sh => In (sh_code sh) all_error_codes /\ In (sh_msg sh) all_error_msgs /\ exists p, sh_prefix sh = Some p /\ utf8_valid p = true /\ escape_body p = p /\ blen (sh_msg sh) + blen p <= 62) limit_shapes /\ Forall (fun cm => In (fst cm) all_error_codes /\ In (snd cm) all_error_msgs) errorcode_pairs /\ In batches_not_supported_code all_error_codes /\ In batches_not_supported_msg all_error_msgs.
Proof. exact consts_pinned. Qed.
Print Assumptions C08_consts_pinned.
