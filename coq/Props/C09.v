(* C09 -- property theorems only.  Each is closed by `exact <lemma>`; statements are pinned in tools/pinned/C09.statements.
   Model: Model/ClientShutdown.v (the shutdown protocol between send task, read task, watcher and front end; a trace is
   ANY list of labels, the list is the adversarial scheduler + environment), frame arithmetic of Model/ClientMgr.v. *)
From JV Require Import Base.Bytes Base.Dec Model.Wire Model.ClientMgr Model.ClientShutdown Proofs.ClientShutdownFacts.
From JV Require Import Gen.ShutdownOrderGen.
Local Open Scope N_scope.

(* the front channel is never observably closed before the disconnect reason is recorded; the only shutdowns without
   a reason are those not caused by an error: the client was dropped, or read_task's clean-exit branch ran (dead code:
   no TransportReceiverT can make it run) *)
Theorem C09_cause_before_close : forall tr, let s := run gen_variant init tr in
  front_closed s = true -> (exists c, reason s = Some c) \/ dropped s = true \/ h_recvend s = true.
Proof. exact cause_before_close. Qed.
Print Assumptions C09_cause_before_close.

(* the recorded reason is the first result that entered close_tx *)
Theorem C09_reason_is_first_report : forall tr c, let s := run gen_variant init tr in
  reason s = Some c -> h_first s = Some (Some c).
Proof. exact reason_is_first_report. Qed.
Print Assumptions C09_reason_is_first_report.

Theorem C09_no_placeholder : forall tr h, let s := run gen_variant init tr in
  h_recvend s = false -> get_c s h <> Some (CDone OPlaceholder).
Proof. exact no_placeholder. Qed.
Print Assumptions C09_no_placeholder.

Theorem C09_observed_cause_is_reason : forall tr h c, let s := run gen_variant init tr in
  get_c s h = Some (CDone (OCause c)) -> reason s = Some c /\ h_first s = Some (Some c).
Proof. exact observed_cause_is_reason. Qed.
Print Assumptions C09_observed_cause_is_reason.

Theorem C09_all_pending_fail_with_cause : forall tr, let s := run gen_variant init tr in
  sp s = SExited -> rp s = RExited -> dropped s = false -> h_recvend s = false ->
  exists c, reason s = Some c /\ h_first s = Some (Some c) /\ is_connected s = false /\
    forall h,
      match get_c s h with
      | Some (CDone OOk) => True
      | Some (CDone (OCause c')) => c' = c
      | Some (CDone OPlaceholder) => False
      | Some CGone => False
      | Some _ => get_c (run gen_variant s [LCallerDropped h; LReadErr h]) h = Some (CDone (OCause c))
      | None => get_c (run gen_variant s [LNewCall h; LReadErr h]) h = Some (CDone (OCause c)) /\
                get_c (run gen_variant s [LOnDisc h; LReadErr h]) h = Some (CDone (OCause c))
      end.
Proof. exact all_pending_fail_with_cause. Qed.
Print Assumptions C09_all_pending_fail_with_cause.

(* bounded-measure progress: once the shutdown has started, every protocol step strictly decreases mu <= 11, no step
   increases it, some protocol step is enabled while mu > 0, and mu = 0 is the all-exited state.  The completion of
   the transport's close() is one of the protocol steps (assumption: close() terminates) -- only the END of the send task
   depends on it, what callers observe does not (C09_pending_fail_without_transport_close). *)
Theorem C09_progress : forall tr, let s := run gen_variant init tr in
  started s = true ->
  (mu s <= 11)%nat /\
  (forall l, (mu (step gen_variant s l) <= mu s)%nat) /\
  (forall l, is_proto l = true -> enabled gen_variant s l = true -> (mu (step gen_variant s l) < mu s)%nat) /\
  (mu s = 0%nat <-> all_exited s = true) /\
  ((mu s > 0)%nat -> exists l, is_proto l = true /\ enabled gen_variant s l = true) /\
  all_exited (drive gen_variant false (mu s) s) = true.
Proof. exact progress. Qed.
Print Assumptions C09_progress.

(* CURRENT tree (after "fix: async client: fail pending calls before closing the transport"): once the reason is
   recorded, the front channel closed and the read task gone, every caller that is queued, registered in the manager
   or inside read_error completes with that cause by its own two steps after ANY continuation that does not drop the
   client -- in particular continuations in which the transport's close() never completes *)
Theorem C09_pending_fail_without_transport_close : forall tr h c, let s := run gen_variant init tr in
  reason s = Some c -> front_closed s = true -> rp s = RExited ->
  (get_c s h = Some CQueued \/ get_c s h = Some CInMgr \/ get_c s h = Some CReadErr) ->
  forall tr', ~ In LClientDrop tr' ->
    let s' := run gen_variant s tr' in
    get_c (run gen_variant s' [LCallerDropped h; LReadErr h]) h = Some (CDone (OCause c)).
Proof. exact pending_fail_without_transport_close. Qed.
Print Assumptions C09_pending_fail_without_transport_close.

(* BEFORE that repair (VLateDrop: the queue and the manager handle were dropped only when send_task returned): calls
   registered in the manager were not failed until the transport's close() had returned *)
Theorem C09_pending_fail_before_transport_close_refuted_old :
  exists tr h, let s := run VLateDrop init tr in
    reason s = Some CRecv /\ front_closed s = true /\ rp s = RExited /\ get_c s h = Some CInMgr /\
    forall tr', ~ In LSTransportClosed tr' -> ~ In LClientDrop tr' -> get_c (run VLateDrop s tr') h = Some CInMgr.
Proof. exact pending_blocked_refuted. Qed.
Print Assumptions C09_pending_fail_before_transport_close_refuted_old.

(* the OLD send_task epilogue (close front channel, close transport, report): a call made in the window gets the placeholder *)
Theorem C09_old_order_refuted_old :
  exists tr h, let s := run VOldOrder init tr in
    get_c s h = Some (CDone OPlaceholder) /\ h_recvend s = false /\ dropped s = false.
Proof. exact old_order_refuted. Qed.
Print Assumptions C09_old_order_refuted_old.

(* the reordering "report, then drop the front receiver without awaiting close_tx.closed()" (variant VNoWait) *)
Theorem C09_no_wait_order_refuted :
  exists tr h, let s := run VNoWait init tr in
    get_c s h = Some (CDone OPlaceholder) /\ h_recvend s = false /\ dropped s = false /\ reason s = None.
Proof. exact no_wait_refuted. Qed.
Print Assumptions C09_no_wait_order_refuted.

(* what the dead clean-exit branch of read_task would do if a receiver could end its stream *)
Theorem C09_no_placeholder_recv_end_refuted : exists tr h, get_c (run VNow init tr) h = Some (CDone OPlaceholder).
Proof. exact recv_end_refuted. Qed.
Print Assumptions C09_no_placeholder_recv_end_refuted.

(* ---------- no panic: the arithmetic of the frame handler on anything the server may send ---------- *)
Theorem C09_no_panic_range : forall s raw lo hi,
  frame_range s (classify_frame raw) = Some (lo, hi) -> lo <= hi /\ hi <= u64_max.
Proof. exact frame_range_ok. Qed.
Print Assumptions C09_no_panic_range.

Theorem C09_no_panic_range_end : forall s raw e, range_end_now s (classify_frame raw) = Some e -> e <= u64_max.
Proof. exact range_end_no_overflow. Qed.
Print Assumptions C09_no_panic_range_end.

(* handle_back increments exactly where range_end_now does; at u64::MAX it takes the error path instead *)
Theorem C09_no_panic_handle_back : forall s fr lo hi, frame_range s fr = Some (lo, hi) ->
  exists s' rs, handle_back s fr =
    if hi =? u64_max then RFatal s' [] FNotPending else batch_response s' rs lo (hi + 1).
Proof. exact handle_back_range. Qed.
Print Assumptions C09_no_panic_handle_back.

Theorem C09_no_panic_batch_slots : forall s rs lo hi s' o h filled,
  batch_response s rs lo hi = ROk s' o -> In (OComplete h (CBatch filled)) o -> length filled = N.to_nat (hi - lo).
Proof. exact batch_slots. Qed.
Print Assumptions C09_no_panic_batch_slots.

Theorem C09_old_overflow_refuted_old :
  exists s raw e, range_end_old s (classify_frame raw) = Some e /\ ~ e <= u64_max /\
                  range_end_now s (classify_frame raw) = None.
Proof. exact old_overflow_refuted. Qed.
Print Assumptions C09_old_overflow_refuted_old.

(* ---------- non-vacuity ---------- *)
Example C09_fault_run_nonvacuous :
  let s := run VNow init (tr_blocked ++ [LSTransportClosed; LCallerDropped 1; LReadErr 1; LOnDisc 2; LReadErr 2]) in
  all_exited s = true /\ get_c s 1 = Some (CDone (OCause CRecv)) /\ get_c s 2 = Some (CDone (OCause CRecv)) /\
  is_connected s = false /\ started (run VNow init [LRecvFault]) = true /\ mu (run VNow init [LRecvFault]) = 10%nat.
Proof. exact fault_run_example. Qed.

Example C09_no_wait_nonvacuous :
  let s := run VNow init tr_blocked in
  sp s = SClosing /\ reason s = Some CRecv /\ get_c s 1 = Some CInMgr /\
  sp (run VNow s [LNewCall 2; LRecvFault; LCallerDropped 1; LReadErr 1]) = SClosing /\
  get_c (run VNow s [LNewCall 2; LRecvFault; LCallerDropped 1; LReadErr 1]) 1 = Some (CDone (OCause CRecv)).
Proof. exact no_wait_example. Qed.

Example C09_same_schedule_new_order :
  get_c (run VNow init tr_old) 2 = Some CQueued /\
  get_c (run VNow init (tr_old ++ [LSReport; LWRecv; LWStore; LWExit; LSClosedSeen; LSCloseFront; LRNotice; LRReport; LRExit;
                                    LSTransportClosed; LCallerDropped 2; LReadErr 2])) 2 = Some (CDone (OCause CSend)).
Proof. exact new_order_same_schedule. Qed.

Example C09_overflow_frame_now :
  exists s', handle_back (ClientMgr.init false 4 4 false) (classify_frame overflow_frame) = RFatal s' [] FNotPending.
Proof. exact (proj2 (proj2 (proj2 old_overflow))). Qed.
