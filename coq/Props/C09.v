(* C09 -- property theorems only.  Each is closed by `exact <lemma>`; statements are pinned in tools/pinned/C09.statements.
   Model: Model/ClientShutdown.v (the shutdown protocol between send task, read task, watcher and front end; a trace is
   ANY list of labels, the list is the adversarial scheduler + environment), frame arithmetic of Model/ClientMgr.v. *)
From JV Require Import Base.Bytes Base.Dec Model.Wire Model.ClientMgr Model.ClientShutdown Proofs.ClientShutdownFacts.
From JV Require Import Gen.ShutdownOrderGen.
Local Open Scope N_scope.

(* the front channel is never observably closed before the disconnect reason is recorded; the only shutdowns without
   a reason are those not caused by an error: the client was dropped, or read_task's clean-exit branch ran (dead code:
   no TransportReceiverT can make it run) *)
Theorem C09_cause_before_close : forall tr, let s := run gen_variant init tr in
  front_closed s = true -> (exists c, reason s = Some c) \/ dropped s = true \/ h_recvend s = true.
Proof. exact cause_before_close. Qed.
Print Assumptions C09_cause_before_close.

(* the recorded reason is the first result that entered close_tx *)
Theorem C09_reason_is_first_report : forall tr c, let s := run gen_variant init tr in
  reason s = Some c -> h_first s = Some (Some c).
Proof. exact reason_is_first_report. Qed.
Print Assumptions C09_reason_is_first_report.

Theorem C09_no_placeholder : forall tr h, let s := run gen_variant init tr in
  h_recvend s = false -> get_c s h <> Some (CDone OPlaceholder).
Proof. exact no_placeholder. Qed.
Print Assumptions C09_no_placeholder.

Theorem C09_observed_cause_is_reason : forall tr h c, let s := run gen_variant init tr in
  get_c s h = Some (CDone (OCause c)) -> reason s = Some c /\ h_first s = Some (Some c).
Proof. exact observed_cause_is_reason. Qed.
Print Assumptions C09_observed_cause_is_reason.

Theorem C09_all_pending_fail_with_cause : forall tr, let s := run gen_variant init tr in
  sp s = SExited -> rp s = RExited -> dropped s = false -> h_recvend s = false ->
  exists c, reason s = Some c /\ h_first s = Some (Some c) /\ is_connected s = false /\
    forall h,
      match get_c s h with
      | Some (CDone OOk) => True
      | Some (CDone (OCause c')) => c' = c
      | Some (CDone OPlaceholder) => False
      | Some CGone => False
      | Some _ => get_c (run gen_variant s [LCallerDropped h; LReadErr h]) h = Some (CDone (OCause c))
      | None => get_c (run gen_variant s [LNewCall h; LReadErr h]) h = Some (CDone (OCause c)) /\
                get_c (run gen_variant s [LOnDisc h; LReadErr h]) h = Some (CDone (OCause c))
      end.
Proof. exact all_pending_fail_with_cause. Qed.
Print Assumptions C09_all_pending_fail_with_cause.

(* bounded-measure progress: once the shutdown has started, every protocol step strictly decreases mu <= 11, no step
   increases it, some protocol step is enabled while mu > 0, and mu = 0 is the all-exited state.  The completion of
   the transport's close() is one of the protocol steps (assumption: close() terminates) -- only the END of the send task
   depends on it, what callers observe does not (C09_pending_fail_without_transport_close). *)
Theorem C09_progress : forall tr, let s := run gen_variant init tr in
  started s = true ->
  (mu s <= 11)%nat /\
  (forall l, (mu (step gen_variant s l) <= mu s)%nat) /\
  (forall l, is_proto l = true -> enabled gen_variant s l = true -> (mu (step gen_variant s l) < mu s)%nat) /\
  (mu s = 0%nat <-> all_exited s = true) /\
  ((mu s > 0)%nat -> exists l, is_proto l = true /\ enabled gen_variant s l = true) /\
  all_exited (drive gen_variant false (mu s) s) = true.
Proof. exact progress. Qed.
Print Assumptions C09_progress.

(* CURRENT tree (after "fix: async client: fail pending calls before closing the transport"): once the reason is
   recorded, the front channel closed and the read task gone, every caller that is queued, registered in the manager
   or inside read_error completes with that cause by its own two steps after ANY continuation that does not drop the
   client -- in particular continuations in which the transport's close() never completes *)
Theorem C09_pending_fail_without_transport_close : forall tr h c, let s := run gen_variant init tr in
  reason s = Some c -> front_closed s = true -> rp s = RExited ->
  (get_c s h = Some CQueued \/ get_c s h = Some CInMgr \/ get_c s h = Some CReadErr) ->
  forall tr', ~ In LClientDrop tr' ->
    let s' := run gen_variant s tr' in
    get_c (run gen_variant s' [LCallerDropped h; LReadErr h]) h = Some (CDone (OCause c)).
Proof. exact pending_fail_without_transport_close. Qed.
Print Assumptions C09_pending_fail_without_transport_close.

(* BEFORE that repair (VLateDrop: the queue and the manager handle were dropped only when send_task returned): calls
   registered in the manager were not failed until the transport's close() had returned *)
Theorem C09_pending_fail_before_transport_close_refuted_old :
  exists tr h, let s := run VLateDrop init tr in
    reason s = Some CRecv /\ front_closed s = true /\ rp s = RExited /\ get_c s h = Some CInMgr /\
    forall tr', ~ In LSTransportClosed tr' -> ~ In LClientDrop tr' -> get_c (run VLateDrop s tr') h = Some CInMgr.
Proof. exact pending_blocked_refuted. Qed.
Print Assumptions C09_pending_fail_before_transport_close_refuted_old.

(* the OLD send_task epilogue (close front channel, close transport, report): a call made in the window gets the placeholder *)
Theorem C09_old_order_refuted_old :
  exists tr h, let s := run VOldOrder init tr in
    get_c s h = Some (CDone OPlaceholder) /\ h_recvend s = false /\ dropped s = false.
Proof. exact old_order_refuted. Qed.
Print Assumptions C09_old_order_refuted_old.

(* the reordering "report, then drop the front receiver without awaiting close_tx.closed()" (variant VNoWait) *)
Theorem C09_no_wait_order_refuted :
  exists tr h, let s := run VNoWait init tr in
    get_c s h = Some (CDone OPlaceholder) /\ h_recvend s = false /\ dropped s = false /\ reason s = None.
Proof. exact no_wait_refuted. Qed.
Print Assumptions C09_no_wait_order_refuted.

(* what the dead clean-exit branch of read_task would do if a receiver could end its stream *)
Theorem C09_no_placeholder_recv_end_refuted : exists tr h, get_c (run VNow init tr) h = Some (CDone OPlaceholder).
Proof. exact recv_end_refuted. Qed.
Print Assumptions C09_no_placeholder_recv_end_refuted.

(* ---------- no panic: the arithmetic of the frame handler on anything the server may send ---------- *)
Theorem C09_no_panic_range : forall s raw lo hi,
  frame_range s (classify_frame raw) = Some (lo, hi) -> lo <= hi /\ hi <= u64_max.
Proof. exact frame_range_ok. Qed.
Print Assumptions C09_no_panic_range.

Theorem C09_no_panic_range_end : forall s raw e, range_end_now s (classify_frame raw) = Some e -> e <= u64_max.
Proof. exact range_end_no_overflow. Qed.
Print Assumptions C09_no_panic_range_end.

(* handle_back increments exactly where range_end_now does; at u64::MAX it takes the error path instead *)
Theorem C09_no_panic_handle_back : forall s fr lo hi, frame_range s fr = Some (lo, hi) ->
  exists s' rs, handle_back s fr =
    if hi =? u64_max then RFatal s' [] FNotPending else batch_response s' rs lo (hi + 1).
Proof. exact handle_back_range. Qed.
Print Assumptions C09_no_panic_handle_back.

Theorem C09_no_panic_batch_slots : forall s rs lo hi s' o h filled,
  batch_response s rs lo hi = ROk s' o -> In (OComplete h (CBatch filled)) o -> length filled = N.to_nat (hi - lo).
Proof. exact batch_slots. Qed.
Print Assumptions C09_no_panic_batch_slots.

Theorem C09_old_overflow_refuted_old :
  exists s raw e, range_end_old s (classify_frame raw) = Some e /\ ~ e <= u64_max /\
                  range_end_now s (classify_frame raw) = None.
Proof. exact old_overflow_refuted. Qed.
Print Assumptions C09_old_overflow_refuted_old.

(* ---------- non-vacuity ---------- *)
Example C09_fault_run_nonvacuous :
  let s := run VNow init (tr_blocked ++ [LSTransportClosed; LCallerDropped 1; LReadErr 1; LOnDisc 2; LReadErr 2]) in
  all_exited s = true /\ get_c s 1 = Some (CDone (OCause CRecv)) /\ get_c s 2 = Some (CDone (OCause CRecv)) /\
  is_connected s = false /\ started (run VNow init [LRecvFault]) = true /\ mu (run VNow init [LRecvFault]) = 10%nat.
Proof. exact fault_run_example. Qed.

Example C09_no_wait_nonvacuous :
  let s := run VNow init tr_blocked in
  sp s = SClosing /\ reason s = Some CRecv /\ get_c s 1 = Some CInMgr /\
  sp (run VNow s [LNewCall 2; LRecvFault; LCallerDropped 1; LReadErr 1]) = SClosing /\
  get_c (run VNow s [LNewCall 2; LRecvFault; LCallerDropped 1; LReadErr 1]) 1 = Some (CDone (OCause CRecv)).
Proof. exact no_wait_example. Qed.

Example C09_same_schedule_new_order :
  get_c (run VNow init tr_old) 2 = Some CQueued /\
  get_c (run VNow init (tr_old ++ [LSReport; LWRecv; LWStore; LWExit; LSClosedSeen; LSCloseFront; LRNotice; LRReport; LRExit;
                                    LSTransportClosed; LCallerDropped 2; LReadErr 2])) 2 = Some (CDone (OCause CSend)).
Proof. exact new_order_same_schedule. Qed.

Example C09_overflow_frame_now :
  exists s', handle_back (ClientMgr.init false 4 4 false) (classify_frame overflow_frame) = RFatal s' [] FNotPending.
Proof. exact (proj2 (proj2 (proj2 old_overflow))). Qed.

(* ---------- the client's own WebSocket ping / inactivity detection (ClientBuilder::enable_ws_ping) ----------
   Layer pstate/plabel/pstep of Model/ClientShutdown.v: the ping arm of send_task, mark_as_active, the inactivity arm of
   read_task with InactivityCheck::is_inactive; an inactivity tick is labelled with the outcome of
   `last_active.elapsed() >= inactive_dur` (the model has no clock).  A trace is any list of plabels. *)

(* the stale tick that brings the count to max_failures, in a connection that is up (all three tasks in their loops,
   client not dropped): the read task breaks with the inactivity cause, the shutdown protocol of the theorems above runs
   to its end with exactly that cause, is_connected turns false, and every caller of the state is either answered
   already or completes with RestartNeeded(inactive) by its own two steps; so does every later call / on_disconnect *)
Theorem C09_inactivity_fails_everything : forall maxf tr, let p := prun gen_variant (pinit maxf) tr in
  started (pb p) = false -> maxf <= p_count p + 1 ->
  let p1 := pstep gen_variant p (LInactTick true) in
  let s2 := drive gen_variant false (mu (pb p1)) (pb p1) in
  p_count p1 = p_count p + 1 /\ rp (pb p1) = RReport (Some CInactive) /\
  all_exited s2 = true /\ reason s2 = Some CInactive /\ h_first s2 = Some (Some CInactive) /\ is_connected s2 = false /\
  (forall h, get_c s2 h = get_c (pb p) h) /\
  forall h,
    match get_c (pb p) h with
    | Some (CDone OOk) => True
    | Some (CDone _) | Some CGone => False
    | Some _ => get_c (run gen_variant s2 [LCallerDropped h; LReadErr h]) h = Some (CDone (OCause CInactive))
    | None => get_c (run gen_variant s2 [LNewCall h; LReadErr h]) h = Some (CDone (OCause CInactive)) /\
              get_c (run gen_variant s2 [LOnDisc h; LReadErr h]) h = Some (CDone (OCause CInactive))
    end.
Proof. exact inactivity_fails_everything. Qed.
Print Assumptions C09_inactivity_fails_everything.

(* a run in which the read task processes no stale tick never produces the inactivity cause: not as the recorded
   reason, not as a report, not in any caller's result (max_failures > 0 is asserted by PingConfig::max_failures) *)
Theorem C09_active_connection_never_dies_of_inactivity : forall maxf tr, 0 < maxf ->
  stale_ticks gen_variant (pinit maxf) tr = 0 ->
  let p := prun gen_variant (pinit maxf) tr in
  p_count p = 0 /\ reason (pb p) <> Some CInactive /\ h_first (pb p) <> Some (Some CInactive) /\
  rp (pb p) <> RReport (Some CInactive) /\
  forall h, get_c (pb p) h <> Some (CDone (OCause CInactive)).
Proof. exact active_never_inactive. Qed.
Print Assumptions C09_active_connection_never_dies_of_inactivity.

(* the same, by the labels alone: no inactivity tick of the run is stale *)
Theorem C09_fresh_ticks_never_die_of_inactivity : forall maxf tr, 0 < maxf ->
  (forall l, In l tr -> l <> LInactTick true) ->
  let p := prun gen_variant (pinit maxf) tr in
  p_count p = 0 /\ reason (pb p) <> Some CInactive /\ h_first (pb p) <> Some (Some CInactive) /\
  rp (pb p) <> RReport (Some CInactive) /\
  forall h, get_c (pb p) h <> Some (CDone (OCause CInactive)).
Proof. exact fresh_ticks_never_inactive. Qed.
Print Assumptions C09_fresh_ticks_never_die_of_inactivity.

(* the same, by traffic: every tick the read task processes is on time (a message received since the previous tick
   makes it fresh) and a message did arrive since the previous tick *)
Theorem C09_regular_traffic_never_dies_of_inactivity : forall maxf tr, 0 < maxf ->
  regular gen_variant (pinit maxf) tr ->
  let p := prun gen_variant (pinit maxf) tr in
  p_count p = 0 /\ reason (pb p) <> Some CInactive /\ h_first (pb p) <> Some (Some CInactive) /\
  rp (pb p) <> RReport (Some CInactive) /\
  forall h, get_c (pb p) h <> Some (CDone (OCause CInactive)).
Proof. exact regular_traffic_never_inactive. Qed.
Print Assumptions C09_regular_traffic_never_dies_of_inactivity.

(* InactivityCheck::count only grows and equals the number of stale ticks processed so far: the failures are cumulative,
   not consecutive (neither a received message nor a fresh tick resets it); the inactivity arm breaks exactly when the
   count, after the tick, has reached max_failures *)
Theorem C09_inactivity_count_monotone : forall maxf tr l, let p := prun gen_variant (pinit maxf) tr in
  p_count p <= p_count (pstep gen_variant p l) /\
  p_count p = stale_ticks gen_variant (pinit maxf) tr /\
  p_max p = maxf /\
  (forall stale, penabled gen_variant p (LInactTick stale) = true ->
     let c := if stale then p_count p + 1 else p_count p in
     pb (pstep gen_variant p (LInactTick stale)) = if maxf <=? c then step gen_variant (pb p) LInactive else pb p).
Proof. exact inactivity_count_monotone. Qed.
Print Assumptions C09_inactivity_count_monotone.

(* the ping layer adds no behaviour to the shutdown protocol: its runs project to runs of `step` (so every theorem
   above holds of them), LInactive arising only from the inactivity check *)
Theorem C09_ping_layer_refines : forall tr p,
  pb (prun gen_variant p tr) = run gen_variant (pb p) (base_trace gen_variant p tr).
Proof. exact (prun_base VNow). Qed.
Print Assumptions C09_ping_layer_refines.

Example C09_inactivity_nonvacuous :
  let p := prun VNow (pinit 2) tr_ping_up in
  started (pb p) = false /\ p_count p = 1 /\ h_pings p = 1 /\
  let p1 := pstep VNow p (LInactTick true) in
  let s2 := drive VNow false (mu (pb p1)) (pb p1) in
  p_count p1 = 2 /\ all_exited s2 = true /\ reason s2 = Some CInactive /\
  get_c (run VNow s2 [LCallerDropped 1; LReadErr 1]) 1 = Some (CDone (OCause CInactive)) /\
  get_c s2 2 = Some (CDone OOk) /\
  get_c (run VNow s2 [LCallerDropped 3; LReadErr 3]) 3 = Some (CDone (OCause CInactive)) /\
  get_c (run VNow s2 [LOnDisc 4; LReadErr 4]) 4 = Some (CDone (OCause CInactive)) /\
  stale_ticks VNow (pinit 2) (tr_ping_up ++ [LInactTick true]) = 2 /\
  started (pb (prun VNow (pinit 3) (tr_ping_up ++ [LInactTick true]))) = false /\
  sp (pb (prun VNow (pinit 2) (tr_ping_up ++ [LBase LSendOk; LPingTick false]))) = SReport (Some CSend) /\
  penabled VNow (prun VNow (pinit 2) [LBase (LNewCall 1)]) (LPingTick true) = false.
Proof. exact inactivity_example. Qed.

(* ---------- cancel-safety of the receive loop (structural tie, read from the source on every check) ----------
   TransportReceiverT::receive is NOT cancel-safe: the WebSocket transport keeps the partly read message (and the
   fragment / header state of the framing layer) inside the future it returns.  read_task polls that future as one arm of
   a select loop whose other arms (close_tx.closed(), a finished pending_unsubscribes hand-over, an inactivity tick) can
   win while a message is half read.  What the models assume from the fact below -- Gen/ShutdownOrderGen.v says `true` iff
   the receiver is moved into an `unfold` stream pinned BEFORE the loop and the loop's receive arm only polls `.next()`
   on it, so that the in-flight receive() future survives every iteration until it completes -- is that FRAMES ARE
   DELIVERED WHOLE: `LAnswer`/`LBadFrame`/`LRecvFault` of Model/ClientShutdown.v and `Back raw` of Model/ClientMgr.v take
   one complete message as the transport produced it, no label loses or re-frames a prefix of a message, and the other
   arms of the loop (LInactTick, LRNotice, the hand-over) do not touch the transport.  With a receive() future created
   per iteration (`false`) that assumption is wrong -- an inactivity tick between two pieces of a message drops the
   first piece, the answer of a pending call is lost and the connection dies of a framing error although the server and
   the link were healthy (C03, C09) -- and this file does not compile.  The engine clifault exhibits it on the code
   (step `backsplit`: a mock receiver that is non-cancel-safe in the same way; oracle keys correct-answer-not-delivered,
   healthy-connection-torn-down). *)
Theorem C09_receive_future_persistent : recv_future_persistent = true.
Proof. exact eq_refl. Qed.
Print Assumptions C09_receive_future_persistent.
