(* C10 -- property theorems only.  Each is closed by `exact <lemma>`; statements are pinned in tools/pinned/C10.statements.
   Model: coq/Model/Stop.v (LTS of accept loop, connection tasks, completion tokens, WS reader / per-message tasks /
   writer, hyper's graceful shutdown); `run (init_cap cap) tr` ranges over ALL finite traces, `effective s a` says that action a is
   enabled in s (a disabled action leaves the state unchanged). *)
From Coq Require Import List NArith Bool Arith.
From JV Require Import Model.Stop Proofs.StopFacts.
Import ListNotations.

(* Once `stopped` has resolved, on every connection the client did not leave, each call is on the wire exactly as
   many times as its handler started (handlers started before the stop signal included): started => answered, once --
   for every queue capacity, i.e. also for answers that had to wait for room in the bounded outgoing queue. *)
Theorem C10_started_calls_answered : forall (cap : nat) (tr : list action) (c : nat) (k : N) (x : conn), s_resolved (run (init_cap cap) tr) = true -> nth_error (s_conns (run (init_cap cap) tr)) c = Some x -> c_closed x = false -> count_occ N.eq_dec (c_wire x) k = starts (init_cap cap) tr c k.
Proof. exact started_calls_answered. Qed.
Print Assumptions C10_started_calls_answered.

(* The property as worded: a handler that started while the server had not been told to stop, on a connection the
   client did not leave, has its reply on the wire once `stopped` has resolved. *)
Theorem C10_started_before_stop_answered : forall (cap : nat) (pre post : list action) (c : nat) (k : N) (x : conn), sig (run (init_cap cap) pre) = false -> effective (run (init_cap cap) pre) (Conn c (CStart k)) = true -> let tr := pre ++ Conn c (CStart k) :: post in s_resolved (run (init_cap cap) tr) = true -> nth_error (s_conns (run (init_cap cap) tr)) c = Some x -> c_closed x = false -> In k (c_wire x).
Proof. exact started_before_stop_answered. Qed.
Print Assumptions C10_started_before_stop_answered.

(* `stopped` can only resolve when start_inner has returned and, for every connection, its task has ended, its
   completion token is dropped, its send task is finished with an empty queue, and (client still there) no call is
   pending -- in particular none whose answer is parked waiting for room in the bounded queue (state TRet). *)
Theorem C10_stopped_after_all : forall (cap : nat) (tr : list action), effective (run (init_cap cap) tr) StoppedResolves = true -> s_accept (run (init_cap cap) tr) = ADone /\ Forall (fun x => c_phase x = PDone /\ c_tok x = false /\ c_writer x = WFin /\ c_queue x = [] /\ (c_closed x = false -> c_tasks x = [])) (s_conns (run (init_cap cap) tr)).
Proof. exact stopped_after_all. Qed.
Print Assumptions C10_stopped_after_all.

(* After `stopped` resolved no connection is accepted, and a handler can only still start for a message that was
   sent before that point (id below the id counter at that point) on a WebSocket connection whose client has gone. *)
Theorem C10_nothing_after_stopped : forall (cap : nat) (tr1 tr2 : list action), s_resolved (run (init_cap cap) tr1) = true -> (forall kd, effective (run (init_cap cap) (tr1 ++ tr2)) (Connect kd) = false) /\ (forall c k, effective (run (init_cap cap) (tr1 ++ tr2)) (Conn c (CStart k)) = true -> (k < s_next (run (init_cap cap) tr1))%N /\ exists x, nth_error (s_conns (run (init_cap cap) (tr1 ++ tr2))) c = Some x /\ c_kind x = KWs /\ c_closed x = true).
Proof. exact nothing_after_stopped. Qed.
Print Assumptions C10_nothing_after_stopped.

(* stop() in any state: a second stop changes nothing, the outcome is Ok / AlreadyStopped / (no handle left), never
   anything else; AlreadyStopped exactly when every token is gone; nothing but the stop flag is touched. *)
Theorem C10_idempotent : forall s : state, let s1 := fst (step s Stop) in fst (step s1 Stop) = s1 /\ s_conns s1 = s_conns s /\ s_accept s1 = s_accept s /\ s_handles s1 = s_handles s /\ s_resolved s1 = s_resolved s /\ s_next s1 = s_next s /\ (snd (step s Stop) = OStopOk \/ snd (step s Stop) = OStopAlready \/ snd (step s Stop) = ONoHandle) /\ (snd (step s Stop) = OStopAlready <-> (s_handles s <> 0 /\ all_dropped s = true)) /\ (snd (step s1 Stop) = OStopOk \/ snd (step s1 Stop) = OStopAlready \/ snd (step s1 Stop) = ONoHandle).
Proof. exact stop_idempotent. Qed.
Print Assumptions C10_idempotent.

(* dropping a handle touches nothing but the handle count; dropping the last one raises the stop signal *)
Theorem C10_drop_handle : forall s : state, let s1 := fst (step s DropHandle) in s_conns s1 = s_conns s /\ s_accept s1 = s_accept s /\ s_stop s1 = s_stop s /\ s_resolved s1 = s_resolved s /\ s_handles s1 = pred (s_handles s) /\ (snd (step s DropHandle) = OOk \/ snd (step s DropHandle) = ONoHandle) /\ (s_handles s = 1 -> sig s1 = true).
Proof. exact drop_handle_harmless. Qed.
Print Assumptions C10_drop_handle.

(* the stop signal, once up, stays up whatever happens (second stop, clones, drops, client traffic) *)
Theorem C10_signal_stays : forall (s : state) (a : action), sig s = true -> sig (fst (step s a)) = true.
Proof. exact sig_mono. Qed.
Print Assumptions C10_signal_stays.

(* ... lifted to whole executions: in every continuation of a run the signal is still up, and `stopped`, once
   resolved, stays resolved (so "after `stopped` resolved" is a suffix-closed notion) *)
Theorem C10_stop_monotone : forall (cap : nat) (tr1 tr2 : list action), (sig (run (init_cap cap) tr1) = true -> sig (run (init_cap cap) (tr1 ++ tr2)) = true) /\ (s_resolved (run (init_cap cap) tr1) = true -> s_resolved (run (init_cap cap) (tr1 ++ tr2)) = true).
Proof. exact stop_monotone. Qed.
Print Assumptions C10_stop_monotone.

(* never stuck: in every reachable state with the stop signal up and some token still held, a step of the server's
   own tasks (or a handler returning) is enabled ... *)
Theorem C10_no_hang : forall (cap : nat) (tr : list action), 1 <= cap -> let s := run (init_cap cap) tr in sig s = true -> all_dropped s = false -> exists a, internal a = true /\ effective s a = true.
Proof. exact no_hang. Qed.
Print Assumptions C10_no_hang.

(* ... every such step strictly decreases a natural-number measure (so they cannot go on for ever) ... *)
Theorem C10_internal_steps_terminate : forall (s : state) (a : action), internal a = true -> effective s a = true -> mu (fst (step s a)) < mu s.
Proof. exact internal_step_decreases. Qed.
Print Assumptions C10_internal_steps_terminate.

(* ... and when every token is gone `stopped` does resolve for whoever holds a handle. *)
Theorem C10_stopped_enabled : forall s : state, all_dropped s = true -> s_resolved s = false -> s_handles s <> 0 -> effective s StoppedResolves = true.
Proof. exact stopped_enabled. Qed.
Print Assumptions C10_stopped_enabled.

(* ---- non-vacuity ---- *)
Definition ws_trace : list action :=
  [Connect KWs; ClientSend 0; Conn 0 CRead; Conn 0 (CStart 0%N); Stop; Stop; Conn 0 CSeeStop; AcceptSeeStop;
   Conn 0 CHyperDone; AcceptDone].
Definition ws_tail : list action :=
  [Conn 0 (CFinish 0%N); Conn 0 (CEnqueue 0%N); Conn 0 CGracefulEnd; Conn 0 CWrite; Conn 0 CWriterStop; Conn 0 CBgDone;
   StoppedResolves].

(* a WS call executing at the stop: `stopped` is not enabled while it runs; afterwards it resolves and the reply is on the wire *)
Example C10_ws_witness : effective (run init ws_trace) StoppedResolves = false /\ s_resolved (run init (ws_trace ++ ws_tail)) = true /\ option_map c_wire (nth_error (s_conns (run init (ws_trace ++ ws_tail))) 0) = Some [0%N] /\ starts init (ws_trace ++ ws_tail) 0 0%N = 1 /\ snd (step (run init (ws_trace ++ ws_tail)) Stop) = OStopAlready /\ effective (run init (ws_trace ++ ws_tail)) (Connect KHttp) = false.
Proof. vm_compute. repeat split; reflexivity. Qed.

(* the same over HTTP, with a second request pipelined behind the executing one: it is never run *)
Example C10_http_witness : let tr := [Connect KHttp; ClientSend 0; Conn 0 CRead; Conn 0 (CStart 0%N); ClientSend 0; Stop; Conn 0 CSeeStop; AcceptSeeStop; Conn 0 (CFinish 0%N); Conn 0 CWrite; AcceptDone; StoppedResolves; Conn 0 CRead] in s_resolved (run init tr) = true /\ option_map c_wire (nth_error (s_conns (run init tr)) 0) = Some [0%N] /\ option_map c_inbox (nth_error (s_conns (run init tr)) 0) = Some [1%N] /\ starts init tr 0 1%N = 0.
Proof. vm_compute. repeat split; reflexivity. Qed.

(* a message not yet taken by the reader when the stop is observed is discarded, not run *)
Example C10_unread_is_dropped : let tr := [Connect KWs; ClientSend 0; Stop; Conn 0 CSeeStop; Conn 0 CRead; Conn 0 (CStart 0%N)] in starts init tr 0 0%N = 0 /\ option_map c_inbox (nth_error (s_conns (run init tr)) 0) = Some [].
Proof. vm_compute. split; reflexivity. Qed.

(* the exemption in C10_nothing_after_stopped is needed: the client left, `stopped` resolved, the spawned task still starts *)
Example C10_start_after_stopped_when_client_gone : let tr := [Connect KWs; ClientSend 0; Conn 0 CRead; Conn 0 CDisconnect; Conn 0 CReaderClosed; Conn 0 CWriterFail; Conn 0 CBgDone; Conn 0 CHyperDone; Stop; AcceptSeeStop; AcceptDone; StoppedResolves] in s_resolved (run init tr) = true /\ effective (run init tr) (Conn 0 (CStart 0%N)) = true.
Proof. vm_compute. split; reflexivity. Qed.

(* back-pressure: capacity 1, three calls executing at the stop and returning together.  The second answer cannot be
   queued (CEnqueue disabled: parked, token held), so graceful shutdown cannot end and `stopped` cannot resolve;
   once the writer makes room everything is delivered, and only then does `stopped` resolve. *)
Definition bp_trace : list action :=
  [Connect KWs; ClientSend 0; ClientSend 0; ClientSend 0; Conn 0 CRead; Conn 0 CRead; Conn 0 CRead;
   Conn 0 (CStart 0%N); Conn 0 (CStart 1%N); Conn 0 (CStart 2%N); Stop; Conn 0 CSeeStop; AcceptSeeStop; Conn 0 CHyperDone; AcceptDone;
   Conn 0 (CFinish 0%N); Conn 0 (CFinish 1%N); Conn 0 (CFinish 2%N); Conn 0 (CEnqueue 0%N)].
Definition bp_tail : list action :=
  [Conn 0 CWrite; Conn 0 (CEnqueue 2%N); Conn 0 CWrite; Conn 0 (CEnqueue 1%N); Conn 0 CGracefulEnd; Conn 0 CWrite;
   Conn 0 CWriterStop; Conn 0 CBgDone; StoppedResolves].
Example C10_backpressure_witness : effective (run (init_cap 1) bp_trace) (Conn 0 (CEnqueue 1%N)) = false /\ effective (run (init_cap 1) bp_trace) (Conn 0 CGracefulEnd) = false /\ effective (run (init_cap 1) bp_trace) StoppedResolves = false /\ effective (run (init_cap 2) bp_trace) (Conn 0 (CEnqueue 1%N)) = true /\ s_resolved (run (init_cap 1) (bp_trace ++ bp_tail)) = true /\ option_map c_wire (nth_error (s_conns (run (init_cap 1) (bp_trace ++ bp_tail))) 0) = Some [0%N; 2%N; 1%N].
Proof. vm_compute. repeat split; reflexivity. Qed.
