(* C11 -- property theorems only.  Each is closed by `exact <lemma>`; statements are pinned in tools/pinned/C11.statements.
   Model: Model/ConnGuard.v (semaphore counter + per-attempt permit location); proofs: Proofs/ConnGuardFacts.v. *)
From Coq Require Import List NArith Bool.
From JV Require Import Gen.ConnGuardGen Model.ConnGuard Proofs.ConnGuardFacts.
Import ListNotations.
Local Open Scope N_scope.

(* at every state of every trace at most max_connections attempts hold a permit (= are being served) *)
Theorem C11_bound : forall (c : cfg) (tr : list act), Forall (fun s => served s <= c_max c) (trace_states c tr).
Proof. exact bound_all_states. Qed.
Print Assumptions C11_bound.

(* ... and the semaphore counter is exactly the number of free slots *)
Theorem C11_counter_exact : forall (c : cfg) (tr : list act), Forall (fun s => s_avail s + served s = c_max c) (trace_states c tr).
Proof. exact counter_exact_all_states. Qed.
Print Assumptions C11_counter_exact.

(* the states listed by trace_states include the one the whole trace ends in (so the two theorems above speak about `run`) *)
Theorem C11_states_cover_run : forall (c : cfg) (tr : list act), In (run c tr) (trace_states c tr).
Proof. exact states_cover_run. Qed.
Print Assumptions C11_states_cover_run.

(* an attempt is refused with 429 exactly when all slots are taken at the moment it tries *)
Theorem C11_refused_iff_full : forall (c : cfg) (tr : list act) (k : kind), refused (step (run c tr) (Acquire k)) (length (s_att (run c tr))) = true <-> served (run c tr) = c_max c.
Proof. exact refused_iff_full. Qed.
Print Assumptions C11_refused_iff_full.

(* a refused attempt: no handler ever ran for it, and at no prefix of the trace did it hold a slot *)
Theorem C11_refused_429_no_handler : forall (c : cfg) (tr : list act) (i : nat), refused (run c tr) i = true -> handlers_of (run c tr) i = 0 /\ holds (run c tr) i = false /\ forall n : nat, holds (run c (firstn n tr)) i = false.
Proof. exact refused_no_handler. Qed.
Print Assumptions C11_refused_429_no_handler.

(* once every attempt has terminated -- by whichever exit -- all slots are free again *)
Theorem C11_no_leak : forall (c : cfg) (tr : list act), all_terminated (run c tr) = true -> s_avail (run c tr) = c_max c.
Proof. exact no_leak. Qed.
Print Assumptions C11_no_leak.

(* ... so the limit can be reached again: after any such trace, max further attempts of any kinds all get a slot and the next one is refused *)
Theorem C11_limit_reachable_again : forall (c : cfg) (tr : list act) (ks : list kind) (k : kind), all_terminated (run c tr) = true -> length ks = N.to_nat (c_max c) -> let s := run c tr in let s' := run c (tr ++ map Acquire ks) in served s = 0 /\ served s' = c_max c /\ (forall j : nat, (j < length ks)%nat -> holds s' (length (s_att s) + j) = true /\ refused s' (length (s_att s) + j) = false) /\ refused (step s' (Acquire k)) (length (s_att s')) = true.
Proof. exact limit_reachable_again. Qed.
Print Assumptions C11_limit_reachable_again.

(* whenever an attempt stops holding its slot, the counter goes up by one in that very step *)
Theorem C11_finish_frees_slot : forall (s : state) (a : act) (i : nat), holds s i = true -> holds (step s a) i = false -> s_avail (step s a) = s_avail s + 1.
Proof. exact finish_frees_slot. Qed.
Print Assumptions C11_finish_frees_slot.

(* no lifecycle phase is a trap: from any state whatsoever attempt i can be brought to its end *)
Theorem C11_can_always_finish : forall (s : state) (i : nat), holds (run_from s (finish_acts i)) i = false.
Proof. exact can_always_finish. Qed.
Print Assumptions C11_can_always_finish.

(* a session whose receive loop ended for any reason other than a server stop -- the peer's Close, a receive error, the
   server's own ping/pong inactivity close -- gives its slot back in graceful_shutdown however many of its handlers are
   still running (x is arbitrary: nothing is assumed about a_pending x) *)
Theorem C11_server_close_frees_slot_despite_pending_call : forall (s : state) (i : nat) (x : attempt) (c : cause), get s i = Some x -> a_phase x = PWsSession -> c <> CStopped -> let s' := run_from s [WsEnd i c; WsFinish i] in holds s' i = false /\ s_avail s' = s_avail s + 1.
Proof. exact server_close_frees_slot. Qed.
Print Assumptions C11_server_close_frees_slot_despite_pending_call.

(* only a server stop waits for the session's pending calls, and even then a vanished peer ends the wait *)
Theorem C11_stop_waits_only_for_pending_calls : forall (s : state) (i : nat) (x : attempt), get s i = Some x -> a_phase x = PWsClosing CStopped -> (a_pending x <> 0 -> step s (WsFinish i) = s) /\ (a_pending x = 0 -> holds (step s (WsFinish i)) i = false /\ s_avail (step s (WsFinish i)) = s_avail s + 1) /\ holds (step s (WsPeerGone i)) i = false /\ s_avail (step s (WsPeerGone i)) = s_avail s + 1.
Proof. exact stop_waits_only_for_pending_calls. Qed.
Print Assumptions C11_stop_waits_only_for_pending_calls.

(* ---- non-vacuity ---- *)
Definition c1 : cfg := {| c_max := 1; c_http := true; c_ws := true |}.

(* limit 1: a WebSocket session takes the slot, an HTTP request is refused (429, its handler step is a no-op),
   the session ends, the next HTTP request is served and its handler runs *)
Example C11_witness_refuse_then_reuse :
  let tr := [Acquire KWs; Dispatch 0; Upgrade 0 true; Acquire KHttp; Dispatch 1; Handler 1; WsEnd 0 CPeer; WsFinish 0;
             Acquire KHttp; Dispatch 2; Handler 2] in
  refused (run c1 tr) 1 = true /\ handlers_of (run c1 tr) 1 = 0 /\ refused (run c1 tr) 2 = false /\ handlers_of (run c1 tr) 2 = 1
  /\ served (run c1 tr) = 1 /\ s_avail (run c1 tr) = 0
  /\ all_terminated (run c1 (tr ++ [Respond 2])) = true /\ s_avail (run c1 (tr ++ [Respond 2])) = 1.
Proof. vm_compute. repeat split. Qed.

(* every exit path gives the slot back: failed handshake, denied, failed upgrade, dropped future, normal completion *)
Example C11_witness_all_exits :
  let tr := [Acquire KWsBad; Dispatch 0; Acquire KWs; Dispatch 1; Upgrade 1 false; Acquire KHttp; Dispatch 2; DropFut 2;
             Acquire KHttpGet; Dispatch 3; Respond 3; Acquire KWs; Dispatch 4; Upgrade 4 true; Handler 4; WsEnd 4 CError; WsFinish 4] in
  all_terminated (run c1 tr) = true /\ s_avail (run c1 tr) = 1
  /\ map (fun a => a_status a) (s_att (run c1 tr)) = [200; 101; 0; 405; 101]
  /\ all_terminated (run {| c_max := 1; c_http := true; c_ws := false |} [Acquire KWs; Dispatch 0]) = true
  /\ map (fun a => a_status a) (s_att (run {| c_max := 1; c_http := true; c_ws := false |} [Acquire KWs; Dispatch 0])) = [403].
Proof. vm_compute. repeat split. Qed.

(* limit 0 refuses everything *)
Example C11_witness_limit0 :
  refused (run {| c_max := 0; c_http := true; c_ws := true |} [Acquire KHttp]) 0 = true.
Proof. vm_compute. reflexivity. Qed.

(* limit 1, ws ping on: a session with a parked call goes silent, the server closes it for inactivity; the slot is back
   although the call is still pending (a_pending = 1), and the next connection is served *)
Example C11_witness_inactivity_close_with_pending_call :
  let tr := [Acquire KWs; Dispatch 0; Upgrade 0 true; Handler 0; WsEnd 0 CInactive; WsFinish 0; Acquire KWs; Dispatch 1] in
  pending_of (run c1 tr) 0 = 1 /\ holds (run c1 tr) 0 = false /\ refused (run c1 tr) 1 = false /\ holds (run c1 tr) 1 = true
  /\ (* whereas a server stop does wait for it *)
  holds (run c1 [Acquire KWs; Dispatch 0; Upgrade 0 true; Handler 0; WsEnd 0 CStopped; WsFinish 0]) 0 = true
  /\ holds (run c1 [Acquire KWs; Dispatch 0; Upgrade 0 true; Handler 0; WsEnd 0 CStopped; HandlerDone 0; WsFinish 0]) 0 = false.
Proof. vm_compute. repeat split. Qed.
