(* C12 -- batch results are positional.  Property theorems only; each is closed by `exact <lemma>`.
   Vocabulary: Model/ClientMgr.v (the async/WebSocket client: `batch_response`, `handle_back` -- the frame handler, which
   interprets the dispatch read from the source, Gen/ClientDispatchGen.v --, `placeholder`, `id_as_number` =
   Id::try_parse_inner_as_number), Model/HttpBatch.v (the HTTP client: `http_batch`,
   `http_reply`, `count_ok`, `count_err`) and the specification part of Proofs/ClientMgrC12.v:
     resps ms            the responses of an array frame, in the server's order
     last_with k rs      the last response of rs whose (normalised) id is k
     entry_of lo rs j    that response for k = lo + j, or `placeholder` (error code 0, message "") when there is none
     filled_of lo n rs   the fill loop run on n placeholder slots
     ids_of_range lo n   [Some lo; ...; Some (lo+n-1)]  *)
From Coq Require Import List NArith ZArith Bool Permutation.
From JV Require Import Base.Bytes Base.Dec Model.Wire Model.ClientMgr Model.HttpBatch Proofs.ClientMgrC12 Proofs.HttpBatchFacts.
From JV Require Model.HttpGate.
Import ListNotations.
Local Open Scope N_scope.

(* ------------------------------------------------------------------ WebSocket / async client *)

(* the fill loop: exactly hi-lo entries; entry j is the placeholder (and then no reply carries id lo+j) or a reply whose
   id is lo+j -- never a reply with another position's id.  `batch_response` is only ever called with lo = the least id
   of rs (C12_range_exact), which is the hypothesis on the ids; C12_lower_bound_needed shows it cannot be dropped. *)
Theorem C12_filled_positional : forall s rs lo hi h,
  alookup range_eqb (lo, hi) (batches (m s)) = Some h ->
  (forall r k, In r rs -> id_as_number (rs_id r) = Some k -> lo <= k) ->
  exists s' filled,
    batch_response s rs lo hi = ROk s' (complete s h (CBatch filled)) /\
    length filled = N.to_nat (hi - lo) /\
    forall j, (j < N.to_nat (hi - lo))%nat ->
      (nth j filled placeholder = placeholder /\
         forall r, In r rs -> id_as_number (rs_id r) <> Some (lo + N.of_nat j)) \/
      (exists r, In r rs /\ id_as_number (rs_id r) = Some (lo + N.of_nat j) /\ nth j filled placeholder = r).
Proof. exact filled_positional. Qed.
Print Assumptions C12_filled_positional.

(* a complete answer set in ANY order: entry j is THE reply with id lo+j, no placeholder, and the result is the reply
   rearranged *)
Theorem C12_complete_reply_positional : forall s rs lo hi h,
  alookup range_eqb (lo, hi) (batches (m s)) = Some h ->
  Permutation (map (fun r => id_as_number (rs_id r)) rs) (ids_of_range lo (N.to_nat (hi - lo))) ->
  exists s' filled,
    batch_response s rs lo hi = ROk s' (complete s h (CBatch filled)) /\
    length filled = N.to_nat (hi - lo) /\
    (forall j r, (j < N.to_nat (hi - lo))%nat -> In r rs -> id_as_number (rs_id r) = Some (lo + N.of_nat j) ->
       nth j filled placeholder = r) /\
    (forall j, (j < N.to_nat (hi - lo))%nat ->
       exists r, In r rs /\ id_as_number (rs_id r) = Some (lo + N.of_nat j) /\ nth j filled placeholder = r) /\
    Permutation filled rs.
Proof. exact complete_reply_positional. Qed.
Print Assumptions C12_complete_reply_positional.

(* success / failure counts are those of the returned entries *)
Theorem C12_counts_match : forall filled : list response, (count_ok filled + count_err filled = length filled)%nat.
Proof. exact counts_match. Qed.
Print Assumptions C12_counts_match.

(* an array frame with responses that is accepted completes exactly the pending batch whose key is
   [least id, greatest id + 1) of the frame: every id of the frame lies in that batch's own range, both ends are attained,
   the batch leaves the table, and the caller gets hi-lo entries, entry j = the last reply with id lo+j or the
   placeholder *)
Theorem C12_range_exact : forall s ms s1 o,
  handle_back s (FArray ms) = ROk s1 o -> resps ms <> [] ->
  exists lo hi h,
    alookup range_eqb (lo, hi) (batches (m s)) = Some h /\ lo < hi /\
    (forall r, In r (resps ms) -> exists k, id_as_number (rs_id r) = Some k /\ lo <= k < hi) /\
    (exists r, In r (resps ms) /\ id_as_number (rs_id r) = Some lo) /\
    (exists r, In r (resps ms) /\ id_as_number (rs_id r) = Some (hi - 1)) /\
    batches (m s1) = aremove range_eqb (lo, hi) (batches (m s)) /\
    let filled := filled_of lo (N.to_nat (hi - lo)) (resps ms) in
    o = complete s h (CBatch filled) /\
    length filled = N.to_nat (hi - lo) /\
    forall j, (j < N.to_nat (hi - lo))%nat -> nth j filled placeholder = entry_of lo (resps ms) j.
Proof. exact array_reply_ok. Qed.
Print Assumptions C12_range_exact.

(* what `entry_of` is *)
Theorem C12_entry_cases : forall lo rs j,
  (entry_of lo rs j = placeholder /\ forall r, In r rs -> id_as_number (rs_id r) <> Some (lo + N.of_nat j)) \/
  (exists r, In r rs /\ id_as_number (rs_id r) = Some (lo + N.of_nat j) /\ entry_of lo rs j = r).
Proof. exact entry_cases. Qed.
Print Assumptions C12_entry_cases.

(* a reply whose least / greatest ids are not exactly the ends of a pending batch (first or last entry missing, a foreign
   id, two batches mixed) is fatal: nobody is answered with it *)
Theorem C12_unmatched_reply_fails : forall s ms lo hi,
  resps ms <> [] ->
  (forall r, In r (resps ms) -> exists k, id_as_number (rs_id r) = Some k /\ lo <= k <= hi) ->
  (exists r, In r (resps ms) /\ id_as_number (rs_id r) = Some lo) ->
  (exists r, In r (resps ms) /\ id_as_number (rs_id r) = Some hi) ->
  alookup range_eqb (lo, hi + 1) (batches (m s)) = None ->
  exists s1 f, handle_back s (FArray ms) = RFatal s1 [] f.
Proof. exact array_reply_unmatched. Qed.
Print Assumptions C12_unmatched_reply_fails.

(* whenever an array frame is refused no completion is emitted and no pending batch is consumed *)
Theorem C12_refused_reply_answers_nobody : forall s ms s1 o f,
  handle_back s (FArray ms) = RFatal s1 o f -> o = [] /\ batches (m s1) = batches (m s).
Proof. exact array_reply_fatal. Qed.
Print Assumptions C12_refused_reply_answers_nobody.

(* a batch result handed to a caller always has the length of the request *)
Theorem C12_never_shorter : forall s ms s1 o h filled,
  handle_back s (FArray ms) = ROk s1 o -> In (OComplete h (CBatch filled)) o ->
  exists lo hi, alookup range_eqb (lo, hi) (batches (m s)) = Some h /\ length filled = N.to_nat (hi - lo).
Proof. exact never_shorter. Qed.
Print Assumptions C12_never_shorter.

(* with pairwise disjoint pending ranges (`ranges_disjoint`; an invariant of the client since batch ids are reserved:
   Proofs/ClientMgrInv.v ic_rng_disj) an accepted reply that contains ANY id of a pending batch A is A's reply entirely:
   A is the batch completed, every id of the frame lies in A's range, entry j is the last reply with id loA+j *)
Theorem C12_reply_goes_to_owner : forall s ms s1 o r k loA hiA,
  handle_back s (FArray ms) = ROk s1 o -> ranges_disjoint (batches (m s)) ->
  In r (resps ms) -> id_as_number (rs_id r) = Some k ->
  In (loA, hiA) (map fst (batches (m s))) -> loA <= k < hiA ->
  exists h,
    alookup range_eqb (loA, hiA) (batches (m s)) = Some h /\
    (forall r', In r' (resps ms) -> exists k', id_as_number (rs_id r') = Some k' /\ loA <= k' < hiA) /\
    batches (m s1) = aremove range_eqb (loA, hiA) (batches (m s)) /\
    let filled := filled_of loA (N.to_nat (hiA - loA)) (resps ms) in
    o = complete s h (CBatch filled) /\
    length filled = N.to_nat (hiA - loA) /\
    forall j, (j < N.to_nat (hiA - loA))%nat -> nth j filled placeholder = entry_of loA (resps ms) j.
Proof. exact reply_goes_to_owner. Qed.
Print Assumptions C12_reply_goes_to_owner.

(* ... and a reply mixing ids of two pending batches is refused: neither caller is answered *)
Theorem C12_mixed_reply_fails : forall s ms r1 r2 k1 k2 lo1 hi1 lo2 hi2,
  ranges_disjoint (batches (m s)) ->
  In r1 (resps ms) -> id_as_number (rs_id r1) = Some k1 -> In (lo1, hi1) (map fst (batches (m s))) -> lo1 <= k1 < hi1 ->
  In r2 (resps ms) -> id_as_number (rs_id r2) = Some k2 -> In (lo2, hi2) (map fst (batches (m s))) -> lo2 <= k2 < hi2 ->
  (lo1, hi1) <> (lo2, hi2) ->
  exists s1 f, handle_back s (FArray ms) = RFatal s1 [] f.
Proof. exact mixed_reply_fails. Qed.
Print Assumptions C12_mixed_reply_fails.

(* the premise holds in every reachable state (invariant `Inv` of Proofs/ClientMgrInv.v: init_inv, run_inv) ... *)
Theorem C12_reachable_ranges_disjoint : forall idstr qc bc gate es,
  ranges_disjoint (batches (m (fst (run (init idstr qc bc gate) es)))).
Proof. exact reachable_ranges_disjoint. Qed.
Print Assumptions C12_reachable_ranges_disjoint.

(* ... so for every configuration and every history the two theorems hold without it *)
Theorem C12_reply_goes_to_owner_reachable : forall idstr qc bc gate es ms s1 o r k loA hiA,
  let s := fst (run (init idstr qc bc gate) es) in
  handle_back s (FArray ms) = ROk s1 o ->
  In r (resps ms) -> id_as_number (rs_id r) = Some k ->
  In (loA, hiA) (map fst (batches (m s))) -> loA <= k < hiA ->
  exists h,
    alookup range_eqb (loA, hiA) (batches (m s)) = Some h /\
    (forall r', In r' (resps ms) -> exists k', id_as_number (rs_id r') = Some k' /\ loA <= k' < hiA) /\
    batches (m s1) = aremove range_eqb (loA, hiA) (batches (m s)) /\
    let filled := filled_of loA (N.to_nat (hiA - loA)) (resps ms) in
    o = complete s h (CBatch filled) /\
    length filled = N.to_nat (hiA - loA) /\
    forall j, (j < N.to_nat (hiA - loA))%nat -> nth j filled placeholder = entry_of loA (resps ms) j.
Proof. exact reply_goes_to_owner_reachable. Qed.
Print Assumptions C12_reply_goes_to_owner_reachable.

Theorem C12_mixed_reply_fails_reachable : forall idstr qc bc gate es ms r1 r2 k1 k2 lo1 hi1 lo2 hi2,
  let s := fst (run (init idstr qc bc gate) es) in
  In r1 (resps ms) -> id_as_number (rs_id r1) = Some k1 -> In (lo1, hi1) (map fst (batches (m s))) -> lo1 <= k1 < hi1 ->
  In r2 (resps ms) -> id_as_number (rs_id r2) = Some k2 -> In (lo2, hi2) (map fst (batches (m s))) -> lo2 <= k2 < hi2 ->
  (lo1, hi1) <> (lo2, hi2) ->
  exists s1 f, handle_back s (FArray ms) = RFatal s1 [] f.
Proof. exact mixed_reply_fails_reachable. Qed.
Print Assumptions C12_mixed_reply_fails_reachable.

(* ------------------------------------------------------------------ HTTP client *)

Theorem C12_http_positional : forall lo n rs filled,
  http_batch lo n rs = Some filled ->
  length filled = N.to_nat n /\
  (forall r, In r rs -> exists k, id_as_number (rs_id r) = Some k /\ lo <= k < lo + n) /\
  forall j, (j < N.to_nat n)%nat ->
    nth j filled placeholder = entry_of lo rs j /\
    ((nth j filled placeholder = placeholder /\
        forall r, In r rs -> id_as_number (rs_id r) <> Some (lo + N.of_nat j)) \/
     (exists r, In r rs /\ id_as_number (rs_id r) = Some (lo + N.of_nat j) /\ nth j filled placeholder = r)).
Proof. exact http_positional. Qed.
Print Assumptions C12_http_positional.

Theorem C12_http_never_shorter : forall lo n rs filled,
  http_batch lo n rs = Some filled -> length filled = N.to_nat n.
Proof. exact http_never_shorter. Qed.
Print Assumptions C12_http_never_shorter.

(* the whole call fails exactly when some reply has no slot: a null / non-numeric id, or an id outside lo .. lo+n *)
Theorem C12_http_fails_iff : forall lo n rs,
  http_batch lo n rs = None <->
  exists r, In r rs /\
    (id_as_number (rs_id r) = None \/ exists k, id_as_number (rs_id r) = Some k /\ ~ (lo <= k < lo + n)).
Proof. exact http_fails_iff. Qed.
Print Assumptions C12_http_fails_iff.

Theorem C12_http_complete_reply : forall lo n rs,
  Permutation (map (fun r => id_as_number (rs_id r)) rs) (ids_of_range lo (N.to_nat n)) ->
  exists filled,
    http_batch lo n rs = Some filled /\ length filled = N.to_nat n /\
    (forall j r, (j < N.to_nat n)%nat -> In r rs -> id_as_number (rs_id r) = Some (lo + N.of_nat j) ->
       nth j filled placeholder = r) /\
    (forall j, (j < N.to_nat n)%nat ->
       exists r, In r rs /\ id_as_number (rs_id r) = Some (lo + N.of_nat j) /\ nth j filled placeholder = r) /\
    Permutation filled rs.
Proof. exact http_complete_reply. Qed.
Print Assumptions C12_http_complete_reply.

Theorem C12_http_counts : forall lo n rs filled,
  http_batch lo n rs = Some filled ->
  (count_ok filled + count_err filled = N.to_nat n)%nat /\
  count_ok filled = length (filter is_success filled) /\
  count_err filled = length (filter (fun r => negb (is_success r)) filled).
Proof. exact http_counts. Qed.
Print Assumptions C12_http_counts.

(* from the bytes of the HTTP body: a successful call is `http_batch` on the parsed replies *)
Theorem C12_http_reply_ok : forall lo n body filled,
  http_reply lo n body = HOk filled ->
  exists text single ts rs,
    HttpGate.read_body [] [HttpGate.FData body] http_max_response = HttpGate.RbOk text single /\
    raw_array text = Some ts /\ parse_all ts = Some rs /\ http_batch lo n rs = Some filled.
Proof. exact http_reply_ok. Qed.
Print Assumptions C12_http_reply_ok.

(* ------------------------------------------------------------------ non-vacuity *)
Definition mA : bytes := b#"a".
Definition rOk (i : id) (raw : bytes) : response := {| rs_jsonrpc := true; rs_payload := PResult raw; rs_id := i |}.
Definition rErr (i : id) (c : Z) (msg : bytes) : response :=
  {| rs_jsonrpc := true; rs_payload := PError {| e_code := c; e_message := msg; e_data := None |}; rs_id := i |}.
Definition batch3 : ev := FBatch 1 [(mA, None); (mA, None); (mA, None)].
Definition last_outs (es : list ev) : list out := fst (last (snd (run (init false 4 4 false) es)) ([], None)).

(* permuted reply, one id as a numeric string, one error: positions restored *)
Example C12_witness_ws_permuted :
  last_outs [batch3; Back b#"[{""jsonrpc"":""2.0"",""id"":2,""result"":""c""},{""jsonrpc"":""2.0"",""id"":0,""error"":{""code"":-1,""message"":""x""}},{""jsonrpc"":""2.0"",""id"":""1"",""result"":""b""}]"]
  = [OComplete 1 (CBatch [rErr (IdNum 0) (-1) b#"x"; rOk (IdStr b#"1") b#"""b"""; rOk (IdNum 2) b#"""c"""])].
Proof. vm_compute. reflexivity. Qed.

(* entry 1 unanswered, id 2 repeated: 3 entries, entry 1 is the placeholder error, the last duplicate wins *)
Example C12_witness_ws_missing_and_repeated :
  last_outs [batch3; Back b#"[{""jsonrpc"":""2.0"",""id"":2,""result"":""c""},{""jsonrpc"":""2.0"",""id"":2,""result"":""d""},{""jsonrpc"":""2.0"",""id"":0,""result"":""a""}]"]
  = [OComplete 1 (CBatch [rOk (IdNum 0) b#"""a"""; placeholder; rOk (IdNum 2) b#"""d"""])].
Proof. vm_compute. reflexivity. Qed.

(* first entry unanswered: ids 1..2 are nobody's key, the connection is torn down, the call fails *)
Example C12_witness_ws_first_missing :
  last_outs [batch3; Back b#"[{""jsonrpc"":""2.0"",""id"":1,""result"":""c""},{""jsonrpc"":""2.0"",""id"":2,""result"":""d""}]"]
  = [OFatal FNotPending; OComplete 1 (CErr EDisconnected)].
Proof. vm_compute. reflexivity. Qed.

(* the lower bound on the ids in C12_filled_positional is needed (unreachable through handle_back) *)
Example C12_lower_bound_needed :
  batch_response (st_with_batch 1 2 7) [resp_of 0] 1 2
  = ROk (upd_m (st_with_batch 1 2 7) (set_batches (m (st_with_batch 1 2 7)) [])) [OComplete 7 (CBatch [resp_of 0])].
Proof. exact filled_positional_needs_lower_bound. Qed.

Example C12_witness_http :
  http_reply 0 3 b#"[{""jsonrpc"":""2.0"",""id"":2,""result"":""c""},{""jsonrpc"":""2.0"",""id"":0,""error"":{""code"":-1,""message"":""x""}},{""jsonrpc"":""2.0"",""id"":""1"",""result"":""b""}]"
    = HOk [rErr (IdNum 0) (-1) b#"x"; rOk (IdStr b#"1") b#"""b"""; rOk (IdNum 2) b#"""c"""] /\
  http_reply 0 3 b#"[{""jsonrpc"":""2.0"",""id"":1,""result"":""c""}]" = HOk [placeholder; rOk (IdNum 1) b#"""c"""; placeholder] /\
  http_reply 0 3 b#"[{""jsonrpc"":""2.0"",""id"":3,""result"":""c""}]" = HErr HNotPending /\
  http_reply 0 3 b#"[{""jsonrpc"":""2.0"",""id"":null,""result"":""c""}]" = HErr HBadId /\
  http_reply 0 3 b#"[5]" = HErr HParse /\
  http_reply 0 3 b#"5" = HErr HTransport /\
  (count_ok [placeholder; rOk (IdNum 1) b#"""c"""; placeholder], count_err [placeholder; rOk (IdNum 1) b#"""c"""; placeholder]) = (1, 2)%nat.
Proof. vm_compute. repeat split. Qed.
