(* C12 -- batch results are positional.  Property theorems only; each is closed by `exact <lemma>`.
   Vocabulary: Model/ClientMgr.v (the async/WebSocket client: `batch_response`, `handle_back` -- the frame handler, which
   interprets the dispatch read from the source, Gen/ClientDispatchGen.v --, `placeholder`, `id_as_number` =
   Id::try_parse_inner_as_number), Model/HttpBatch.v (the HTTP client: `http_batch`,
   `http_reply`, `count_ok`, `count_err`) and the specification part of Proofs/ClientMgrC12.v:
     resps ms            the responses of an array frame, in the server's order
     last_with k rs      the last response of rs whose (normalised) id is k
     entry_of lo rs j    that response for k = lo + j, or `placeholder` (error code 0, message "") when there is none
     filled_of lo n rs   the fill loop run on n placeholder slots
     ids_of_range lo n   [Some lo; ...; Some (lo+n-1)]  *)
From Coq Require Import List NArith ZArith Bool Permutation.
From JV Require Import Base.Bytes Base.Dec Model.Wire Model.ClientMgr Model.HttpBatch Proofs.ClientMgrC12 Proofs.HttpBatchFacts.
From JV Require Model.HttpGate.
Import ListNotations.
Local Open Scope N_scope.

(* ------------------------------------------------------------------ WebSocket / async client *)

(* the fill loop: exactly hi-lo entries; entry j is the placeholder (and then no reply carries id lo+j) or a reply whose
   id is lo+j -- never a reply with another position's id.  `batch_response` is only ever called with lo = the least id
   of rs (C12_range_exact), which is the hypothesis on the ids; C12_lower_bound_needed shows it cannot be dropped. *)
Theorem C12_filled_positional : forall s rs lo hi h,
  alookup range_eqb (lo, hi) (batches (m s)) = Some h ->
  (forall r k, In r rs -> id_as_number (rs_id r) = Some k -> lo <= k) ->
  exists s' filled,
    batch_response s rs lo hi = ROk s' (complete s h (CBatch filled)) /\
    length filled = N.to_nat (hi - lo) /\
    forall j, (j < N.to_nat (hi - lo))%nat ->
      (nth j filled placeholder = placeholder /\
         forall r, In r rs -> id_as_number (rs_id r) <> Some (lo + N.of_nat j)) \/
      (exists r, In r rs /\ id_as_number (rs_id r) = Some (lo + N.of_nat j) /\ nth j filled placeholder = r).
Proof. exact filled_positional. Qed.
Print Assumptions C12_filled_positional.

(* a complete answer set in ANY order: entry j is THE reply with id lo+j, no placeholder, and the result is the reply
   rearranged *)
Theorem C12_complete_reply_positional : forall s rs lo hi h,
  alookup range_eqb (lo, hi) (batches (m s)) = Some h ->
  Permutation (map (fun r => id_as_number (rs_id r)) rs) (ids_of_range lo (N.to_nat (hi - lo))) ->
  exists s' filled,
    batch_response s rs lo hi = ROk s' (complete s h (CBatch filled)) /\
    length filled = N.to_nat (hi - lo) /\
    (forall j r, (j < N.to_nat (hi - lo))%nat -> In r rs -> id_as_number (rs_id r) = Some (lo + N.of_nat j) ->
       nth j filled placeholder = r) /\
    (forall j, (j < N.to_nat (hi - lo))%nat ->
       exists r, In r rs /\ id_as_number (rs_id r) = Some (lo + N.of_nat j) /\ nth j filled placeholder = r) /\
    Permutation filled rs.
Proof. exact complete_reply_positional. Qed.
Print Assumptions C12_complete_reply_positional.

(* success / failure counts are those of the returned entries *)
Theorem C12_counts_match : forall filled : list response, (count_ok filled + count_err filled = length filled)%nat.
Proof. exact counts_match. Qed.
Print Assumptions C12_counts_match.

(* an array frame with responses that is accepted completes exactly the pending batch whose key is
   [least id, greatest id + 1) of the frame: every id of the frame lies in that batch's own range, both ends are attained,
   the batch leaves the table, and the caller gets hi-lo entries, entry j = the last reply with id lo+j or the
   placeholder *)
Theorem C12_range_exact : forall s ms s1 o,
  handle_back s (FArray ms) = ROk s1 o -> resps ms <> [] ->
  exists lo hi h,
    alookup range_eqb (lo, hi) (batches (m s)) = Some h /\ lo < hi /\
    (forall r, In r (resps ms) -> exists k, id_as_number (rs_id r) = Some k /\ lo <= k < hi) /\
    (exists r, In r (resps ms) /\ id_as_number (rs_id r) = Some lo) /\
    (exists r, In r (resps ms) /\ id_as_number (rs_id r) = Some (hi - 1)) /\
    batches (m s1) = aremove range_eqb (lo, hi) (batches (m s)) /\
    let filled := filled_of lo (N.to_nat (hi - lo)) (resps ms) in
    o = complete s h (CBatch filled) /\
    length filled = N.to_nat (hi - lo) /\
    forall j, (j < N.to_nat (hi - lo))%nat -> nth j filled placeholder = entry_of lo (resps ms) j.
Proof. exact array_reply_ok. Qed.
Print Assumptions C12_range_exact.

(* what `entry_of` is *)
Theorem C12_entry_cases : forall lo rs j,
  (entry_of lo rs j = placeholder /\ forall r, In r rs -> id_as_number (rs_id r) <> Some (lo + N.of_nat j)) \/
  (exists r, In r rs /\ id_as_number (rs_id r) = Some (lo + N.of_nat j) /\ entry_of lo rs j = r).
Proof. exact entry_cases. Qed.
Print Assumptions C12_entry_cases.

(* a reply whose least / greatest ids are not exactly the ends of a pending batch (first or last entry missing, a foreign
   id, two batches mixed) is fatal: nobody is answered with it *)
Theorem C12_unmatched_reply_fails : forall s ms lo hi,
  resps ms <> [] ->
  (forall r, In r (resps ms) -> exists k, id_as_number (rs_id r) = Some k /\ lo <= k <= hi) ->
  (exists r, In r (resps ms) /\ id_as_number (rs_id r) = Some lo) ->
  (exists r, In r (resps ms) /\ id_as_number (rs_id r) = Some hi) ->
  alookup range_eqb (lo, hi + 1) (batches (m s)) = None ->
  exists s1 f, handle_back s (FArray ms) = RFatal s1 [] f.
Proof. exact array_reply_unmatched. Qed.
Print Assumptions C12_unmatched_reply_fails.

(* whenever an array frame is refused no completion is emitted and no pending batch is consumed *)
Theorem C12_refused_reply_answers_nobody : forall s ms s1 o f,
  handle_back s (FArray ms) = RFatal s1 o f -> o = [] /\ batches (m s1) = batches (m s).
Proof. exact array_reply_fatal. Qed.
Print Assumptions C12_refused_reply_answers_nobody.

(* a batch result handed to a caller always has the length of the request *)
Theorem C12_never_shorter : forall s ms s1 o h filled,
  handle_back s (FArray ms) = ROk s1 o -> In (OComplete h (CBatch filled)) o ->
  exists lo hi, alookup range_eqb (lo, hi) (batches (m s)) = Some h /\ length filled = N.to_nat (hi - lo).
Proof. exact never_shorter. Qed.
Print Assumptions C12_never_shorter.

(* with pairwise disjoint pending ranges (`ranges_disjoint`; an invariant of the client since batch ids are reserved:
   Proofs/ClientMgrInv.v ic_rng_disj) an accepted reply that contains ANY id of a pending batch A is A's reply entirely:
   A is the batch completed, every id of the frame lies in A's range, entry j is the last reply with id loA+j *)
Theorem C12_reply_goes_to_owner : forall s ms s1 o r k loA hiA,
  handle_back s (FArray ms) = ROk s1 o -> ranges_disjoint (batches (m s)) ->
  In r (resps ms) -> id_as_number (rs_id r) = Some k ->
  In (loA, hiA) (map fst (batches (m s))) -> loA <= k < hiA ->
  exists h,
    alookup range_eqb (loA, hiA) (batches (m s)) = Some h /\
    (forall r', In r' (resps ms) -> exists k', id_as_number (rs_id r') = Some k' /\ loA <= k' < hiA) /\
    batches (m s1) = aremove range_eqb (loA, hiA) (batches (m s)) /\
    let filled := filled_of loA (N.to_nat (hiA - loA)) (resps ms) in
    o = complete s h (CBatch filled) /\
    length filled = N.to_nat (hiA - loA) /\
    forall j, (j < N.to_nat (hiA - loA))%nat -> nth j filled placeholder = entry_of loA (resps ms) j.
Proof. exact reply_goes_to_owner. Qed.
Print Assumptions C12_reply_goes_to_owner.

(* ... and a reply mixing ids of two pending batches is refused: neither caller is answered *)
Theorem C12_mixed_reply_fails : forall s ms r1 r2 k1 k2 lo1 hi1 lo2 hi2,
  ranges_disjoint (batches (m s)) ->
  In r1 (resps ms) -> id_as_number (rs_id r1) = Some k1 -> In (lo1, hi1) (map fst (batches (m s))) -> lo1 <= k1 < hi1 ->
  In r2 (resps ms) -> id_as_number (rs_id r2) = Some k2 -> In (lo2, hi2) (map fst (batches (m s))) -> lo2 <= k2 < hi2 ->
  (lo1, hi1) <> (lo2, hi2) ->
  exists s1 f, handle_back s (FArray ms) = RFatal s1 [] f.
Proof. exact mixed_reply_fails. Qed.
Print Assumptions C12_mixed_reply_fails.

(* the premise holds in every reachable state (invariant `Inv` of Proofs/ClientMgrInv.v: init_inv, run_inv) ... *)
Theorem C12_reachable_ranges_disjoint : forall idstr qc bc gate es,
  ranges_disjoint (batches (m (fst (run (init idstr qc bc gate) es)))).
Proof. exact reachable_ranges_disjoint. Qed.
Print Assumptions C12_reachable_ranges_disjoint.

(* ... so for every configuration and every history the two theorems hold without it *)
Theorem C12_reply_goes_to_owner_reachable : forall idstr qc bc gate es ms s1 o r k loA hiA,
  let s := fst (run (init idstr qc bc gate) es) in
  handle_back s (FArray ms) = ROk s1 o ->
  In r (resps ms) -> id_as_number (rs_id r) = Some k ->
  In (loA, hiA) (map fst (batches (m s))) -> loA <= k < hiA ->
  exists h,
    alookup range_eqb (loA, hiA) (batches (m s)) = Some h /\
    (forall r', In r' (resps ms) -> exists k', id_as_number (rs_id r') = Some k' /\ loA <= k' < hiA) /\
    batches (m s1) = aremove range_eqb (loA, hiA) (batches (m s)) /\
    let filled := filled_of loA (N.to_nat (hiA - loA)) (resps ms) in
    o = complete s h (CBatch filled) /\
    length filled = N.to_nat (hiA - loA) /\
    forall j, (j < N.to_nat (hiA - loA))%nat -> nth j filled placeholder = entry_of loA (resps ms) j.
Proof. exact reply_goes_to_owner_reachable. Qed.
Print Assumptions C12_reply_goes_to_owner_reachable.

Theorem C12_mixed_reply_fails_reachable : forall idstr qc bc gate es ms r1 r2 k1 k2 lo1 hi1 lo2 hi2,
  let s := fst (run (init idstr qc bc gate) es) in
  In r1 (resps ms) -> id_as_number (rs_id r1) = Some k1 -> In (lo1, hi1) (map fst (batches (m s))) -> lo1 <= k1 < hi1 ->
  In r2 (resps ms) -> id_as_number (rs_id r2) = Some k2 -> In (lo2, hi2) (map fst (batches (m s))) -> lo2 <= k2 < hi2 ->
  (lo1, hi1) <> (lo2, hi2) ->
  exists s1 f, handle_back s (FArray ms) = RFatal s1 [] f.
Proof. exact mixed_reply_fails_reachable. Qed.
Print Assumptions C12_mixed_reply_fails_reachable.

(* ------------------------------------------------------------------ HTTP client *)

Theorem C12_http_positional : forall lo n rs filled,
  http_batch lo n rs = Some filled ->
  length filled = N.to_nat n /\
  (forall r, In r rs -> exists k, id_as_number (rs_id r) = Some k /\ lo <= k < lo + n) /\
  forall j, (j < N.to_nat n)%nat ->
    nth j filled placeholder = entry_of lo rs j /\
    ((nth j filled placeholder = placeholder /\
        forall r, In r rs -> id_as_number (rs_id r) <> Some (lo + N.of_nat j)) \/
     (exists r, In r rs /\ id_as_number (rs_id r) = Some (lo + N.of_nat j) /\ nth j filled placeholder = r)).
Proof. exact http_positional. Qed.
Print Assumptions C12_http_positional.

Theorem C12_http_never_shorter : forall lo n rs filled,
  http_batch lo n rs = Some filled -> length filled = N.to_nat n.
Proof. exact http_never_shorter. Qed.
Print Assumptions C12_http_never_shorter.

(* the whole call fails exactly when some reply has no slot: a null / non-numeric id, or an id outside lo .. lo+n *)
Theorem C12_http_fails_iff : forall lo n rs,
  http_batch lo n rs = None <->
  exists r, In r rs /\
    (id_as_number (rs_id r) = None \/ exists k, id_as_number (rs_id r) = Some k /\ ~ (lo <= k < lo + n)).
Proof. exact http_fails_iff. Qed.
Print Assumptions C12_http_fails_iff.

Theorem C12_http_complete_reply : forall lo n rs,
  Permutation (map (fun r => id_as_number (rs_id r)) rs) (ids_of_range lo (N.to_nat n)) ->
  exists filled,
    http_batch lo n rs = Some filled /\ length filled = N.to_nat n /\
    (forall j r, (j < N.to_nat n)%nat -> In r rs -> id_as_number (rs_id r) = Some (lo + N.of_nat j) ->
       nth j filled placeholder = r) /\
    (forall j, (j < N.to_nat n)%nat ->
       exists r, In r rs /\ id_as_number (rs_id r) = Some (lo + N.of_nat j) /\ nth j filled placeholder = r) /\
    Permutation filled rs.
Proof. exact http_complete_reply. Qed.
Print Assumptions C12_http_complete_reply.

Theorem C12_http_counts : forall lo n rs filled,
  http_batch lo n rs = Some filled ->
  (count_ok filled + count_err filled = N.to_nat n)%nat /\
  count_ok filled = length (filter is_success filled) /\
  count_err filled = length (filter (fun r => negb (is_success r)) filled).
Proof. exact http_counts. Qed.
Print Assumptions C12_http_counts.

(* from the bytes of the HTTP body: a successful call is `http_batch` on the parsed replies *)
Theorem C12_http_reply_ok : forall lo n body filled,
  http_reply lo n body = HOk filled ->
  exists text single ts rs,
    HttpGate.read_body [] [HttpGate.FData body] http_max_response = HttpGate.RbOk text single /\
    raw_array text = Some ts /\ parse_all ts = Some rs /\ http_batch lo n rs = Some filled.
Proof. exact http_reply_ok. Qed.
Print Assumptions C12_http_reply_ok.

(* ------------------------------------------------------------------ non-vacuity *)
Definition mA : bytes := b#"a".
Definition rOk (i : id) (raw : bytes) : response := {| rs_jsonrpc := true; rs_payload := PResult raw; rs_id := i |}.
Definition rErr (i : id) (c : Z) (msg : bytes) : response :=
  {| rs_jsonrpc := true; rs_payload := PError {| e_code := c; e_message := msg; e_data := None |}; rs_id := i |}.
Definition batch3 : ev := FBatch 1 [(mA, None); (mA, None); (mA, None)].
Definition last_outs (es : list ev) : list out := fst (last (snd (run (init false 4 4 false) es)) ([], None)).

(* permuted reply, one id as a numeric string, one error: positions restored *)
Example C12_witness_ws_permuted :
  last_outs [batch3; Back b#"[{""jsonrpc"":""2.0"",""id"":2,""result"":""c""},{""jsonrpc"":""2.0"",""id"":0,""error"":{""code"":-1,""message"":""x""}},{""jsonrpc"":""2.0"",""id"":""1"",""result"":""b""}]"]
  = [OComplete 1 (CBatch [rErr (IdNum 0) (-1) b#"x"; rOk (IdStr b#"1") b#"""b"""; rOk (IdNum 2) b#"""c"""])].
Proof. vm_compute. reflexivity. Qed.

(* entry 1 unanswered, id 2 repeated: 3 entries, entry 1 is the placeholder error, the last duplicate wins *)
Example C12_witness_ws_missing_and_repeated :
  last_outs [batch3; Back b#"[{""jsonrpc"":""2.0"",""id"":2,""result"":""c""},{""jsonrpc"":""2.0"",""id"":2,""result"":""d""},{""jsonrpc"":""2.0"",""id"":0,""result"":""a""}]"]
  = [OComplete 1 (CBatch [rOk (IdNum 0) b#"""a"""; placeholder; rOk (IdNum 2) b#"""d"""])].
Proof. vm_compute. reflexivity. Qed.

(* first entry unanswered: ids 1..2 are nobody's key, the connection is torn down, the call fails *)
Example C12_witness_ws_first_missing :
  last_outs [batch3; Back b#"[{""jsonrpc"":""2.0"",""id"":1,""result"":""c""},{""jsonrpc"":""2.0"",""id"":2,""result"":""d""}]"]
  = [OFatal FNotPending; OComplete 1 (CErr EDisconnected)].
Proof. vm_compute. reflexivity. Qed.

(* the lower bound on the ids in C12_filled_positional is needed (unreachable through handle_back) *)
Example C12_lower_bound_needed :
  batch_response (st_with_batch 1 2 7) [resp_of 0] 1 2
  = ROk (upd_m (st_with_batch 1 2 7) (set_batches (m (st_with_batch 1 2 7)) [])) [OComplete 7 (CBatch [resp_of 0])].
Proof. exact filled_positional_needs_lower_bound. Qed.

Example C12_witness_http :
  http_reply 0 3 b#"[{""jsonrpc"":""2.0"",""id"":2,""result"":""c""},{""jsonrpc"":""2.0"",""id"":0,""error"":{""code"":-1,""message"":""x""}},{""jsonrpc"":""2.0"",""id"":""1"",""result"":""b""}]"
    = HOk [rErr (IdNum 0) (-1) b#"x"; rOk (IdStr b#"1") b#"""b"""; rOk (IdNum 2) b#"""c"""] /\
  http_reply 0 3 b#"[{""jsonrpc"":""2.0"",""id"":1,""result"":""c""}]" = HOk [placeholder; rOk (IdNum 1) b#"""c"""; placeholder] /\
  http_reply 0 3 b#"[{""jsonrpc"":""2.0"",""id"":3,""result"":""c""}]" = HErr HNotPending /\
  http_reply 0 3 b#"[{""jsonrpc"":""2.0"",""id"":null,""result"":""c""}]" = HErr HBadId /\
  http_reply 0 3 b#"[5]" = HErr HParse /\
  http_reply 0 3 b#"5" = HErr HTransport /\
  (count_ok [placeholder; rOk (IdNum 1) b#"""c"""; placeholder], count_err [placeholder; rOk (IdNum 1) b#"""c"""; placeholder]) = (1, 2)%nat.
Proof. vm_compute. repeat split. Qed.

(* ------------------------------------------------------------------ REAL threads on the request-id allocator
   `RequestIdManager` (core/src/client/mod.rs) is one shared counter reached through `&self` by every front-end call of the
   async/WebSocket client and of the HTTP client, possibly from different threads.  HOW `next_request_id` and
   `next_batch_id_range` touch the counter is read from the source on every check (tools/translators/id_alloc.py ->
   Gen/IdAllocGen.id_alloc_gen): RAtomicRmw = one atomic read-modify-write, the ids computed from the value it returned;
   RLoadThenStore = load, validate, then advance.  Model/IdAlloc.v interprets the record as a transition system over the
   counter whose steps are the ATOMIC actions of each path; a schedule is a list of (thread, step) -- `SReserve r`: the
   thread starts reservation r (an RAtomicRmw path completes it in that step), `SFinish`: the thread performs the second
   step of its pending two-step reservation; steps that a sequential thread cannot take stutter, so EVERY list is a
   schedule of some number of threads each performing some sequence of single-id and batch reservations.
   Vocabulary: `total sc` the ids asked for, `reservations sc` the (thread, amount) pairs in schedule order, `handed` the
   ranges [lo, hi) returned, `on_one_thread sc` the same steps all on thread 0; specification part of
   Proofs/IdAllocFacts.v: `ev_reqs` / `hist_reqs` (the reservations behind the events of Model/ClientMgr.v, from the
   generated front_takes_gen), `apply_with` / `fed_run` (ClientMgr's apply / run taking ids from a supply list). *)
From JV Require Import Model.IdAlloc Gen.IdAllocGen Proofs.IdAllocFacts.

(* every generated path is ONE atomic RMW, HENCE for every interleaving (while fewer than 2^64 ids have been taken): no id
   belongs to two of the ranges handed out, the counter ends at start + total, no thread is left between two steps, no
   reservation fails, every reservation (in schedule order, with its thread) got a range of the length it asked for inside
   [start, start+total), and the ranges are those of the same reservations made in the same order on ONE thread.  With a
   load-then-store path the first conjunct is false by computation and the proof does not build. *)
Theorem C12_id_ranges_disjoint_under_interleaving :
  (single_path id_alloc_gen = RAtomicRmw /\ batch_path id_alloc_gen = RAtomicRmw) /\
  forall (start : N) (sc : list (thread * alloc_step)), start + total sc < 2 ^ counter_bits id_alloc_gen ->
    let st := alloc_run id_alloc_gen (alloc_init start) sc in
    (forall i j t1 lo1 hi1 t2 lo2 hi2 k, i <> j ->
       nth_error (handed st) i = Some (t1, (lo1, hi1)) -> nth_error (handed st) j = Some (t2, (lo2, hi2)) ->
       ~ (lo1 <= k < hi1 /\ lo2 <= k < hi2)) /\
    counter st = start + total sc /\ pend st = [] /\ failed st = [] /\
    map (fun x : thread * (N * N) => (fst x, snd (snd x) - fst (snd x))) (handed st) = reservations sc /\
    (forall t lo hi, In (t, (lo, hi)) (handed st) -> start <= lo /\ lo <= hi /\ hi <= start + total sc) /\
    map snd (handed st) = map snd (handed (alloc_run id_alloc_gen (alloc_init start) (on_one_thread sc))).
Proof. exact id_ranges_disjoint_under_interleaving. Qed.
Print Assumptions C12_id_ranges_disjoint_under_interleaving.

(* "validate the batch range first, then take it" (batch path = RLoadThenStore, either way of advancing): two threads, one
   batch each, both load before either advances -> both are handed a range starting at 0 (id 0 belongs to both); with
   `store` the counter even ends below start + total; the generated allocator hands out (0,3),(3,5) on the same schedule,
   and on ONE thread the two-step allocator does too (the change is invisible there) *)
Theorem C12_load_then_store_refuted :
  exists sc : list (thread * alloc_step),
    (forall x, In x sc -> fst x = 0%nat \/ fst x = 1%nat) /\
    reservations sc = [(0%nat, 3); (1%nat, 2)] /\
    (forall adv, let st := alloc_run (id_alloc_load_then_store adv) (alloc_init 0) sc in
       pend st = [] /\ failed st = [] /\ handed st = [(0%nat, (0, 3)); (1%nat, (0, 2))] /\
       exists k, 0 <= k < 3 /\ 0 <= k < 2) /\
    counter (alloc_run (id_alloc_load_then_store AdvFetchAdd) (alloc_init 0) sc) = 5 /\
    counter (alloc_run (id_alloc_load_then_store AdvStore) (alloc_init 0) sc) = 2 /\
    handed (alloc_run id_alloc_gen (alloc_init 0) sc) = [(0%nat, (0, 3)); (1%nat, (3, 5))] /\
    (forall adv, handed (alloc_run (id_alloc_load_then_store adv) (alloc_init 0)
                   [(0%nat, SReserve (QBatch 3)); (0%nat, SFinish); (0%nat, SReserve (QBatch 2)); (0%nat, SFinish)])
                 = [(0%nat, (0, 3)); (0%nat, (3, 5))]).
Proof. exact load_then_store_refuted. Qed.
Print Assumptions C12_load_then_store_refuted.

(* the ids Model/ClientMgr.v's FCall / FNotify / FBatch / FSubscribe events take by arithmetic on `next_id` are exactly
   what the generated allocator hands out along the ONE-thread schedule of the reservations behind the history: the run
   fed by that supply IS the run (nothing of the supply is left), the model's counter is the allocator's, and event by
   event `apply` is `apply_with` on the allocator's answer (from any state, unless the counter would wrap).  Together with
   the last conjunct of C12_id_ranges_disjoint_under_interleaving (every thread-level schedule hands out the ranges of
   its one-thread linearisation) the id sequences of the model are those of thread-level executions *)
Theorem C12_sequential_allocation_is_an_interleaving : forall (s : st) (es : list ev),
  let sc := seq_sched 0%nat (hist_reqs s es) in
  next_id s + total sc < 2 ^ counter_bits id_alloc_gen ->
  let a := alloc_run id_alloc_gen (alloc_init (next_id s)) sc in
  fed_run s es (map snd (handed a)) = Some (run s es, []) /\
  next_id (fst (run s es)) = counter a /\
  (forall e, apply s e = apply_with s e (map snd (handed (alloc_run id_alloc_gen (alloc_init (next_id s)) (seq_sched 0%nat (ev_reqs s e)))))
             \/ 2 ^ counter_bits id_alloc_gen <= next_id s + total_reqs (ev_reqs s e)).
Proof. exact sequential_allocation_is_an_interleaving. Qed.
Print Assumptions C12_sequential_allocation_is_an_interleaving.

(* non-vacuity: three threads, singles and batches interleaved, on the generated allocator *)
Example C12_witness_interleaved_allocation :
  let sc := [(0%nat, SReserve (QBatch 3)); (2%nat, SReserve QSingle); (1%nat, SReserve (QBatch 2)); (0%nat, SFinish);
             (2%nat, SReserve QSingle); (1%nat, SReserve QSingle)] in
  let st := alloc_run id_alloc_gen (alloc_init 7) sc in
  handed st = [(0%nat, (7, 10)); (2%nat, (10, 11)); (1%nat, (11, 13)); (2%nat, (13, 14)); (1%nat, (14, 15))] /\
  counter st = 15 /\ total sc = 8 /\
  reservations sc = [(0%nat, 3); (2%nat, 1); (1%nat, 2); (2%nat, 1); (1%nat, 1)] /\
  hist_reqs (init false 4 4 false) [batch3; FCall 2 mA None; FSubscribe 3 mA b#"u" None; FNotify mA None; FBatch 4 []]
  = [QBatch 3; QSingle; QSingle; QSingle; QSingle] /\
  front_takes_gen = mkFront [TSingle] [TSingle] [TBatchLen] [TSingle; TSingle].
Proof. vm_compute. repeat split. Qed.

(* a batch whose range (5,8) was handed out after other threads had taken ids 0..4: positions are restored from ids 5..7 *)
Example C12_witness_fed_by_interleaved_supply :
  match fed_run (init false 4 4 false)
          [batch3; Back b#"[{""jsonrpc"":""2.0"",""id"":7,""result"":""c""},{""jsonrpc"":""2.0"",""id"":5,""result"":""a""},{""jsonrpc"":""2.0"",""id"":6,""result"":""b""}]"]
          [(5, 8); (8, 9)] with
  | Some ((_, outs), rest) => (fst (last outs ([], None)), rest)
  | None => ([], [])
  end = ([OComplete 1 (CBatch [rOk (IdNum 5) b#"""a"""; rOk (IdNum 6) b#"""b"""; rOk (IdNum 7) b#"""c"""])], [(8, 9)]).
Proof. vm_compute. reflexivity. Qed.
