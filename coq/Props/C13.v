(* C13 -- property theorems only.  Each is closed by `exact <lemma>`; statements are pinned in tools/pinned/C13.statements.
   Vocabulary: Model/Registry.v (`step`, `exec`, `init`, `get`, `view`, `nmods`: the heap-level model that is extracted and
   run against the real RpcModule) and the specification part of Proofs/RegistryFacts.v (`spec_step`, `bind`, `added`,
   `writes`, `succeeded`, `failed`, `is_registration`, `checks_first`). *)
From Coq Require Import List NArith Permutation.
From JV Require Import Base.Bytes Model.Registry Proofs.RegistryFacts.
Import ListNotations.

(* names are unique in every module after every op sequence *)
Theorem C13_names_unique : forall (os : list op) (m : nat), NoDup (map fst (get (exec init os) m)).
Proof. exact names_unique. Qed.
Print Assumptions C13_names_unique.

(* every step, after every history, is a step of the abstract finite-map specification (names -> handlers):
   results, error kinds, bindings afterwards, every other module untouched *)
Theorem C13_refines_map_spec : forall (os : list op) (o : op), let s := exec init os in
  spec_step (nmods s) (bind s) o (nmods (fst (step s o))) (bind (fst (step s o))) (snd (step s o)).
Proof. exact refines_map_spec. Qed.
Print Assumptions C13_refines_map_spec.

(* a successful register/alias/merge appends exactly the entries the op names to its target module -- all of them
   previously unbound and pairwise distinct -- and leaves the number and the contents of all other modules as they were *)
Theorem C13_success_adds_exactly : forall (os : list op) (o : op), let s := exec init os in
  is_registration o -> succeeded (snd (step s o)) ->
  exists m, writes o = Some m /\ m < nmods s /\
    view (fst (step s o)) = upd m (fun ms => ms ++ added (view s) o) (view s) /\
    (forall n, In n (map fst (added (view s) o)) -> bind s m n = None) /\
    NoDup (map fst (added (view s) o)).
Proof. exact success_adds_exactly. Qed.
Print Assumptions C13_success_adds_exactly.

(* any failing operation leaves every module exactly (as a list, not merely as a map) as it was *)
Theorem C13_failure_is_identity : forall (os : list op) (o : op), let s := exec init os in
  failed (snd (step s o)) -> view (fst (step s o)) = view s.
Proof. exact failure_is_identity. Qed.
Print Assumptions C13_failure_is_identity.

(* alias, merge and subscription registration check before they touch the map: when they fail not even the sharing
   structure changes *)
Theorem C13_failure_is_identity_heap : forall (os : list op) (o : op), let s := exec init os in
  checks_first o -> failed (snd (step s o)) -> fst (step s o) = s.
Proof. exact failure_is_identity_heap. Qed.
Print Assumptions C13_failure_is_identity_heap.

(* a call changes nothing and answers with the handler currently bound to the name *)
Theorem C13_dispatch : forall (os : list op) (m : nat) (n : name), let s := exec init os in
  step s (Call m n) = (s, if (m <? nmods s)%nat then OCall (bind s m n) else OBad).
Proof. exact dispatch. Qed.
Print Assumptions C13_dispatch.

(* "method not found" exactly when the name is not among the module's names *)
Theorem C13_not_found_iff_unbound : forall (os : list op) (m : nat) (n : name), let s := exec init os in
  m < nmods s -> (snd (step s (Call m n)) = OCall None <-> ~ In n (map fst (get s m))).
Proof. exact not_found_iff_unbound. Qed.
Print Assumptions C13_not_found_iff_unbound.

(* once bound, a name keeps its handler through every operation except the removal of that very name from that very
   module: nothing ever overwrites *)
Theorem C13_binding_stable : forall (os : list op) (o : op) (m : nat) (n : name) (b : binding), let s := exec init os in
  bind s m n = Some b -> o <> Remove m n -> bind (fst (step s o)) m n = Some b.
Proof. exact binding_stable. Qed.
Print Assumptions C13_binding_stable.

(* operations only change the module they are applied to *)
Theorem C13_frame : forall (os os2 : list op) (k : nat), let s := exec init os in
  k < nmods s -> Forall (fun o => writes o <> Some k) os2 -> get (exec s os2) k = get s k.
Proof. exact frame. Qed.
Print Assumptions C13_frame.

(* a clone starts equal to its source; afterwards the clone is unaffected by anything not applied to it, and the source
   by anything not applied to the source *)
Theorem C13_clone_isolated : forall (os : list op) (m : nat) (os2 : list op), let s := exec init os in
  m < nmods s ->
  let s1 := fst (step s (Clone m)) in
  let c := nmods s in
  get s1 c = get s m /\
  (Forall (fun o => writes o <> Some c) os2 -> get (exec s1 os2) c = get s m) /\
  (Forall (fun o => writes o <> Some m) os2 -> get (exec s1 os2) m = get s m).
Proof. exact clone_isolated. Qed.
Print Assumptions C13_clone_isolated.

(* the extracted `run_trace` (what the model driver prints) is `step` along `exec`, and each printed module is a
   permutation of the module *)
Theorem C13_trace_is_exec : forall (os : list op) (o : op),
  run_trace (os ++ [o]) = run_trace os ++ [(snd (step (exec init os) o), dump (exec init (os ++ [o])))].
Proof. exact run_trace_snoc. Qed.
Print Assumptions C13_trace_is_exec.

Theorem C13_dump_is_view : forall s : state, Forall2 (@Permutation (name * binding)) (dump s) (view s).
Proof. exact dump_perm. Qed.
Print Assumptions C13_dump_is_view.

(* ---------- non-vacuity: a history in which every kind of failure and a diverging clone occur ---------- *)
Example C13_demo_observations :
  map fst (run_trace demo) =
  [ ORes None; ORes (Some (AlreadyRegistered na)); ORes (Some (SubscriptionNameConflict nb));
    ORes (Some (AlreadyRegistered na)); ORes (Some (MethodNotFound nb)); OHandle 1; ORes None;
    ORes (Some (AlreadyRegistered na)); ORemoved (Some (Bind 1 KSync)); ORes None;
    OCall (Some (Bind 1 KSync)); OCall None; OCall (Some (Bind 5 KUnsub)) ].
Proof. vm_compute. reflexivity. Qed.

Example C13_demo_final :
  view (exec init demo) = [ [(nc, Bind 5 KUnsub); (nb, Bind 5 KSub); (na, Bind 1 KSync)]; [(na, Bind 1 KSync)] ].
Proof. vm_compute. reflexivity. Qed.

(* premises of the theorems above are satisfiable on this history *)
Example C13_demo_premises :
  failed (snd (step (exec init (firstn 1 demo)) (Reg 0 (RAsync na 2)))) /\
  succeeded (snd (step (exec init (firstn 6 demo)) (Reg 0 (RSub true nb nc 5)))) /\
  checks_first (MergeMod 1 0) /\ failed (snd (step (exec init (firstn 7 demo)) (MergeMod 1 0))) /\
  bind (exec init (firstn 6 demo)) 1 na = Some (Bind 1 KSync).
Proof. vm_compute. tauto. Qed.
