(* C14 -- property theorems only.  Each is closed by `exact <lemma>`; statements are pinned in tools/pinned/C14.statements.
   Specification (Proofs/HostFilterFacts.v): host_matches pat h (tokens of the pattern vs. a split of the host; no routes,
   states or ranking), port_matches, valid_sel / total_sel (the choice among several accepting routes is ANY function
   that returns one of them).  Model: Model/HostFilter.v. *)
From JV Require Import Base.Bytes Gen.PortsGen Model.HostFilter Proofs.HostFilterFacts.
Local Open Scope N_scope.

(* a request is passed on only if its single authority matches some configured entry in host and in port --
   whatever route the router picks when several accept *)
Theorem C14_sound : forall sel al q, valid_sel sel -> decide_with sel (Some al) q = Forward ->
  exists a e, authority_of q = Some a /\ In e al /\ host_matches (a_host e) (a_host a) /\ port_matches (a_port e) (a_port a).
Proof. exact decide_sound. Qed.
Print Assumptions C14_sound.

(* the same at the service: the inner (RPC) service is called only for such requests *)
Theorem C14_service_sound : forall (inner : request -> N) sel al q, valid_sel sel -> snd (call_with inner sel (Some al) q) <> [] ->
  exists a e, authority_of q = Some a /\ In e al /\ host_matches (a_host e) (a_host a) /\ port_matches (a_port e) (a_port a).
Proof. exact call_sound. Qed.
Print Assumptions C14_service_sound.

(* the library's own choice (best Metadata, earliest thread) is such a function, and it always picks something *)
Theorem C14_library_selection_valid : valid_sel lib_select /\ total_sel lib_select.
Proof. exact (conj lib_select_valid lib_select_total). Qed.
Print Assumptions C14_library_selection_valid.

(* 400 exactly when no single authority can be determined (filter enabled or not) *)
Theorem C14_no_authority_400 : forall sel filter q, decide_with sel filter q = Reject400 <-> authority_of q = None.
Proof. exact decide_400_iff. Qed.
Print Assumptions C14_no_authority_400.

(* "single authority": it comes from the Host header or the request-target, and every one of the two that parses gives it *)
Theorem C14_single_authority : forall q a, authority_of q = Some a ->
  (host_source q = Some (Some a) \/ uri_source q = Some (Some a))
  /\ (forall b, host_source q = Some (Some b) -> b = a)
  /\ (forall b, uri_source q = Some (Some b) -> b = a).
Proof. exact authority_of_single. Qed.
Print Assumptions C14_single_authority.

Theorem C14_disagreement_400 : forall sel filter q a1 a2,
  host_source q = Some (Some a1) -> uri_source q = Some (Some a2) -> a1 <> a2 -> decide_with sel filter q = Reject400.
Proof. exact (fun sel filter q a1 a2 H1 H2 Hne => proj2 (decide_400_iff sel filter q) (authority_of_disagree q a1 a2 H1 H2 Hne)). Qed.
Print Assumptions C14_disagreement_400.

(* a refusal is answered by the filter itself (403 / 400) and no handler runs *)
Theorem C14_reject_runs_nothing : forall (inner : request -> N) sel filter q,
  (decide_with sel filter q = Reject403 -> call_with inner sel filter q = (403, []))
  /\ (decide_with sel filter q = Reject400 -> call_with inner sel filter q = (400, []))
  /\ (snd (call_with inner sel filter q) = [] <-> decide_with sel filter q <> Forward).
Proof. exact reject_runs_nothing. Qed.
Print Assumptions C14_reject_runs_nothing.

(* an authority that matches the only configured entry is always admitted *)
Theorem C14_single_entry_complete : forall sel e q a, valid_sel sel -> total_sel sel ->
  authority_of q = Some a -> host_matches (a_host e) (a_host a) -> port_matches (a_port e) (a_port a) ->
  decide_with sel (Some [e]) q = Forward.
Proof. exact (fun sel e q a Hv Ht Ha Hh Hp => single_entry_complete sel e q a Hv Ht Ha (conj Hh Hp)). Qed.
Print Assumptions C14_single_entry_complete.

(* the default-port table read from authority.rs::default_port still says what the property assumes *)
Theorem C14_default_ports_wellknown :
  default_port (Some b#"http") = Some 80 /\ default_port (Some b#"ws") = Some 80 /\
  default_port (Some b#"https") = Some 443 /\ default_port (Some b#"wss") = Some 443 /\
  default_port None = None.
Proof. exact default_ports_wellknown. Qed.
Print Assumptions C14_default_ports_wellknown.

(* hosts are cut from a URI authority and never contain '/' (the router's leading-'/' strip is unreachable) *)
Theorem C14_host_without_slash : forall s a, parse_authority s = Some a -> ~ In x2f (a_host a).
Proof. exact parse_authority_host_no_slash. Qed.
Print Assumptions C14_host_without_slash.

(* "every other request is answered 403": a single authority that matches no configured entry is refused *)
Theorem C14_no_match_403 : forall sel al q a, valid_sel sel -> authority_of q = Some a ->
  (forall e, In e al -> ~ (host_matches (a_host e) (a_host a) /\ port_matches (a_port e) (a_port a))) ->
  decide_with sel (Some al) q = Reject403.
Proof. exact decide_no_match_403. Qed.
Print Assumptions C14_no_match_403.

(* with the filter on, the three answers partition the requests *)
Theorem C14_trichotomy : forall sel al q, valid_sel sel ->
  (decide_with sel (Some al) q = Reject400 /\ authority_of q = None)
  \/ (decide_with sel (Some al) q = Reject403 /\ exists a, authority_of q = Some a)
  \/ (decide_with sel (Some al) q = Forward /\ exists a e, authority_of q = Some a /\ In e al /\
       host_matches (a_host e) (a_host a) /\ port_matches (a_port e) (a_port a)).
Proof. exact decide_trichotomy. Qed.
Print Assumptions C14_trichotomy.

(* filter switched off (HostFilterLayer::disable): exactly the requests with a single authority are passed on *)
Theorem C14_disabled_forwards : forall sel q, decide_with sel None q = Forward <-> authority_of q <> None.
Proof. exact decide_disabled. Qed.
Print Assumptions C14_disabled_forwards.

(* ---------------------------------------------------------------- non-vacuity witnesses *)
Definition rq (host : bytes) (target_authority : bytes) : request := {| q_hosts := [host]; q_uri_auth := target_authority |}.

Example C14_spec_nonvacuous :
  host_matches b#"*.web3.site" b#"parity.web3.site" /\ host_matches b#"*.web3.site" b#"a.b.web3.site"
  /\ ~ host_matches b#"*.web3.site" b#"web3.site" /\ ~ host_matches b#"parity.io" b#"Parity.io"
  /\ host_matches b#"[1.:x]" b#"[1.zz.z]" /\ host_matches b#"a..b" b#"a..b" /\ ~ host_matches b#"a.*" b#"a.".
Proof.
  repeat split; try (apply host_matches_run; vm_compute; discriminate);
    (intro H; apply host_matches_run in H; vm_compute in H; apply H; reflexivity).
Qed.

Example C14_admits_nonvacuous :
  decide (parse_all [b#"*.web3.site:*"; b#"https://parity.io:443"]) (rq b#"parity.io" []) = Forward
  /\ decide (parse_all [b#"*.web3.site:*"; b#"https://parity.io:443"]) (rq b#"x.web3.site:8180" b#"x.web3.site:8180") = Forward
  /\ decide (parse_all [b#"parity.io"]) (rq b#"parity.io:80" []) = Reject403
  /\ decide (parse_all [b#"parity.io"]) (rq b#"u:pw@h" []) = Reject400
  /\ decide (parse_all [b#"parity.io"]) (rq b#"parity.io:9999" b#"parity.io") = Reject400
  /\ decide (parse_all [b#"parity.io"]) (rq b#"bad host" b#"parity.io") = Forward.
Proof. vm_compute. repeat split; reflexivity. Qed.

(* why completeness is claimed for a single entry only: `*x.com` and `*y.com` share one route end state, the later
   insertion replaces the port list, and `q.com:1` -- which matches the first entry -- is refused *)
Example C14_shadowed_entry_witness :
  exists al q a e, parse_all [b#"*x.com:1"; b#"*y.com:2"] = Some al /\ authority_of q = Some a /\ In e al
    /\ host_matches (a_host e) (a_host a) /\ port_matches (a_port e) (a_port a) /\ decide (Some al) q = Reject403.
Proof.
  eexists. exists (rq b#"q.com:1" []). eexists. exists {| a_host := b#"*x.com"; a_port := PFixed 1 |}.
  split; [vm_compute; reflexivity|]. split; [vm_compute; reflexivity|]. split; [left; reflexivity|].
  split; [apply host_matches_run; vm_compute; discriminate|]. split; [right; reflexivity | vm_compute; reflexivity].
Qed.

(* the 403 clause is not vacuous: an empty allow-list, and a host that matches no entry *)
Example C14_no_match_nonvacuous :
  decide (Some []) (rq b#"parity.io" []) = Reject403
  /\ decide (parse_all [b#"*.web3.site:*"]) (rq b#"web3.site" []) = Reject403
  /\ decide None (rq b#"anything:1" []) = Forward /\ decide None (rq b#"u:pw@h" []) = Reject400.
Proof. vm_compute. repeat split; reflexivity. Qed.
