(* C15 -- property theorems only.  Each is closed by `exact <lemma>`; statements are pinned in tools/pinned/C15.statements. *)
From Coq Require Import ZArith List.
From JV Require Import Gen.ErrorCodesGen Proofs.ErrorCodeFacts.
From JV Require Import Base.Bytes Base.Dec Base.Utf8 Json.Json Json.JsonSer Json.JsonParse Json.JsonWf Model.Wire.
From JV Require Import Proofs.JsonFacts Proofs.WireFacts.
Import ListNotations.
Local Open Scope Z_scope.

Theorem C15_code_kind_code : forall c : Z, code_of_kind (kind_of_code c) = c.
Proof. exact code_kind_code. Qed.
Print Assumptions C15_code_kind_code.

Theorem C15_kind_code_kind : forall k : kind, canonical k -> kind_of_code (code_of_kind k) = k.
Proof. exact kind_code_kind. Qed.
Print Assumptions C15_kind_code_kind.

Theorem C15_every_defined_kind_is_canonical : forall k : kind, match k with KServerError _ => True | _ => canonical k end.
Proof. exact named_kinds_complete. Qed.
Print Assumptions C15_every_defined_kind_is_canonical.

Example C15_canonical_nonvacuous : canonical KServerIsBusy /\ canonical (KServerError 7) /\ ~ canonical (KServerError (-32700)).
Proof. cbn. repeat split; try tauto; intro H; repeat (destruct H as [H | H]; [discriminate H |]); try exact H; apply H; tauto. Qed.

(* ================= wire types (Model/Wire.v; proofs in Proofs/WireFacts.v) =================
   wf_id i        : Id::Number fits u64, Id::Str is UTF-8
   raw_payload t  : t is one complete JSON value (raw_ok), UTF-8, without leading whitespace -- what a Box<RawValue> holds
   nonnull t      : t is not the text `null` (Option<RawValue> reads `null` back as None) *)

Theorem C15_raw_payload_ser : forall v : json, wf v = true -> raw_payload (ser v).
Proof. exact raw_payload_ser. Qed.
Print Assumptions C15_raw_payload_ser.

Example C15_raw_payload_nonvacuous :
  raw_payload b#"{""a"":[1,true,null,""x\\y""]}" /\ nonnull b#"{""a"":[1,true,null,""x\\y""]}" /\
  raw_payload b#"null" /\ ~ nonnull b#"null" /\ ~ raw_payload b#" 1".
Proof. exact raw_payload_nonvacuous. Qed.

Theorem C15_id_roundtrip : forall i : id, wf_id i -> parse_id (ser_id i) = Some i.
Proof. exact id_roundtrip. Qed.
Print Assumptions C15_id_roundtrip.

Example C15_id_roundtrip_nonvacuous :
  wf_id (IdNum 18446744073709551615) /\ wf_id (IdStr [x61; x22; xc3; xa9; x0a]) /\ wf_id IdNull /\
  ser_id (IdStr [x61; x22; xc3; xa9; x0a]) = [x22; x61; x5c; x22; xc3; xa9; x5c; x6e; x22] /\
  parse_id (ser_id (IdNum 18446744073709551616)) = None /\ parse_id (ser_id (IdStr [xff])) = None.
Proof. exact id_roundtrip_nonvacuous. Qed.

Theorem C15_subid_roundtrip : forall i : subid, wf_subid i -> parse_subid (ser_subid i) = Some i.
Proof. exact subid_roundtrip. Qed.
Print Assumptions C15_subid_roundtrip.

Example C15_subid_roundtrip_nonvacuous :
  wf_subid (SubNum 0) /\ wf_subid (SubStr b#"0xcafe") /\ ser_subid (SubStr b#"0xcafe") = b#"""0xcafe""".
Proof. exact subid_roundtrip_nonvacuous. Qed.

Theorem C15_errorobject_roundtrip : forall e : errobj,
  -2147483648 <= e_code e < 2147483648 -> utf8_valid (e_message e) = true ->
  match e_data e with Some d => raw_payload d /\ nonnull d | None => True end ->
  parse_errobj (ser_errobj e) = Some e.
Proof. exact errobj_roundtrip. Qed.
Print Assumptions C15_errorobject_roundtrip.

Example C15_errorobject_roundtrip_nonvacuous :
  -2147483648 <= e_code ex_err < 2147483648 /\ utf8_valid (e_message ex_err) = true /\
  match e_data ex_err with Some d => raw_payload d /\ nonnull d | None => True end /\
  ser_errobj ex_err = b#"{""code"":-32602,""message"":""Invalid \""params\"""",""data"":{""a"":[1,true,null,""x\\y""]}}".
Proof. exact errobj_roundtrip_nonvacuous. Qed.

(* data = Some "null" satisfies everything but `nonnull` and does not round-trip (it reads back as None) *)
Theorem C15_errorobject_data_null_refuted :
  exists e : errobj, -2147483648 <= e_code e < 2147483648 /\ utf8_valid (e_message e) = true /\
    match e_data e with Some d => raw_payload d | None => True end /\
    parse_errobj (ser_errobj e) <> Some e.
Proof. exact errobj_data_null_refuted. Qed.
Print Assumptions C15_errorobject_data_null_refuted.

Theorem C15_request_roundtrip : forall r : request,
  wf_id (rq_id r) -> utf8_valid (rq_method r) = true ->
  match rq_params r with Some p => raw_payload p /\ nonnull p | None => True end ->
  parse_request (ser_request r) = Some r.
Proof. exact request_roundtrip. Qed.
Print Assumptions C15_request_roundtrip.

Example C15_request_roundtrip_nonvacuous :
  wf_id (rq_id ex_req) /\ utf8_valid (rq_method ex_req) = true /\
  match rq_params ex_req with Some p => raw_payload p /\ nonnull p | None => True end /\
  ser_request ex_req = b#"{""jsonrpc"":""2.0"",""id"":""id-7"",""method"":""say_hello"",""params"":[-5,""two"",{}]}".
Proof. exact request_roundtrip_nonvacuous. Qed.

Theorem C15_notification_roundtrip : forall (me : bytes) (p : option bytes),
  utf8_valid me = true ->
  match p with Some p' => raw_payload p' /\ nonnull p' | None => True end ->
  parse_notification (ser_notification me p) = Some (me, p).
Proof. exact notification_roundtrip. Qed.
Print Assumptions C15_notification_roundtrip.

Example C15_notification_roundtrip_nonvacuous :
  utf8_valid b#"tick" = true /\ (raw_payload b#"[-5,""two"",{}]" /\ nonnull b#"[-5,""two"",{}]") /\
  ser_notification b#"tick" (Some b#"[-5,""two"",{}]") = b#"{""jsonrpc"":""2.0"",""method"":""tick"",""params"":[-5,""two"",{}]}" /\
  ser_notification b#"tick" None = b#"{""jsonrpc"":""2.0"",""method"":""tick"",""params"":null}".
Proof. exact notification_roundtrip_nonvacuous. Qed.

Theorem C15_response_roundtrip : forall r : response,
  wf_id (rs_id r) ->
  match rs_payload r with
  | PResult raw => raw_payload raw
  | PError e =>
    -2147483648 <= e_code e < 2147483648 /\ utf8_valid (e_message e) = true /\
    match e_data e with Some d => raw_payload d /\ nonnull d | None => True end
  end ->
  parse_response (ser_response r) = Some r.
Proof. exact response_roundtrip. Qed.
Print Assumptions C15_response_roundtrip.

Example C15_response_roundtrip_nonvacuous :
  (wf_id (rs_id ex_resp_ok) /\ wf_payload (rs_payload ex_resp_ok)) /\
  (wf_id (rs_id ex_resp_err) /\ wf_payload (rs_payload ex_resp_err)) /\
  (wf_id (rs_id ex_resp_bare) /\ wf_payload (rs_payload ex_resp_bare)) /\
  ser_response ex_resp_ok = b#"{""jsonrpc"":""2.0"",""id"":42,""result"":null}" /\
  ser_response ex_resp_err =
    b#"{""jsonrpc"":""2.0"",""id"":null,""error"":{""code"":-32602,""message"":""Invalid \""params\"""",""data"":{""a"":[1,true,null,""x\\y""]}}}" /\
  ser_response ex_resp_bare = b#"{""id"":""a"",""result"":[-5,""two"",{}]}".
Proof. exact response_roundtrip_nonvacuous. Qed.

Theorem C15_response_reser_same_bytes : forall r : response,
  wf_id (rs_id r) ->
  match rs_payload r with
  | PResult raw => raw_payload raw
  | PError e =>
    -2147483648 <= e_code e < 2147483648 /\ utf8_valid (e_message e) = true /\
    match e_data e with Some d => raw_payload d /\ nonnull d | None => True end
  end ->
  option_map ser_response (parse_response (ser_response r)) = Some (ser_response r).
Proof. exact response_reser_same_bytes. Qed.
Print Assumptions C15_response_reser_same_bytes.

Theorem C15_request_reser_same_bytes : forall r : request,
  wf_id (rq_id r) -> utf8_valid (rq_method r) = true ->
  match rq_params r with Some p => raw_payload p /\ nonnull p | None => True end ->
  option_map ser_request (parse_request (ser_request r)) = Some (ser_request r).
Proof. exact request_reser_same_bytes. Qed.
Print Assumptions C15_request_reser_same_bytes.

Theorem C15_emitted_response_valid : forall r : response,
  wf_id (rs_id r) ->
  match rs_payload r with
  | PResult raw => raw_payload raw
  | PError e =>
    -2147483648 <= e_code e < 2147483648 /\ utf8_valid (e_message e) = true /\
    match e_data e with Some d => raw_payload d /\ nonnull d | None => True end
  end ->
  rs_jsonrpc r = true ->
  exists m, object_members (ser_response r) = Some m /\
    field_of k_jsonrpc m = FOne (ser_str v_two) /\ is_two (ser_str v_two) = true /\
    field_of k_id m = FOne (ser_id (rs_id r)) /\ parse_id (ser_id (rs_id r)) = Some (rs_id r) /\
    match rs_payload r with
    | PResult raw => field_of k_result m = FOne raw /\ field_of k_error m = FAbsent
    | PError e => field_of k_error m = FOne (ser_errobj e) /\ field_of k_result m = FAbsent /\
                  parse_errobj (ser_errobj e) = Some e
    end.
Proof. exact emitted_response_valid. Qed.
Print Assumptions C15_emitted_response_valid.

(* an emitted response is one complete UTF-8 JSON value *)
Theorem C15_emitted_response_is_json : forall r : response,
  wf_id (rs_id r) ->
  match rs_payload r with
  | PResult raw => raw_payload raw
  | PError e =>
    -2147483648 <= e_code e < 2147483648 /\ utf8_valid (e_message e) = true /\
    match e_data e with Some d => raw_payload d /\ nonnull d | None => True end
  end ->
  raw_payload (ser_response r).
Proof. exact emitted_response_is_json. Qed.
Print Assumptions C15_emitted_response_is_json.

Theorem C15_response_accept_iff : forall m : members,
  parse_response_members m <> None <->
  (exists i, field_of k_id m = FOne i /\ parse_id i <> None) /\
  (field_of k_jsonrpc m = FAbsent \/
   exists s, field_of k_jsonrpc m = FOne s /\ (is_null_span s = true \/ is_two s = true)) /\
  ((exists r, field_of k_result m = FOne r /\ utf8_valid r = true /\ field_of k_error m = FAbsent) \/
   (exists e, field_of k_error m = FOne e /\ parse_errobj e <> None /\ field_of k_result m = FAbsent)).
Proof. exact response_accept_iff. Qed.
Print Assumptions C15_response_accept_iff.

Theorem C15_response_text_accept_iff : forall t : bytes,
  parse_response t <> None <-> exists m, object_members t = Some m /\ parse_response_members m <> None.
Proof. exact response_text_accept_iff. Qed.
Print Assumptions C15_response_text_accept_iff.

Theorem C15_unknown_members_ignored : forall (m1 : members) (k v : bytes) (m2 : members),
  ~ In k [k_jsonrpc; k_id; k_result; k_error] ->
  parse_response_members (m1 ++ (k, v) :: m2) = parse_response_members (m1 ++ m2).
Proof. exact unknown_members_ignored. Qed.
Print Assumptions C15_unknown_members_ignored.

Theorem C15_response_dup_rejected : forall (m : members) (k : bytes),
  In k [k_jsonrpc; k_id; k_result; k_error] -> field_of k m = FDup -> parse_response_members m = None.
Proof. exact response_dup_rejected. Qed.
Print Assumptions C15_response_dup_rejected.

Example C15_response_accept_nonvacuous :
  parse_response b#"{ ""result"" : 2, ""x"":[], ""jsonrpc"":null, ""id"":1 }" <> None /\
  parse_response b#"{""id"":1,""error"":{""message"":""m"",""code"":-1}}" <> None /\
  parse_response b#"{""id"":1,""id"":1,""result"":2}" = None /\
  parse_response b#"{""id"":1,""result"":2,""error"":{""code"":-1,""message"":""m""}}" = None /\
  parse_response b#"{""jsonrpc"":""1.0"",""id"":1,""result"":2}" = None /\
  parse_response b#"{""jsonrpc"":""2.0"",""result"":2}" = None /\
  parse_response b#"{""id"":1.5,""result"":2}" = None /\
  parse_response b#"{""id"":1,""error"":{""code"":-1,""message"":""m"",""extra"":0}}" = None.
Proof. exact response_accept_nonvacuous. Qed.

Theorem C15_sub_notif_roundtrip : forall (me : bytes) (sid : subid) (is_err : bool) (raw : bytes),
  utf8_valid me = true -> wf_subid sid -> raw_payload raw ->
  parse_sub_notif (if is_err then k_error else k_result) (ser_sub_notif me sid is_err raw) = Some (me, sid, raw).
Proof. exact sub_notif_roundtrip. Qed.
Print Assumptions C15_sub_notif_roundtrip.

Theorem C15_sub_notif_kind_distinguished : forall (me : bytes) (sid : subid) (is_err : bool) (raw : bytes),
  utf8_valid me = true -> wf_subid sid -> raw_payload raw ->
  parse_sub_notif (if is_err then k_result else k_error) (ser_sub_notif me sid is_err raw) = None.
Proof. exact sub_notif_kind_distinguished. Qed.
Print Assumptions C15_sub_notif_kind_distinguished.

Example C15_sub_notif_roundtrip_nonvacuous :
  utf8_valid b#"sub" = true /\ wf_subid (SubStr b#"0xcafe") /\ raw_payload b#"[-5,""two"",{}]" /\
  ser_sub_notif b#"sub" (SubStr b#"0xcafe") false b#"[-5,""two"",{}]" =
    b#"{""jsonrpc"":""2.0"",""method"":""sub"",""params"":{""subscription"":""0xcafe"",""result"":[-5,""two"",{}]}}".
Proof. exact sub_notif_roundtrip_nonvacuous. Qed.

(* ================= sequence forms of the derived structs (serde visit_seq; Model/Wire.v de_struct) =================
   ser_array ts   : the text `[t1,t2,...]` assembled from element texts (Proofs/WireFacts.v), as ser_object for members
   span_ok t      : t is one complete JSON value without leading whitespace (no UTF-8 requirement)
   array_elems t  : the element spans of a top-level array text (Vec<&RawValue>) *)

(* [code,"message",data-or-null] is read as the same error object as the object form the library writes *)
Theorem C15_seq_form_errobj : forall e : errobj,
  -2147483648 <= e_code e < 2147483648 -> utf8_valid (e_message e) = true ->
  match e_data e with Some d => raw_payload d /\ nonnull d | None => True end ->
  parse_errobj (ser_array [print_Z (e_code e); ser_str (e_message e); match e_data e with Some d => d | None => b#"null" end])
    = Some e /\
  parse_errobj (ser_array [print_Z (e_code e); ser_str (e_message e); match e_data e with Some d => d | None => b#"null" end])
    = parse_errobj (ser_errobj e).
Proof. exact seq_form_errobj. Qed.
Print Assumptions C15_seq_form_errobj.

(* the same for ALL field texts, valid or not: the array [c,m,d] is read exactly as {"code":c,"message":m,"data":d} *)
Theorem C15_seq_form_errobj_fields : forall c m d : bytes, span_ok c -> span_ok m -> span_ok d ->
  parse_errobj (ser_array [c; m; d]) = parse_errobj (ser_object [(k_code, c); (k_message, m); (k_data, d)]).
Proof. exact seq_form_errobj_fields. Qed.
Print Assumptions C15_seq_form_errobj_fields.

(* an array text of any other length is rejected by every derived reader; an array is never a Response *)
Theorem C15_seq_form_exact_length : forall (t : bytes) (els : list bytes), array_elems t = Some els ->
  (length els <> 3%nat -> parse_errobj t = None) /\
  (length els <> 4%nat -> parse_request t = None) /\
  (length els <> 3%nat -> parse_notification t = None) /\
  (length els <> 1%nat -> parse_invalid t = None) /\
  (forall key, length els <> 2%nat -> parse_sub_payload key t = None) /\
  (forall key, length els <> 3%nat -> parse_sub_notif key t = None) /\
  parse_response t = None.
Proof. exact seq_form_exact_length. Qed.
Print Assumptions C15_seq_form_exact_length.

(* at the right length the fields are taken by position (seq_errobj / seq_request / seq_notification in Model/Wire.v) *)
Theorem C15_seq_form_positional : forall t : bytes,
  (forall c m d, array_elems t = Some [c; m; d] -> parse_errobj t = seq_errobj [c; m; d]) /\
  (forall j i me p, array_elems t = Some [j; i; me; p] -> parse_request t = seq_request [j; i; me; p]) /\
  (forall j me p, array_elems t = Some [j; me; p] -> parse_notification t = seq_notification [j; me; p]) /\
  (forall i, array_elems t = Some [i] -> parse_invalid t = parse_id i).
Proof. exact seq_form_positional. Qed.
Print Assumptions C15_seq_form_positional.

Theorem C15_seq_form_request : forall r : request,
  wf_id (rq_id r) -> utf8_valid (rq_method r) = true ->
  match rq_params r with Some p => raw_payload p /\ nonnull p | None => True end ->
  parse_request (ser_array [ser_str v_two; ser_id (rq_id r); ser_str (rq_method r);
                            match rq_params r with Some p => p | None => b#"null" end]) = Some r.
Proof. exact seq_form_request. Qed.
Print Assumptions C15_seq_form_request.

Theorem C15_seq_form_notification : forall (me : bytes) (p : option bytes),
  utf8_valid me = true ->
  match p with Some p' => raw_payload p' /\ nonnull p' | None => True end ->
  parse_notification (ser_array [ser_str v_two; ser_str me; match p with Some p' => p' | None => b#"null" end]) = Some (me, p).
Proof. exact seq_form_notification. Qed.
Print Assumptions C15_seq_form_notification.

(* a subscription notification with the sequence form at either or both levels (Notification = [jsonrpc,method,params],
   SubscriptionPayload = [subscription,result] / SubscriptionPayloadError = [subscription,error]) is read as the same
   (method, subscription id, payload) as the object form the library writes *)
Theorem C15_seq_form_sub_notif : forall (me : bytes) (sid : subid) (is_err : bool) (raw : bytes),
  utf8_valid me = true -> wf_subid sid -> raw_payload raw ->
  let key := if is_err then k_error else k_result in
  let pay_obj := ser_object [(k_subscription, ser_subid sid); (key, raw)] in
  let pay_seq := ser_array [ser_subid sid; raw] in
  let outer_obj := fun p => ser_object [(k_jsonrpc, ser_str v_two); (k_method, ser_str me); (k_params, p)] in
  let outer_seq := fun p => ser_array [ser_str v_two; ser_str me; p] in
  outer_obj pay_obj = ser_sub_notif me sid is_err raw /\
  parse_sub_notif key (outer_obj pay_obj) = Some (me, sid, raw) /\
  parse_sub_notif key (outer_obj pay_seq) = Some (me, sid, raw) /\
  parse_sub_notif key (outer_seq pay_obj) = Some (me, sid, raw) /\
  parse_sub_notif key (outer_seq pay_seq) = Some (me, sid, raw).
Proof. exact seq_form_sub_notif. Qed.
Print Assumptions C15_seq_form_sub_notif.

(* with the PAYLOAD in sequence form the member name is gone: the same text is accepted under either key, i.e. by the
   SubscriptionResponse reader and by the SubscriptionError reader alike (contrast C15_sub_notif_kind_distinguished;
   the client tries SubscriptionResponse first, so such a frame is always an item, never a close) *)
Theorem C15_seq_form_sub_kind_lost : forall (me : bytes) (sid : subid) (raw key1 key2 : bytes),
  utf8_valid me = true -> wf_subid sid -> raw_payload raw ->
  let t := ser_object [(k_jsonrpc, ser_str v_two); (k_method, ser_str me); (k_params, ser_array [ser_subid sid; raw])] in
  parse_sub_notif key1 t = Some (me, sid, raw) /\ parse_sub_notif key2 t = Some (me, sid, raw).
Proof. exact seq_form_sub_kind_lost. Qed.
Print Assumptions C15_seq_form_sub_kind_lost.

(* the concrete frames measured on the compiled client *)
Example C15_seq_form_errobj_example :
  parse_errobj b#"[-32000,""boom"",null]" = Some {| e_code := -32000; e_message := b#"boom"; e_data := None |} /\
  parse_errobj b#" [ -32000 , ""boom"" , {""a"":1} ] " = Some {| e_code := -32000; e_message := b#"boom"; e_data := Some b#"{""a"":1}" |} /\
  parse_response b#"{""jsonrpc"":""2.0"",""id"":0,""error"":[-32000,""boom"",null]}" =
    Some {| rs_jsonrpc := true; rs_payload := PError {| e_code := -32000; e_message := b#"boom"; e_data := None |}; rs_id := IdNum 0 |} /\
  ser_array [print_Z (-32000); ser_str b#"boom"; b#"null"] = b#"[-32000,""boom"",null]".
Proof. repeat split; vm_compute; reflexivity. Qed.

Example C15_seq_form_exact_length_example :
  parse_errobj b#"[-32000,""boom""]" = None /\ parse_errobj b#"[-32000,""boom"",null,1]" = None /\
  parse_errobj b#"[]" = None /\
  parse_response b#"{""jsonrpc"":""2.0"",""id"":0,""error"":[-32000,""boom""]}" = None /\
  parse_request b#"[""2.0"",5,""echo""]" = None /\ parse_request b#"[""2.0"",5,""echo"",[1],null]" = None /\
  parse_notification b#"[""2.0"",""alpha""]" = None /\ parse_notification b#"[""2.0"",""alpha"",[7],1]" = None /\
  parse_invalid b#"[]" = None /\ parse_invalid b#"[1,2]" = None /\
  parse_sub_notif k_result b#"{""jsonrpc"":""2.0"",""method"":""ev1"",""params"":[1]}" = None /\
  parse_sub_notif k_result b#"{""jsonrpc"":""2.0"",""method"":""ev1"",""params"":[1,5,6]}" = None /\
  parse_response b#"[""2.0"",5,1]" = None.
Proof. repeat split; vm_compute; reflexivity. Qed.

Example C15_seq_form_sub_notif_example :
  parse_sub_notif k_result b#"{""jsonrpc"":""2.0"",""method"":""ev1"",""params"":[1,5]}" = Some (b#"ev1", SubNum 1, b#"5") /\
  parse_sub_notif k_result b#"[""2.0"",""ev1"",{""subscription"":1,""result"":5}]" = Some (b#"ev1", SubNum 1, b#"5") /\
  parse_sub_notif k_result b#"[""2.0"",""ev1"",[1,5]]" = Some (b#"ev1", SubNum 1, b#"5") /\
  parse_sub_notif k_error b#"{""jsonrpc"":""2.0"",""method"":""ev1"",""params"":[1,5]}" = Some (b#"ev1", SubNum 1, b#"5") /\
  parse_sub_notif k_error b#"[""2.0"",""ev1"",{""subscription"":1,""result"":5}]" = None /\
  (* the array frame `[["2.0","ev1",{"subscription":1,"result":5}]]`: one element, a Notification in sequence form *)
  array_elems b#"[[""2.0"",""ev1"",{""subscription"":1,""result"":5}]]" = Some [b#"[""2.0"",""ev1"",{""subscription"":1,""result"":5}]"] /\
  (* `[["2.0","alpha",[7]]]`: a method notification `alpha` with params [7] *)
  array_elems b#"[[""2.0"",""alpha"",[7]]]" = Some [b#"[""2.0"",""alpha"",[7]]"] /\
  parse_notification b#"[""2.0"",""alpha"",[7]]" = Some (b#"alpha", Some b#"[7]") /\
  parse_notification b#"[""2.0"",""alpha"",null]" = Some (b#"alpha", None) /\
  parse_request b#"[""2.0"",5,""echo"",[1]]" = Some {| rq_id := IdNum 5; rq_method := b#"echo"; rq_params := Some b#"[1]" |} /\
  parse_invalid b#"[null]" = Some IdNull.
Proof. repeat split; vm_compute; reflexivity. Qed.
