(* C15 -- property theorems only.  Each is closed by `exact <lemma>`; statements are pinned in tools/pinned/C15.statements. *)
From Coq Require Import ZArith List.
From JV Require Import Gen.ErrorCodesGen Proofs.ErrorCodeFacts.
Import ListNotations.
Local Open Scope Z_scope.

Theorem C15_code_kind_code : forall c : Z, code_of_kind (kind_of_code c) = c.
Proof. exact code_kind_code. Qed.
Print Assumptions C15_code_kind_code.

Theorem C15_kind_code_kind : forall k : kind, canonical k -> kind_of_code (code_of_kind k) = k.
Proof. exact kind_code_kind. Qed.
Print Assumptions C15_kind_code_kind.

Theorem C15_every_defined_kind_is_canonical : forall k : kind, match k with KServerError _ => True | _ => canonical k end.
Proof. exact named_kinds_complete. Qed.
Print Assumptions C15_every_defined_kind_is_canonical.

Example C15_canonical_nonvacuous : canonical KServerIsBusy /\ canonical (KServerError 7) /\ ~ canonical (KServerError (-32700)).
Proof. cbn. repeat split; try tauto; intro H; repeat (destruct H as [H | H]; [discriminate H |]); try exact H; apply H; tauto. Qed.
