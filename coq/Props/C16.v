(* C16 -- property theorems only.  Each is closed by `exact <lemma>`; statements are pinned in tools/pinned/C16.statements.
   Vocabulary (coq/Model/Params.v): `params_new` = Params::new, `read_seq p ops` = the results of the reads `ops`
   (ONext t = next::<t>, OOpt t = optional_next::<t>) on `p.sequence()`, `parse` / `one` = Params::parse / Params::one,
   `decode t j` = the value of Rust type t denoted by the JSON value j, `spec ops vs` = the same reads against the element
   list vs of a plain JSON parse (after a failed read nothing is left), `exhausted` = error for next, absent for optional_next.
   `parse_text` (coq/Json/JsonParse.v) is the plain JSON parse: serde_json::from_str::<Value>. *)
From Coq Require Import ZArith List.
From JV Require Import Base.Bytes Json.Json Json.JsonParse Model.Params Proofs.ParamsFacts.
Import ListNotations.

(* any JSON array text, any read script: every read yields the element at its position decoded at the requested type,
   or -32602 when the element does not have that type (and then nothing more), and reports exhaustion after the last *)
Theorem C16_typed_agrees : forall (raw : bytes) (vs : list json) (ops : list op), parse_text raw = Some (JArr vs) -> read_seq (params_new (Some raw)) ops = spec ops vs.
Proof. exact typed_agrees. Qed.
Print Assumptions C16_typed_agrees.

(* reading element by element yields exactly the elements of the plain parse, in order, then exhaustion *)
Theorem C16_sequence_agrees : forall (raw : bytes) (vs : list json) (tail : list op), parse_text raw = Some (JArr vs) -> read_seq (params_new (Some raw)) (repeat (ONext TValue) (length vs) ++ tail) = map (fun v => OVal (VValue v)) vs ++ map exhausted tail.
Proof. exact sequence_agrees. Qed.
Print Assumptions C16_sequence_agrees.

(* an optional read at a `null` element is absent and does not disturb the following elements *)
Theorem C16_optional_absent : forall (raw : bytes) (vs : list json) (i : nat) (t : ty) (rest : list op), parse_text raw = Some (JArr vs) -> nth_error vs i = Some JNull -> read_seq (params_new (Some raw)) (repeat (ONext TValue) i ++ OOpt t :: rest) = map (fun v => OVal (VValue v)) (firstn i vs) ++ OAbsent :: spec rest (skipn (S i) vs).
Proof. exact optional_absent_at_null. Qed.
Print Assumptions C16_optional_absent.

(* a JSON text that is not an array (object, scalar) handed to sequence(): every read is the -32602 error *)
Theorem C16_sequence_non_array : forall (raw : bytes) (j : json) (ops : list op), parse_text raw = Some j -> match j with JArr _ => False | _ => True end -> read_seq (params_new (Some raw)) ops = map (fun _ => OErr (-32602)%Z) ops.
Proof. exact non_array. Qed.
Print Assumptions C16_sequence_non_array.

Theorem C16_parse_agrees : forall (raw : bytes) (j : json) (t : ty), parse_text raw = Some j -> parse t (params_new (Some raw)) = match decode t j with Some v => OVal v | None => OErr (-32602)%Z end.
Proof. exact parse_agrees. Qed.
Print Assumptions C16_parse_agrees.

Theorem C16_one_agrees : forall (raw : bytes) (j : json) (t : ty), parse_text raw = Some j -> one t (params_new (Some raw)) = match j with JArr [x] => match decode t x with Some v => OVal v | None => OErr (-32602)%Z end | _ => OErr (-32602)%Z end.
Proof. exact one_agrees. Qed.
Print Assumptions C16_one_agrees.

(* a stored text that is not JSON: whole-value reads fail with -32602 *)
Theorem C16_parse_rejects_non_json : forall (raw : bytes) (t : ty), parse_text (rust_trim raw) = None -> parse t (params_new (Some raw)) = OErr (-32602)%Z /\ one t (params_new (Some raw)) = OErr (-32602)%Z.
Proof. exact parse_rejects. Qed.
Print Assumptions C16_parse_rejects_non_json.

(* absent params: parse sees `null`, the sequence is the empty array's *)
Theorem C16_absent_is_null_or_empty : forall (t : ty) (ops : list op), parse t (params_new None) = match decode t JNull with Some v => OVal v | None => OErr (-32602)%Z end /\ one t (params_new None) = OErr (-32602)%Z /\ read_seq (params_new None) ops = spec ops [].
Proof. exact absent_params. Qed.
Print Assumptions C16_absent_is_null_or_empty.

(* Params::new (Unicode trim) keeps a JSON text a JSON text with the same value; with C16_typed_agrees_stored the
   statements above also cover texts wrapped in Unicode white space that is not JSON white space *)
Theorem C16_new_keeps_json : forall (raw : bytes) (j : json), parse_text raw = Some j -> parse_text (rust_trim raw) = Some j.
Proof. exact new_keeps_json. Qed.
Print Assumptions C16_new_keeps_json.

Theorem C16_typed_agrees_stored : forall (raw : bytes) (vs : list json) (ops : list op), parse_text (rust_trim raw) = Some (JArr vs) -> read_seq (params_new (Some raw)) ops = spec ops vs.
Proof. exact typed_agrees_stored. Qed.
Print Assumptions C16_typed_agrees_stored.

(* every error of every function, in every state (also unreachable ones) and for every text, carries code -32602;
   the functions are total (Gallina), there is no panic outcome *)
Theorem C16_only_invalid_params : forall (p : params) (ops : list op) (s : bytes) (t : ty), Forall (fun o => match o with OErr c => c = (-32602)%Z | _ => True end) (read_seq p ops) /\ Forall (fun o => match o with OErr c => c = (-32602)%Z | _ => True end) (run ops s) /\ match parse t p with OErr c => c = (-32602)%Z | _ => True end /\ match one t p with OErr c => c = (-32602)%Z | _ => True end.
Proof. exact only_invalid_params. Qed.
Print Assumptions C16_only_invalid_params.

(* after a failed read (any params, JSON or not, any earlier reads) no later read yields an element *)
Theorem C16_error_sticky : forall (p : params) (pre : list op) (o : op) (post : list op), is_error (nth (length pre) (read_seq p (pre ++ o :: post)) OAbsent) = true -> Forall (fun r => is_value r = false) (skipn (S (length pre)) (read_seq p (pre ++ o :: post))).
Proof. exact error_sticky_list. Qed.
Print Assumptions C16_error_sticky.

(* the same from an arbitrary reader state *)
Theorem C16_error_sticky_state : forall (o : op) (s : bytes) (ops : list op), is_error (fst (step o s)) = true -> Forall (fun r => is_value r = false) (run ops (snd (step o s))).
Proof. exact error_sticky. Qed.
Print Assumptions C16_error_sticky_state.

(* ---------- non-vacuity witnesses ---------- *)

(* interior whitespace, a string holding "],[" , nesting, null, reads past the end *)
Example C16_witness_reads :
  let raw := b#" [ 1 ,""],["", [2,3] ,null , {""k"":[]} ]  " in
  parse_text raw = Some (JArr [JNum (NPos 1); JStr b#"],["; JArr [JNum (NPos 2); JNum (NPos 3)]; JNull; JObj [(b#"k", JArr [])]]) /\
  read_seq (params_new (Some raw)) [ONext TU64; OOpt TStr; ONext (TVec TU64); OOpt TBool; ONext TValue; OOpt TU64; ONext TU64] =
    [OVal (VU64 1); OVal (VStr b#"],["); OVal (VVec [VU64 2; VU64 3]); OAbsent; OVal (VValue (JObj [(b#"k", JArr [])])); OAbsent; OErr (-32602)%Z].
Proof. vm_compute. split; reflexivity. Qed.

(* `[ ]` and `[<newline>]` are empty arrays (the case repaired in next_inner) *)
Example C16_witness_ws_only_array :
  read_seq (params_new (Some b#"[ ]")) [OOpt TU64; ONext TU64] = [OAbsent; OErr (-32602)%Z] /\
  read_seq (params_new (Some [x5b; x0a; x5d])) [OOpt TU64] = [OAbsent].
Proof. vm_compute. split; reflexivity. Qed.

(* a type mismatch is -32602 and sticks: the 3 that follows is never handed out *)
Example C16_witness_sticky :
  read_seq (params_new (Some b#"[1,""x"",3]")) [ONext TU64; ONext TU64; ONext TU64; OOpt TU64] =
    [OVal (VU64 1); OErr (-32602)%Z; OErr (-32602)%Z; OAbsent].
Proof. vm_compute. reflexivity. Qed.

(* objects and scalars given to sequence(); parse / one; absent params; Unicode trimming (U+00A0 around the text) *)
Example C16_witness_shapes :
  read_seq (params_new (Some b#"{""a"":1}")) [ONext TValue; OOpt TValue] = [OErr (-32602)%Z; OErr (-32602)%Z] /\
  parse (TPair TU64 TStr) (params_new (Some b#" [7, ""s""] ")) = OVal (VPair (VU64 7) (VStr b#"s")) /\
  one TI64 (params_new (Some b#"[-5]")) = OVal (VI64 (-5)) /\
  one TI64 (params_new (Some b#"[1,2]")) = OErr (-32602)%Z /\
  parse (TOpt TU64) (params_new None) = OVal VNone /\
  parse TU64 (params_new None) = OErr (-32602)%Z /\
  read_seq (params_new (Some [xc2; xa0; x5b; x31; x5d; xc2; xa0])) [ONext TU64] = [OVal (VU64 1)] /\
  parse_text [xc2; xa0; x5b; x31; x5d; xc2; xa0] = None.
Proof. vm_compute. repeat split; reflexivity. Qed.
