(* C17 -- property theorems only.  Each is closed by `exact <lemma>`; statements are pinned in tools/pinned/C17.statements.
   Vocabulary (coq/Model/MacroApi.v, the code EMITTED by the rpc proc-macro as a function of an API description):
     ty / val / enc / dec   the Rust argument, result and item types, their values, and serde's value codec (parameters:
                            `enc t v` is the JSON value Serialize writes, `dec t j` what Deserialize reads; user types)
     val_ok t v             v round-trips at t: enc t v is well-formed JSON nested < 127 deep and dec t (enc t v) = Some v
     args_ok ps args        one argument per parameter; an Option parameter takes None or Some v with enc v <> null
     client_params k ps args        what the generated client method hands to request()/subscribe(): ArrayParams in declaration
                            order, ObjectParams under the (renamed) names for param_kind = map, nothing for no parameters
     server_decode ps p     the generated server closure on Params p: by name through the derived ParamsObject when p is an
                            object, else seq.next()/optional_next() per parameter; DOk tuple or DErr code
     args_json / args_members       the JSON values of the arguments (None = null), alone / with the wire names
     presents ps args ms    the member list ms gives every argument under one of its three keys (rename, snake_case,
                            lowerCamelCase), in any order, among members no parameter owns; absent optionals left out or null
     params_distinct ps     no two parameters share a wire name / snake_case alias / lowerCamelCase alias
     resolve a n            Methods::method(n) on the RpcModule built by the generated into_rpc (Model/Registry.v)
     registered_names a     every name into_rpc registers: namespaced method / subscribe / unsubscribe names, aliases as written
     stub_request / server_receive   the request text the stub sends; what the server does with a request text (RCall b args:
                            the trait method behind binding b runs with args)
     server_response / client_result / item_notification / client_item   the answer and subscription items on the wire *)
From Coq Require Import ZArith List.
From JV Require Import Base.Bytes Base.Utf8 Json.Json Json.JsonSer Json.JsonParse.
From JV Require Model.Params Model.Builder Model.Wire Model.Registry Proofs.WireFacts.
From JV Require Import Model.MacroApi Proofs.MacroApiFacts Gen.MacroApiGen Proofs.MacroApiFamilyFacts.
Import ListNotations.

(* what the stub encodes, the generated server closure decodes to the same tuple: both param kinds, every parameter list *)
Theorem C17_args_roundtrip : forall (ty val : Type) (enc : ty -> val -> json) (dec : ty -> json -> option val) (k : pkind) (ps : list (param ty)) (args : list (option val)), args_ok ty val enc dec ps args -> (k = PMap -> params_distinct ps = true /\ names_utf8 ty ps) -> exists p, client_params ty val enc k ps args = Builder.TOk p /\ server_decode ty val dec ps (Params.params_new p) = DOk args.
Proof. exact args_roundtrip. Qed.
Print Assumptions C17_args_roundtrip.

(* the text the stub puts on the wire is exactly the compact JSON array / object of the arguments *)
Theorem C17_client_params_text : forall (ty val : Type) (enc : ty -> val -> json) (dec : ty -> json -> option val) (ps : list (param ty)) (args : list (option val)), ps <> [] -> args_ok ty val enc dec ps args -> client_params ty val enc PArray ps args = Builder.TOk (Some (ser (JArr (args_json ty val enc ps args)))) /\ (names_utf8 ty ps -> client_params ty val enc PMap ps args = Builder.TOk (Some (ser (JObj (args_members ty val enc ps args))))).
Proof. exact client_params_text. Qed.
Print Assumptions C17_client_params_text.

(* positional calls however they are written: any whitespace, surplus elements are not read *)
Theorem C17_positional_any_text : forall (ty val : Type) (enc : ty -> val -> json) (dec : ty -> json -> option val) (ps : list (param ty)) (args : list (option val)) (raw : bytes) (extra : list json), args_ok ty val enc dec ps args -> parse_text raw = Some (JArr (args_json ty val enc ps args ++ extra)) -> server_decode ty val dec ps (Params.params_new (Some raw)) = DOk args.
Proof. exact positional_any_text. Qed.
Print Assumptions C17_positional_any_text.

(* trailing Option parameters passed (None goes as null), left out of the array, or no params at all: the same tuple *)
Theorem C17_optional_tail : forall (ty val : Type) (enc : ty -> val -> json) (dec : ty -> json -> option val) (pf : list (param ty)) (af : list (option val)) (pt : list (param ty)) (raw_full raw_short : bytes), args_ok ty val enc dec pf af -> Forall (fun p => p_opt p = true) pt -> parse_text raw_full = Some (JArr (args_json ty val enc (pf ++ pt) (af ++ repeat None (length pt)))) -> parse_text raw_short = Some (JArr (args_json ty val enc pf af)) -> server_decode ty val dec (pf ++ pt) (Params.params_new (Some raw_full)) = DOk (af ++ repeat None (length pt)) /\ server_decode ty val dec (pf ++ pt) (Params.params_new (Some raw_short)) = DOk (af ++ repeat None (length pt)) /\ (pf = [] -> server_decode ty val dec (pf ++ pt) (Params.params_new None) = DOk (af ++ repeat None (length pt))).
Proof. exact optional_tail. Qed.
Print Assumptions C17_optional_tail.

(* by-name calls however they are written: any of the three keys per parameter, any order, unknown members, absent
   optionals left out or null (no distinctness hypothesis: `presents` speaks about the field that owns each member) *)
Theorem C17_named_any_presentation : forall (ty val : Type) (enc : ty -> val -> json) (dec : ty -> json -> option val) (ps : list (param ty)) (args : list (option val)) (raw : bytes) (ms : list (bytes * json)), args_ok ty val enc dec ps args -> parse_text raw = Some (JObj ms) -> presents ty val enc ps args ms -> server_decode ty val dec ps (Params.params_new (Some raw)) = DOk args.
Proof. exact named_any_presentation. Qed.
Print Assumptions C17_named_any_presentation.

(* with distinct keys the object the stub builds presents its arguments *)
Theorem C17_canonical_presents : forall (ty val : Type) (enc : ty -> val -> json) (dec : ty -> json -> option val) (ps : list (param ty)) (args : list (option val)), params_distinct ps = true -> args_ok ty val enc dec ps args -> presents ty val enc ps args (args_members ty val enc ps args).
Proof. exact canonical_presents. Qed.
Print Assumptions C17_canonical_presents.

(* every declared name -- namespaced method, subscribe and unsubscribe names, aliases as written -- resolves to its own
   handler, and no other name resolves; hypothesis: the registered names are pairwise distinct (the macro rejects a clash) *)
Theorem C17_names_resolve : forall (ty : Type) (a : api ty), NoDup (registered_names a) -> (forall i m, nth_error (a_methods a) i = Some m -> resolve a (rpc_identifier a (m_name m)) = Some (method_binding i m) /\ (forall al, In al (m_aliases m) -> resolve a al = Some (method_binding i m))) /\ (forall j s, nth_error (a_subs a) j = Some s -> resolve a (rpc_identifier a (s_name s)) = Some (sub_binding a j) /\ resolve a (rpc_identifier a (unsub_name s)) = Some (unsub_binding a j) /\ (forall al, In al (s_aliases s) -> resolve a al = Some (sub_binding a j)) /\ (forall al, In al (s_unsub_aliases s) -> resolve a al = Some (unsub_binding a j))) /\ (forall n, ~ In n (registered_names a) -> resolve a n = None).
Proof. exact names_resolve. Qed.
Print Assumptions C17_names_resolve.

(* the table into_rpc builds is exactly the declared one, in registration order *)
Theorem C17_registry_expected : forall (ty : Type) (a : api ty), NoDup (registered_names a) -> registry a = expected_table a.
Proof. exact registry_expected. Qed.
Print Assumptions C17_registry_expected.

(* the value / the error object the trait method returned is what the stub's future resolves to *)
Theorem C17_result_passthrough : forall (ty val : Type) (enc : ty -> val -> json) (dec : ty -> json -> option val) (i : Wire.id) (rt : ty) (v : val), WireFacts.wf_id i -> val_ok ty val enc dec rt v -> client_result ty val dec rt (server_response ty val enc i rt (HOk v)) = Some (i, COk v).
Proof. exact result_passthrough. Qed.
Print Assumptions C17_result_passthrough.

Theorem C17_error_passthrough : forall (ty val : Type) (enc : ty -> val -> json) (dec : ty -> json -> option val) (i : Wire.id) (rt : ty) (e : Wire.errobj), WireFacts.wf_id i -> WireFacts.wf_errobj e -> client_result ty val dec rt (server_response ty val enc i rt (HErr e)) = Some (i, CErr e).
Proof. exact error_passthrough. Qed.
Print Assumptions C17_error_passthrough.

(* a subscription item sent by the trait method is the item the client's stream yields, typed at the item type *)
Theorem C17_item_passthrough : forall (ty val : Type) (enc : ty -> val -> json) (dec : ty -> json -> option val) (name : bytes) (sid : Wire.subid) (it : ty) (v : val), utf8_valid name = true -> WireFacts.wf_subid sid -> val_ok ty val enc dec it v -> client_item ty val dec it (item_notification ty val enc name sid it v) = Some (name, sid, Some v).
Proof. exact item_passthrough. Qed.
Print Assumptions C17_item_passthrough.

(* end to end: the request the generated client method sends makes the trait method of that name run with equal arguments *)
Theorem C17_stub_call_reaches_method : forall (ty val : Type) (enc : ty -> val -> json) (dec : ty -> json -> option val) (a : api ty) (i : nat) (m : method ty) (id : Wire.id) (args : list (option val)), NoDup (registered_names a) -> nth_error (a_methods a) i = Some m -> WireFacts.wf_id id -> utf8_valid (rpc_identifier a (m_name m)) = true -> args_ok ty val enc dec (m_params m) args -> (m_pkind m = PMap -> params_distinct (m_params m) = true /\ names_utf8 ty (m_params m)) -> exists text, stub_request ty val enc id (rpc_identifier a (m_name m)) (m_pkind m) (m_params m) args = Some text /\ server_receive ty val dec a text = RCall (method_binding i m) args.
Proof. exact stub_call_reaches_method. Qed.
Print Assumptions C17_stub_call_reaches_method.

Theorem C17_stub_call_reaches_subscription : forall (ty val : Type) (enc : ty -> val -> json) (dec : ty -> json -> option val) (a : api ty) (j : nat) (s : subscription ty) (id : Wire.id) (args : list (option val)), NoDup (registered_names a) -> nth_error (a_subs a) j = Some s -> WireFacts.wf_id id -> utf8_valid (rpc_identifier a (s_name s)) = true -> args_ok ty val enc dec (s_params s) args -> (s_pkind s = PMap -> params_distinct (s_params s) = true /\ names_utf8 ty (s_params s)) -> exists text, stub_request ty val enc id (rpc_identifier a (s_name s)) (s_pkind s) (s_params s) args = Some text /\ server_receive ty val dec a text = RCall (sub_binding a j) args.
Proof. exact stub_call_reaches_subscription. Qed.
Print Assumptions C17_stub_call_reaches_subscription.

(* the hypotheses are needed: colliding keys (a_b / aB) make the stub's own by-name call fail with -32602 ... *)
Theorem C17_collision_refuted : exists (ps : list (param jty)) (args : list (option json)) (t : bytes), args_ok jty json jenc jdec ps args /\ names_utf8 jty ps /\ params_distinct ps = false /\ client_params jty json jenc PMap ps args = Builder.TOk (Some t) /\ server_decode jty json jdec ps (Params.params_new (Some t)) = DErr (-32602)%Z.
Proof. exact collision_refuted. Qed.
Print Assumptions C17_collision_refuted.

(* ... and an Option parameter whose payload serialises to null (Option<Option<u8>>: Some(None)) arrives as None *)
Theorem C17_null_payload_refuted : exists (ps : list (param jty)) (v : json) (t : bytes), ps = [Param b#"a" None true (TyOption (TyUInt 255))] /\ val_ok jty json jenc jdec (TyOption (TyUInt 255)) v /\ client_params jty json jenc PArray ps [Some v] = Builder.TOk (Some t) /\ server_decode jty json jdec ps (Params.params_new (Some t)) = DOk [None].
Proof. exact null_payload_refuted. Qed.
Print Assumptions C17_null_payload_refuted.

(* the compiled family, by name: Gen.MacroApiGen.family_keys lists per API, trait function and parameter the member key the
   generated CLIENT writes and the keys the generated SERVER accepts, each derived by the translator with the rule it reads
   from its own proc-macro source (render_client.rs / render_server.rs).  For every function of every API: the client's key is
   the model's p_name, the server's keys are the model's keys_of, the client's key is one of the server's keys, and no key is
   accepted for two parameters (except in the labelled negative example collide(a_b, aB)) *)
Theorem C17_by_name_keys_agree : Forall2 (fun (a : japi) (ks : list (list (bytes * list bytes))) => Forall2 (fun (ps : list (param jty)) (kps : list (bytes * list bytes)) => Forall2 (fun (p : param jty) (kp : bytes * list bytes) => fst kp = p_name p /\ snd kp = keys_of p /\ In (fst kp) (snd kp)) ps kps /\ (map p_name ps = [b#"a_b"; b#"aB"] \/ keys_disjoint (map snd kps))) (item_params a) ks) family family_keys.
Proof. exact by_name_keys_agree. Qed.
Print Assumptions C17_by_name_keys_agree.

(* the compiled family, optional parameters: Gen.MacroApiGen.family_options lists per API, trait function and parameter the
   path segments of the declared type AS SPELLED in the trait and the decision of helpers::is_option on that spelling, computed
   by the translator with the rule it reads from proc-macros/src/helpers.rs on every run.  The decision is the p_opt the model's
   decoders run on, and every parameter whose type is one of the standard spellings of std's Option (`Option`, `option::Option`,
   `std::option::Option`, `core::option::Option`, with or without a leading `::`) is decided optional *)
Theorem C17_option_spellings_are_optional : Forall2 (fun (a : japi) (rs : list (list (list bytes * bool))) => Forall2 (fun (ps : list (param jty)) (r : list (list bytes * bool)) => Forall2 (fun (p : param jty) (x : list bytes * bool) => snd x = p_opt p /\ (is_std_option (fst x) = true -> p_opt p = true)) ps r) (item_params a) rs) family family_options.
Proof. exact option_spellings_are_optional. Qed.
Print Assumptions C17_option_spellings_are_optional.

(* ---------- non-vacuity: the compiled family (coq/Gen/MacroApiGen.v, read from harness/src/bin/macroapi.rs) ---------- *)

(* every API of the family satisfies the name hypothesis *)
Example C17_family_names_distinct :
  forallb (fun a => distinctb (registered_names a)) family = true /\
  forall a, In a family -> NoDup (registered_names a).
Proof.
  split; [vm_compute; reflexivity|]. intros a H. apply distinctb_nodup.
  assert (E : forallb (fun a => distinctb (registered_names a)) family = true) by (vm_compute; reflexivity).
  rewrite forallb_forall in E. apply E, H.
Qed.

(* every method of the family satisfies the parameter-key hypothesis, except the labelled negative example *)
Example C17_family_params_distinct :
  forallb (fun a : japi => forallb (fun m => params_distinct (m_params m)) (a_methods a) && forallb (fun s => params_distinct (s_params s)) (a_subs a)) [api_Plain; api_Ns; api_Dot; api_Glue; api_Raw; api_Spell; api_Ren] = true /\
  map (fun m : method jty => params_distinct (m_params m)) (a_methods api_Neg) = [false; true].
Proof. vm_compute. split; reflexivity. Qed.

(* namespaces, separators, aliases (not namespaced), subscription names of the family *)
Example C17_witness_names :
  resolve api_Ns b#"ns_mapOpt" = Some (Registry.Bind 2 Registry.KSync) /\
  resolve api_Ns b#"plainAlias" = Some (Registry.Bind 2 Registry.KSync) /\
  resolve api_Ns b#"ns_plainAlias" = None /\
  resolve api_Ns b#"mapOpt" = None /\
  resolve api_Ns b#"ns_subscribeItems" = Some (Registry.Bind 5 Registry.KSub) /\
  resolve api_Ns b#"subAlias" = Some (Registry.Bind 5 Registry.KSub) /\
  resolve api_Ns b#"ns_unsubscribeItems" = Some (Registry.Bind 5 Registry.KUnsub) /\
  resolve api_Ns b#"unsubAlias" = Some (Registry.Bind 5 Registry.KUnsub) /\
  resolve api_Ns b#"ns_syncUnsub" = Some (Registry.Bind 6 Registry.KUnsub) /\
  resolve api_Dot b#"svc.v1.get" = Some (Registry.Bind 0 Registry.KAsync) /\
  resolve api_Dot b#"get" = Some (Registry.Bind 0 Registry.KAsync) /\
  resolve api_Dot b#"svc.v1_get" = None /\
  resolve api_Glue b#"echo" = Some (Registry.Bind 0 Registry.KAsync).
Proof. vm_compute. repeat split; reflexivity. Qed.

(* heck: the aliases of some parameter names of the family *)
Example C17_witness_heck :
  snake_case b#"XMLHttpReq" = b#"xml_http_req" /\ lower_camel_case b#"XMLHttpReq" = b#"xmlHttpReq" /\
  snake_case b#"halfType" = b#"half_type" /\ lower_camel_case b#"param_a" = b#"paramA" /\
  snake_case b#"x-y z" = b#"x_y_z" /\ lower_camel_case b#"x-y z" = b#"xYZ" /\
  snake_case b#"_lead" = b#"lead" /\ snake_case b#"a1b2" = b#"a1b2" /\ lower_camel_case b#"camelCaseX" = b#"camelCaseX".
Proof. vm_compute. repeat split; reflexivity. Qed.

(* one call through the whole model: Ns::renamed(type = 256, halfType = true), param_kind = map, returning [true,256] *)
Example C17_witness_call :
  run_stub api_Ns false 1 [JNum (NPos 256); JBool true] (BReturn (JArr [JBool true; JNum (NPos 256)])) =
    CaseOut (Some (b#"ns_renamed", Some b#"{""type"":256,""halfType"":true}"))
            (Some (Registry.Bind 1 Registry.KSync))
            (Some [Some (JNum (NPos 256)); Some (JBool true)])
            (VOk (JArr [JBool true; JNum (NPos 256)])).
Proof. vm_compute. reflexivity. Qed.

(* by name with alias keys, shuffled, an unknown member, an optional left out; positional with the tail omitted *)
Example C17_witness_raw :
  co_args (run_raw api_Ns b#"plainAlias" (Some b#" { ""zz"":[1], ""c"" : [1,2] , ""a"":7 } ") (BReturn JNull) []) =
    Some [Some (JNum (NPos 7)); None; Some (JArr [JNum (NPos 1); JNum (NPos 2)])] /\
  co_args (run_raw api_Plain b#"opt2" (Some b#"[""s""]") (BReturn JNull) []) = Some [Some (JStr b#"s"); None; None] /\
  co_args (run_raw api_Plain b#"opt2" (Some b#"[""s"", null , null ]") (BReturn JNull) []) = Some [Some (JStr b#"s"); None; None] /\
  co_client (run_raw api_Plain b#"one_u8" (Some b#"[256]") (BReturn JNull) []) = VErr (err_invalid_params (-32602)%Z) /\
  co_handler (run_raw api_Plain b#"one_u8" (Some b#"[256]") (BReturn JNull) []) = None.
Proof. vm_compute. repeat split; reflexivity. Qed.

(* raw identifiers and underscore / digit names: the text of the identifier is the key, `r#` included; heck splits at `#` *)
Example C17_witness_raw_identifiers :
  nth_error family_keys 5 = Some
    [ [(b#"r#type", [b#"r#type"; b#"r_type"; b#"rType"]); (b#"r#ref", [b#"r#ref"; b#"r_ref"; b#"rRef"])];
      [(b#"r#type", [b#"r#type"; b#"r_type"; b#"rType"]); (b#"r#ref", [b#"r#ref"; b#"r_ref"; b#"rRef"])];
      [(b#"type", [b#"type"; b#"type"; b#"type"]); (b#"r#match", [b#"r#match"; b#"r_match"; b#"rMatch"])];
      [(b#"r#move", [b#"r#move"; b#"r_move"; b#"rMove"]); (b#"r#loop", [b#"r#loop"; b#"r_loop"; b#"rLoop"])];
      [(b#"_lead", [b#"_lead"; b#"lead"; b#"lead"]); (b#"trail_", [b#"trail_"; b#"trail"; b#"trail"]);
       (b#"mid1dle", [b#"mid1dle"; b#"mid1dle"; b#"mid1dle"]); (b#"r#type_", [b#"r#type_"; b#"r_type"; b#"rType"])];
      [(b#"r#fn", [b#"r#fn"; b#"r_fn"; b#"rFn"]); (b#"r#in", [b#"r#in"; b#"r_in"; b#"rIn"])];
      [(b#"r#type", [b#"r#type"; b#"r_type"; b#"rType"]); (b#"r#ref", [b#"r#ref"; b#"r_ref"; b#"rRef"])];
      [(b#"r#type", [b#"r#type"; b#"r_type"; b#"rType"]); (b#"r#while", [b#"r#while"; b#"r_while"; b#"rWhile"])] ] /\
  run_stub api_Raw false 0 [JNum (NPos 7); JStr b#"q"] (BReturn (JArr [JNum (NPos 7); JStr b#"q"])) =
    CaseOut (Some (b#"raw_mapRaw", Some b#"{""r#type"":7,""r#ref"":""q""}"))
            (Some (Registry.Bind 0 Registry.KAsync))
            (Some [Some (JNum (NPos 7)); Some (JStr b#"q")])
            (VOk (JArr [JNum (NPos 7); JStr b#"q"])) /\
  co_args (run_raw api_Raw b#"raw_mapRaw" (Some b#"{""rRef"":""q"",""r_type"":7}") (BReturn JNull) []) = Some [Some (JNum (NPos 7)); Some (JStr b#"q")] /\
  co_client (run_raw api_Raw b#"raw_mapRaw" (Some b#"{""type"":7,""ref"":""q""}") (BReturn JNull) []) = VErr (err_invalid_params (-32602)%Z) /\
  co_args (run_raw api_Raw b#"raw_mapRawOpt" (Some b#"{""r#move"":1}") (BReturn JNull) []) = Some [Some (JNum (NPos 1)); None].
Proof. vm_compute. repeat split; reflexivity. Qed.

(* every standard spelling of Option occurs in the family (trait Spell), each is decided optional, and a positional call with
   such a tail omitted reaches the method / subscription with None -- also when only the first of several is given, when
   nothing but the required head is given, and with no params at all when every parameter is optional *)
Example C17_witness_option_spellings :
  nth_error family_options 6 = Some
    [ [([b#"u32"], false); ([b#"std"; b#"option"; b#"Option"], true)];
      [([b#"u8"], false); ([b#"core"; b#"option"; b#"Option"], true)];
      [([b#"String"], false); ([b#"core"; b#"option"; b#"Option"], true)];
      [([b#"i16"], false); ([b#"option"; b#"Option"], true)];
      [([b#"u32"], false); ([b#"Option"], true); ([b#"std"; b#"option"; b#"Option"], true); ([b#"core"; b#"option"; b#"Option"], true); ([b#"core"; b#"option"; b#"Option"], true)];
      [([b#"core"; b#"option"; b#"Option"], true); ([b#"option"; b#"Option"], true); ([b#"Option"], true)];
      [([b#"core"; b#"option"; b#"Option"], true); ([b#"u16"], false)];
      [([b#"u32"], false); ([b#"core"; b#"option"; b#"Option"], true); ([b#"core"; b#"option"; b#"Option"], true); ([b#"std"; b#"option"; b#"Option"], true)];
      [([b#"String"], false); ([b#"option"; b#"Option"], true); ([b#"core"; b#"option"; b#"Option"], true)];
      [([b#"u32"], false); ([b#"core"; b#"option"; b#"Option"], true); ([b#"core"; b#"option"; b#"Option"], true)];
      [([b#"u32"], false); ([b#"std"; b#"option"; b#"Option"], true)] ] /\
  map is_std_option [[b#"Option"]; [b#"option"; b#"Option"]; [b#"std"; b#"option"; b#"Option"]; [b#"core"; b#"option"; b#"Option"]; [b#"settings"; b#"Option"]; [b#"Vec"]; []] =
    [true; true; true; true; false; false; false] /\
  co_args (run_raw api_Spell b#"sp_stdTail" (Some b#"[7]") (BReturn JNull) []) = Some [Some (JNum (NPos 7)); None] /\
  co_args (run_raw api_Spell b#"sp_coreTail" (Some b#"[7]") (BReturn JNull) []) = Some [Some (JNum (NPos 7)); None] /\
  co_args (run_raw api_Spell b#"sp_globalTail" (Some b#"[""s""]") (BReturn JNull) []) = Some [Some (JStr b#"s"); None] /\
  co_args (run_raw api_Spell b#"sp_modTail" (Some b#"[-1]") (BReturn JNull) []) = Some [Some (JNum (NNeg 1)); None] /\
  co_args (run_raw api_Spell b#"sp_coreTail" (Some b#"[7,null]") (BReturn JNull) []) = Some [Some (JNum (NPos 7)); None] /\
  co_args (run_raw api_Spell b#"sp_coreTail" (Some b#"[7,""x""]") (BReturn JNull) []) = Some [Some (JNum (NPos 7)); Some (JStr b#"x")] /\
  co_args (run_raw api_Spell b#"sp_mixTail" (Some b#"[1]") (BReturn JNull) []) = Some [Some (JNum (NPos 1)); None; None; None; None] /\
  co_args (run_raw api_Spell b#"sp_mixTail" (Some b#"[1,2,null,""d""]") (BReturn JNull) []) = Some [Some (JNum (NPos 1)); Some (JNum (NPos 2)); None; Some (JStr b#"d"); None] /\
  co_args (run_raw api_Spell b#"sp_allSpell" None (BReturn JNull) []) = Some [None; None; None] /\
  co_args (run_raw api_Spell b#"spellAlias" (Some b#"[4]") (BReturn (JArr [])) b#"sp_unsubscribeSpell") = Some [Some (JNum (NPos 4)); None; None] /\
  co_handler (run_raw api_Spell b#"sp_coreTail" (Some b#"[7]") (BReturn JNull) []) = Some (Registry.Bind 1 Registry.KAsync) /\
  co_client (run_raw api_Spell b#"sp_coreMid" (Some b#"[""a""]") (BReturn JNull) []) = VErr (err_invalid_params (-32602)%Z).
Proof. vm_compute. repeat split; reflexivity. Qed.

(* parameters renamed to wire names that JSON must escape or that are not identifiers (trait Ren: a backslash, double quotes, a
   tab, a single space, non-ASCII letters): every wire name of the family is valid UTF-8 (the hypothesis names_utf8 of the
   round-trip theorems); the aliases heck derives from such names (backslash, double quote, tab and space separate words; U+00B5 MICRO SIGN
   capitalises to U+039C; a name without any alphanumeric has the EMPTY alias); the stub writes the key through the string
   serialiser, so the member key on the wire is the escaped spelling and the server finds its field; any other JSON spelling of
   the same key is accepted as well, the key that a raw (unescaped) `dir\name` would be read as is not *)
Example C17_witness_escaped_names :
  forallb (fun a : japi => forallb (forallb (fun p => utf8_valid (p_name p))) (item_params a)) family = true /\
  keys_of (Param b#"dir" (Some b#"dir\name") false TyStr) = [b#"dir\name"; b#"dir_name"; b#"dirName"] /\
  keys_of (Param b#"quoted" (Some b#"say ""hi""") false TyStr) = [b#"say ""hi"""; b#"say_hi"; b#"sayHi"] /\
  keys_of (Param b#"size" (Some [x67; x72; xc3; xb6; xc3; x9f; x65; x20; x69; x6e; x20; xc2; xb5; x6d]) false TyStr) =
    [ [x67; x72; xc3; xb6; xc3; x9f; x65; x20; x69; x6e; x20; xc2; xb5; x6d];
      [x67; x72; xc3; xb6; xc3; x9f; x65; x5f; x69; x6e; x5f; xc2; xb5; x6d];
      [x67; x72; xc3; xb6; xc3; x9f; x65; x49; x6e; xce; x9c; x6d] ] /\
  keys_of (Param b#"column" (Some [x63; x6f; x6c; x09; x75; x6d; x6e]) true TyStr) = [[x63; x6f; x6c; x09; x75; x6d; x6e]; b#"col_umn"; b#"colUmn"] /\
  keys_of (Param b#"blank" (Some b#" ") false TyStr) = [b#" "; []; []] /\
  run_stub api_Ren false 0 [JStr b#"x\y"; JNum (NPos 5)] (BReturn (JArr [JNum (NPos 5); JStr b#"x\y"])) =
    CaseOut (Some (b#"ren_mapBackslash", Some b#"{""dir\\name"":""x\\y"",""plain"":5}"))
            (Some (Registry.Bind 0 Registry.KSync))
            (Some [Some (JStr b#"x\y"); Some (JNum (NPos 5))])
            (VOk (JArr [JNum (NPos 5); JStr b#"x\y"])) /\
  co_wire (run_stub api_Ren false 1 [JNum (NPos 3); JBool true] (BReturn JNull)) = Some (b#"ren_mapQuote", Some b#"{""say \""hi\"""":3,""plain"":true}") /\
  co_args (run_stub api_Ren false 1 [JNum (NPos 3); JBool true] (BReturn JNull)) = Some [Some (JNum (NPos 3)); Some (JBool true)] /\
  co_wire (run_stub api_Ren false 3 [JNum (NPos 3); JNum (NPos 7)] (BReturn JNull)) = Some (b#"ren_mapTab", Some b#"{""plain"":3,""col\tumn"":7}") /\
  co_args (run_stub api_Ren false 3 [JNum (NPos 3); JNum (NPos 7)] (BReturn JNull)) = Some [Some (JNum (NPos 3)); Some (JNum (NPos 7))] /\
  co_wire (run_stub api_Ren false 2 [JNum (NPos 1); JNull] (BReturn JNull)) =
    Some (b#"ren_mapUnicode", Some (b#"{""" ++ [x67; x72; xc3; xb6; xc3; x9f; x65; x20; x69; x6e; x20; xc2; xb5; x6d] ++ b#""":1,""plain"":null}")) /\
  co_args (run_stub api_Ren false 4 [JStr b#"s"; JNum (NPos 7)] (BReturn JNull)) = Some [Some (JStr b#"s"); Some (JNum (NPos 7))] /\
  co_args (run_stub api_Ren true 0 [JStr b#"d"; JNum (NPos 1); JNull] (BReturn (JArr []))) = Some [Some (JStr b#"d"); Some (JNum (NPos 1)); None] /\
  co_args (run_raw api_Ren b#"ren_mapBackslash" (Some b#"{""plain"":5,""dir\u005cname"":""x""}") (BReturn JNull) []) = Some [Some (JStr b#"x"); Some (JNum (NPos 5))] /\
  co_args (run_raw api_Ren b#"ren_mapBackslash" (Some b#"{""plain"":5,""\u0064ir\\n\u0061me"":""x""}") (BReturn JNull) []) = Some [Some (JStr b#"x"); Some (JNum (NPos 5))] /\
  co_args (run_raw api_Ren b#"ren_mapBackslash" (Some b#"{""plain"":5,""dirName"":""x""}") (BReturn JNull) []) = Some [Some (JStr b#"x"); Some (JNum (NPos 5))] /\
  co_client (run_raw api_Ren b#"ren_mapBackslash" (Some b#"{""plain"":5,""dir\name"":""x""}") (BReturn JNull) []) = VErr (err_invalid_params (-32602)%Z) /\
  co_client (run_raw api_Ren b#"ren_mapBackslash" (Some b#"{""plain"":5,""dir\\\\name"":""x""}") (BReturn JNull) []) = VErr (err_invalid_params (-32602)%Z) /\
  co_args (run_raw api_Ren b#"ren_mapSpace" (Some b#"{""\u0020"":""s"",""plain"":1}") (BReturn JNull) []) = Some [Some (JStr b#"s"); Some (JNum (NPos 1))] /\
  co_args (run_raw api_Ren b#"ren_mapSpace" (Some b#"{"""":""s"",""plain"":1}") (BReturn JNull) []) = Some [Some (JStr b#"s"); Some (JNum (NPos 1))] /\
  co_client (run_raw api_Ren b#"ren_mapSpace" (Some b#"{""  "":""s"",""plain"":1}") (BReturn JNull) []) = VErr (err_invalid_params (-32602)%Z) /\
  co_args (run_raw api_Ren b#"ren_mapTab" (Some b#"{""plain"":1,""col\u0009umn"":2}") (BReturn JNull) []) = Some [Some (JNum (NPos 1)); Some (JNum (NPos 2))] /\
  co_args (run_raw api_Ren b#"ren_mapTab" (Some b#"{""plain"":1,""col umn"":2}") (BReturn JNull) []) = Some [Some (JNum (NPos 1)); None] /\
  co_args (run_raw api_Ren b#"ren_mapUnicode" (Some b#"{""gr\u00f6\u00dfe in \u00b5m"":1}") (BReturn JNull) []) = Some [Some (JNum (NPos 1)); None] /\
  co_args (run_raw api_Ren b#"ren_mapUnicode" (Some b#"{""gr\u00f6\u00dfeIn\u039cm"":1}") (BReturn JNull) []) = Some [Some (JNum (NPos 1)); None] /\
  co_client (run_raw api_Ren b#"ren_mapUnicode" (Some b#"{""gr\u00f6\u00dfeIn\u00b5m"":1}") (BReturn JNull) []) = VErr (err_invalid_params (-32602)%Z) /\
  co_args (run_raw api_Ren b#"ren_mapQuoteOnly" (Some b#"{""\"""":1}") (BReturn JNull) []) = Some [Some (JNum (NPos 1)); None] /\
  co_args (run_raw api_Ren b#"ren_mapQuoteOnly" (Some b#"{""\u0022"":1}") (BReturn JNull) []) = Some [Some (JNum (NPos 1)); None].
Proof. vm_compute. repeat split; reflexivity. Qed.
