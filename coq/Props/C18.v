(* C18 -- property theorems only.  Each is closed by `exact <lemma>`.
   Vocabulary: Model/ClientMgr.v and the specification parts of Proofs/ClientMgrInv.v, Proofs/ClientMgrC18.v:
     Inv s            the invariant (preserved by every step); Spelled s restates it in the model's own terms (I1-I5)
     refs k           the other id a table entry refers to: reserved unsubscribe id of KPendSub/KSub, tombstone id of KUnsubP
     quiescent s      every remaining requests entry is a waiter-less `KCall None`
     qmsgs s, qids    queued front-to-back messages (queue ++ waiting) and the ids they carry
     quiet s          alive, not dying, ungated, idle send task, no injected fault, empty queue and waiting, qcap >= 1
     cycle s es       es is one of the closed cycles (a)-(f) started in s; cycles s es: any sequence of them
     issued_batch     es = es1 ++ FBatch h entries :: es2 issued in a live state, range = next_id .. next_id + length entries
     ncompl h o       number of `OComplete h _` in o;  outs_of tr: all outputs of a trace *)
From Coq Require Import List NArith.
From JV Require Import Base.Bytes Base.Dec Model.Wire Model.ClientMgr Proofs.ClientMgrInv Proofs.ClientMgrC03 Proofs.ClientMgrC18.
Import ListNotations.
Local Open Scope N_scope.

(* the invariant holds initially and is preserved by every step from any state satisfying it *)
Theorem C18_invariant_init : forall (idstr : bool) (qc bc : nat) (gate : bool), Inv (init idstr qc bc gate).
Proof. exact init_inv. Qed.
Print Assumptions C18_invariant_init.

Theorem C18_invariant_step : forall (s : st) (e : ev), Inv s -> Inv (fst (fst (step s e))).
Proof. exact step_inv. Qed.
Print Assumptions C18_invariant_step.

(* hence in every reachable state *)
Theorem C18_invariant : forall (idstr : bool) (qc bc : nat) (gate : bool) (es : list ev), Inv (fst (run (init idstr qc bc gate) es)).
Proof. exact reachable_inv. Qed.
Print Assumptions C18_invariant.

(* ... spelled out in the vocabulary of the model: distinct keys, allocated distinct ids, disjoint batch ranges,
   subs <-> KSub entries, reserved ids / tombstones / unacked, dead => empty *)
Theorem C18_invariant_spelled : forall (idstr : bool) (qc bc : nat) (gate : bool) (es : list ev),
  Spelled (fst (run (init idstr qc bc gate) es)).
Proof. exact reachable_spelled. Qed.
Print Assumptions C18_invariant_spelled.

(* once every call has been answered and every subscription has ended (no waiter-bearing entry, no subscription,
   no pending unsubscribe), nothing per-request and nothing per-subscription is retained *)
Theorem C18_quiescent_empty : forall (idstr : bool) (qc bc : nat) (gate : bool) (es : list ev),
  let s := fst (run (init idstr qc bc gate) es) in
  (forall i k, In (i, k) (requests (m s)) -> k = KCall None) -> requests (m s) = [] /\ subs (m s) = [].
Proof. exact quiescent_empty. Qed.
Print Assumptions C18_quiescent_empty.

(* the same, with "every unsubscribe acknowledged" expressed by the history variable *)
Theorem C18_quiescent_empty_unacked : forall (idstr : bool) (qc bc : nat) (gate : bool) (es : list ev),
  let s := fst (run (init idstr qc bc gate) es) in
  (forall i k, In (i, k) (requests (m s)) -> match k with KCall (Some _) | KPendSub _ _ _ | KSub _ _ _ => False | _ => True end) ->
  unacked s = [] -> requests (m s) = [] /\ subs (m s) = [].
Proof. exact quiescent_empty_unacked. Qed.
Print Assumptions C18_quiescent_empty_unacked.

(* every entry of `batches` is a batch call issued earlier (its range is the ids that call reserved) that has not
   been completed so far *)
Theorem C18_batches_exact : forall (idstr : bool) (qc bc : nat) (gate : bool) (es : list ev) (lo hi : N) (h : handle),
  NoDup (front_handles es) ->
  In ((lo, hi), h) (batches (m (fst (run (init idstr qc bc gate) es)))) ->
  issued_batch idstr qc bc gate es h lo hi /\ ncompl h (outs_of (snd (run (init idstr qc bc gate) es))) = 0%nat.
Proof. exact batches_exact. Qed.
Print Assumptions C18_batches_exact.

(* ... and such an entry disappears only through an array reply from the server (batch_response) or at shutdown *)
Theorem C18_batch_leaves : forall (s : st) (e : ev) (x : (N * N) * handle),
  In x (batches (m s)) -> ~ In x (batches (m (fst (fst (step s e))))) ->
  (exists raw ms, e = Back raw /\ classify_frame raw = FArray ms) \/ dead (fst (fst (step s e))) = true.
Proof. exact batch_leaves. Qed.
Print Assumptions C18_batch_leaves.

(* each closed cycle, started in any quiet state satisfying the invariant, returns all four tables (hence table_sizes),
   the invariant and quietness *)
Theorem C18_cycles_return : forall (s : st) (es : list ev), Inv s -> quiet s -> cycle s es ->
  let s' := fst (run s es) in
  Inv s' /\ quiet s' /\ table_sizes s' = table_sizes s /\
  requests (m s') = requests (m s) /\ subs (m s') = subs (m s) /\ batches (m s') = batches (m s) /\ nhandlers (m s') = nhandlers (m s).
Proof. exact cycle_returns_full. Qed.
Print Assumptions C18_cycles_return.

(* no growth: any number of cycles, in any mix *)
Theorem C18_no_growth : forall (s : st) (es : list ev), Inv s -> quiet s -> cycles s es ->
  table_sizes (fst (run s es)) = table_sizes s.
Proof. exact no_growth. Qed.
Print Assumptions C18_no_growth.

(* identifiers of finished work never capture a later message: a key that leaves `requests` and is not kept as the
   reference of a remaining entry was allocated below the counter, is never a key again, is never queued again, and an
   answer bearing it is NotPending (fatal), delivered to nobody *)
Theorem C18_no_capture : forall (idstr : bool) (qc bc : nat) (gate : bool) (es1 : list ev) (e : ev) (es2 : list ev) (i : id),
  let s := fst (run (init idstr qc bc gate) es1) in
  let s1 := fst (fst (step s e)) in
  let s2 := fst (run s1 es2) in
  In i (map fst (requests (m s))) -> ~ In i (map fst (requests (m s1))) ->
  (forall j k, In (j, k) (requests (m s1)) -> refs k <> Some i) ->
  (exists n, n < next_id s /\ i = mk_id s n) /\
  ~ In i (map fst (requests (m s2))) /\ ~ In i (qids (qmsgs s2)) /\
  forall r, rs_id r = i -> single_response s2 r = RFatal s2 [] FNotPending.
Proof. exact no_capture. Qed.
Print Assumptions C18_no_capture.

(* while an unsubscribe is unacknowledged the kept subscribe id is a waiter-less tombstone (or already gone): a late
   duplicate of the subscribe answer is absorbed, delivered to nobody *)
Theorem C18_tombstone_absorbs : forall (s : st) (u rid : id) (r : response),
  Inv s -> In (u, KUnsubP rid) (requests (m s)) -> rs_id r = rid ->
  rres_out (single_response s r) = [] /\ (req_lookup rid (m s) = Some (KCall None) \/ req_lookup rid (m s) = None).
Proof. exact tombstone_absorbs. Qed.
Print Assumptions C18_tombstone_absorbs.

(* ---------- non-vacuity and refutations of over-strong readings ---------- *)
Definition ex_cfg : st := init false 4 4 false.
Definition ex_resp (i : N) (v : bytes) : bytes := b#"{""jsonrpc"":""2.0"",""id"":" ++ print_N i ++ b#",""result"":" ++ v ++ b#"}".
Definition ex_sub : ev := FSubscribe 7 b#"s" b#"u" None.

(* a subscription cycle: subscribe, accepted with subscription id 5, unsubscribe, acknowledged *)
Example C18_ex_sub_cycle :
  map (fun es => table_sizes (fst (run ex_cfg es)))
      [[ex_sub]; [ex_sub; Back (ex_resp 0 b#"5")]; [ex_sub; Back (ex_resp 0 b#"5"); FUnsub 8 7];
       [ex_sub; Back (ex_resp 0 b#"5"); FUnsub 8 7; Back (ex_resp 1 b#"true")]]
  = [(2, 0, 0, 0); (2, 1, 0, 0); (2, 0, 0, 0); (0, 0, 0, 0)].
Proof. vm_compute. reflexivity. Qed.

(* the hypotheses of the cycle theorem are satisfiable: this history is cycle (b) from the initial state *)
Example C18_ex_cycle_b : cycle ex_cfg [ex_sub; Back (ex_resp 0 b#"5"); FUnsub 8 7; Back (ex_resp 1 b#"true")].
Proof.
  eapply (cy_sub_unsub ex_cfg 7 b#"s" b#"u" None (ex_resp 0 b#"5") _ b#"5" (SubNum 5) 8 (ex_resp 1 b#"true") _);
    try (vm_compute; reflexivity).
  vm_compute. tauto.
Qed.

(* a batch of two, answered in reverse order, and a notification-method cycle *)
Example C18_ex_batch_cycle :
  map (fun es => table_sizes (fst (run ex_cfg es)))
      [[FBatch 7 [(b#"a", None); (b#"b", None)]];
       [FBatch 7 [(b#"a", None); (b#"b", None)]; Back (b#"[" ++ ex_resp 1 b#"1" ++ b#"," ++ ex_resp 0 b#"2" ++ b#"]")];
       [FSubMethod 7 b#"n"]; [FSubMethod 7 b#"n"; FUnsub 8 7]]
  = [(0, 0, 1, 0); (0, 0, 0, 0); (0, 0, 0, 1); (0, 0, 0, 0)].
Proof. vm_compute. reflexivity. Qed.

(* a late duplicate of the subscribe answer hits the tombstone and is absorbed; after the acknowledgement the same
   answer is NotPending *)
Example C18_ex_tombstone :
  map fst (snd (run ex_cfg [ex_sub; Back (ex_resp 0 b#"5"); FUnsub 8 7; Back (ex_resp 0 b#"5"); Back (ex_resp 1 b#"true"); Back (ex_resp 0 b#"5")]))
  = map fst (snd (run ex_cfg [ex_sub; Back (ex_resp 0 b#"5"); FUnsub 8 7])) ++ [[]; []; [OFatal FNotPending]].
Proof. vm_compute. reflexivity. Qed.

(* REFUTED (of the model, hence of the code): "every KPendSub/KSub u has requests[u] = KCall None" -- a server that
   answers the reserved unsubscribe id before it was ever sent removes the reservation; only "KCall None or absent" holds *)
Example C18_reserved_strict_refuted :
  requests (m (fst (run ex_cfg [ex_sub; Back (ex_resp 1 b#"true")]))) = [(IdNum 0, KPendSub (IdNum 1) 7 b#"u")].
Proof. vm_compute. reflexivity. Qed.

(* REFUTED: "a key removed from requests is never inserted again" without the proviso of C18_no_capture -- the reserved
   unsubscribe id removed by that premature answer is still referred to by the subscription and comes back at unsubscribe *)
Example C18_no_capture_literal_refuted :
  map (fun es => map fst (requests (m (fst (run ex_cfg es)))))
      [[ex_sub]; [ex_sub; Back (ex_resp 1 b#"true")]; [ex_sub; Back (ex_resp 1 b#"true"); Back (ex_resp 0 b#"5")];
       [ex_sub; Back (ex_resp 1 b#"true"); Back (ex_resp 0 b#"5"); FUnsub 8 7]]
  = [[IdNum 1; IdNum 0]; [IdNum 0]; [IdNum 0]; [IdNum 1; IdNum 0]].
Proof. vm_compute. reflexivity. Qed.
