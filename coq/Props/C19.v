(* C19 -- property theorems only.  Each is closed by `exact <lemma>`; statements are pinned in tools/pinned/C19.statements.
   `read_body` is the repaired function (fixes/C19.patch); `read_body_old` the function before the repair. *)
From JV Require Import Base.Bytes Base.Dec Gen.HttpGateGen Gen.SniffGen Model.HttpGate Proofs.HttpGateFacts.

(* the gate: the request goes on to read_body / the RPC layer exactly when the method is POST and the first
   Content-Type value is one of the generated spellings (ASCII case ignored); otherwise 415 / 405 *)
Theorem C19_gate : forall (m : bytes) (cts : list bytes), (gate m cts = GRpc <-> m = b#"POST" /\ ct_accepted cts) /\ (gate m cts = GBadContentType <-> m = b#"POST" /\ ~ ct_accepted cts) /\ (gate m cts = GBadMethod <-> m <> b#"POST").
Proof. exact gate_spec. Qed.
Print Assumptions C19_gate.

Theorem C19_gate_outcome : forall (A : Type) (rpc : bytes -> bool -> A) (m : bytes) (cts cls : list bytes) (fs : list frame) (max : N), call_with_service A rpc m cts cls fs max = match gate m cts with GRpc => after_read_body A rpc (read_body cls fs max) | GBadContentType => Refused 415 | GBadMethod => Refused 405 end.
Proof. exact gate_outcome. Qed.
Print Assumptions C19_gate_outcome.

(* anything that is not a JSON POST: 405 / 415 and the same response whatever the handlers are *)
Theorem C19_no_handler_unless_json_post : forall (A : Type) (rpc1 rpc2 : bytes -> bool -> A) (m : bytes) (cts cls : list bytes) (fs : list frame) (max : N), ~ (m = b#"POST" /\ ct_accepted cts) -> call_with_service A rpc1 m cts cls fs max = call_with_service A rpc2 m cts cls fs max /\ ((m <> b#"POST" /\ call_with_service A rpc1 m cts cls fs max = Refused 405) \/ (m = b#"POST" /\ call_with_service A rpc1 m cts cls fs max = Refused 415)).
Proof. exact no_handler_unless_json_post. Qed.
Print Assumptions C19_no_handler_unless_json_post.

(* the RPC layer is entered exactly for JSON POSTs whose body read_body accepts, with read_body's bytes and flag *)
Theorem C19_rpc_reached_iff : forall (A : Type) (rpc : bytes -> bool -> A) (m : bytes) (cts cls : list bytes) (fs : list frame) (max : N), (exists st a, call_with_service A rpc m cts cls fs max = Answered st a) <-> (m = b#"POST" /\ ct_accepted cts /\ exists body single, read_body cls fs max = RbOk body single).
Proof. exact rpc_reached_iff. Qed.
Print Assumptions C19_rpc_reached_iff.

Theorem C19_rpc_reached_answer : forall (A : Type) (rpc : bytes -> bool -> A) (m : bytes) (cts cls : list bytes) (fs : list frame) (max : N) (st : N) (a : A), call_with_service A rpc m cts cls fs max = Answered st a -> st = 200%N /\ exists body single, read_body cls fs max = RbOk body single /\ a = rpc body single.
Proof. exact rpc_reached_answer. Qed.
Print Assumptions C19_rpc_reached_answer.

(* the property's three spellings, any letter case, first of duplicates, pass the generated table *)
Theorem C19_property_spellings_accepted : forall (v : bytes) (rest : list bytes), In (map ascii_lower v) [b#"application/json"; b#"application/json; charset=utf-8"; b#"application/json;charset=utf-8"] -> content_type_is_json (v :: rest) = true.
Proof. exact property_spellings_accepted. Qed.
Print Assumptions C19_property_spellings_accepted.

(* chunking: any framing (data frames, empty frames, non-data frames) of an in-limit body reads as the one-frame body *)
Theorem C19_chunking_irrelevant : forall (cls : list bytes) (fs : list frame) (max : N), (blen (payload fs) <= max)%N -> read_body cls fs max = read_body cls [FData (payload fs)] max.
Proof. exact chunking_irrelevant. Qed.
Print Assumptions C19_chunking_irrelevant.

Theorem C19_content_length_irrelevant : forall (cls : list bytes) (fs : list frame) (max : N), (blen (payload fs) <= max)%N -> cls = [] \/ cls = [print_N (blen (payload fs))] -> read_body cls fs max = read_body [] fs max.
Proof. exact content_length_irrelevant. Qed.
Print Assumptions C19_content_length_irrelevant.

Theorem C19_spelling_irrelevant : forall (A : Type) (rpc : bytes -> bool -> A) (m : bytes) (cts1 cts2 cls : list bytes) (fs : list frame) (max : N), ct_accepted cts1 -> ct_accepted cts2 -> call_with_service A rpc m cts1 cls fs max = call_with_service A rpc m cts2 cls fs max.
Proof. exact spelling_irrelevant. Qed.
Print Assumptions C19_spelling_irrelevant.

(* all of it at once: the outcome of an accepted request is a function of the body bytes *)
Theorem C19_answer_depends_only_on_body : forall (A : Type) (rpc : bytes -> bool -> A) (cts1 cts2 cls1 cls2 : list bytes) (fs1 fs2 : list frame) (max : N), payload fs1 = payload fs2 -> (blen (payload fs1) <= max)%N -> ct_accepted cts1 -> ct_accepted cts2 -> (cls1 = [] \/ cls1 = [print_N (blen (payload fs1))]) -> (cls2 = [] \/ cls2 = [print_N (blen (payload fs2))]) -> call_with_service A rpc (b#"POST") cts1 cls1 fs1 max = call_with_service A rpc (b#"POST") cts2 cls2 fs2 max.
Proof. exact answer_depends_only_on_body. Qed.
Print Assumptions C19_answer_depends_only_on_body.

(* the repair changes nothing for bodies whose first frame holds the first non-whitespace byte or fills the window *)
Theorem C19_repair_conservative : forall (cls : list bytes) (d : bytes) (fs : list frame) (max : N), find_nonws http_sniff_window d 0 <> None \/ (http_sniff_window <= length d)%nat -> read_body cls (FData d :: fs) max = read_body_old cls (FData d :: fs) max.
Proof. exact repair_conservative. Qed.
Print Assumptions C19_repair_conservative.

(* the function as it stood before the repair is NOT chunking-invariant (empty first frame) *)
Theorem C19_chunking_refuted_old : exists (cls : list bytes) (fs : list frame) (max : N), (blen (payload fs) <= max)%N /\ read_body_old cls fs max <> read_body_old cls [FData (payload fs)] max.
Proof. exact chunking_refuted_old. Qed.
Print Assumptions C19_chunking_refuted_old.

(* non-vacuity / witnesses *)
Example C19_whitespace_first_frame : read_body_old [] [FData (b#" "); FData refuted_body] 1000 = RbMalformed /\ read_body_old [] [FData (b#" " ++ refuted_body)] 1000 = RbOk refuted_body true /\ read_body [] [FData (b#" "); FData refuted_body] 1000 = RbOk refuted_body true.
Proof. exact chunking_refuted_old_whitespace. Qed.

Example C19_gate_nonvacuous : gate (b#"POST") [b#"Application/JSON; Charset=UTF-8"; b#"text/plain"] = GRpc /\ gate (b#"POST") [b#"text/plain"; b#"application/json"] = GBadContentType /\ gate (b#"POST") [] = GBadContentType /\ gate (b#"post") [b#"application/json"] = GBadMethod /\ gate (b#"POST") [b#"application/jsonx"] = GBadContentType.
Proof. vm_compute. repeat split; reflexivity. Qed.

Example C19_read_body_nonvacuous : read_body [] [FData (b#"  "); FTrailers; FData []; FData (b#" [1"); FData (b#",2]")] 8 = RbOk (b#"[1,2]") false /\ read_body [b#"9"] [FData (b#"[1,2]")] 8 = RbTooLarge /\ read_body [] [FData (b#"[1,2]"); FData (b#"    ")] 8 = RbStream /\ read_body [b#"7"; b#"9"] [FData (b#"x")] 8 = RbMalformed /\ read_body [] [] 8 = RbMalformed.
Proof. vm_compute. repeat split; reflexivity. Qed.
