(* C20 -- property theorems only.  Each is closed by `exact <lemma>`; statements are pinned in tools/pinned/C20.statements.
   Vocabulary (Model/Builder.v): a value handed to a builder is `SOk t` (its Serialize impl wrote the text t) or
   `SFail p` (it wrote p, then returned Err); `sres_valid` = the text is UTF-8 and the strict reader parses it with one
   nesting level to spare (`value_of t`); `raw_valid t` = `raw_text t = Some t` (what a RawValue holds);
   `values` / `members` = the values of the successful inserts, in order; insert/insert_named model the REPAIRED code. *)
From JV Require Import Base.Bytes Base.Utf8 Json.Json Json.JsonSer Json.JsonParse Model.Builder Proofs.BuilderFacts.

Theorem C20_positional : forall ops : list sres,
  Forall sres_valid ops ->
  snd (inserts positional ops) = map sres_is_ok ops /\
  (values ops = [] -> build (fst (inserts positional ops)) = BNone) /\
  (values ops <> [] -> exists t, build (fst (inserts positional ops)) = BSome t /\
                                  parse_text t = Some (JArr (values ops)) /\ raw_valid t).
Proof. exact positional_correct. Qed.
Print Assumptions C20_positional.

Theorem C20_named : forall ops : list (bytes * sres),
  Forall (fun kv => utf8_valid (fst kv) = true /\ sres_valid (snd kv)) ops ->
  snd (inserts_named named ops) = map (fun kv => sres_is_ok (snd kv)) ops /\
  (members ops = [] -> build (fst (inserts_named named ops)) = BNone) /\
  (members ops <> [] -> exists t, build (fst (inserts_named named ops)) = BSome t /\
                                   parse_text t = Some (JObj (members ops)) /\ raw_valid t).
Proof. exact named_correct. Qed.
Print Assumptions C20_named.

Theorem C20_empty_is_none :
  build positional = BNone /\ build named = BNone /\
  (forall ps, build (fst (inserts positional (map SFail ps))) = BNone) /\
  (forall kps, build (fst (inserts_named named (map (fun kp => (fst kp, SFail (snd kp))) kps))) = BNone).
Proof. exact empty_is_none. Qed.
Print Assumptions C20_empty_is_none.

Theorem C20_failed_insert_harmless : forall (b : builder) (partial : bytes),
  insert b (SFail partial) = (b, false) /\ (forall k, insert_named b k (SFail partial) = (b, false)).
Proof. exact failed_insert_harmless. Qed.
Print Assumptions C20_failed_insert_harmless.

Theorem C20_insert_reports : forall (b : builder) (v : sres) (k : bytes),
  snd (insert b v) = sres_is_ok v /\ snd (insert_named b k v) = sres_is_ok v.
Proof. exact insert_reports. Qed.
Print Assumptions C20_insert_reports.

Theorem C20_total : forall ops : list sres,
  Forall sres_raw_valid ops ->
  build (fst (inserts positional ops)) <> BPanic /\
  (forall t, build (fst (inserts positional ops)) = BSome t -> raw_valid t) /\
  (build (fst (inserts positional ops)) = BNone <-> forallb (fun v => negb (sres_is_ok v)) ops = true).
Proof. exact positional_total. Qed.
Print Assumptions C20_total.

Theorem C20_total_named : forall ops : list (bytes * sres),
  Forall (fun kv => utf8_valid (fst kv) = true /\ sres_raw_valid (snd kv)) ops ->
  build (fst (inserts_named named ops)) <> BPanic /\
  (forall t, build (fst (inserts_named named ops)) = BSome t -> raw_valid t) /\
  (build (fst (inserts_named named ops)) = BNone <-> forallb (fun kv => negb (sres_is_ok (snd kv))) ops = true).
Proof. exact named_total. Qed.
Print Assumptions C20_total_named.

Theorem C20_tuples_slices_arrays : forall es : list sres,
  Forall sres_valid es ->
  (all_ok es = false -> seq_to_rpc_params es = TErr) /\
  (all_ok es = true -> exists t, seq_to_rpc_params es = TOk (Some t) /\
                                 parse_text t = Some (JArr (values es)) /\ raw_valid t).
Proof. exact seq_correct. Qed.
Print Assumptions C20_tuples_slices_arrays.

Theorem C20_maps : forall es : list (bytes * sres),
  Forall (fun kv => utf8_valid (fst kv) = true /\ sres_valid (snd kv)) es ->
  (forallb (fun kv => sres_is_ok (snd kv)) es = false -> map_to_rpc_params es = TErr) /\
  (forallb (fun kv => sres_is_ok (snd kv)) es = true ->
     exists t, map_to_rpc_params es = TOk (Some t) /\ parse_text t = Some (JObj (members es)) /\ raw_valid t).
Proof. exact map_correct. Qed.
Print Assumptions C20_maps.

Theorem C20_rpc_params_macro : forall vs : list sres,
  rpc_params vs = if all_ok vs then Some (fst (inserts positional vs)) else None.
Proof. exact rpc_params_correct. Qed.
Print Assumptions C20_rpc_params_macro.

Theorem C20_batch : forall (l : batch) (es : list (bytes * tres)),
  batch_inserts l es = (l ++ batch_entries es, map (fun e => outcome_of (snd e)) es).
Proof. exact batch_correct. Qed.
Print Assumptions C20_batch.

(* the code before the repair (insert_old): a serialiser that wrote `{"a":` and failed makes build() panic *)
Theorem C20_failed_insert_refuted_old :
  exists partial : bytes,
    snd (insert_old positional (SFail partial)) = false /\
    build (fst (insert_old positional (SFail partial))) = BPanic.
Proof. exact failed_insert_refuted_old. Qed.
Print Assumptions C20_failed_insert_refuted_old.

(* ---- non-vacuity and further witnesses *)

(* [1, <failing struct>, "x\n", {"k":[true,null]}] -> Ok Err Ok Ok, and the text built *)
Example C20_positional_witness :
  let ops := [SOk b#"1"; SFail b#"{""a"":"; SOk b#"""x\n"""; SOk b#"{""k"":[true,null]}"] in
  Forall sres_valid ops /\
  inserts positional ops =
    ({| buf := b#"[1,""x\n"",{""k"":[true,null]},"; b_start := x5b; b_end := x5d |}, [true; false; true; true]) /\
  build (fst (inserts positional ops)) = BSome b#"[1,""x\n"",{""k"":[true,null]}]" /\
  values ops = [JNum (NPos 1); JStr [x78; x0a]; JObj [(b#"k", JArr [JBool true; JNull])]].
Proof.
  cbv zeta. split; [repeat constructor; vm_compute; discriminate|]. vm_compute. repeat split; reflexivity.
Qed.

Example C20_named_witness :
  let ops := [(b#"a", SOk b#"1"); (b#"q""", SFail b#"[1,"); (b#"a", SOk b#"[ ]")] in
  Forall (fun kv => utf8_valid (fst kv) = true /\ sres_valid (snd kv)) ops /\
  build (fst (inserts_named named ops)) = BSome b#"{""a"":1,""a"":[ ]}" /\
  members ops = [(b#"a", JNum (NPos 1)); (b#"a", JArr [])].
Proof.
  cbv zeta. split; [repeat constructor; vm_compute; discriminate|]. vm_compute. split; reflexivity.
Qed.

(* before the repair: same inserts, build() panics; and a failed `1` followed by `2` silently built [12] *)
Example C20_old_witnesses :
  build (fst (inserts_with insert_old positional [SOk b#"1"; SFail b#"{""a"":"; SOk b#"2"])) = BPanic /\
  build (fst (inserts_with insert_old positional [SFail b#"1"; SOk b#"2"])) = BSome b#"[12]" /\
  build (fst (inserts_with insert_old positional [SFail []])) = BSome b#"[]" /\
  build (fst (inserts_named_with insert_named_old named [(b#"a", SOk b#"1"); (b#"b", SFail b#"[")])) = BPanic.
Proof. vm_compute. repeat split; reflexivity. Qed.

(* the depth hypothesis of sres_valid is needed: 127 nested arrays are a valid RawValue, the built text is valid
   raw JSON, but the strict reader (recursion limit 128) cannot read it back *)
Example C20_depth_boundary :
  let deep := repeat x5b 127 ++ repeat x5d 127 in
  raw_valid deep /\ value_of deep = None /\
  (exists t, build (fst (inserts positional [SOk deep])) = BSome t /\ raw_valid t /\ parse_text t = None).
Proof.
  cbv zeta. split; [vm_compute; reflexivity|]. split; [vm_compute; reflexivity|].
  eexists. split; [vm_compute; reflexivity|]. split; vm_compute; reflexivity.
Qed.
