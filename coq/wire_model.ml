
(** val negb : bool -> bool **)

let negb = function
| true -> false
| false -> true

type nat =
| O
| S of nat

(** val fst : ('a1 * 'a2) -> 'a1 **)

let fst = function
| (x, _) -> x

(** val snd : ('a1 * 'a2) -> 'a2 **)

let snd = function
| (_, y) -> y

(** val length : 'a1 list -> nat **)

let rec length = function
| [] -> O
| _ :: l' -> S (length l')

(** val app : 'a1 list -> 'a1 list -> 'a1 list **)

let rec app l m =
  match l with
  | [] -> m
  | a :: l1 -> a :: (app l1 m)

type comparison =
| Eq
| Lt
| Gt

type uint =
| Nil
| D0 of uint
| D1 of uint
| D2 of uint
| D3 of uint
| D4 of uint
| D5 of uint
| D6 of uint
| D7 of uint
| D8 of uint
| D9 of uint

(** val revapp : uint -> uint -> uint **)

let rec revapp d d' =
  match d with
  | Nil -> d'
  | D0 d0 -> revapp d0 (D0 d')
  | D1 d0 -> revapp d0 (D1 d')
  | D2 d0 -> revapp d0 (D2 d')
  | D3 d0 -> revapp d0 (D3 d')
  | D4 d0 -> revapp d0 (D4 d')
  | D5 d0 -> revapp d0 (D5 d')
  | D6 d0 -> revapp d0 (D6 d')
  | D7 d0 -> revapp d0 (D7 d')
  | D8 d0 -> revapp d0 (D8 d')
  | D9 d0 -> revapp d0 (D9 d')

(** val rev : uint -> uint **)

let rev d =
  revapp d Nil

module Little =
 struct
  (** val double : uint -> uint **)

  let rec double = function
  | Nil -> Nil
  | D0 d0 -> D0 (double d0)
  | D1 d0 -> D2 (double d0)
  | D2 d0 -> D4 (double d0)
  | D3 d0 -> D6 (double d0)
  | D4 d0 -> D8 (double d0)
  | D5 d0 -> D0 (succ_double d0)
  | D6 d0 -> D2 (succ_double d0)
  | D7 d0 -> D4 (succ_double d0)
  | D8 d0 -> D6 (succ_double d0)
  | D9 d0 -> D8 (succ_double d0)

  (** val succ_double : uint -> uint **)

  and succ_double = function
  | Nil -> D1 Nil
  | D0 d0 -> D1 (double d0)
  | D1 d0 -> D3 (double d0)
  | D2 d0 -> D5 (double d0)
  | D3 d0 -> D7 (double d0)
  | D4 d0 -> D9 (double d0)
  | D5 d0 -> D1 (succ_double d0)
  | D6 d0 -> D3 (succ_double d0)
  | D7 d0 -> D5 (succ_double d0)
  | D8 d0 -> D7 (succ_double d0)
  | D9 d0 -> D9 (succ_double d0)
 end

type byte =
| X00
| X01
| X02
| X03
| X04
| X05
| X06
| X07
| X08
| X09
| X0a
| X0b
| X0c
| X0d
| X0e
| X0f
| X10
| X11
| X12
| X13
| X14
| X15
| X16
| X17
| X18
| X19
| X1a
| X1b
| X1c
| X1d
| X1e
| X1f
| X20
| X21
| X22
| X23
| X24
| X25
| X26
| X27
| X28
| X29
| X2a
| X2b
| X2c
| X2d
| X2e
| X2f
| X30
| X31
| X32
| X33
| X34
| X35
| X36
| X37
| X38
| X39
| X3a
| X3b
| X3c
| X3d
| X3e
| X3f
| X40
| X41
| X42
| X43
| X44
| X45
| X46
| X47
| X48
| X49
| X4a
| X4b
| X4c
| X4d
| X4e
| X4f
| X50
| X51
| X52
| X53
| X54
| X55
| X56
| X57
| X58
| X59
| X5a
| X5b
| X5c
| X5d
| X5e
| X5f
| X60
| X61
| X62
| X63
| X64
| X65
| X66
| X67
| X68
| X69
| X6a
| X6b
| X6c
| X6d
| X6e
| X6f
| X70
| X71
| X72
| X73
| X74
| X75
| X76
| X77
| X78
| X79
| X7a
| X7b
| X7c
| X7d
| X7e
| X7f
| X80
| X81
| X82
| X83
| X84
| X85
| X86
| X87
| X88
| X89
| X8a
| X8b
| X8c
| X8d
| X8e
| X8f
| X90
| X91
| X92
| X93
| X94
| X95
| X96
| X97
| X98
| X99
| X9a
| X9b
| X9c
| X9d
| X9e
| X9f
| Xa0
| Xa1
| Xa2
| Xa3
| Xa4
| Xa5
| Xa6
| Xa7
| Xa8
| Xa9
| Xaa
| Xab
| Xac
| Xad
| Xae
| Xaf
| Xb0
| Xb1
| Xb2
| Xb3
| Xb4
| Xb5
| Xb6
| Xb7
| Xb8
| Xb9
| Xba
| Xbb
| Xbc
| Xbd
| Xbe
| Xbf
| Xc0
| Xc1
| Xc2
| Xc3
| Xc4
| Xc5
| Xc6
| Xc7
| Xc8
| Xc9
| Xca
| Xcb
| Xcc
| Xcd
| Xce
| Xcf
| Xd0
| Xd1
| Xd2
| Xd3
| Xd4
| Xd5
| Xd6
| Xd7
| Xd8
| Xd9
| Xda
| Xdb
| Xdc
| Xdd
| Xde
| Xdf
| Xe0
| Xe1
| Xe2
| Xe3
| Xe4
| Xe5
| Xe6
| Xe7
| Xe8
| Xe9
| Xea
| Xeb
| Xec
| Xed
| Xee
| Xef
| Xf0
| Xf1
| Xf2
| Xf3
| Xf4
| Xf5
| Xf6
| Xf7
| Xf8
| Xf9
| Xfa
| Xfb
| Xfc
| Xfd
| Xfe
| Xff

(** val to_bits :
    byte -> bool * (bool * (bool * (bool * (bool * (bool * (bool * bool)))))) **)

let to_bits = function
| X00 -> (false, (false, (false, (false, (false, (false, (false, false)))))))
| X01 -> (true, (false, (false, (false, (false, (false, (false, false)))))))
| X02 -> (false, (true, (false, (false, (false, (false, (false, false)))))))
| X03 -> (true, (true, (false, (false, (false, (false, (false, false)))))))
| X04 -> (false, (false, (true, (false, (false, (false, (false, false)))))))
| X05 -> (true, (false, (true, (false, (false, (false, (false, false)))))))
| X06 -> (false, (true, (true, (false, (false, (false, (false, false)))))))
| X07 -> (true, (true, (true, (false, (false, (false, (false, false)))))))
| X08 -> (false, (false, (false, (true, (false, (false, (false, false)))))))
| X09 -> (true, (false, (false, (true, (false, (false, (false, false)))))))
| X0a -> (false, (true, (false, (true, (false, (false, (false, false)))))))
| X0b -> (true, (true, (false, (true, (false, (false, (false, false)))))))
| X0c -> (false, (false, (true, (true, (false, (false, (false, false)))))))
| X0d -> (true, (false, (true, (true, (false, (false, (false, false)))))))
| X0e -> (false, (true, (true, (true, (false, (false, (false, false)))))))
| X0f -> (true, (true, (true, (true, (false, (false, (false, false)))))))
| X10 -> (false, (false, (false, (false, (true, (false, (false, false)))))))
| X11 -> (true, (false, (false, (false, (true, (false, (false, false)))))))
| X12 -> (false, (true, (false, (false, (true, (false, (false, false)))))))
| X13 -> (true, (true, (false, (false, (true, (false, (false, false)))))))
| X14 -> (false, (false, (true, (false, (true, (false, (false, false)))))))
| X15 -> (true, (false, (true, (false, (true, (false, (false, false)))))))
| X16 -> (false, (true, (true, (false, (true, (false, (false, false)))))))
| X17 -> (true, (true, (true, (false, (true, (false, (false, false)))))))
| X18 -> (false, (false, (false, (true, (true, (false, (false, false)))))))
| X19 -> (true, (false, (false, (true, (true, (false, (false, false)))))))
| X1a -> (false, (true, (false, (true, (true, (false, (false, false)))))))
| X1b -> (true, (true, (false, (true, (true, (false, (false, false)))))))
| X1c -> (false, (false, (true, (true, (true, (false, (false, false)))))))
| X1d -> (true, (false, (true, (true, (true, (false, (false, false)))))))
| X1e -> (false, (true, (true, (true, (true, (false, (false, false)))))))
| X1f -> (true, (true, (true, (true, (true, (false, (false, false)))))))
| X20 -> (false, (false, (false, (false, (false, (true, (false, false)))))))
| X21 -> (true, (false, (false, (false, (false, (true, (false, false)))))))
| X22 -> (false, (true, (false, (false, (false, (true, (false, false)))))))
| X23 -> (true, (true, (false, (false, (false, (true, (false, false)))))))
| X24 -> (false, (false, (true, (false, (false, (true, (false, false)))))))
| X25 -> (true, (false, (true, (false, (false, (true, (false, false)))))))
| X26 -> (false, (true, (true, (false, (false, (true, (false, false)))))))
| X27 -> (true, (true, (true, (false, (false, (true, (false, false)))))))
| X28 -> (false, (false, (false, (true, (false, (true, (false, false)))))))
| X29 -> (true, (false, (false, (true, (false, (true, (false, false)))))))
| X2a -> (false, (true, (false, (true, (false, (true, (false, false)))))))
| X2b -> (true, (true, (false, (true, (false, (true, (false, false)))))))
| X2c -> (false, (false, (true, (true, (false, (true, (false, false)))))))
| X2d -> (true, (false, (true, (true, (false, (true, (false, false)))))))
| X2e -> (false, (true, (true, (true, (false, (true, (false, false)))))))
| X2f -> (true, (true, (true, (true, (false, (true, (false, false)))))))
| X30 -> (false, (false, (false, (false, (true, (true, (false, false)))))))
| X31 -> (true, (false, (false, (false, (true, (true, (false, false)))))))
| X32 -> (false, (true, (false, (false, (true, (true, (false, false)))))))
| X33 -> (true, (true, (false, (false, (true, (true, (false, false)))))))
| X34 -> (false, (false, (true, (false, (true, (true, (false, false)))))))
| X35 -> (true, (false, (true, (false, (true, (true, (false, false)))))))
| X36 -> (false, (true, (true, (false, (true, (true, (false, false)))))))
| X37 -> (true, (true, (true, (false, (true, (true, (false, false)))))))
| X38 -> (false, (false, (false, (true, (true, (true, (false, false)))))))
| X39 -> (true, (false, (false, (true, (true, (true, (false, false)))))))
| X3a -> (false, (true, (false, (true, (true, (true, (false, false)))))))
| X3b -> (true, (true, (false, (true, (true, (true, (false, false)))))))
| X3c -> (false, (false, (true, (true, (true, (true, (false, false)))))))
| X3d -> (true, (false, (true, (true, (true, (true, (false, false)))))))
| X3e -> (false, (true, (true, (true, (true, (true, (false, false)))))))
| X3f -> (true, (true, (true, (true, (true, (true, (false, false)))))))
| X40 -> (false, (false, (false, (false, (false, (false, (true, false)))))))
| X41 -> (true, (false, (false, (false, (false, (false, (true, false)))))))
| X42 -> (false, (true, (false, (false, (false, (false, (true, false)))))))
| X43 -> (true, (true, (false, (false, (false, (false, (true, false)))))))
| X44 -> (false, (false, (true, (false, (false, (false, (true, false)))))))
| X45 -> (true, (false, (true, (false, (false, (false, (true, false)))))))
| X46 -> (false, (true, (true, (false, (false, (false, (true, false)))))))
| X47 -> (true, (true, (true, (false, (false, (false, (true, false)))))))
| X48 -> (false, (false, (false, (true, (false, (false, (true, false)))))))
| X49 -> (true, (false, (false, (true, (false, (false, (true, false)))))))
| X4a -> (false, (true, (false, (true, (false, (false, (true, false)))))))
| X4b -> (true, (true, (false, (true, (false, (false, (true, false)))))))
| X4c -> (false, (false, (true, (true, (false, (false, (true, false)))))))
| X4d -> (true, (false, (true, (true, (false, (false, (true, false)))))))
| X4e -> (false, (true, (true, (true, (false, (false, (true, false)))))))
| X4f -> (true, (true, (true, (true, (false, (false, (true, false)))))))
| X50 -> (false, (false, (false, (false, (true, (false, (true, false)))))))
| X51 -> (true, (false, (false, (false, (true, (false, (true, false)))))))
| X52 -> (false, (true, (false, (false, (true, (false, (true, false)))))))
| X53 -> (true, (true, (false, (false, (true, (false, (true, false)))))))
| X54 -> (false, (false, (true, (false, (true, (false, (true, false)))))))
| X55 -> (true, (false, (true, (false, (true, (false, (true, false)))))))
| X56 -> (false, (true, (true, (false, (true, (false, (true, false)))))))
| X57 -> (true, (true, (true, (false, (true, (false, (true, false)))))))
| X58 -> (false, (false, (false, (true, (true, (false, (true, false)))))))
| X59 -> (true, (false, (false, (true, (true, (false, (true, false)))))))
| X5a -> (false, (true, (false, (true, (true, (false, (true, false)))))))
| X5b -> (true, (true, (false, (true, (true, (false, (true, false)))))))
| X5c -> (false, (false, (true, (true, (true, (false, (true, false)))))))
| X5d -> (true, (false, (true, (true, (true, (false, (true, false)))))))
| X5e -> (false, (true, (true, (true, (true, (false, (true, false)))))))
| X5f -> (true, (true, (true, (true, (true, (false, (true, false)))))))
| X60 -> (false, (false, (false, (false, (false, (true, (true, false)))))))
| X61 -> (true, (false, (false, (false, (false, (true, (true, false)))))))
| X62 -> (false, (true, (false, (false, (false, (true, (true, false)))))))
| X63 -> (true, (true, (false, (false, (false, (true, (true, false)))))))
| X64 -> (false, (false, (true, (false, (false, (true, (true, false)))))))
| X65 -> (true, (false, (true, (false, (false, (true, (true, false)))))))
| X66 -> (false, (true, (true, (false, (false, (true, (true, false)))))))
| X67 -> (true, (true, (true, (false, (false, (true, (true, false)))))))
| X68 -> (false, (false, (false, (true, (false, (true, (true, false)))))))
| X69 -> (true, (false, (false, (true, (false, (true, (true, false)))))))
| X6a -> (false, (true, (false, (true, (false, (true, (true, false)))))))
| X6b -> (true, (true, (false, (true, (false, (true, (true, false)))))))
| X6c -> (false, (false, (true, (true, (false, (true, (true, false)))))))
| X6d -> (true, (false, (true, (true, (false, (true, (true, false)))))))
| X6e -> (false, (true, (true, (true, (false, (true, (true, false)))))))
| X6f -> (true, (true, (true, (true, (false, (true, (true, false)))))))
| X70 -> (false, (false, (false, (false, (true, (true, (true, false)))))))
| X71 -> (true, (false, (false, (false, (true, (true, (true, false)))))))
| X72 -> (false, (true, (false, (false, (true, (true, (true, false)))))))
| X73 -> (true, (true, (false, (false, (true, (true, (true, false)))))))
| X74 -> (false, (false, (true, (false, (true, (true, (true, false)))))))
| X75 -> (true, (false, (true, (false, (true, (true, (true, false)))))))
| X76 -> (false, (true, (true, (false, (true, (true, (true, false)))))))
| X77 -> (true, (true, (true, (false, (true, (true, (true, false)))))))
| X78 -> (false, (false, (false, (true, (true, (true, (true, false)))))))
| X79 -> (true, (false, (false, (true, (true, (true, (true, false)))))))
| X7a -> (false, (true, (false, (true, (true, (true, (true, false)))))))
| X7b -> (true, (true, (false, (true, (true, (true, (true, false)))))))
| X7c -> (false, (false, (true, (true, (true, (true, (true, false)))))))
| X7d -> (true, (false, (true, (true, (true, (true, (true, false)))))))
| X7e -> (false, (true, (true, (true, (true, (true, (true, false)))))))
| X7f -> (true, (true, (true, (true, (true, (true, (true, false)))))))
| X80 -> (false, (false, (false, (false, (false, (false, (false, true)))))))
| X81 -> (true, (false, (false, (false, (false, (false, (false, true)))))))
| X82 -> (false, (true, (false, (false, (false, (false, (false, true)))))))
| X83 -> (true, (true, (false, (false, (false, (false, (false, true)))))))
| X84 -> (false, (false, (true, (false, (false, (false, (false, true)))))))
| X85 -> (true, (false, (true, (false, (false, (false, (false, true)))))))
| X86 -> (false, (true, (true, (false, (false, (false, (false, true)))))))
| X87 -> (true, (true, (true, (false, (false, (false, (false, true)))))))
| X88 -> (false, (false, (false, (true, (false, (false, (false, true)))))))
| X89 -> (true, (false, (false, (true, (false, (false, (false, true)))))))
| X8a -> (false, (true, (false, (true, (false, (false, (false, true)))))))
| X8b -> (true, (true, (false, (true, (false, (false, (false, true)))))))
| X8c -> (false, (false, (true, (true, (false, (false, (false, true)))))))
| X8d -> (true, (false, (true, (true, (false, (false, (false, true)))))))
| X8e -> (false, (true, (true, (true, (false, (false, (false, true)))))))
| X8f -> (true, (true, (true, (true, (false, (false, (false, true)))))))
| X90 -> (false, (false, (false, (false, (true, (false, (false, true)))))))
| X91 -> (true, (false, (false, (false, (true, (false, (false, true)))))))
| X92 -> (false, (true, (false, (false, (true, (false, (false, true)))))))
| X93 -> (true, (true, (false, (false, (true, (false, (false, true)))))))
| X94 -> (false, (false, (true, (false, (true, (false, (false, true)))))))
| X95 -> (true, (false, (true, (false, (true, (false, (false, true)))))))
| X96 -> (false, (true, (true, (false, (true, (false, (false, true)))))))
| X97 -> (true, (true, (true, (false, (true, (false, (false, true)))))))
| X98 -> (false, (false, (false, (true, (true, (false, (false, true)))))))
| X99 -> (true, (false, (false, (true, (true, (false, (false, true)))))))
| X9a -> (false, (true, (false, (true, (true, (false, (false, true)))))))
| X9b -> (true, (true, (false, (true, (true, (false, (false, true)))))))
| X9c -> (false, (false, (true, (true, (true, (false, (false, true)))))))
| X9d -> (true, (false, (true, (true, (true, (false, (false, true)))))))
| X9e -> (false, (true, (true, (true, (true, (false, (false, true)))))))
| X9f -> (true, (true, (true, (true, (true, (false, (false, true)))))))
| Xa0 -> (false, (false, (false, (false, (false, (true, (false, true)))))))
| Xa1 -> (true, (false, (false, (false, (false, (true, (false, true)))))))
| Xa2 -> (false, (true, (false, (false, (false, (true, (false, true)))))))
| Xa3 -> (true, (true, (false, (false, (false, (true, (false, true)))))))
| Xa4 -> (false, (false, (true, (false, (false, (true, (false, true)))))))
| Xa5 -> (true, (false, (true, (false, (false, (true, (false, true)))))))
| Xa6 -> (false, (true, (true, (false, (false, (true, (false, true)))))))
| Xa7 -> (true, (true, (true, (false, (false, (true, (false, true)))))))
| Xa8 -> (false, (false, (false, (true, (false, (true, (false, true)))))))
| Xa9 -> (true, (false, (false, (true, (false, (true, (false, true)))))))
| Xaa -> (false, (true, (false, (true, (false, (true, (false, true)))))))
| Xab -> (true, (true, (false, (true, (false, (true, (false, true)))))))
| Xac -> (false, (false, (true, (true, (false, (true, (false, true)))))))
| Xad -> (true, (false, (true, (true, (false, (true, (false, true)))))))
| Xae -> (false, (true, (true, (true, (false, (true, (false, true)))))))
| Xaf -> (true, (true, (true, (true, (false, (true, (false, true)))))))
| Xb0 -> (false, (false, (false, (false, (true, (true, (false, true)))))))
| Xb1 -> (true, (false, (false, (false, (true, (true, (false, true)))))))
| Xb2 -> (false, (true, (false, (false, (true, (true, (false, true)))))))
| Xb3 -> (true, (true, (false, (false, (true, (true, (false, true)))))))
| Xb4 -> (false, (false, (true, (false, (true, (true, (false, true)))))))
| Xb5 -> (true, (false, (true, (false, (true, (true, (false, true)))))))
| Xb6 -> (false, (true, (true, (false, (true, (true, (false, true)))))))
| Xb7 -> (true, (true, (true, (false, (true, (true, (false, true)))))))
| Xb8 -> (false, (false, (false, (true, (true, (true, (false, true)))))))
| Xb9 -> (true, (false, (false, (true, (true, (true, (false, true)))))))
| Xba -> (false, (true, (false, (true, (true, (true, (false, true)))))))
| Xbb -> (true, (true, (false, (true, (true, (true, (false, true)))))))
| Xbc -> (false, (false, (true, (true, (true, (true, (false, true)))))))
| Xbd -> (true, (false, (true, (true, (true, (true, (false, true)))))))
| Xbe -> (false, (true, (true, (true, (true, (true, (false, true)))))))
| Xbf -> (true, (true, (true, (true, (true, (true, (false, true)))))))
| Xc0 -> (false, (false, (false, (false, (false, (false, (true, true)))))))
| Xc1 -> (true, (false, (false, (false, (false, (false, (true, true)))))))
| Xc2 -> (false, (true, (false, (false, (false, (false, (true, true)))))))
| Xc3 -> (true, (true, (false, (false, (false, (false, (true, true)))))))
| Xc4 -> (false, (false, (true, (false, (false, (false, (true, true)))))))
| Xc5 -> (true, (false, (true, (false, (false, (false, (true, true)))))))
| Xc6 -> (false, (true, (true, (false, (false, (false, (true, true)))))))
| Xc7 -> (true, (true, (true, (false, (false, (false, (true, true)))))))
| Xc8 -> (false, (false, (false, (true, (false, (false, (true, true)))))))
| Xc9 -> (true, (false, (false, (true, (false, (false, (true, true)))))))
| Xca -> (false, (true, (false, (true, (false, (false, (true, true)))))))
| Xcb -> (true, (true, (false, (true, (false, (false, (true, true)))))))
| Xcc -> (false, (false, (true, (true, (false, (false, (true, true)))))))
| Xcd -> (true, (false, (true, (true, (false, (false, (true, true)))))))
| Xce -> (false, (true, (true, (true, (false, (false, (true, true)))))))
| Xcf -> (true, (true, (true, (true, (false, (false, (true, true)))))))
| Xd0 -> (false, (false, (false, (false, (true, (false, (true, true)))))))
| Xd1 -> (true, (false, (false, (false, (true, (false, (true, true)))))))
| Xd2 -> (false, (true, (false, (false, (true, (false, (true, true)))))))
| Xd3 -> (true, (true, (false, (false, (true, (false, (true, true)))))))
| Xd4 -> (false, (false, (true, (false, (true, (false, (true, true)))))))
| Xd5 -> (true, (false, (true, (false, (true, (false, (true, true)))))))
| Xd6 -> (false, (true, (true, (false, (true, (false, (true, true)))))))
| Xd7 -> (true, (true, (true, (false, (true, (false, (true, true)))))))
| Xd8 -> (false, (false, (false, (true, (true, (false, (true, true)))))))
| Xd9 -> (true, (false, (false, (true, (true, (false, (true, true)))))))
| Xda -> (false, (true, (false, (true, (true, (false, (true, true)))))))
| Xdb -> (true, (true, (false, (true, (true, (false, (true, true)))))))
| Xdc -> (false, (false, (true, (true, (true, (false, (true, true)))))))
| Xdd -> (true, (false, (true, (true, (true, (false, (true, true)))))))
| Xde -> (false, (true, (true, (true, (true, (false, (true, true)))))))
| Xdf -> (true, (true, (true, (true, (true, (false, (true, true)))))))
| Xe0 -> (false, (false, (false, (false, (false, (true, (true, true)))))))
| Xe1 -> (true, (false, (false, (false, (false, (true, (true, true)))))))
| Xe2 -> (false, (true, (false, (false, (false, (true, (true, true)))))))
| Xe3 -> (true, (true, (false, (false, (false, (true, (true, true)))))))
| Xe4 -> (false, (false, (true, (false, (false, (true, (true, true)))))))
| Xe5 -> (true, (false, (true, (false, (false, (true, (true, true)))))))
| Xe6 -> (false, (true, (true, (false, (false, (true, (true, true)))))))
| Xe7 -> (true, (true, (true, (false, (false, (true, (true, true)))))))
| Xe8 -> (false, (false, (false, (true, (false, (true, (true, true)))))))
| Xe9 -> (true, (false, (false, (true, (false, (true, (true, true)))))))
| Xea -> (false, (true, (false, (true, (false, (true, (true, true)))))))
| Xeb -> (true, (true, (false, (true, (false, (true, (true, true)))))))
| Xec -> (false, (false, (true, (true, (false, (true, (true, true)))))))
| Xed -> (true, (false, (true, (true, (false, (true, (true, true)))))))
| Xee -> (false, (true, (true, (true, (false, (true, (true, true)))))))
| Xef -> (true, (true, (true, (true, (false, (true, (true, true)))))))
| Xf0 -> (false, (false, (false, (false, (true, (true, (true, true)))))))
| Xf1 -> (true, (false, (false, (false, (true, (true, (true, true)))))))
| Xf2 -> (false, (true, (false, (false, (true, (true, (true, true)))))))
| Xf3 -> (true, (true, (false, (false, (true, (true, (true, true)))))))
| Xf4 -> (false, (false, (true, (false, (true, (true, (true, true)))))))
| Xf5 -> (true, (false, (true, (false, (true, (true, (true, true)))))))
| Xf6 -> (false, (true, (true, (false, (true, (true, (true, true)))))))
| Xf7 -> (true, (true, (true, (false, (true, (true, (true, true)))))))
| Xf8 -> (false, (false, (false, (true, (true, (true, (true, true)))))))
| Xf9 -> (true, (false, (false, (true, (true, (true, (true, true)))))))
| Xfa -> (false, (true, (false, (true, (true, (true, (true, true)))))))
| Xfb -> (true, (true, (false, (true, (true, (true, (true, true)))))))
| Xfc -> (false, (false, (true, (true, (true, (true, (true, true)))))))
| Xfd -> (true, (false, (true, (true, (true, (true, (true, true)))))))
| Xfe -> (false, (true, (true, (true, (true, (true, (true, true)))))))
| Xff -> (true, (true, (true, (true, (true, (true, (true, true)))))))

(** val eqb : bool -> bool -> bool **)

let eqb b1 b2 =
  if b1 then b2 else if b2 then false else true

(** val existsb : ('a1 -> bool) -> 'a1 list -> bool **)

let rec existsb f = function
| [] -> false
| a :: l0 -> (||) (f a) (existsb f l0)

(** val forallb : ('a1 -> bool) -> 'a1 list -> bool **)

let rec forallb f = function
| [] -> true
| a :: l0 -> (&&) (f a) (forallb f l0)

type positive =
| XI of positive
| XO of positive
| XH

type n =
| N0
| Npos of positive

type z =
| Z0
| Zpos of positive
| Zneg of positive

module Pos =
 struct
  type mask =
  | IsNul
  | IsPos of positive
  | IsNeg
 end

module Coq_Pos =
 struct
  (** val succ : positive -> positive **)

  let rec succ = function
  | XI p -> XO (succ p)
  | XO p -> XI p
  | XH -> XO XH

  (** val add : positive -> positive -> positive **)

  let rec add x y =
    match x with
    | XI p ->
      (match y with
       | XI q -> XO (add_carry p q)
       | XO q -> XI (add p q)
       | XH -> XO (succ p))
    | XO p ->
      (match y with
       | XI q -> XI (add p q)
       | XO q -> XO (add p q)
       | XH -> XI p)
    | XH -> (match y with
             | XI q -> XO (succ q)
             | XO q -> XI q
             | XH -> XO XH)

  (** val add_carry : positive -> positive -> positive **)

  and add_carry x y =
    match x with
    | XI p ->
      (match y with
       | XI q -> XI (add_carry p q)
       | XO q -> XO (add_carry p q)
       | XH -> XI (succ p))
    | XO p ->
      (match y with
       | XI q -> XO (add_carry p q)
       | XO q -> XI (add p q)
       | XH -> XO (succ p))
    | XH ->
      (match y with
       | XI q -> XI (succ q)
       | XO q -> XO (succ q)
       | XH -> XI XH)

  (** val pred_double : positive -> positive **)

  let rec pred_double = function
  | XI p -> XI (XO p)
  | XO p -> XI (pred_double p)
  | XH -> XH

  type mask = Pos.mask =
  | IsNul
  | IsPos of positive
  | IsNeg

  (** val succ_double_mask : mask -> mask **)

  let succ_double_mask = function
  | IsNul -> IsPos XH
  | IsPos p -> IsPos (XI p)
  | IsNeg -> IsNeg

  (** val double_mask : mask -> mask **)

  let double_mask = function
  | IsPos p -> IsPos (XO p)
  | x0 -> x0

  (** val double_pred_mask : positive -> mask **)

  let double_pred_mask = function
  | XI p -> IsPos (XO (XO p))
  | XO p -> IsPos (XO (pred_double p))
  | XH -> IsNul

  (** val sub_mask : positive -> positive -> mask **)

  let rec sub_mask x y =
    match x with
    | XI p ->
      (match y with
       | XI q -> double_mask (sub_mask p q)
       | XO q -> succ_double_mask (sub_mask p q)
       | XH -> IsPos (XO p))
    | XO p ->
      (match y with
       | XI q -> succ_double_mask (sub_mask_carry p q)
       | XO q -> double_mask (sub_mask p q)
       | XH -> IsPos (pred_double p))
    | XH -> (match y with
             | XH -> IsNul
             | _ -> IsNeg)

  (** val sub_mask_carry : positive -> positive -> mask **)

  and sub_mask_carry x y =
    match x with
    | XI p ->
      (match y with
       | XI q -> succ_double_mask (sub_mask_carry p q)
       | XO q -> double_mask (sub_mask p q)
       | XH -> IsPos (pred_double p))
    | XO p ->
      (match y with
       | XI q -> double_mask (sub_mask_carry p q)
       | XO q -> succ_double_mask (sub_mask_carry p q)
       | XH -> double_pred_mask p)
    | XH -> IsNeg

  (** val mul : positive -> positive -> positive **)

  let rec mul x y =
    match x with
    | XI p -> add y (XO (mul p y))
    | XO p -> XO (mul p y)
    | XH -> y

  (** val compare_cont : comparison -> positive -> positive -> comparison **)

  let rec compare_cont r x y =
    match x with
    | XI p ->
      (match y with
       | XI q -> compare_cont r p q
       | XO q -> compare_cont Gt p q
       | XH -> Gt)
    | XO p ->
      (match y with
       | XI q -> compare_cont Lt p q
       | XO q -> compare_cont r p q
       | XH -> Gt)
    | XH -> (match y with
             | XH -> r
             | _ -> Lt)

  (** val compare : positive -> positive -> comparison **)

  let compare =
    compare_cont Eq

  (** val eqb : positive -> positive -> bool **)

  let rec eqb p q =
    match p with
    | XI p0 -> (match q with
                | XI q0 -> eqb p0 q0
                | _ -> false)
    | XO p0 -> (match q with
                | XO q0 -> eqb p0 q0
                | _ -> false)
    | XH -> (match q with
             | XH -> true
             | _ -> false)

  (** val of_uint_acc : uint -> positive -> positive **)

  let rec of_uint_acc d acc =
    match d with
    | Nil -> acc
    | D0 l -> of_uint_acc l (mul (XO (XI (XO XH))) acc)
    | D1 l -> of_uint_acc l (add XH (mul (XO (XI (XO XH))) acc))
    | D2 l -> of_uint_acc l (add (XO XH) (mul (XO (XI (XO XH))) acc))
    | D3 l -> of_uint_acc l (add (XI XH) (mul (XO (XI (XO XH))) acc))
    | D4 l -> of_uint_acc l (add (XO (XO XH)) (mul (XO (XI (XO XH))) acc))
    | D5 l -> of_uint_acc l (add (XI (XO XH)) (mul (XO (XI (XO XH))) acc))
    | D6 l -> of_uint_acc l (add (XO (XI XH)) (mul (XO (XI (XO XH))) acc))
    | D7 l -> of_uint_acc l (add (XI (XI XH)) (mul (XO (XI (XO XH))) acc))
    | D8 l ->
      of_uint_acc l (add (XO (XO (XO XH))) (mul (XO (XI (XO XH))) acc))
    | D9 l ->
      of_uint_acc l (add (XI (XO (XO XH))) (mul (XO (XI (XO XH))) acc))

  (** val of_uint : uint -> n **)

  let rec of_uint = function
  | Nil -> N0
  | D0 l -> of_uint l
  | D1 l -> Npos (of_uint_acc l XH)
  | D2 l -> Npos (of_uint_acc l (XO XH))
  | D3 l -> Npos (of_uint_acc l (XI XH))
  | D4 l -> Npos (of_uint_acc l (XO (XO XH)))
  | D5 l -> Npos (of_uint_acc l (XI (XO XH)))
  | D6 l -> Npos (of_uint_acc l (XO (XI XH)))
  | D7 l -> Npos (of_uint_acc l (XI (XI XH)))
  | D8 l -> Npos (of_uint_acc l (XO (XO (XO XH))))
  | D9 l -> Npos (of_uint_acc l (XI (XO (XO XH))))

  (** val to_little_uint : positive -> uint **)

  let rec to_little_uint = function
  | XI p0 -> Little.succ_double (to_little_uint p0)
  | XO p0 -> Little.double (to_little_uint p0)
  | XH -> D1 Nil

  (** val to_uint : positive -> uint **)

  let to_uint p =
    rev (to_little_uint p)
 end

module N =
 struct
  (** val succ_double : n -> n **)

  let succ_double = function
  | N0 -> Npos XH
  | Npos p -> Npos (XI p)

  (** val double : n -> n **)

  let double = function
  | N0 -> N0
  | Npos p -> Npos (XO p)

  (** val add : n -> n -> n **)

  let add n0 m =
    match n0 with
    | N0 -> m
    | Npos p -> (match m with
                 | N0 -> n0
                 | Npos q -> Npos (Coq_Pos.add p q))

  (** val sub : n -> n -> n **)

  let sub n0 m =
    match n0 with
    | N0 -> N0
    | Npos n' ->
      (match m with
       | N0 -> n0
       | Npos m' ->
         (match Coq_Pos.sub_mask n' m' with
          | Coq_Pos.IsPos p -> Npos p
          | _ -> N0))

  (** val mul : n -> n -> n **)

  let mul n0 m =
    match n0 with
    | N0 -> N0
    | Npos p -> (match m with
                 | N0 -> N0
                 | Npos q -> Npos (Coq_Pos.mul p q))

  (** val compare : n -> n -> comparison **)

  let compare n0 m =
    match n0 with
    | N0 -> (match m with
             | N0 -> Eq
             | Npos _ -> Lt)
    | Npos n' -> (match m with
                  | N0 -> Gt
                  | Npos m' -> Coq_Pos.compare n' m')

  (** val eqb : n -> n -> bool **)

  let eqb n0 m =
    match n0 with
    | N0 -> (match m with
             | N0 -> true
             | Npos _ -> false)
    | Npos p -> (match m with
                 | N0 -> false
                 | Npos q -> Coq_Pos.eqb p q)

  (** val leb : n -> n -> bool **)

  let leb x y =
    match compare x y with
    | Gt -> false
    | _ -> true

  (** val ltb : n -> n -> bool **)

  let ltb x y =
    match compare x y with
    | Lt -> true
    | _ -> false

  (** val pos_div_eucl : positive -> n -> n * n **)

  let rec pos_div_eucl a b =
    match a with
    | XI a' ->
      let (q, r) = pos_div_eucl a' b in
      let r' = succ_double r in
      if leb b r' then ((succ_double q), (sub r' b)) else ((double q), r')
    | XO a' ->
      let (q, r) = pos_div_eucl a' b in
      let r' = double r in
      if leb b r' then ((succ_double q), (sub r' b)) else ((double q), r')
    | XH ->
      (match b with
       | N0 -> (N0, (Npos XH))
       | Npos p -> (match p with
                    | XH -> ((Npos XH), N0)
                    | _ -> (N0, (Npos XH))))

  (** val div_eucl : n -> n -> n * n **)

  let div_eucl a b =
    match a with
    | N0 -> (N0, N0)
    | Npos na -> (match b with
                  | N0 -> (N0, a)
                  | Npos _ -> pos_div_eucl na b)

  (** val div : n -> n -> n **)

  let div a b =
    fst (div_eucl a b)

  (** val modulo : n -> n -> n **)

  let modulo a b =
    snd (div_eucl a b)

  (** val of_uint : uint -> n **)

  let of_uint =
    Coq_Pos.of_uint

  (** val to_uint : n -> uint **)

  let to_uint = function
  | N0 -> D0 Nil
  | Npos p -> Coq_Pos.to_uint p
 end

(** val eqb0 : byte -> byte -> bool **)

let eqb0 a b =
  let (a0, p) = to_bits a in
  let (a1, p0) = p in
  let (a2, p1) = p0 in
  let (a3, p2) = p1 in
  let (a4, p3) = p2 in
  let (a5, p4) = p3 in
  let (a6, a7) = p4 in
  let (b0, p5) = to_bits b in
  let (b1, p6) = p5 in
  let (b2, p7) = p6 in
  let (b3, p8) = p7 in
  let (b4, p9) = p8 in
  let (b5, p10) = p9 in
  let (b6, b7) = p10 in
  (&&)
    ((&&)
      ((&&)
        ((&&)
          ((&&) ((&&) ((&&) (eqb a0 b0) (eqb a1 b1)) (eqb a2 b2)) (eqb a3 b3))
          (eqb a4 b4)) (eqb a5 b5)) (eqb a6 b6)) (eqb a7 b7)

(** val to_N : byte -> n **)

let to_N = function
| X00 -> N0
| X01 -> Npos XH
| X02 -> Npos (XO XH)
| X03 -> Npos (XI XH)
| X04 -> Npos (XO (XO XH))
| X05 -> Npos (XI (XO XH))
| X06 -> Npos (XO (XI XH))
| X07 -> Npos (XI (XI XH))
| X08 -> Npos (XO (XO (XO XH)))
| X09 -> Npos (XI (XO (XO XH)))
| X0a -> Npos (XO (XI (XO XH)))
| X0b -> Npos (XI (XI (XO XH)))
| X0c -> Npos (XO (XO (XI XH)))
| X0d -> Npos (XI (XO (XI XH)))
| X0e -> Npos (XO (XI (XI XH)))
| X0f -> Npos (XI (XI (XI XH)))
| X10 -> Npos (XO (XO (XO (XO XH))))
| X11 -> Npos (XI (XO (XO (XO XH))))
| X12 -> Npos (XO (XI (XO (XO XH))))
| X13 -> Npos (XI (XI (XO (XO XH))))
| X14 -> Npos (XO (XO (XI (XO XH))))
| X15 -> Npos (XI (XO (XI (XO XH))))
| X16 -> Npos (XO (XI (XI (XO XH))))
| X17 -> Npos (XI (XI (XI (XO XH))))
| X18 -> Npos (XO (XO (XO (XI XH))))
| X19 -> Npos (XI (XO (XO (XI XH))))
| X1a -> Npos (XO (XI (XO (XI XH))))
| X1b -> Npos (XI (XI (XO (XI XH))))
| X1c -> Npos (XO (XO (XI (XI XH))))
| X1d -> Npos (XI (XO (XI (XI XH))))
| X1e -> Npos (XO (XI (XI (XI XH))))
| X1f -> Npos (XI (XI (XI (XI XH))))
| X20 -> Npos (XO (XO (XO (XO (XO XH)))))
| X21 -> Npos (XI (XO (XO (XO (XO XH)))))
| X22 -> Npos (XO (XI (XO (XO (XO XH)))))
| X23 -> Npos (XI (XI (XO (XO (XO XH)))))
| X24 -> Npos (XO (XO (XI (XO (XO XH)))))
| X25 -> Npos (XI (XO (XI (XO (XO XH)))))
| X26 -> Npos (XO (XI (XI (XO (XO XH)))))
| X27 -> Npos (XI (XI (XI (XO (XO XH)))))
| X28 -> Npos (XO (XO (XO (XI (XO XH)))))
| X29 -> Npos (XI (XO (XO (XI (XO XH)))))
| X2a -> Npos (XO (XI (XO (XI (XO XH)))))
| X2b -> Npos (XI (XI (XO (XI (XO XH)))))
| X2c -> Npos (XO (XO (XI (XI (XO XH)))))
| X2d -> Npos (XI (XO (XI (XI (XO XH)))))
| X2e -> Npos (XO (XI (XI (XI (XO XH)))))
| X2f -> Npos (XI (XI (XI (XI (XO XH)))))
| X30 -> Npos (XO (XO (XO (XO (XI XH)))))
| X31 -> Npos (XI (XO (XO (XO (XI XH)))))
| X32 -> Npos (XO (XI (XO (XO (XI XH)))))
| X33 -> Npos (XI (XI (XO (XO (XI XH)))))
| X34 -> Npos (XO (XO (XI (XO (XI XH)))))
| X35 -> Npos (XI (XO (XI (XO (XI XH)))))
| X36 -> Npos (XO (XI (XI (XO (XI XH)))))
| X37 -> Npos (XI (XI (XI (XO (XI XH)))))
| X38 -> Npos (XO (XO (XO (XI (XI XH)))))
| X39 -> Npos (XI (XO (XO (XI (XI XH)))))
| X3a -> Npos (XO (XI (XO (XI (XI XH)))))
| X3b -> Npos (XI (XI (XO (XI (XI XH)))))
| X3c -> Npos (XO (XO (XI (XI (XI XH)))))
| X3d -> Npos (XI (XO (XI (XI (XI XH)))))
| X3e -> Npos (XO (XI (XI (XI (XI XH)))))
| X3f -> Npos (XI (XI (XI (XI (XI XH)))))
| X40 -> Npos (XO (XO (XO (XO (XO (XO XH))))))
| X41 -> Npos (XI (XO (XO (XO (XO (XO XH))))))
| X42 -> Npos (XO (XI (XO (XO (XO (XO XH))))))
| X43 -> Npos (XI (XI (XO (XO (XO (XO XH))))))
| X44 -> Npos (XO (XO (XI (XO (XO (XO XH))))))
| X45 -> Npos (XI (XO (XI (XO (XO (XO XH))))))
| X46 -> Npos (XO (XI (XI (XO (XO (XO XH))))))
| X47 -> Npos (XI (XI (XI (XO (XO (XO XH))))))
| X48 -> Npos (XO (XO (XO (XI (XO (XO XH))))))
| X49 -> Npos (XI (XO (XO (XI (XO (XO XH))))))
| X4a -> Npos (XO (XI (XO (XI (XO (XO XH))))))
| X4b -> Npos (XI (XI (XO (XI (XO (XO XH))))))
| X4c -> Npos (XO (XO (XI (XI (XO (XO XH))))))
| X4d -> Npos (XI (XO (XI (XI (XO (XO XH))))))
| X4e -> Npos (XO (XI (XI (XI (XO (XO XH))))))
| X4f -> Npos (XI (XI (XI (XI (XO (XO XH))))))
| X50 -> Npos (XO (XO (XO (XO (XI (XO XH))))))
| X51 -> Npos (XI (XO (XO (XO (XI (XO XH))))))
| X52 -> Npos (XO (XI (XO (XO (XI (XO XH))))))
| X53 -> Npos (XI (XI (XO (XO (XI (XO XH))))))
| X54 -> Npos (XO (XO (XI (XO (XI (XO XH))))))
| X55 -> Npos (XI (XO (XI (XO (XI (XO XH))))))
| X56 -> Npos (XO (XI (XI (XO (XI (XO XH))))))
| X57 -> Npos (XI (XI (XI (XO (XI (XO XH))))))
| X58 -> Npos (XO (XO (XO (XI (XI (XO XH))))))
| X59 -> Npos (XI (XO (XO (XI (XI (XO XH))))))
| X5a -> Npos (XO (XI (XO (XI (XI (XO XH))))))
| X5b -> Npos (XI (XI (XO (XI (XI (XO XH))))))
| X5c -> Npos (XO (XO (XI (XI (XI (XO XH))))))
| X5d -> Npos (XI (XO (XI (XI (XI (XO XH))))))
| X5e -> Npos (XO (XI (XI (XI (XI (XO XH))))))
| X5f -> Npos (XI (XI (XI (XI (XI (XO XH))))))
| X60 -> Npos (XO (XO (XO (XO (XO (XI XH))))))
| X61 -> Npos (XI (XO (XO (XO (XO (XI XH))))))
| X62 -> Npos (XO (XI (XO (XO (XO (XI XH))))))
| X63 -> Npos (XI (XI (XO (XO (XO (XI XH))))))
| X64 -> Npos (XO (XO (XI (XO (XO (XI XH))))))
| X65 -> Npos (XI (XO (XI (XO (XO (XI XH))))))
| X66 -> Npos (XO (XI (XI (XO (XO (XI XH))))))
| X67 -> Npos (XI (XI (XI (XO (XO (XI XH))))))
| X68 -> Npos (XO (XO (XO (XI (XO (XI XH))))))
| X69 -> Npos (XI (XO (XO (XI (XO (XI XH))))))
| X6a -> Npos (XO (XI (XO (XI (XO (XI XH))))))
| X6b -> Npos (XI (XI (XO (XI (XO (XI XH))))))
| X6c -> Npos (XO (XO (XI (XI (XO (XI XH))))))
| X6d -> Npos (XI (XO (XI (XI (XO (XI XH))))))
| X6e -> Npos (XO (XI (XI (XI (XO (XI XH))))))
| X6f -> Npos (XI (XI (XI (XI (XO (XI XH))))))
| X70 -> Npos (XO (XO (XO (XO (XI (XI XH))))))
| X71 -> Npos (XI (XO (XO (XO (XI (XI XH))))))
| X72 -> Npos (XO (XI (XO (XO (XI (XI XH))))))
| X73 -> Npos (XI (XI (XO (XO (XI (XI XH))))))
| X74 -> Npos (XO (XO (XI (XO (XI (XI XH))))))
| X75 -> Npos (XI (XO (XI (XO (XI (XI XH))))))
| X76 -> Npos (XO (XI (XI (XO (XI (XI XH))))))
| X77 -> Npos (XI (XI (XI (XO (XI (XI XH))))))
| X78 -> Npos (XO (XO (XO (XI (XI (XI XH))))))
| X79 -> Npos (XI (XO (XO (XI (XI (XI XH))))))
| X7a -> Npos (XO (XI (XO (XI (XI (XI XH))))))
| X7b -> Npos (XI (XI (XO (XI (XI (XI XH))))))
| X7c -> Npos (XO (XO (XI (XI (XI (XI XH))))))
| X7d -> Npos (XI (XO (XI (XI (XI (XI XH))))))
| X7e -> Npos (XO (XI (XI (XI (XI (XI XH))))))
| X7f -> Npos (XI (XI (XI (XI (XI (XI XH))))))
| X80 -> Npos (XO (XO (XO (XO (XO (XO (XO XH)))))))
| X81 -> Npos (XI (XO (XO (XO (XO (XO (XO XH)))))))
| X82 -> Npos (XO (XI (XO (XO (XO (XO (XO XH)))))))
| X83 -> Npos (XI (XI (XO (XO (XO (XO (XO XH)))))))
| X84 -> Npos (XO (XO (XI (XO (XO (XO (XO XH)))))))
| X85 -> Npos (XI (XO (XI (XO (XO (XO (XO XH)))))))
| X86 -> Npos (XO (XI (XI (XO (XO (XO (XO XH)))))))
| X87 -> Npos (XI (XI (XI (XO (XO (XO (XO XH)))))))
| X88 -> Npos (XO (XO (XO (XI (XO (XO (XO XH)))))))
| X89 -> Npos (XI (XO (XO (XI (XO (XO (XO XH)))))))
| X8a -> Npos (XO (XI (XO (XI (XO (XO (XO XH)))))))
| X8b -> Npos (XI (XI (XO (XI (XO (XO (XO XH)))))))
| X8c -> Npos (XO (XO (XI (XI (XO (XO (XO XH)))))))
| X8d -> Npos (XI (XO (XI (XI (XO (XO (XO XH)))))))
| X8e -> Npos (XO (XI (XI (XI (XO (XO (XO XH)))))))
| X8f -> Npos (XI (XI (XI (XI (XO (XO (XO XH)))))))
| X90 -> Npos (XO (XO (XO (XO (XI (XO (XO XH)))))))
| X91 -> Npos (XI (XO (XO (XO (XI (XO (XO XH)))))))
| X92 -> Npos (XO (XI (XO (XO (XI (XO (XO XH)))))))
| X93 -> Npos (XI (XI (XO (XO (XI (XO (XO XH)))))))
| X94 -> Npos (XO (XO (XI (XO (XI (XO (XO XH)))))))
| X95 -> Npos (XI (XO (XI (XO (XI (XO (XO XH)))))))
| X96 -> Npos (XO (XI (XI (XO (XI (XO (XO XH)))))))
| X97 -> Npos (XI (XI (XI (XO (XI (XO (XO XH)))))))
| X98 -> Npos (XO (XO (XO (XI (XI (XO (XO XH)))))))
| X99 -> Npos (XI (XO (XO (XI (XI (XO (XO XH)))))))
| X9a -> Npos (XO (XI (XO (XI (XI (XO (XO XH)))))))
| X9b -> Npos (XI (XI (XO (XI (XI (XO (XO XH)))))))
| X9c -> Npos (XO (XO (XI (XI (XI (XO (XO XH)))))))
| X9d -> Npos (XI (XO (XI (XI (XI (XO (XO XH)))))))
| X9e -> Npos (XO (XI (XI (XI (XI (XO (XO XH)))))))
| X9f -> Npos (XI (XI (XI (XI (XI (XO (XO XH)))))))
| Xa0 -> Npos (XO (XO (XO (XO (XO (XI (XO XH)))))))
| Xa1 -> Npos (XI (XO (XO (XO (XO (XI (XO XH)))))))
| Xa2 -> Npos (XO (XI (XO (XO (XO (XI (XO XH)))))))
| Xa3 -> Npos (XI (XI (XO (XO (XO (XI (XO XH)))))))
| Xa4 -> Npos (XO (XO (XI (XO (XO (XI (XO XH)))))))
| Xa5 -> Npos (XI (XO (XI (XO (XO (XI (XO XH)))))))
| Xa6 -> Npos (XO (XI (XI (XO (XO (XI (XO XH)))))))
| Xa7 -> Npos (XI (XI (XI (XO (XO (XI (XO XH)))))))
| Xa8 -> Npos (XO (XO (XO (XI (XO (XI (XO XH)))))))
| Xa9 -> Npos (XI (XO (XO (XI (XO (XI (XO XH)))))))
| Xaa -> Npos (XO (XI (XO (XI (XO (XI (XO XH)))))))
| Xab -> Npos (XI (XI (XO (XI (XO (XI (XO XH)))))))
| Xac -> Npos (XO (XO (XI (XI (XO (XI (XO XH)))))))
| Xad -> Npos (XI (XO (XI (XI (XO (XI (XO XH)))))))
| Xae -> Npos (XO (XI (XI (XI (XO (XI (XO XH)))))))
| Xaf -> Npos (XI (XI (XI (XI (XO (XI (XO XH)))))))
| Xb0 -> Npos (XO (XO (XO (XO (XI (XI (XO XH)))))))
| Xb1 -> Npos (XI (XO (XO (XO (XI (XI (XO XH)))))))
| Xb2 -> Npos (XO (XI (XO (XO (XI (XI (XO XH)))))))
| Xb3 -> Npos (XI (XI (XO (XO (XI (XI (XO XH)))))))
| Xb4 -> Npos (XO (XO (XI (XO (XI (XI (XO XH)))))))
| Xb5 -> Npos (XI (XO (XI (XO (XI (XI (XO XH)))))))
| Xb6 -> Npos (XO (XI (XI (XO (XI (XI (XO XH)))))))
| Xb7 -> Npos (XI (XI (XI (XO (XI (XI (XO XH)))))))
| Xb8 -> Npos (XO (XO (XO (XI (XI (XI (XO XH)))))))
| Xb9 -> Npos (XI (XO (XO (XI (XI (XI (XO XH)))))))
| Xba -> Npos (XO (XI (XO (XI (XI (XI (XO XH)))))))
| Xbb -> Npos (XI (XI (XO (XI (XI (XI (XO XH)))))))
| Xbc -> Npos (XO (XO (XI (XI (XI (XI (XO XH)))))))
| Xbd -> Npos (XI (XO (XI (XI (XI (XI (XO XH)))))))
| Xbe -> Npos (XO (XI (XI (XI (XI (XI (XO XH)))))))
| Xbf -> Npos (XI (XI (XI (XI (XI (XI (XO XH)))))))
| Xc0 -> Npos (XO (XO (XO (XO (XO (XO (XI XH)))))))
| Xc1 -> Npos (XI (XO (XO (XO (XO (XO (XI XH)))))))
| Xc2 -> Npos (XO (XI (XO (XO (XO (XO (XI XH)))))))
| Xc3 -> Npos (XI (XI (XO (XO (XO (XO (XI XH)))))))
| Xc4 -> Npos (XO (XO (XI (XO (XO (XO (XI XH)))))))
| Xc5 -> Npos (XI (XO (XI (XO (XO (XO (XI XH)))))))
| Xc6 -> Npos (XO (XI (XI (XO (XO (XO (XI XH)))))))
| Xc7 -> Npos (XI (XI (XI (XO (XO (XO (XI XH)))))))
| Xc8 -> Npos (XO (XO (XO (XI (XO (XO (XI XH)))))))
| Xc9 -> Npos (XI (XO (XO (XI (XO (XO (XI XH)))))))
| Xca -> Npos (XO (XI (XO (XI (XO (XO (XI XH)))))))
| Xcb -> Npos (XI (XI (XO (XI (XO (XO (XI XH)))))))
| Xcc -> Npos (XO (XO (XI (XI (XO (XO (XI XH)))))))
| Xcd -> Npos (XI (XO (XI (XI (XO (XO (XI XH)))))))
| Xce -> Npos (XO (XI (XI (XI (XO (XO (XI XH)))))))
| Xcf -> Npos (XI (XI (XI (XI (XO (XO (XI XH)))))))
| Xd0 -> Npos (XO (XO (XO (XO (XI (XO (XI XH)))))))
| Xd1 -> Npos (XI (XO (XO (XO (XI (XO (XI XH)))))))
| Xd2 -> Npos (XO (XI (XO (XO (XI (XO (XI XH)))))))
| Xd3 -> Npos (XI (XI (XO (XO (XI (XO (XI XH)))))))
| Xd4 -> Npos (XO (XO (XI (XO (XI (XO (XI XH)))))))
| Xd5 -> Npos (XI (XO (XI (XO (XI (XO (XI XH)))))))
| Xd6 -> Npos (XO (XI (XI (XO (XI (XO (XI XH)))))))
| Xd7 -> Npos (XI (XI (XI (XO (XI (XO (XI XH)))))))
| Xd8 -> Npos (XO (XO (XO (XI (XI (XO (XI XH)))))))
| Xd9 -> Npos (XI (XO (XO (XI (XI (XO (XI XH)))))))
| Xda -> Npos (XO (XI (XO (XI (XI (XO (XI XH)))))))
| Xdb -> Npos (XI (XI (XO (XI (XI (XO (XI XH)))))))
| Xdc -> Npos (XO (XO (XI (XI (XI (XO (XI XH)))))))
| Xdd -> Npos (XI (XO (XI (XI (XI (XO (XI XH)))))))
| Xde -> Npos (XO (XI (XI (XI (XI (XO (XI XH)))))))
| Xdf -> Npos (XI (XI (XI (XI (XI (XO (XI XH)))))))
| Xe0 -> Npos (XO (XO (XO (XO (XO (XI (XI XH)))))))
| Xe1 -> Npos (XI (XO (XO (XO (XO (XI (XI XH)))))))
| Xe2 -> Npos (XO (XI (XO (XO (XO (XI (XI XH)))))))
| Xe3 -> Npos (XI (XI (XO (XO (XO (XI (XI XH)))))))
| Xe4 -> Npos (XO (XO (XI (XO (XO (XI (XI XH)))))))
| Xe5 -> Npos (XI (XO (XI (XO (XO (XI (XI XH)))))))
| Xe6 -> Npos (XO (XI (XI (XO (XO (XI (XI XH)))))))
| Xe7 -> Npos (XI (XI (XI (XO (XO (XI (XI XH)))))))
| Xe8 -> Npos (XO (XO (XO (XI (XO (XI (XI XH)))))))
| Xe9 -> Npos (XI (XO (XO (XI (XO (XI (XI XH)))))))
| Xea -> Npos (XO (XI (XO (XI (XO (XI (XI XH)))))))
| Xeb -> Npos (XI (XI (XO (XI (XO (XI (XI XH)))))))
| Xec -> Npos (XO (XO (XI (XI (XO (XI (XI XH)))))))
| Xed -> Npos (XI (XO (XI (XI (XO (XI (XI XH)))))))
| Xee -> Npos (XO (XI (XI (XI (XO (XI (XI XH)))))))
| Xef -> Npos (XI (XI (XI (XI (XO (XI (XI XH)))))))
| Xf0 -> Npos (XO (XO (XO (XO (XI (XI (XI XH)))))))
| Xf1 -> Npos (XI (XO (XO (XO (XI (XI (XI XH)))))))
| Xf2 -> Npos (XO (XI (XO (XO (XI (XI (XI XH)))))))
| Xf3 -> Npos (XI (XI (XO (XO (XI (XI (XI XH)))))))
| Xf4 -> Npos (XO (XO (XI (XO (XI (XI (XI XH)))))))
| Xf5 -> Npos (XI (XO (XI (XO (XI (XI (XI XH)))))))
| Xf6 -> Npos (XO (XI (XI (XO (XI (XI (XI XH)))))))
| Xf7 -> Npos (XI (XI (XI (XO (XI (XI (XI XH)))))))
| Xf8 -> Npos (XO (XO (XO (XI (XI (XI (XI XH)))))))
| Xf9 -> Npos (XI (XO (XO (XI (XI (XI (XI XH)))))))
| Xfa -> Npos (XO (XI (XO (XI (XI (XI (XI XH)))))))
| Xfb -> Npos (XI (XI (XO (XI (XI (XI (XI XH)))))))
| Xfc -> Npos (XO (XO (XI (XI (XI (XI (XI XH)))))))
| Xfd -> Npos (XI (XO (XI (XI (XI (XI (XI XH)))))))
| Xfe -> Npos (XO (XI (XI (XI (XI (XI (XI XH)))))))
| Xff -> Npos (XI (XI (XI (XI (XI (XI (XI XH)))))))

(** val of_N : n -> byte option **)

let of_N = function
| N0 -> Some X00
| Npos p ->
  (match p with
   | XI p0 ->
     (match p0 with
      | XI p1 ->
        (match p1 with
         | XI p2 ->
           (match p2 with
            | XI p3 ->
              (match p3 with
               | XI p4 ->
                 (match p4 with
                  | XI p5 ->
                    (match p5 with
                     | XI p6 -> (match p6 with
                                 | XH -> Some Xff
                                 | _ -> None)
                     | XO p6 -> (match p6 with
                                 | XH -> Some Xbf
                                 | _ -> None)
                     | XH -> Some X7f)
                  | XO p5 ->
                    (match p5 with
                     | XI p6 -> (match p6 with
                                 | XH -> Some Xdf
                                 | _ -> None)
                     | XO p6 -> (match p6 with
                                 | XH -> Some X9f
                                 | _ -> None)
                     | XH -> Some X5f)
                  | XH -> Some X3f)
               | XO p4 ->
                 (match p4 with
                  | XI p5 ->
                    (match p5 with
                     | XI p6 -> (match p6 with
                                 | XH -> Some Xef
                                 | _ -> None)
                     | XO p6 -> (match p6 with
                                 | XH -> Some Xaf
                                 | _ -> None)
                     | XH -> Some X6f)
                  | XO p5 ->
                    (match p5 with
                     | XI p6 -> (match p6 with
                                 | XH -> Some Xcf
                                 | _ -> None)
                     | XO p6 -> (match p6 with
                                 | XH -> Some X8f
                                 | _ -> None)
                     | XH -> Some X4f)
                  | XH -> Some X2f)
               | XH -> Some X1f)
            | XO p3 ->
              (match p3 with
               | XI p4 ->
                 (match p4 with
                  | XI p5 ->
                    (match p5 with
                     | XI p6 -> (match p6 with
                                 | XH -> Some Xf7
                                 | _ -> None)
                     | XO p6 -> (match p6 with
                                 | XH -> Some Xb7
                                 | _ -> None)
                     | XH -> Some X77)
                  | XO p5 ->
                    (match p5 with
                     | XI p6 -> (match p6 with
                                 | XH -> Some Xd7
                                 | _ -> None)
                     | XO p6 -> (match p6 with
                                 | XH -> Some X97
                                 | _ -> None)
                     | XH -> Some X57)
                  | XH -> Some X37)
               | XO p4 ->
                 (match p4 with
                  | XI p5 ->
                    (match p5 with
                     | XI p6 -> (match p6 with
                                 | XH -> Some Xe7
                                 | _ -> None)
                     | XO p6 -> (match p6 with
                                 | XH -> Some Xa7
                                 | _ -> None)
                     | XH -> Some X67)
                  | XO p5 ->
                    (match p5 with
                     | XI p6 -> (match p6 with
                                 | XH -> Some Xc7
                                 | _ -> None)
                     | XO p6 -> (match p6 with
                                 | XH -> Some X87
                                 | _ -> None)
                     | XH -> Some X47)
                  | XH -> Some X27)
               | XH -> Some X17)
            | XH -> Some X0f)
         | XO p2 ->
           (match p2 with
            | XI p3 ->
              (match p3 with
               | XI p4 ->
                 (match p4 with
                  | XI p5 ->
                    (match p5 with
                     | XI p6 -> (match p6 with
                                 | XH -> Some Xfb
                                 | _ -> None)
                     | XO p6 -> (match p6 with
                                 | XH -> Some Xbb
                                 | _ -> None)
                     | XH -> Some X7b)
                  | XO p5 ->
                    (match p5 with
                     | XI p6 -> (match p6 with
                                 | XH -> Some Xdb
                                 | _ -> None)
                     | XO p6 -> (match p6 with
                                 | XH -> Some X9b
                                 | _ -> None)
                     | XH -> Some X5b)
                  | XH -> Some X3b)
               | XO p4 ->
                 (match p4 with
                  | XI p5 ->
                    (match p5 with
                     | XI p6 -> (match p6 with
                                 | XH -> Some Xeb
                                 | _ -> None)
                     | XO p6 -> (match p6 with
                                 | XH -> Some Xab
                                 | _ -> None)
                     | XH -> Some X6b)
                  | XO p5 ->
                    (match p5 with
                     | XI p6 -> (match p6 with
                                 | XH -> Some Xcb
                                 | _ -> None)
                     | XO p6 -> (match p6 with
                                 | XH -> Some X8b
                                 | _ -> None)
                     | XH -> Some X4b)
                  | XH -> Some X2b)
               | XH -> Some X1b)
            | XO p3 ->
              (match p3 with
               | XI p4 ->
                 (match p4 with
                  | XI p5 ->
                    (match p5 with
                     | XI p6 -> (match p6 with
                                 | XH -> Some Xf3
                                 | _ -> None)
                     | XO p6 -> (match p6 with
                                 | XH -> Some Xb3
                                 | _ -> None)
                     | XH -> Some X73)
                  | XO p5 ->
                    (match p5 with
                     | XI p6 -> (match p6 with
                                 | XH -> Some Xd3
                                 | _ -> None)
                     | XO p6 -> (match p6 with
                                 | XH -> Some X93
                                 | _ -> None)
                     | XH -> Some X53)
                  | XH -> Some X33)
               | XO p4 ->
                 (match p4 with
                  | XI p5 ->
                    (match p5 with
                     | XI p6 -> (match p6 with
                                 | XH -> Some Xe3
                                 | _ -> None)
                     | XO p6 -> (match p6 with
                                 | XH -> Some Xa3
                                 | _ -> None)
                     | XH -> Some X63)
                  | XO p5 ->
                    (match p5 with
                     | XI p6 -> (match p6 with
                                 | XH -> Some Xc3
                                 | _ -> None)
                     | XO p6 -> (match p6 with
                                 | XH -> Some X83
                                 | _ -> None)
                     | XH -> Some X43)
                  | XH -> Some X23)
               | XH -> Some X13)
            | XH -> Some X0b)
         | XH -> Some X07)
      | XO p1 ->
        (match p1 with
         | XI p2 ->
           (match p2 with
            | XI p3 ->
              (match p3 with
               | XI p4 ->
                 (match p4 with
                  | XI p5 ->
                    (match p5 with
                     | XI p6 -> (match p6 with
                                 | XH -> Some Xfd
                                 | _ -> None)
                     | XO p6 -> (match p6 with
                                 | XH -> Some Xbd
                                 | _ -> None)
                     | XH -> Some X7d)
                  | XO p5 ->
                    (match p5 with
                     | XI p6 -> (match p6 with
                                 | XH -> Some Xdd
                                 | _ -> None)
                     | XO p6 -> (match p6 with
                                 | XH -> Some X9d
                                 | _ -> None)
                     | XH -> Some X5d)
                  | XH -> Some X3d)
               | XO p4 ->
                 (match p4 with
                  | XI p5 ->
                    (match p5 with
                     | XI p6 -> (match p6 with
                                 | XH -> Some Xed
                                 | _ -> None)
                     | XO p6 -> (match p6 with
                                 | XH -> Some Xad
                                 | _ -> None)
                     | XH -> Some X6d)
                  | XO p5 ->
                    (match p5 with
                     | XI p6 -> (match p6 with
                                 | XH -> Some Xcd
                                 | _ -> None)
                     | XO p6 -> (match p6 with
                                 | XH -> Some X8d
                                 | _ -> None)
                     | XH -> Some X4d)
                  | XH -> Some X2d)
               | XH -> Some X1d)
            | XO p3 ->
              (match p3 with
               | XI p4 ->
                 (match p4 with
                  | XI p5 ->
                    (match p5 with
                     | XI p6 -> (match p6 with
                                 | XH -> Some Xf5
                                 | _ -> None)
                     | XO p6 -> (match p6 with
                                 | XH -> Some Xb5
                                 | _ -> None)
                     | XH -> Some X75)
                  | XO p5 ->
                    (match p5 with
                     | XI p6 -> (match p6 with
                                 | XH -> Some Xd5
                                 | _ -> None)
                     | XO p6 -> (match p6 with
                                 | XH -> Some X95
                                 | _ -> None)
                     | XH -> Some X55)
                  | XH -> Some X35)
               | XO p4 ->
                 (match p4 with
                  | XI p5 ->
                    (match p5 with
                     | XI p6 -> (match p6 with
                                 | XH -> Some Xe5
                                 | _ -> None)
                     | XO p6 -> (match p6 with
                                 | XH -> Some Xa5
                                 | _ -> None)
                     | XH -> Some X65)
                  | XO p5 ->
                    (match p5 with
                     | XI p6 -> (match p6 with
                                 | XH -> Some Xc5
                                 | _ -> None)
                     | XO p6 -> (match p6 with
                                 | XH -> Some X85
                                 | _ -> None)
                     | XH -> Some X45)
                  | XH -> Some X25)
               | XH -> Some X15)
            | XH -> Some X0d)
         | XO p2 ->
           (match p2 with
            | XI p3 ->
              (match p3 with
               | XI p4 ->
                 (match p4 with
                  | XI p5 ->
                    (match p5 with
                     | XI p6 -> (match p6 with
                                 | XH -> Some Xf9
                                 | _ -> None)
                     | XO p6 -> (match p6 with
                                 | XH -> Some Xb9
                                 | _ -> None)
                     | XH -> Some X79)
                  | XO p5 ->
                    (match p5 with
                     | XI p6 -> (match p6 with
                                 | XH -> Some Xd9
                                 | _ -> None)
                     | XO p6 -> (match p6 with
                                 | XH -> Some X99
                                 | _ -> None)
                     | XH -> Some X59)
                  | XH -> Some X39)
               | XO p4 ->
                 (match p4 with
                  | XI p5 ->
                    (match p5 with
                     | XI p6 -> (match p6 with
                                 | XH -> Some Xe9
                                 | _ -> None)
                     | XO p6 -> (match p6 with
                                 | XH -> Some Xa9
                                 | _ -> None)
                     | XH -> Some X69)
                  | XO p5 ->
                    (match p5 with
                     | XI p6 -> (match p6 with
                                 | XH -> Some Xc9
                                 | _ -> None)
                     | XO p6 -> (match p6 with
                                 | XH -> Some X89
                                 | _ -> None)
                     | XH -> Some X49)
                  | XH -> Some X29)
               | XH -> Some X19)
            | XO p3 ->
              (match p3 with
               | XI p4 ->
                 (match p4 with
                  | XI p5 ->
                    (match p5 with
                     | XI p6 -> (match p6 with
                                 | XH -> Some Xf1
                                 | _ -> None)
                     | XO p6 -> (match p6 with
                                 | XH -> Some Xb1
                                 | _ -> None)
                     | XH -> Some X71)
                  | XO p5 ->
                    (match p5 with
                     | XI p6 -> (match p6 with
                                 | XH -> Some Xd1
                                 | _ -> None)
                     | XO p6 -> (match p6 with
                                 | XH -> Some X91
                                 | _ -> None)
                     | XH -> Some X51)
                  | XH -> Some X31)
               | XO p4 ->
                 (match p4 with
                  | XI p5 ->
                    (match p5 with
                     | XI p6 -> (match p6 with
                                 | XH -> Some Xe1
                                 | _ -> None)
                     | XO p6 -> (match p6 with
                                 | XH -> Some Xa1
                                 | _ -> None)
                     | XH -> Some X61)
                  | XO p5 ->
                    (match p5 with
                     | XI p6 -> (match p6 with
                                 | XH -> Some Xc1
                                 | _ -> None)
                     | XO p6 -> (match p6 with
                                 | XH -> Some X81
                                 | _ -> None)
                     | XH -> Some X41)
                  | XH -> Some X21)
               | XH -> Some X11)
            | XH -> Some X09)
         | XH -> Some X05)
      | XH -> Some X03)
   | XO p0 ->
     (match p0 with
      | XI p1 ->
        (match p1 with
         | XI p2 ->
           (match p2 with
            | XI p3 ->
              (match p3 with
               | XI p4 ->
                 (match p4 with
                  | XI p5 ->
                    (match p5 with
                     | XI p6 -> (match p6 with
                                 | XH -> Some Xfe
                                 | _ -> None)
                     | XO p6 -> (match p6 with
                                 | XH -> Some Xbe
                                 | _ -> None)
                     | XH -> Some X7e)
                  | XO p5 ->
                    (match p5 with
                     | XI p6 -> (match p6 with
                                 | XH -> Some Xde
                                 | _ -> None)
                     | XO p6 -> (match p6 with
                                 | XH -> Some X9e
                                 | _ -> None)
                     | XH -> Some X5e)
                  | XH -> Some X3e)
               | XO p4 ->
                 (match p4 with
                  | XI p5 ->
                    (match p5 with
                     | XI p6 -> (match p6 with
                                 | XH -> Some Xee
                                 | _ -> None)
                     | XO p6 -> (match p6 with
                                 | XH -> Some Xae
                                 | _ -> None)
                     | XH -> Some X6e)
                  | XO p5 ->
                    (match p5 with
                     | XI p6 -> (match p6 with
                                 | XH -> Some Xce
                                 | _ -> None)
                     | XO p6 -> (match p6 with
                                 | XH -> Some X8e
                                 | _ -> None)
                     | XH -> Some X4e)
                  | XH -> Some X2e)
               | XH -> Some X1e)
            | XO p3 ->
              (match p3 with
               | XI p4 ->
                 (match p4 with
                  | XI p5 ->
                    (match p5 with
                     | XI p6 -> (match p6 with
                                 | XH -> Some Xf6
                                 | _ -> None)
                     | XO p6 -> (match p6 with
                                 | XH -> Some Xb6
                                 | _ -> None)
                     | XH -> Some X76)
                  | XO p5 ->
                    (match p5 with
                     | XI p6 -> (match p6 with
                                 | XH -> Some Xd6
                                 | _ -> None)
                     | XO p6 -> (match p6 with
                                 | XH -> Some X96
                                 | _ -> None)
                     | XH -> Some X56)
                  | XH -> Some X36)
               | XO p4 ->
                 (match p4 with
                  | XI p5 ->
                    (match p5 with
                     | XI p6 -> (match p6 with
                                 | XH -> Some Xe6
                                 | _ -> None)
                     | XO p6 -> (match p6 with
                                 | XH -> Some Xa6
                                 | _ -> None)
                     | XH -> Some X66)
                  | XO p5 ->
                    (match p5 with
                     | XI p6 -> (match p6 with
                                 | XH -> Some Xc6
                                 | _ -> None)
                     | XO p6 -> (match p6 with
                                 | XH -> Some X86
                                 | _ -> None)
                     | XH -> Some X46)
                  | XH -> Some X26)
               | XH -> Some X16)
            | XH -> Some X0e)
         | XO p2 ->
           (match p2 with
            | XI p3 ->
              (match p3 with
               | XI p4 ->
                 (match p4 with
                  | XI p5 ->
                    (match p5 with
                     | XI p6 -> (match p6 with
                                 | XH -> Some Xfa
                                 | _ -> None)
                     | XO p6 -> (match p6 with
                                 | XH -> Some Xba
                                 | _ -> None)
                     | XH -> Some X7a)
                  | XO p5 ->
                    (match p5 with
                     | XI p6 -> (match p6 with
                                 | XH -> Some Xda
                                 | _ -> None)
                     | XO p6 -> (match p6 with
                                 | XH -> Some X9a
                                 | _ -> None)
                     | XH -> Some X5a)
                  | XH -> Some X3a)
               | XO p4 ->
                 (match p4 with
                  | XI p5 ->
                    (match p5 with
                     | XI p6 -> (match p6 with
                                 | XH -> Some Xea
                                 | _ -> None)
                     | XO p6 -> (match p6 with
                                 | XH -> Some Xaa
                                 | _ -> None)
                     | XH -> Some X6a)
                  | XO p5 ->
                    (match p5 with
                     | XI p6 -> (match p6 with
                                 | XH -> Some Xca
                                 | _ -> None)
                     | XO p6 -> (match p6 with
                                 | XH -> Some X8a
                                 | _ -> None)
                     | XH -> Some X4a)
                  | XH -> Some X2a)
               | XH -> Some X1a)
            | XO p3 ->
              (match p3 with
               | XI p4 ->
                 (match p4 with
                  | XI p5 ->
                    (match p5 with
                     | XI p6 -> (match p6 with
                                 | XH -> Some Xf2
                                 | _ -> None)
                     | XO p6 -> (match p6 with
                                 | XH -> Some Xb2
                                 | _ -> None)
                     | XH -> Some X72)
                  | XO p5 ->
                    (match p5 with
                     | XI p6 -> (match p6 with
                                 | XH -> Some Xd2
                                 | _ -> None)
                     | XO p6 -> (match p6 with
                                 | XH -> Some X92
                                 | _ -> None)
                     | XH -> Some X52)
                  | XH -> Some X32)
               | XO p4 ->
                 (match p4 with
                  | XI p5 ->
                    (match p5 with
                     | XI p6 -> (match p6 with
                                 | XH -> Some Xe2
                                 | _ -> None)
                     | XO p6 -> (match p6 with
                                 | XH -> Some Xa2
                                 | _ -> None)
                     | XH -> Some X62)
                  | XO p5 ->
                    (match p5 with
                     | XI p6 -> (match p6 with
                                 | XH -> Some Xc2
                                 | _ -> None)
                     | XO p6 -> (match p6 with
                                 | XH -> Some X82
                                 | _ -> None)
                     | XH -> Some X42)
                  | XH -> Some X22)
               | XH -> Some X12)
            | XH -> Some X0a)
         | XH -> Some X06)
      | XO p1 ->
        (match p1 with
         | XI p2 ->
           (match p2 with
            | XI p3 ->
              (match p3 with
               | XI p4 ->
                 (match p4 with
                  | XI p5 ->
                    (match p5 with
                     | XI p6 -> (match p6 with
                                 | XH -> Some Xfc
                                 | _ -> None)
                     | XO p6 -> (match p6 with
                                 | XH -> Some Xbc
                                 | _ -> None)
                     | XH -> Some X7c)
                  | XO p5 ->
                    (match p5 with
                     | XI p6 -> (match p6 with
                                 | XH -> Some Xdc
                                 | _ -> None)
                     | XO p6 -> (match p6 with
                                 | XH -> Some X9c
                                 | _ -> None)
                     | XH -> Some X5c)
                  | XH -> Some X3c)
               | XO p4 ->
                 (match p4 with
                  | XI p5 ->
                    (match p5 with
                     | XI p6 -> (match p6 with
                                 | XH -> Some Xec
                                 | _ -> None)
                     | XO p6 -> (match p6 with
                                 | XH -> Some Xac
                                 | _ -> None)
                     | XH -> Some X6c)
                  | XO p5 ->
                    (match p5 with
                     | XI p6 -> (match p6 with
                                 | XH -> Some Xcc
                                 | _ -> None)
                     | XO p6 -> (match p6 with
                                 | XH -> Some X8c
                                 | _ -> None)
                     | XH -> Some X4c)
                  | XH -> Some X2c)
               | XH -> Some X1c)
            | XO p3 ->
              (match p3 with
               | XI p4 ->
                 (match p4 with
                  | XI p5 ->
                    (match p5 with
                     | XI p6 -> (match p6 with
                                 | XH -> Some Xf4
                                 | _ -> None)
                     | XO p6 -> (match p6 with
                                 | XH -> Some Xb4
                                 | _ -> None)
                     | XH -> Some X74)
                  | XO p5 ->
                    (match p5 with
                     | XI p6 -> (match p6 with
                                 | XH -> Some Xd4
                                 | _ -> None)
                     | XO p6 -> (match p6 with
                                 | XH -> Some X94
                                 | _ -> None)
                     | XH -> Some X54)
                  | XH -> Some X34)
               | XO p4 ->
                 (match p4 with
                  | XI p5 ->
                    (match p5 with
                     | XI p6 -> (match p6 with
                                 | XH -> Some Xe4
                                 | _ -> None)
                     | XO p6 -> (match p6 with
                                 | XH -> Some Xa4
                                 | _ -> None)
                     | XH -> Some X64)
                  | XO p5 ->
                    (match p5 with
                     | XI p6 -> (match p6 with
                                 | XH -> Some Xc4
                                 | _ -> None)
                     | XO p6 -> (match p6 with
                                 | XH -> Some X84
                                 | _ -> None)
                     | XH -> Some X44)
                  | XH -> Some X24)
               | XH -> Some X14)
            | XH -> Some X0c)
         | XO p2 ->
           (match p2 with
            | XI p3 ->
              (match p3 with
               | XI p4 ->
                 (match p4 with
                  | XI p5 ->
                    (match p5 with
                     | XI p6 -> (match p6 with
                                 | XH -> Some Xf8
                                 | _ -> None)
                     | XO p6 -> (match p6 with
                                 | XH -> Some Xb8
                                 | _ -> None)
                     | XH -> Some X78)
                  | XO p5 ->
                    (match p5 with
                     | XI p6 -> (match p6 with
                                 | XH -> Some Xd8
                                 | _ -> None)
                     | XO p6 -> (match p6 with
                                 | XH -> Some X98
                                 | _ -> None)
                     | XH -> Some X58)
                  | XH -> Some X38)
               | XO p4 ->
                 (match p4 with
                  | XI p5 ->
                    (match p5 with
                     | XI p6 -> (match p6 with
                                 | XH -> Some Xe8
                                 | _ -> None)
                     | XO p6 -> (match p6 with
                                 | XH -> Some Xa8
                                 | _ -> None)
                     | XH -> Some X68)
                  | XO p5 ->
                    (match p5 with
                     | XI p6 -> (match p6 with
                                 | XH -> Some Xc8
                                 | _ -> None)
                     | XO p6 -> (match p6 with
                                 | XH -> Some X88
                                 | _ -> None)
                     | XH -> Some X48)
                  | XH -> Some X28)
               | XH -> Some X18)
            | XO p3 ->
              (match p3 with
               | XI p4 ->
                 (match p4 with
                  | XI p5 ->
                    (match p5 with
                     | XI p6 -> (match p6 with
                                 | XH -> Some Xf0
                                 | _ -> None)
                     | XO p6 -> (match p6 with
                                 | XH -> Some Xb0
                                 | _ -> None)
                     | XH -> Some X70)
                  | XO p5 ->
                    (match p5 with
                     | XI p6 -> (match p6 with
                                 | XH -> Some Xd0
                                 | _ -> None)
                     | XO p6 -> (match p6 with
                                 | XH -> Some X90
                                 | _ -> None)
                     | XH -> Some X50)
                  | XH -> Some X30)
               | XO p4 ->
                 (match p4 with
                  | XI p5 ->
                    (match p5 with
                     | XI p6 -> (match p6 with
                                 | XH -> Some Xe0
                                 | _ -> None)
                     | XO p6 -> (match p6 with
                                 | XH -> Some Xa0
                                 | _ -> None)
                     | XH -> Some X60)
                  | XO p5 ->
                    (match p5 with
                     | XI p6 -> (match p6 with
                                 | XH -> Some Xc0
                                 | _ -> None)
                     | XO p6 -> (match p6 with
                                 | XH -> Some X80
                                 | _ -> None)
                     | XH -> Some X40)
                  | XH -> Some X20)
               | XH -> Some X10)
            | XH -> Some X08)
         | XH -> Some X04)
      | XH -> Some X02)
   | XH -> Some X01)

module Z =
 struct
  (** val opp : z -> z **)

  let opp = function
  | Z0 -> Z0
  | Zpos x0 -> Zneg x0
  | Zneg x0 -> Zpos x0

  (** val of_N : n -> z **)

  let of_N = function
  | N0 -> Z0
  | Npos p -> Zpos p
 end

type bytes = byte list

type bstr = byte list
  (* singleton inductive, whose constructor was BS *)

(** val unBS : bstr -> bytes **)

let unBS b =
  b

(** val bN : byte -> n **)

let bN =
  to_N

(** val nb : n -> byte **)

let nb n0 =
  match of_N n0 with
  | Some b -> b
  | None -> X00

(** val beqb : byte -> byte -> bool **)

let beqb =
  eqb0

(** val bytes_eqb : bytes -> bytes -> bool **)

let rec bytes_eqb a b =
  match a with
  | [] -> (match b with
           | [] -> true
           | _ :: _ -> false)
  | x :: a' ->
    (match b with
     | [] -> false
     | y :: b' -> (&&) (eqb0 x y) (bytes_eqb a' b'))

(** val in_range : n -> n -> byte -> bool **)

let in_range lo hi b =
  (&&) (N.leb lo (bN b)) (N.leb (bN b) hi)

(** val is_json_ws : byte -> bool **)

let is_json_ws = function
| X09 -> true
| X0a -> true
| X0d -> true
| X20 -> true
| _ -> false

(** val is_digit : byte -> bool **)

let is_digit b =
  in_range (Npos (XO (XO (XO (XO (XI XH)))))) (Npos (XI (XO (XO (XI (XI
    XH)))))) b

(** val drop_while : (byte -> bool) -> bytes -> bytes **)

let rec drop_while p s = match s with
| [] -> []
| c :: s' -> if p c then drop_while p s' else s

(** val take_while : (byte -> bool) -> bytes -> bytes **)

let rec take_while p = function
| [] -> []
| c :: s' -> if p c then c :: (take_while p s') else []

(** val skip_ws : bytes -> bytes **)

let skip_ws s =
  drop_while is_json_ws s

(** val starts_with : bytes -> bytes -> bytes option **)

let rec starts_with p s =
  match p with
  | [] -> Some s
  | x :: p' ->
    (match s with
     | [] -> None
     | y :: s' -> if eqb0 x y then starts_with p' s' else None)

(** val uint_to_bytes : uint -> bytes **)

let rec uint_to_bytes = function
| Nil -> []
| D0 u0 -> X30 :: (uint_to_bytes u0)
| D1 u0 -> X31 :: (uint_to_bytes u0)
| D2 u0 -> X32 :: (uint_to_bytes u0)
| D3 u0 -> X33 :: (uint_to_bytes u0)
| D4 u0 -> X34 :: (uint_to_bytes u0)
| D5 u0 -> X35 :: (uint_to_bytes u0)
| D6 u0 -> X36 :: (uint_to_bytes u0)
| D7 u0 -> X37 :: (uint_to_bytes u0)
| D8 u0 -> X38 :: (uint_to_bytes u0)
| D9 u0 -> X39 :: (uint_to_bytes u0)

(** val bytes_to_uint : bytes -> uint **)

let rec bytes_to_uint = function
| [] -> Nil
| c :: s' ->
  let r = bytes_to_uint s' in
  (match c with
   | X30 -> D0 r
   | X31 -> D1 r
   | X32 -> D2 r
   | X33 -> D3 r
   | X34 -> D4 r
   | X35 -> D5 r
   | X36 -> D6 r
   | X37 -> D7 r
   | X38 -> D8 r
   | X39 -> D9 r
   | _ -> r)

(** val print_N : n -> bytes **)

let print_N n0 =
  uint_to_bytes (N.to_uint n0)

(** val digits_val : bytes -> n **)

let digits_val ds =
  N.of_uint (bytes_to_uint ds)

(** val print_Z : z -> bytes **)

let print_Z = function
| Z0 -> X30 :: []
| Zpos p -> print_N (Npos p)
| Zneg p -> X2d :: (print_N (Npos p))

(** val u64_max : n **)

let u64_max =
  Npos (XI (XI (XI (XI (XI (XI (XI (XI (XI (XI (XI (XI (XI (XI (XI (XI (XI
    (XI (XI (XI (XI (XI (XI (XI (XI (XI (XI (XI (XI (XI (XI (XI (XI (XI (XI
    (XI (XI (XI (XI (XI (XI (XI (XI (XI (XI (XI (XI (XI (XI (XI (XI (XI (XI
    (XI (XI (XI (XI (XI (XI (XI (XI (XI (XI
    XH)))))))))))))))))))))))))))))))))))))))))))))))))))))))))))))))

(** val i64_min_abs : n **)

let i64_min_abs =
  Npos (XO (XO (XO (XO (XO (XO (XO (XO (XO (XO (XO (XO (XO (XO (XO (XO (XO
    (XO (XO (XO (XO (XO (XO (XO (XO (XO (XO (XO (XO (XO (XO (XO (XO (XO (XO
    (XO (XO (XO (XO (XO (XO (XO (XO (XO (XO (XO (XO (XO (XO (XO (XO (XO (XO
    (XO (XO (XO (XO (XO (XO (XO (XO (XO (XO
    XH)))))))))))))))))))))))))))))))))))))))))))))))))))))))))))))))

(** val is_cont : byte -> bool **)

let is_cont b =
  in_range (Npos (XO (XO (XO (XO (XO (XO (XO XH)))))))) (Npos (XI (XI (XI (XI
    (XI (XI (XO XH)))))))) b

(** val utf8_valid : bytes -> bool **)

let rec utf8_valid = function
| [] -> true
| a :: s1 ->
  let n0 = bN a in
  if N.ltb n0 (Npos (XO (XO (XO (XO (XO (XO (XO XH))))))))
  then utf8_valid s1
  else if (&&) (N.leb (Npos (XO (XI (XO (XO (XO (XO (XI XH)))))))) n0)
            (N.leb n0 (Npos (XI (XI (XI (XI (XI (XO (XI XH)))))))))
       then (match s1 with
             | [] -> false
             | b :: s2 -> (&&) (is_cont b) (utf8_valid s2))
       else if N.eqb n0 (Npos (XO (XO (XO (XO (XO (XI (XI XH))))))))
            then (match s1 with
                  | [] -> false
                  | b :: l ->
                    (match l with
                     | [] -> false
                     | c :: s3 ->
                       (&&)
                         ((&&)
                           (in_range (Npos (XO (XO (XO (XO (XO (XI (XO
                             XH)))))))) (Npos (XI (XI (XI (XI (XI (XI (XO
                             XH)))))))) b) (is_cont c)) (utf8_valid s3)))
            else if (||)
                      ((||)
                        ((&&)
                          (N.leb (Npos (XI (XO (XO (XO (XO (XI (XI XH))))))))
                            n0)
                          (N.leb n0 (Npos (XO (XO (XI (XI (XO (XI (XI
                            XH))))))))))
                        (N.eqb n0 (Npos (XO (XI (XI (XI (XO (XI (XI
                          XH))))))))))
                      (N.eqb n0 (Npos (XI (XI (XI (XI (XO (XI (XI XH)))))))))
                 then (match s1 with
                       | [] -> false
                       | b :: l ->
                         (match l with
                          | [] -> false
                          | c :: s3 ->
                            (&&) ((&&) (is_cont b) (is_cont c))
                              (utf8_valid s3)))
                 else if N.eqb n0 (Npos (XI (XO (XI (XI (XO (XI (XI XH))))))))
                      then (match s1 with
                            | [] -> false
                            | b :: l ->
                              (match l with
                               | [] -> false
                               | c :: s3 ->
                                 (&&)
                                   ((&&)
                                     (in_range (Npos (XO (XO (XO (XO (XO (XO
                                       (XO XH)))))))) (Npos (XI (XI (XI (XI
                                       (XI (XO (XO XH)))))))) b) (is_cont c))
                                   (utf8_valid s3)))
                      else if N.eqb n0 (Npos (XO (XO (XO (XO (XI (XI (XI
                                XH))))))))
                           then (match s1 with
                                 | [] -> false
                                 | b :: l ->
                                   (match l with
                                    | [] -> false
                                    | c :: l0 ->
                                      (match l0 with
                                       | [] -> false
                                       | d :: s4 ->
                                         (&&)
                                           ((&&)
                                             ((&&)
                                               (in_range (Npos (XO (XO (XO
                                                 (XO (XI (XO (XO XH))))))))
                                                 (Npos (XI (XI (XI (XI (XI
                                                 (XI (XO XH)))))))) b)
                                               (is_cont c)) (is_cont d))
                                           (utf8_valid s4))))
                           else if (&&)
                                     (N.leb (Npos (XI (XO (XO (XO (XI (XI (XI
                                       XH)))))))) n0)
                                     (N.leb n0 (Npos (XI (XI (XO (XO (XI (XI
                                       (XI XH)))))))))
                                then (match s1 with
                                      | [] -> false
                                      | b :: l ->
                                        (match l with
                                         | [] -> false
                                         | c :: l0 ->
                                           (match l0 with
                                            | [] -> false
                                            | d :: s4 ->
                                              (&&)
                                                ((&&)
                                                  ((&&) (is_cont b)
                                                    (is_cont c)) (is_cont d))
                                                (utf8_valid s4))))
                                else if N.eqb n0 (Npos (XO (XO (XI (XO (XI
                                          (XI (XI XH))))))))
                                     then (match s1 with
                                           | [] -> false
                                           | b :: l ->
                                             (match l with
                                              | [] -> false
                                              | c :: l0 ->
                                                (match l0 with
                                                 | [] -> false
                                                 | d :: s4 ->
                                                   (&&)
                                                     ((&&)
                                                       ((&&)
                                                         (in_range (Npos (XO
                                                           (XO (XO (XO (XO
                                                           (XO (XO XH))))))))
                                                           (Npos (XI (XI (XI
                                                           (XI (XO (XO (XO
                                                           XH)))))))) b)
                                                         (is_cont c))
                                                       (is_cont d))
                                                     (utf8_valid s4))))
                                     else false

(** val utf8_encode : n -> bytes **)

let utf8_encode n0 =
  if N.ltb n0 (Npos (XO (XO (XO (XO (XO (XO (XO XH))))))))
  then (nb n0) :: []
  else if N.ltb n0 (Npos (XO (XO (XO (XO (XO (XO (XO (XO (XO (XO (XO
            XH))))))))))))
       then (nb
              (N.add (Npos (XO (XO (XO (XO (XO (XO (XI XH))))))))
                (N.div n0 (Npos (XO (XO (XO (XO (XO (XO XH)))))))))) :: (
              (nb
                (N.add (Npos (XO (XO (XO (XO (XO (XO (XO XH))))))))
                  (N.modulo n0 (Npos (XO (XO (XO (XO (XO (XO XH)))))))))) :: [])
       else if N.ltb n0 (Npos (XO (XO (XO (XO (XO (XO (XO (XO (XO (XO (XO (XO
                 (XO (XO (XO (XO XH)))))))))))))))))
            then (nb
                   (N.add (Npos (XO (XO (XO (XO (XO (XI (XI XH))))))))
                     (N.div n0 (Npos (XO (XO (XO (XO (XO (XO (XO (XO (XO (XO
                       (XO (XO XH)))))))))))))))) :: ((nb
                                                        (N.add (Npos (XO (XO
                                                          (XO (XO (XO (XO (XO
                                                          XH))))))))
                                                          (N.modulo
                                                            (N.div n0 (Npos
                                                              (XO (XO (XO (XO
                                                              (XO (XO
                                                              XH))))))))
                                                            (Npos (XO (XO (XO
                                                            (XO (XO (XO
                                                            XH)))))))))) :: (
                   (nb
                     (N.add (Npos (XO (XO (XO (XO (XO (XO (XO XH))))))))
                       (N.modulo n0 (Npos (XO (XO (XO (XO (XO (XO XH)))))))))) :: []))
            else (nb
                   (N.add (Npos (XO (XO (XO (XO (XI (XI (XI XH))))))))
                     (N.div n0 (Npos (XO (XO (XO (XO (XO (XO (XO (XO (XO (XO
                       (XO (XO (XO (XO (XO (XO (XO (XO XH)))))))))))))))))))))) :: (
                   (nb
                     (N.add (Npos (XO (XO (XO (XO (XO (XO (XO XH))))))))
                       (N.modulo
                         (N.div n0 (Npos (XO (XO (XO (XO (XO (XO (XO (XO (XO
                           (XO (XO (XO XH)))))))))))))) (Npos (XO (XO (XO (XO
                         (XO (XO XH)))))))))) :: ((nb
                                                    (N.add (Npos (XO (XO (XO
                                                      (XO (XO (XO (XO
                                                      XH))))))))
                                                      (N.modulo
                                                        (N.div n0 (Npos (XO
                                                          (XO (XO (XO (XO (XO
                                                          XH)))))))) (Npos
                                                        (XO (XO (XO (XO (XO
                                                        (XO XH)))))))))) :: (
                   (nb
                     (N.add (Npos (XO (XO (XO (XO (XO (XO (XO XH))))))))
                       (N.modulo n0 (Npos (XO (XO (XO (XO (XO (XO XH)))))))))) :: [])))

type num =
| NPos of n
| NNeg of n
| NFloat of bytes

type json =
| JNull
| JBool of bool
| JNum of num
| JStr of bytes
| JArr of json list
| JObj of (bytes * json) list

(** val hex_digit : n -> byte **)

let hex_digit n0 =
  if N.ltb n0 (Npos (XO (XI (XO XH))))
  then nb (N.add (Npos (XO (XO (XO (XO (XI XH)))))) n0)
  else nb (N.add (Npos (XI (XI (XI (XO (XI (XO XH))))))) n0)

(** val escape_byte : byte -> bytes **)

let escape_byte c = match c with
| X08 -> X5c :: (X62 :: [])
| X09 -> X5c :: (X74 :: [])
| X0a -> X5c :: (X6e :: [])
| X0c -> X5c :: (X66 :: [])
| X0d -> X5c :: (X72 :: [])
| X22 -> X5c :: (X22 :: [])
| X5c -> X5c :: (X5c :: [])
| _ ->
  if N.ltb (bN c) (Npos (XO (XO (XO (XO (XO XH))))))
  then X5c :: (X75 :: (X30 :: (X30 :: ((hex_digit
                                         (N.div (bN c) (Npos (XO (XO (XO (XO
                                           XH))))))) :: ((hex_digit
                                                           (N.modulo 
                                                             (bN c) (Npos (XO
                                                             (XO (XO (XO
                                                             XH))))))) :: [])))))
  else c :: []

(** val escape_body : bytes -> bytes **)

let rec escape_body = function
| [] -> []
| c :: s' -> app (escape_byte c) (escape_body s')

(** val ser_str : bytes -> bytes **)

let ser_str s =
  X22 :: (app (escape_body s) (X22 :: []))

(** val ser_num : num -> bytes **)

let ser_num = function
| NPos n0 -> print_N n0
| NNeg n0 -> X2d :: (print_N n0)
| NFloat l -> l

(** val ser : json -> bytes **)

let rec ser = function
| JNull -> unBS (X6e :: (X75 :: (X6c :: (X6c :: []))))
| JBool b ->
  if b
  then unBS (X74 :: (X72 :: (X75 :: (X65 :: []))))
  else unBS (X66 :: (X61 :: (X6c :: (X73 :: (X65 :: [])))))
| JNum x -> ser_num x
| JStr s -> ser_str s
| JArr l ->
  X5b :: (let rec go = function
          | [] -> X5d :: []
          | x :: l' ->
            (match l' with
             | [] -> app (ser x) (X5d :: [])
             | _ :: _ -> app (ser x) (X2c :: (go l')))
          in go l)
| JObj m ->
  X7b :: (let rec go = function
          | [] -> X7d :: []
          | p :: m' ->
            let (k, x) = p in
            (match m' with
             | [] -> app (ser_str k) (X3a :: (app (ser x) (X7d :: [])))
             | _ :: _ ->
               app (ser_str k) (X3a :: (app (ser x) (X2c :: (go m')))))
          in go m)

(** val hexval : byte -> n option **)

let hexval c =
  if is_digit c
  then Some (N.sub (bN c) (Npos (XO (XO (XO (XO (XI XH)))))))
  else if in_range (Npos (XI (XO (XO (XO (XO (XO XH))))))) (Npos (XO (XI (XI
            (XO (XO (XO XH))))))) c
       then Some (N.sub (bN c) (Npos (XI (XI (XI (XO (XI XH)))))))
       else if in_range (Npos (XI (XO (XO (XO (XO (XI XH))))))) (Npos (XO (XI
                 (XI (XO (XO (XI XH))))))) c
            then Some (N.sub (bN c) (Npos (XI (XI (XI (XO (XI (XO XH))))))))
            else None

(** val hex4 : byte -> byte -> byte -> byte -> n option **)

let hex4 a b c d =
  match hexval a with
  | Some x ->
    (match hexval b with
     | Some y ->
       (match hexval c with
        | Some z0 ->
          (match hexval d with
           | Some w ->
             Some
               (N.add
                 (N.add
                   (N.add
                     (N.mul x (Npos (XO (XO (XO (XO (XO (XO (XO (XO (XO (XO
                       (XO (XO XH))))))))))))))
                     (N.mul y (Npos (XO (XO (XO (XO (XO (XO (XO (XO
                       XH))))))))))) (N.mul z0 (Npos (XO (XO (XO (XO XH)))))))
                 w)
           | None -> None)
        | None -> None)
     | None -> None)
  | None -> None

(** val simple_escape : byte -> byte option **)

let simple_escape = function
| X22 -> Some X22
| X2f -> Some X2f
| X5c -> Some X5c
| X62 -> Some X08
| X66 -> Some X0c
| X6e -> Some X0a
| X72 -> Some X0d
| X74 -> Some X09
| _ -> None

(** val is_low_sur : n -> bool **)

let is_low_sur n0 =
  (&&)
    (N.leb (Npos (XO (XO (XO (XO (XO (XO (XO (XO (XO (XO (XI (XI (XI (XO (XI
      XH)))))))))))))))) n0)
    (N.leb n0 (Npos (XI (XI (XI (XI (XI (XI (XI (XI (XI (XI (XI (XI (XI (XO
      (XI XH)))))))))))))))))

(** val is_high_sur : n -> bool **)

let is_high_sur n0 =
  (&&)
    (N.leb (Npos (XO (XO (XO (XO (XO (XO (XO (XO (XO (XO (XO (XI (XI (XO (XI
      XH)))))))))))))))) n0)
    (N.leb n0 (Npos (XI (XI (XI (XI (XI (XI (XI (XI (XI (XI (XO (XI (XI (XO
      (XI XH)))))))))))))))))

(** val scan_str : bytes -> (bytes * bytes) option **)

let rec scan_str = function
| [] -> None
| c :: s1 ->
  if beqb c X22
  then Some ([], s1)
  else if beqb c X5c
       then (match s1 with
             | [] -> None
             | e :: s2 ->
               (match simple_escape e with
                | Some d ->
                  (match scan_str s2 with
                   | Some p -> let (t, r) = p in Some ((d :: t), r)
                   | None -> None)
                | None ->
                  if beqb e X75
                  then (match s2 with
                        | [] -> None
                        | h1 :: l ->
                          (match l with
                           | [] -> None
                           | h2 :: l0 ->
                             (match l0 with
                              | [] -> None
                              | h3 :: l1 ->
                                (match l1 with
                                 | [] -> None
                                 | h4 :: s3 ->
                                   (match hex4 h1 h2 h3 h4 with
                                    | Some n0 ->
                                      if is_low_sur n0
                                      then None
                                      else if is_high_sur n0
                                           then (match s3 with
                                                 | [] -> None
                                                 | q1 :: l2 ->
                                                   (match l2 with
                                                    | [] -> None
                                                    | q2 :: l3 ->
                                                      (match l3 with
                                                       | [] -> None
                                                       | g1 :: l4 ->
                                                         (match l4 with
                                                          | [] -> None
                                                          | g2 :: l5 ->
                                                            (match l5 with
                                                             | [] -> None
                                                             | g3 :: l6 ->
                                                               (match l6 with
                                                                | [] -> None
                                                                | g4 :: s4 ->
                                                                  if 
                                                                    (&&)
                                                                    (beqb q1
                                                                    X5c)
                                                                    (beqb q2
                                                                    X75)
                                                                  then 
                                                                    (match 
                                                                    hex4 g1
                                                                    g2 g3 g4 with
                                                                    | Some n2 ->
                                                                    if 
                                                                    is_low_sur
                                                                    n2
                                                                    then 
                                                                    (match 
                                                                    scan_str
                                                                    s4 with
                                                                    | Some p ->
                                                                    let (
                                                                    t, r) = p
                                                                    in
                                                                    Some
                                                                    (
                                                                    (app
                                                                    (utf8_encode
                                                                    (N.add
                                                                    (N.add
                                                                    (N.mul
                                                                    (N.sub n0
                                                                    (Npos (XO
                                                                    (XO (XO
                                                                    (XO (XO
                                                                    (XO (XO
                                                                    (XO (XO
                                                                    (XO (XO
                                                                    (XI (XI
                                                                    (XO (XI
                                                                    XH)))))))))))))))))
                                                                    (Npos (XO
                                                                    (XO (XO
                                                                    (XO (XO
                                                                    (XO (XO
                                                                    (XO (XO
                                                                    (XO
                                                                    XH))))))))))))
                                                                    (N.sub n2
                                                                    (Npos (XO
                                                                    (XO (XO
                                                                    (XO (XO
                                                                    (XO (XO
                                                                    (XO (XO
                                                                    (XO (XI
                                                                    (XI (XI
                                                                    (XO (XI
                                                                    XH))))))))))))))))))
                                                                    (Npos (XO
                                                                    (XO (XO
                                                                    (XO (XO
                                                                    (XO (XO
                                                                    (XO (XO
                                                                    (XO (XO
                                                                    (XO (XO
                                                                    (XO (XO
                                                                    (XO
                                                                    XH)))))))))))))))))))
                                                                    t), r)
                                                                    | None ->
                                                                    None)
                                                                    else None
                                                                    | None ->
                                                                    None)
                                                                  else None))))))
                                           else (match scan_str s3 with
                                                 | Some p ->
                                                   let (t, r) = p in
                                                   Some
                                                   ((app (utf8_encode n0) t),
                                                   r)
                                                 | None -> None)
                                    | None -> None)))))
                  else None))
       else if N.ltb (bN c) (Npos (XO (XO (XO (XO (XO XH))))))
            then None
            else (match scan_str s1 with
                  | Some p -> let (t, r) = p in Some ((c :: t), r)
                  | None -> None)

(** val scan_str_valid : bytes -> (bytes * bytes) option **)

let scan_str_valid s =
  match scan_str s with
  | Some p -> let (t, r) = p in if utf8_valid t then Some (t, r) else None
  | None -> None

(** val skip_str : bytes -> (bytes * bytes) option **)

let rec skip_str = function
| [] -> None
| c :: s1 ->
  if beqb c X22
  then Some ((c :: []), s1)
  else if beqb c X5c
       then (match s1 with
             | [] -> None
             | e :: s2 ->
               (match simple_escape e with
                | Some _ ->
                  (match skip_str s2 with
                   | Some p -> let (t, r) = p in Some ((c :: (e :: t)), r)
                   | None -> None)
                | None ->
                  if beqb e X75
                  then (match s2 with
                        | [] -> None
                        | h1 :: l ->
                          (match l with
                           | [] -> None
                           | h2 :: l0 ->
                             (match l0 with
                              | [] -> None
                              | h3 :: l1 ->
                                (match l1 with
                                 | [] -> None
                                 | h4 :: s3 ->
                                   (match hex4 h1 h2 h3 h4 with
                                    | Some _ ->
                                      (match skip_str s3 with
                                       | Some p ->
                                         let (t, r) = p in
                                         Some
                                         ((c :: (e :: (h1 :: (h2 :: (h3 :: (h4 :: t)))))),
                                         r)
                                       | None -> None)
                                    | None -> None)))))
                  else None))
       else if N.ltb (bN c) (Npos (XO (XO (XO (XO (XO XH))))))
            then None
            else (match skip_str s1 with
                  | Some p -> let (t, r) = p in Some ((c :: t), r)
                  | None -> None)

type numlex = { nl_neg : bool; nl_int : bytes; nl_frac : bytes; nl_exp : bytes }

(** val numlex_bytes : numlex -> bytes **)

let numlex_bytes l =
  app (if l.nl_neg then X2d :: [] else [])
    (app l.nl_int (app l.nl_frac l.nl_exp))

(** val scan_int : bytes -> (bytes * bytes) option **)

let scan_int = function
| [] -> None
| c :: s' ->
  if beqb c X30
  then (match s' with
        | [] -> Some ((c :: []), [])
        | d :: _ -> if is_digit d then None else Some ((c :: []), s'))
  else if in_range (Npos (XI (XO (XO (XO (XI XH)))))) (Npos (XI (XO (XO (XI
            (XI XH)))))) c
       then Some ((c :: (take_while is_digit s')), (drop_while is_digit s'))
       else None

(** val scan_frac : bytes -> (bytes * bytes) option **)

let scan_frac s = match s with
| [] -> Some ([], [])
| c :: s' ->
  if beqb c X2e
  then (match take_while is_digit s' with
        | [] -> None
        | b :: l -> Some ((c :: (b :: l)), (drop_while is_digit s')))
  else Some ([], s)

(** val scan_exp : bytes -> (bytes * bytes) option **)

let scan_exp s = match s with
| [] -> Some ([], [])
| c :: s' ->
  if (||) (beqb c X65) (beqb c X45)
  then (match s' with
        | [] ->
          let sg = [] in
          (match take_while is_digit s' with
           | [] -> None
           | b :: l ->
             Some ((c :: (app sg (b :: l))), (drop_while is_digit s')))
        | g :: t ->
          if (||) (beqb g X2b) (beqb g X2d)
          then let sg = g :: [] in
               (match take_while is_digit t with
                | [] -> None
                | b :: l ->
                  Some ((c :: (app sg (b :: l))), (drop_while is_digit t)))
          else let sg = [] in
               (match take_while is_digit s' with
                | [] -> None
                | b :: l ->
                  Some ((c :: (app sg (b :: l))), (drop_while is_digit s'))))
  else Some ([], s)

(** val scan_number : bytes -> (numlex * bytes) option **)

let scan_number s = match s with
| [] ->
  let neg = false in
  (match scan_int s with
   | Some p ->
     let (ip, s1) = p in
     (match scan_frac s1 with
      | Some p0 ->
        let (fp, s2) = p0 in
        (match scan_exp s2 with
         | Some p1 ->
           let (ep, s3) = p1 in
           Some ({ nl_neg = neg; nl_int = ip; nl_frac = fp; nl_exp = ep }, s3)
         | None -> None)
      | None -> None)
   | None -> None)
| c :: t ->
  if beqb c X2d
  then let neg = true in
       (match scan_int t with
        | Some p ->
          let (ip, s1) = p in
          (match scan_frac s1 with
           | Some p0 ->
             let (fp, s2) = p0 in
             (match scan_exp s2 with
              | Some p1 ->
                let (ep, s3) = p1 in
                Some ({ nl_neg = neg; nl_int = ip; nl_frac = fp; nl_exp =
                ep }, s3)
              | None -> None)
           | None -> None)
        | None -> None)
  else let neg = false in
       (match scan_int s with
        | Some p ->
          let (ip, s1) = p in
          (match scan_frac s1 with
           | Some p0 ->
             let (fp, s2) = p0 in
             (match scan_exp s2 with
              | Some p1 ->
                let (ep, s3) = p1 in
                Some ({ nl_neg = neg; nl_int = ip; nl_frac = fp; nl_exp =
                ep }, s3)
              | None -> None)
           | None -> None)
        | None -> None)

(** val classify_num : numlex -> num **)

let classify_num l =
  match l.nl_frac with
  | [] ->
    (match l.nl_exp with
     | [] ->
       let v = digits_val l.nl_int in
       if l.nl_neg
       then if (&&) (N.ltb N0 v) (N.leb v i64_min_abs)
            then NNeg v
            else NFloat (numlex_bytes l)
       else if N.leb v u64_max then NPos v else NFloat (numlex_bytes l)
     | _ :: _ -> NFloat (numlex_bytes l))
  | _ :: _ -> NFloat (numlex_bytes l)

(** val is_num_start : byte -> bool **)

let is_num_start c =
  (||) (beqb c X2d) (is_digit c)

(** val parse_value : nat -> nat -> bytes -> (json * bytes) option **)

let rec parse_value fuel depth s =
  match fuel with
  | O -> None
  | S f ->
    (match skip_ws s with
     | [] -> None
     | c :: s1 ->
       if beqb c X6e
       then (match starts_with (unBS (X75 :: (X6c :: (X6c :: [])))) s1 with
             | Some r -> Some (JNull, r)
             | None -> None)
       else if beqb c X74
            then (match starts_with (unBS (X72 :: (X75 :: (X65 :: [])))) s1 with
                  | Some r -> Some ((JBool true), r)
                  | None -> None)
            else if beqb c X66
                 then (match starts_with
                               (unBS (X61 :: (X6c :: (X73 :: (X65 :: [])))))
                               s1 with
                       | Some r -> Some ((JBool false), r)
                       | None -> None)
                 else if beqb c X22
                      then (match scan_str_valid s1 with
                            | Some p -> let (t, r) = p in Some ((JStr t), r)
                            | None -> None)
                      else if is_num_start c
                           then (match scan_number (c :: s1) with
                                 | Some p ->
                                   let (l, r) = p in
                                   Some ((JNum (classify_num l)), r)
                                 | None -> None)
                           else if beqb c X5b
                                then (match depth with
                                      | O -> None
                                      | S n0 ->
                                        (match n0 with
                                         | O -> None
                                         | S d ->
                                           (match skip_ws s1 with
                                            | [] -> None
                                            | c2 :: r ->
                                              if beqb c2 X5d
                                              then Some ((JArr []), r)
                                              else (match parse_elems f (S d)
                                                            s1 with
                                                    | Some p ->
                                                      let (vs, r') = p in
                                                      Some ((JArr vs), r')
                                                    | None -> None))))
                                else if beqb c X7b
                                     then (match depth with
                                           | O -> None
                                           | S n0 ->
                                             (match n0 with
                                              | O -> None
                                              | S d ->
                                                (match skip_ws s1 with
                                                 | [] -> None
                                                 | c2 :: r ->
                                                   if beqb c2 X7d
                                                   then Some ((JObj []), r)
                                                   else (match parse_members
                                                                 f (S d) s1 with
                                                         | Some p ->
                                                           let (ms, r') = p in
                                                           Some ((JObj ms),
                                                           r')
                                                         | None -> None))))
                                     else None)

(** val parse_elems : nat -> nat -> bytes -> (json list * bytes) option **)

and parse_elems fuel depth s =
  match fuel with
  | O -> None
  | S f ->
    (match parse_value f depth s with
     | Some p ->
       let (v, r) = p in
       (match skip_ws r with
        | [] -> None
        | c :: r1 ->
          if beqb c X2c
          then (match parse_elems f depth r1 with
                | Some p0 -> let (vs, r2) = p0 in Some ((v :: vs), r2)
                | None -> None)
          else if beqb c X5d then Some ((v :: []), r1) else None)
     | None -> None)

(** val parse_members :
    nat -> nat -> bytes -> ((bytes * json) list * bytes) option **)

and parse_members fuel depth s =
  match fuel with
  | O -> None
  | S f ->
    (match skip_ws s with
     | [] -> None
     | q :: s1 ->
       if beqb q X22
       then (match scan_str_valid s1 with
             | Some p ->
               let (k, r0) = p in
               (match skip_ws r0 with
                | [] -> None
                | col :: r1 ->
                  if beqb col X3a
                  then (match parse_value f depth r1 with
                        | Some p0 ->
                          let (v, r) = p0 in
                          (match skip_ws r with
                           | [] -> None
                           | c :: r2 ->
                             if beqb c X2c
                             then (match parse_members f depth r2 with
                                   | Some p1 ->
                                     let (ms, r3) = p1 in
                                     Some (((k, v) :: ms), r3)
                                   | None -> None)
                             else if beqb c X7d
                                  then Some (((k, v) :: []), r2)
                                  else None)
                        | None -> None)
                  else None)
             | None -> None)
       else None)

(** val depth_limit : nat **)

let depth_limit =
  S (S (S (S (S (S (S (S (S (S (S (S (S (S (S (S (S (S (S (S (S (S (S (S (S
    (S (S (S (S (S (S (S (S (S (S (S (S (S (S (S (S (S (S (S (S (S (S (S (S
    (S (S (S (S (S (S (S (S (S (S (S (S (S (S (S (S (S (S (S (S (S (S (S (S
    (S (S (S (S (S (S (S (S (S (S (S (S (S (S (S (S (S (S (S (S (S (S (S (S
    (S (S (S (S (S (S (S (S (S (S (S (S (S (S (S (S (S (S (S (S (S (S (S (S
    (S (S (S (S (S (S (S
    O)))))))))))))))))))))))))))))))))))))))))))))))))))))))))))))))))))))))))))))))))))))))))))))))))))))))))))))))))))))))))))))))

(** val parse_text : bytes -> json option **)

let parse_text s =
  match parse_value (S (length s)) depth_limit s with
  | Some p ->
    let (v, r) = p in (match skip_ws r with
                       | [] -> Some v
                       | _ :: _ -> None)
  | None -> None

(** val ws_prefix : bytes -> bytes **)

let ws_prefix s =
  take_while is_json_ws s

(** val skip_value : nat -> bytes -> (bytes * bytes) option **)

let rec skip_value fuel s =
  match fuel with
  | O -> None
  | S f ->
    let w = ws_prefix s in
    (match skip_ws s with
     | [] -> None
     | c :: s1 ->
       if beqb c X6e
       then (match starts_with (unBS (X75 :: (X6c :: (X6c :: [])))) s1 with
             | Some r ->
               Some ((app w (unBS (X6e :: (X75 :: (X6c :: (X6c :: [])))))), r)
             | None -> None)
       else if beqb c X74
            then (match starts_with (unBS (X72 :: (X75 :: (X65 :: [])))) s1 with
                  | Some r ->
                    Some
                      ((app w (unBS (X74 :: (X72 :: (X75 :: (X65 :: [])))))),
                      r)
                  | None -> None)
            else if beqb c X66
                 then (match starts_with
                               (unBS (X61 :: (X6c :: (X73 :: (X65 :: [])))))
                               s1 with
                       | Some r ->
                         Some
                           ((app w
                              (unBS
                                (X66 :: (X61 :: (X6c :: (X73 :: (X65 :: []))))))),
                           r)
                       | None -> None)
                 else if beqb c X22
                      then (match skip_str s1 with
                            | Some p ->
                              let (t, r) = p in Some ((app w (c :: t)), r)
                            | None -> None)
                      else if is_num_start c
                           then (match scan_number (c :: s1) with
                                 | Some p ->
                                   let (l, r) = p in
                                   Some ((app w (numlex_bytes l)), r)
                                 | None -> None)
                           else if beqb c X5b
                                then (match skip_ws s1 with
                                      | [] -> None
                                      | c2 :: r ->
                                        if beqb c2 X5d
                                        then Some
                                               ((app w
                                                  (c :: (app (ws_prefix s1)
                                                          (c2 :: [])))), r)
                                        else (match skip_elems f s1 with
                                              | Some p ->
                                                let (t, r') = p in
                                                Some ((app w (c :: t)), r')
                                              | None -> None))
                                else if beqb c X7b
                                     then (match skip_ws s1 with
                                           | [] -> None
                                           | c2 :: r ->
                                             if beqb c2 X7d
                                             then Some
                                                    ((app w
                                                       (c :: (app
                                                               (ws_prefix s1)
                                                               (c2 :: [])))),
                                                    r)
                                             else (match skip_members f s1 with
                                                   | Some p ->
                                                     let (t, r') = p in
                                                     Some ((app w (c :: t)),
                                                     r')
                                                   | None -> None))
                                     else None)

(** val skip_elems : nat -> bytes -> (bytes * bytes) option **)

and skip_elems fuel s =
  match fuel with
  | O -> None
  | S f ->
    (match skip_value f s with
     | Some p ->
       let (t, r) = p in
       (match skip_ws r with
        | [] -> None
        | c :: r1 ->
          if beqb c X2c
          then (match skip_elems f r1 with
                | Some p0 ->
                  let (t2, r2) = p0 in
                  Some ((app t (app (ws_prefix r) (c :: t2))), r2)
                | None -> None)
          else if beqb c X5d
               then Some ((app t (app (ws_prefix r) (c :: []))), r1)
               else None)
     | None -> None)

(** val skip_members : nat -> bytes -> (bytes * bytes) option **)

and skip_members fuel s =
  match fuel with
  | O -> None
  | S f ->
    (match skip_ws s with
     | [] -> None
     | q :: s1 ->
       if beqb q X22
       then (match skip_str s1 with
             | Some p ->
               let (k, r0) = p in
               (match skip_ws r0 with
                | [] -> None
                | col :: r1 ->
                  if beqb col X3a
                  then (match skip_value f r1 with
                        | Some p0 ->
                          let (t, r) = p0 in
                          (match skip_ws r with
                           | [] -> None
                           | c :: r2 ->
                             let pre =
                               app (ws_prefix s)
                                 (q :: (app k
                                         (app (ws_prefix r0)
                                           (col :: (app t (ws_prefix r))))))
                             in
                             if beqb c X2c
                             then (match skip_members f r2 with
                                   | Some p1 ->
                                     let (t3, r3) = p1 in
                                     Some ((app pre (c :: t3)), r3)
                                   | None -> None)
                             else if beqb c X7d
                                  then Some ((app pre (c :: [])), r2)
                                  else None)
                        | None -> None)
                  else None)
             | None -> None)
       else None)

(** val raw_value : bytes -> (bytes * bytes) option **)

let raw_value s =
  let s' = skip_ws s in
  (match skip_value (S (length s')) s' with
   | Some p -> let (t, r) = p in if utf8_valid t then Some (t, r) else None
   | None -> None)

(** val raw_text : bytes -> bytes option **)

let raw_text s =
  match raw_value s with
  | Some p ->
    let (t, r) = p in (match skip_ws r with
                       | [] -> Some t
                       | _ :: _ -> None)
  | None -> None

type id =
| IdNull
| IdNum of n
| IdStr of bytes

(** val id_of_json : json -> id option **)

let id_of_json = function
| JNull -> Some IdNull
| JNum x -> (match x with
             | NPos n0 -> Some (IdNum n0)
             | _ -> None)
| JStr s -> Some (IdStr s)
| _ -> None

(** val json_of_id : id -> json **)

let json_of_id = function
| IdNull -> JNull
| IdNum n0 -> JNum (NPos n0)
| IdStr s -> JStr s

(** val ser_id : id -> bytes **)

let ser_id i =
  ser (json_of_id i)

(** val parse_id : bytes -> id option **)

let parse_id t =
  match parse_text t with
  | Some v -> id_of_json v
  | None -> None

type subid =
| SubNum of n
| SubStr of bytes

(** val subid_of_json : json -> subid option **)

let subid_of_json = function
| JNum x -> (match x with
             | NPos n0 -> Some (SubNum n0)
             | _ -> None)
| JStr s -> Some (SubStr s)
| _ -> None

(** val json_of_subid : subid -> json **)

let json_of_subid = function
| SubNum n0 -> JNum (NPos n0)
| SubStr s -> JStr s

(** val ser_subid : subid -> bytes **)

let ser_subid i =
  ser (json_of_subid i)

(** val parse_subid : bytes -> subid option **)

let parse_subid t =
  match parse_text t with
  | Some v -> subid_of_json v
  | None -> None

type members = (bytes * bytes) list

(** val members_loop : nat -> bytes -> (members * bytes) option **)

let rec members_loop fuel s =
  match fuel with
  | O -> None
  | S f ->
    (match skip_ws s with
     | [] -> None
     | q :: s1 ->
       if beqb q X22
       then (match scan_str_valid s1 with
             | Some p ->
               let (k, r0) = p in
               (match skip_ws r0 with
                | [] -> None
                | col :: r1 ->
                  if beqb col X3a
                  then let r1' = skip_ws r1 in
                       (match skip_value (S (length r1')) r1' with
                        | Some p0 ->
                          let (span, r) = p0 in
                          (match skip_ws r with
                           | [] -> None
                           | c :: r2 ->
                             if beqb c X2c
                             then (match members_loop f r2 with
                                   | Some p1 ->
                                     let (ms, r3) = p1 in
                                     Some (((k, span) :: ms), r3)
                                   | None -> None)
                             else if beqb c X7d
                                  then Some (((k, span) :: []), r2)
                                  else None)
                        | None -> None)
                  else None)
             | None -> None)
       else None)

(** val object_members : bytes -> members option **)

let object_members s =
  match skip_ws s with
  | [] -> None
  | c :: s1 ->
    if beqb c X7b
    then (match skip_ws s1 with
          | [] -> None
          | c2 :: r ->
            if beqb c2 X7d
            then (match skip_ws r with
                  | [] -> Some []
                  | _ :: _ -> None)
            else (match members_loop (S (length s1)) s1 with
                  | Some p ->
                    let (ms, r') = p in
                    (match skip_ws r' with
                     | [] -> Some ms
                     | _ :: _ -> None)
                  | None -> None))
    else None

(** val get_all : bytes -> members -> bytes list **)

let rec get_all k = function
| [] -> []
| p :: m' ->
  let (k', v) = p in
  if bytes_eqb k k' then v :: (get_all k m') else get_all k m'

type field =
| FAbsent
| FOne of bytes
| FDup

(** val field_of : bytes -> members -> field **)

let field_of k m =
  match get_all k m with
  | [] -> FAbsent
  | v :: l -> (match l with
               | [] -> FOne v
               | _ :: _ -> FDup)

(** val k_jsonrpc : byte list **)

let k_jsonrpc =
  X6a :: (X73 :: (X6f :: (X6e :: (X72 :: (X70 :: (X63 :: []))))))

(** val k_id : byte list **)

let k_id =
  X69 :: (X64 :: [])

(** val k_method : byte list **)

let k_method =
  X6d :: (X65 :: (X74 :: (X68 :: (X6f :: (X64 :: [])))))

(** val k_params : byte list **)

let k_params =
  X70 :: (X61 :: (X72 :: (X61 :: (X6d :: (X73 :: [])))))

(** val k_result : byte list **)

let k_result =
  X72 :: (X65 :: (X73 :: (X75 :: (X6c :: (X74 :: [])))))

(** val k_error : byte list **)

let k_error =
  X65 :: (X72 :: (X72 :: (X6f :: (X72 :: []))))

(** val k_code : byte list **)

let k_code =
  X63 :: (X6f :: (X64 :: (X65 :: [])))

(** val k_message : byte list **)

let k_message =
  X6d :: (X65 :: (X73 :: (X73 :: (X61 :: (X67 :: (X65 :: []))))))

(** val k_data : byte list **)

let k_data =
  X64 :: (X61 :: (X74 :: (X61 :: [])))

(** val k_subscription : byte list **)

let k_subscription =
  X73 :: (X75 :: (X62 :: (X73 :: (X63 :: (X72 :: (X69 :: (X70 :: (X74 :: (X69 :: (X6f :: (X6e :: [])))))))))))

(** val v_two : byte list **)

let v_two =
  X32 :: (X2e :: (X30 :: []))

(** val is_two : bytes -> bool **)

let is_two span =
  match parse_text span with
  | Some j -> (match j with
               | JStr s -> bytes_eqb s v_two
               | _ -> false)
  | None -> false

(** val as_str : bytes -> bytes option **)

let as_str span =
  match parse_text span with
  | Some j -> (match j with
               | JStr s -> Some s
               | _ -> None)
  | None -> None

(** val is_null_span : bytes -> bool **)

let is_null_span span =
  bytes_eqb span (unBS (X6e :: (X75 :: (X6c :: (X6c :: [])))))

(** val as_opt_raw : bytes -> bytes option option **)

let as_opt_raw span =
  if is_null_span span
  then Some None
  else if utf8_valid span then Some (Some span) else None

(** val as_raw : bytes -> bytes option **)

let as_raw span =
  if utf8_valid span then Some span else None

(** val i32_of_json : json -> z option **)

let i32_of_json = function
| JNum x ->
  (match x with
   | NPos n0 ->
     if N.leb n0 (Npos (XI (XI (XI (XI (XI (XI (XI (XI (XI (XI (XI (XI (XI
          (XI (XI (XI (XI (XI (XI (XI (XI (XI (XI (XI (XI (XI (XI (XI (XI (XI
          XH)))))))))))))))))))))))))))))))
     then Some (Z.of_N n0)
     else None
   | NNeg n0 ->
     if N.leb n0 (Npos (XO (XO (XO (XO (XO (XO (XO (XO (XO (XO (XO (XO (XO
          (XO (XO (XO (XO (XO (XO (XO (XO (XO (XO (XO (XO (XO (XO (XO (XO (XO
          (XO XH))))))))))))))))))))))))))))))))
     then Some (Z.opp (Z.of_N n0))
     else None
   | NFloat _ -> None)
| _ -> None

type errobj = { e_code : z; e_message : bytes; e_data : bytes option }

(** val all_known : bytes list -> members -> bool **)

let all_known known m =
  forallb (fun kv -> existsb (bytes_eqb (fst kv)) known) m

(** val parse_errobj_members : members -> errobj option **)

let parse_errobj_members m =
  if negb (all_known (k_code :: (k_message :: (k_data :: []))) m)
  then None
  else (match field_of k_code m with
        | FOne c ->
          (match field_of k_message m with
           | FOne msg ->
             (match parse_text c with
              | Some cv ->
                (match as_str msg with
                 | Some ms ->
                   (match i32_of_json cv with
                    | Some code ->
                      (match field_of k_data m with
                       | FAbsent ->
                         Some { e_code = code; e_message = ms; e_data = None }
                       | FOne d ->
                         (match as_opt_raw d with
                          | Some od ->
                            Some { e_code = code; e_message = ms; e_data =
                              od }
                          | None -> None)
                       | FDup -> None)
                    | None -> None)
                 | None -> None)
              | None -> None)
           | _ -> None)
        | _ -> None)

(** val parse_errobj : bytes -> errobj option **)

let parse_errobj t =
  match object_members t with
  | Some m -> parse_errobj_members m
  | None -> None

(** val ser_errobj : errobj -> bytes **)

let ser_errobj e =
  app
    (unBS
      (X7b :: (X22 :: (X63 :: (X6f :: (X64 :: (X65 :: (X22 :: (X3a :: [])))))))))
    (app (print_Z e.e_code)
      (app
        (unBS
          (X2c :: (X22 :: (X6d :: (X65 :: (X73 :: (X73 :: (X61 :: (X67 :: (X65 :: (X22 :: (X3a :: []))))))))))))
        (app (ser_str e.e_message)
          (app
            (match e.e_data with
             | Some d ->
               app
                 (unBS
                   (X2c :: (X22 :: (X64 :: (X61 :: (X74 :: (X61 :: (X22 :: (X3a :: [])))))))))
                 d
             | None -> []) (unBS (X7d :: []))))))

type request = { rq_id : id; rq_method : bytes; rq_params : bytes option }

(** val opt_field_raw : bytes -> members -> bytes option option **)

let opt_field_raw k m =
  match field_of k m with
  | FAbsent -> Some None
  | FOne p -> as_opt_raw p
  | FDup -> None

(** val as_request : members -> request option **)

let as_request m =
  match field_of k_jsonrpc m with
  | FOne j ->
    (match field_of k_id m with
     | FOne i ->
       (match field_of k_method m with
        | FOne me ->
          if is_two j
          then (match parse_id i with
                | Some i' ->
                  (match as_str me with
                   | Some me' ->
                     (match opt_field_raw k_params m with
                      | Some p ->
                        Some { rq_id = i'; rq_method = me'; rq_params = p }
                      | None -> None)
                   | None -> None)
                | None -> None)
          else None
        | _ -> None)
     | _ -> None)
  | _ -> None

(** val as_notification : members -> (bytes * bytes option) option **)

let as_notification m =
  match field_of k_jsonrpc m with
  | FOne j ->
    (match field_of k_method m with
     | FOne me ->
       if is_two j
       then (match as_str me with
             | Some me' ->
               (match opt_field_raw k_params m with
                | Some p -> Some (me', p)
                | None -> None)
             | None -> None)
       else None
     | _ -> None)
  | _ -> None

(** val as_invalid : members -> id option **)

let as_invalid m =
  match field_of k_id m with
  | FOne i -> parse_id i
  | _ -> None

(** val parse_request : bytes -> request option **)

let parse_request t =
  match object_members t with
  | Some m -> as_request m
  | None -> None

(** val parse_notification : bytes -> (bytes * bytes option) option **)

let parse_notification t =
  match object_members t with
  | Some m -> as_notification m
  | None -> None

(** val parse_invalid : bytes -> id option **)

let parse_invalid t =
  match object_members t with
  | Some m -> as_invalid m
  | None -> None

(** val ser_request : request -> bytes **)

let ser_request r =
  app
    (unBS
      (X7b :: (X22 :: (X6a :: (X73 :: (X6f :: (X6e :: (X72 :: (X70 :: (X63 :: (X22 :: (X3a :: (X22 :: (X32 :: (X2e :: (X30 :: (X22 :: (X2c :: (X22 :: (X69 :: (X64 :: (X22 :: (X3a :: [])))))))))))))))))))))))
    (app (ser_id r.rq_id)
      (app
        (unBS
          (X2c :: (X22 :: (X6d :: (X65 :: (X74 :: (X68 :: (X6f :: (X64 :: (X22 :: (X3a :: [])))))))))))
        (app (ser_str r.rq_method)
          (app
            (match r.rq_params with
             | Some p ->
               app
                 (unBS
                   (X2c :: (X22 :: (X70 :: (X61 :: (X72 :: (X61 :: (X6d :: (X73 :: (X22 :: (X3a :: [])))))))))))
                 p
             | None -> []) (unBS (X7d :: []))))))

(** val ser_notification : bytes -> bytes option -> bytes **)

let ser_notification me p =
  app
    (unBS
      (X7b :: (X22 :: (X6a :: (X73 :: (X6f :: (X6e :: (X72 :: (X70 :: (X63 :: (X22 :: (X3a :: (X22 :: (X32 :: (X2e :: (X30 :: (X22 :: (X2c :: (X22 :: (X6d :: (X65 :: (X74 :: (X68 :: (X6f :: (X64 :: (X22 :: (X3a :: [])))))))))))))))))))))))))))
    (app (ser_str me)
      (app
        (unBS
          (X2c :: (X22 :: (X70 :: (X61 :: (X72 :: (X61 :: (X6d :: (X73 :: (X22 :: (X3a :: [])))))))))))
        (app
          (match p with
           | Some p' -> p'
           | None -> unBS (X6e :: (X75 :: (X6c :: (X6c :: [])))))
          (unBS (X7d :: [])))))

type payload =
| PResult of bytes
| PError of errobj

type response = { rs_jsonrpc : bool; rs_payload : payload; rs_id : id }

(** val as_opt_two : bytes -> bool option **)

let as_opt_two span =
  if is_null_span span
  then Some false
  else if is_two span then Some true else None

(** val parse_response_members : members -> response option **)

let parse_response_members m =
  match field_of k_id m with
  | FOne i ->
    (match parse_id i with
     | Some i' ->
       let j =
         match field_of k_jsonrpc m with
         | FAbsent -> Some false
         | FOne s -> as_opt_two s
         | FDup -> None
       in
       (match j with
        | Some jv ->
          (match field_of k_result m with
           | FAbsent ->
             (match field_of k_error m with
              | FOne e ->
                (match parse_errobj e with
                 | Some e' ->
                   Some { rs_jsonrpc = jv; rs_payload = (PError e'); rs_id =
                     i' }
                 | None -> None)
              | _ -> None)
           | FOne r ->
             (match field_of k_error m with
              | FAbsent ->
                (match as_raw r with
                 | Some r' ->
                   Some { rs_jsonrpc = jv; rs_payload = (PResult r'); rs_id =
                     i' }
                 | None -> None)
              | _ -> None)
           | FDup -> None)
        | None -> None)
     | None -> None)
  | _ -> None

(** val parse_response : bytes -> response option **)

let parse_response t =
  match object_members t with
  | Some m -> parse_response_members m
  | None -> None

(** val ser_response : response -> bytes **)

let ser_response r =
  app (unBS (X7b :: []))
    (app
      (if r.rs_jsonrpc
       then unBS
              (X22 :: (X6a :: (X73 :: (X6f :: (X6e :: (X72 :: (X70 :: (X63 :: (X22 :: (X3a :: (X22 :: (X32 :: (X2e :: (X30 :: (X22 :: (X2c :: []))))))))))))))))
       else [])
      (app (unBS (X22 :: (X69 :: (X64 :: (X22 :: (X3a :: []))))))
        (app (ser_id r.rs_id)
          (app
            (match r.rs_payload with
             | PResult raw ->
               app
                 (unBS
                   (X2c :: (X22 :: (X72 :: (X65 :: (X73 :: (X75 :: (X6c :: (X74 :: (X22 :: (X3a :: [])))))))))))
                 raw
             | PError e ->
               app
                 (unBS
                   (X2c :: (X22 :: (X65 :: (X72 :: (X72 :: (X6f :: (X72 :: (X22 :: (X3a :: []))))))))))
                 (ser_errobj e)) (unBS (X7d :: []))))))

(** val ser_sub_notif : bytes -> subid -> bool -> bytes -> bytes **)

let ser_sub_notif me sid is_err raw =
  app
    (unBS
      (X7b :: (X22 :: (X6a :: (X73 :: (X6f :: (X6e :: (X72 :: (X70 :: (X63 :: (X22 :: (X3a :: (X22 :: (X32 :: (X2e :: (X30 :: (X22 :: (X2c :: (X22 :: (X6d :: (X65 :: (X74 :: (X68 :: (X6f :: (X64 :: (X22 :: (X3a :: [])))))))))))))))))))))))))))
    (app (ser_str me)
      (app
        (unBS
          (X2c :: (X22 :: (X70 :: (X61 :: (X72 :: (X61 :: (X6d :: (X73 :: (X22 :: (X3a :: (X7b :: (X22 :: (X73 :: (X75 :: (X62 :: (X73 :: (X63 :: (X72 :: (X69 :: (X70 :: (X74 :: (X69 :: (X6f :: (X6e :: (X22 :: (X3a :: [])))))))))))))))))))))))))))
        (app (ser_subid sid)
          (app
            (if is_err
             then unBS
                    (X2c :: (X22 :: (X65 :: (X72 :: (X72 :: (X6f :: (X72 :: (X22 :: (X3a :: [])))))))))
             else unBS
                    (X2c :: (X22 :: (X72 :: (X65 :: (X73 :: (X75 :: (X6c :: (X74 :: (X22 :: (X3a :: [])))))))))))
            (app raw (unBS (X7d :: (X7d :: []))))))))

(** val parse_sub_payload : bytes -> bytes -> (subid * bytes) option **)

let parse_sub_payload key t =
  match object_members t with
  | Some m ->
    (match field_of k_subscription m with
     | FOne s ->
       (match field_of key m with
        | FOne r ->
          (match parse_subid s with
           | Some s' ->
             (match as_raw r with
              | Some r' -> Some (s', r')
              | None -> None)
           | None -> None)
        | _ -> None)
     | _ -> None)
  | None -> None

(** val parse_sub_notif :
    bytes -> bytes -> ((bytes * subid) * bytes) option **)

let parse_sub_notif key t =
  match object_members t with
  | Some m ->
    (match field_of k_jsonrpc m with
     | FOne j ->
       (match field_of k_method m with
        | FOne me ->
          (match field_of k_params m with
           | FOne p ->
             if is_two j
             then (match as_str me with
                   | Some me' ->
                     (match parse_sub_payload key p with
                      | Some p0 -> let (s, r) = p0 in Some ((me', s), r)
                      | None -> None)
                   | None -> None)
             else None
           | _ -> None)
        | _ -> None)
     | _ -> None)
  | None -> None
