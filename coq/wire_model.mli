
val negb : bool -> bool

type nat =
| O
| S of nat

val fst : ('a1 * 'a2) -> 'a1

val snd : ('a1 * 'a2) -> 'a2

val length : 'a1 list -> nat

val app : 'a1 list -> 'a1 list -> 'a1 list

type comparison =
| Eq
| Lt
| Gt

type uint =
| Nil
| D0 of uint
| D1 of uint
| D2 of uint
| D3 of uint
| D4 of uint
| D5 of uint
| D6 of uint
| D7 of uint
| D8 of uint
| D9 of uint

val revapp : uint -> uint -> uint

val rev : uint -> uint

module Little :
 sig
  val double : uint -> uint

  val succ_double : uint -> uint
 end

type byte =
| X00
| X01
| X02
| X03
| X04
| X05
| X06
| X07
| X08
| X09
| X0a
| X0b
| X0c
| X0d
| X0e
| X0f
| X10
| X11
| X12
| X13
| X14
| X15
| X16
| X17
| X18
| X19
| X1a
| X1b
| X1c
| X1d
| X1e
| X1f
| X20
| X21
| X22
| X23
| X24
| X25
| X26
| X27
| X28
| X29
| X2a
| X2b
| X2c
| X2d
| X2e
| X2f
| X30
| X31
| X32
| X33
| X34
| X35
| X36
| X37
| X38
| X39
| X3a
| X3b
| X3c
| X3d
| X3e
| X3f
| X40
| X41
| X42
| X43
| X44
| X45
| X46
| X47
| X48
| X49
| X4a
| X4b
| X4c
| X4d
| X4e
| X4f
| X50
| X51
| X52
| X53
| X54
| X55
| X56
| X57
| X58
| X59
| X5a
| X5b
| X5c
| X5d
| X5e
| X5f
| X60
| X61
| X62
| X63
| X64
| X65
| X66
| X67
| X68
| X69
| X6a
| X6b
| X6c
| X6d
| X6e
| X6f
| X70
| X71
| X72
| X73
| X74
| X75
| X76
| X77
| X78
| X79
| X7a
| X7b
| X7c
| X7d
| X7e
| X7f
| X80
| X81
| X82
| X83
| X84
| X85
| X86
| X87
| X88
| X89
| X8a
| X8b
| X8c
| X8d
| X8e
| X8f
| X90
| X91
| X92
| X93
| X94
| X95
| X96
| X97
| X98
| X99
| X9a
| X9b
| X9c
| X9d
| X9e
| X9f
| Xa0
| Xa1
| Xa2
| Xa3
| Xa4
| Xa5
| Xa6
| Xa7
| Xa8
| Xa9
| Xaa
| Xab
| Xac
| Xad
| Xae
| Xaf
| Xb0
| Xb1
| Xb2
| Xb3
| Xb4
| Xb5
| Xb6
| Xb7
| Xb8
| Xb9
| Xba
| Xbb
| Xbc
| Xbd
| Xbe
| Xbf
| Xc0
| Xc1
| Xc2
| Xc3
| Xc4
| Xc5
| Xc6
| Xc7
| Xc8
| Xc9
| Xca
| Xcb
| Xcc
| Xcd
| Xce
| Xcf
| Xd0
| Xd1
| Xd2
| Xd3
| Xd4
| Xd5
| Xd6
| Xd7
| Xd8
| Xd9
| Xda
| Xdb
| Xdc
| Xdd
| Xde
| Xdf
| Xe0
| Xe1
| Xe2
| Xe3
| Xe4
| Xe5
| Xe6
| Xe7
| Xe8
| Xe9
| Xea
| Xeb
| Xec
| Xed
| Xee
| Xef
| Xf0
| Xf1
| Xf2
| Xf3
| Xf4
| Xf5
| Xf6
| Xf7
| Xf8
| Xf9
| Xfa
| Xfb
| Xfc
| Xfd
| Xfe
| Xff

val to_bits :
  byte -> bool * (bool * (bool * (bool * (bool * (bool * (bool * bool))))))

val eqb : bool -> bool -> bool

val existsb : ('a1 -> bool) -> 'a1 list -> bool

val forallb : ('a1 -> bool) -> 'a1 list -> bool

type positive =
| XI of positive
| XO of positive
| XH

type n =
| N0
| Npos of positive

type z =
| Z0
| Zpos of positive
| Zneg of positive

module Pos :
 sig
  type mask =
  | IsNul
  | IsPos of positive
  | IsNeg
 end

module Coq_Pos :
 sig
  val succ : positive -> positive

  val add : positive -> positive -> positive

  val add_carry : positive -> positive -> positive

  val pred_double : positive -> positive

  type mask = Pos.mask =
  | IsNul
  | IsPos of positive
  | IsNeg

  val succ_double_mask : mask -> mask

  val double_mask : mask -> mask

  val double_pred_mask : positive -> mask

  val sub_mask : positive -> positive -> mask

  val sub_mask_carry : positive -> positive -> mask

  val mul : positive -> positive -> positive

  val compare_cont : comparison -> positive -> positive -> comparison

  val compare : positive -> positive -> comparison

  val eqb : positive -> positive -> bool

  val of_uint_acc : uint -> positive -> positive

  val of_uint : uint -> n

  val to_little_uint : positive -> uint

  val to_uint : positive -> uint
 end

module N :
 sig
  val succ_double : n -> n

  val double : n -> n

  val add : n -> n -> n

  val sub : n -> n -> n

  val mul : n -> n -> n

  val compare : n -> n -> comparison

  val eqb : n -> n -> bool

  val leb : n -> n -> bool

  val ltb : n -> n -> bool

  val pos_div_eucl : positive -> n -> n * n

  val div_eucl : n -> n -> n * n

  val div : n -> n -> n

  val modulo : n -> n -> n

  val of_uint : uint -> n

  val to_uint : n -> uint
 end

val eqb0 : byte -> byte -> bool

val to_N : byte -> n

val of_N : n -> byte option

module Z :
 sig
  val opp : z -> z

  val of_N : n -> z
 end

type bytes = byte list

type bstr = byte list
  (* singleton inductive, whose constructor was BS *)

val unBS : bstr -> bytes

val bN : byte -> n

val nb : n -> byte

val beqb : byte -> byte -> bool

val bytes_eqb : bytes -> bytes -> bool

val in_range : n -> n -> byte -> bool

val is_json_ws : byte -> bool

val is_digit : byte -> bool

val drop_while : (byte -> bool) -> bytes -> bytes

val take_while : (byte -> bool) -> bytes -> bytes

val skip_ws : bytes -> bytes

val starts_with : bytes -> bytes -> bytes option

val uint_to_bytes : uint -> bytes

val bytes_to_uint : bytes -> uint

val print_N : n -> bytes

val digits_val : bytes -> n

val print_Z : z -> bytes

val u64_max : n

val i64_min_abs : n

val is_cont : byte -> bool

val utf8_valid : bytes -> bool

val utf8_encode : n -> bytes

type num =
| NPos of n
| NNeg of n
| NFloat of bytes

type json =
| JNull
| JBool of bool
| JNum of num
| JStr of bytes
| JArr of json list
| JObj of (bytes * json) list

val hex_digit : n -> byte

val escape_byte : byte -> bytes

val escape_body : bytes -> bytes

val ser_str : bytes -> bytes

val ser_num : num -> bytes

val ser : json -> bytes

val hexval : byte -> n option

val hex4 : byte -> byte -> byte -> byte -> n option

val simple_escape : byte -> byte option

val is_low_sur : n -> bool

val is_high_sur : n -> bool

val scan_str : bytes -> (bytes * bytes) option

val scan_str_valid : bytes -> (bytes * bytes) option

val skip_str : bytes -> (bytes * bytes) option

type numlex = { nl_neg : bool; nl_int : bytes; nl_frac : bytes; nl_exp : bytes }

val numlex_bytes : numlex -> bytes

val scan_int : bytes -> (bytes * bytes) option

val scan_frac : bytes -> (bytes * bytes) option

val scan_exp : bytes -> (bytes * bytes) option

val scan_number : bytes -> (numlex * bytes) option

val classify_num : numlex -> num

val is_num_start : byte -> bool

val parse_value : nat -> nat -> bytes -> (json * bytes) option

val parse_elems : nat -> nat -> bytes -> (json list * bytes) option

val parse_members :
  nat -> nat -> bytes -> ((bytes * json) list * bytes) option

val depth_limit : nat

val parse_text : bytes -> json option

val ws_prefix : bytes -> bytes

val skip_value : nat -> bytes -> (bytes * bytes) option

val skip_elems : nat -> bytes -> (bytes * bytes) option

val skip_members : nat -> bytes -> (bytes * bytes) option

val raw_value : bytes -> (bytes * bytes) option

val raw_text : bytes -> bytes option

type id =
| IdNull
| IdNum of n
| IdStr of bytes

val id_of_json : json -> id option

val json_of_id : id -> json

val ser_id : id -> bytes

val parse_id : bytes -> id option

type subid =
| SubNum of n
| SubStr of bytes

val subid_of_json : json -> subid option

val json_of_subid : subid -> json

val ser_subid : subid -> bytes

val parse_subid : bytes -> subid option

type members = (bytes * bytes) list

val members_loop : nat -> bytes -> (members * bytes) option

val object_members : bytes -> members option

val get_all : bytes -> members -> bytes list

type field =
| FAbsent
| FOne of bytes
| FDup

val field_of : bytes -> members -> field

val k_jsonrpc : byte list

val k_id : byte list

val k_method : byte list

val k_params : byte list

val k_result : byte list

val k_error : byte list

val k_code : byte list

val k_message : byte list

val k_data : byte list

val k_subscription : byte list

val v_two : byte list

val is_two : bytes -> bool

val as_str : bytes -> bytes option

val is_null_span : bytes -> bool

val as_opt_raw : bytes -> bytes option option

val as_raw : bytes -> bytes option

val i32_of_json : json -> z option

type errobj = { e_code : z; e_message : bytes; e_data : bytes option }

val all_known : bytes list -> members -> bool

val parse_errobj_members : members -> errobj option

val parse_errobj : bytes -> errobj option

val ser_errobj : errobj -> bytes

type request = { rq_id : id; rq_method : bytes; rq_params : bytes option }

val opt_field_raw : bytes -> members -> bytes option option

val as_request : members -> request option

val as_notification : members -> (bytes * bytes option) option

val as_invalid : members -> id option

val parse_request : bytes -> request option

val parse_notification : bytes -> (bytes * bytes option) option

val parse_invalid : bytes -> id option

val ser_request : request -> bytes

val ser_notification : bytes -> bytes option -> bytes

type payload =
| PResult of bytes
| PError of errobj

type response = { rs_jsonrpc : bool; rs_payload : payload; rs_id : id }

val as_opt_two : bytes -> bool option

val parse_response_members : members -> response option

val parse_response : bytes -> response option

val ser_response : response -> bytes

val ser_sub_notif : bytes -> subid -> bool -> bytes -> bytes

val parse_sub_payload : bytes -> bytes -> (subid * bytes) option

val parse_sub_notif : bytes -> bytes -> ((bytes * subid) * bytes) option
