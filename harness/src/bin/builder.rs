//! Engine `builder` (C20): the real params builders (`ArrayParams`, `ObjectParams`, `rpc_params!`,
//! `ToRpcParams` for tuples 1..16 / slices / vecs / arrays / maps, `BatchRequestBuilder`) driven by an
//! explicit list of values, printed in the line format shared with modelrun/builder_driver.ml.
//!
//! input   <kind> <item>*                      kind = array | rpc | tuple | slice | vec | arr
//!         object (k<keyhex>=<item>)*          named builder
//!         map (k<keyhex>=v:<hex>)*            serde_json::Map (keys unique; emitted in BTreeMap order)
//!         batch <entry> ('|' <entry>)*        entry = m<methodhex> <kind> <item>*
//! item    v:<hex>   JSON text, inserted as serde_json::Value
//!         r:<hex>   JSON text, inserted as Box<RawValue> (kept verbatim)
//!         t:<hex>   JSON text, inserted as a typed Rust value (u64/i64/f64/bool/&str/String/Option/Vec/BTreeMap..)
//!         f:<partialhex>:<texthex>:<n>   a Serialize impl walking the value `text` that returns Err at its n-th
//!                   event (pre-order node visits + one `end` event per container; after the last event: at the very end)
//!         x:<partialhex>   a Serialize impl that writes exactly these bytes to the writer and then returns Err
//! output  one token per item (`ok` / `err`, for failing items `err:p=<hex of the bytes that impl really emitted>`;
//!         for the one-shot kinds `-` / `p=<hex>`), then `=> none | some:<hex> | err | PANIC | MACRO-PANIC`;
//!         batch: per entry the item tokens and `-> ok|err|PANIC|MACRO-PANIC` (result of `BatchRequestBuilder::insert` with the
//!         real params object), joined by ` | `, then ` || <n> built:<n>|built:empty (m<hex>:none|m<hex>:some:<hex>)*` read back
//!         through `iter()` / `build()`.
use jrv::*;
use jsonrpsee_core::params::{ArrayParams, BatchRequestBuilder, ObjectParams};
use jsonrpsee_core::rpc_params;
use jsonrpsee_core::traits::ToRpcParams;
use serde::ser::{Error as _, SerializeMap, SerializeSeq, SerializeStruct};
use serde::{Serialize, Serializer};
use serde_json::value::RawValue;
use serde_json::Value;
use std::cell::Cell;
use std::collections::BTreeMap;
use std::panic::{AssertUnwindSafe, catch_unwind};

/// Walks a `Value` through the serializer and fails at the `budget`-th event.
struct Walk<'a> {
	v: &'a Value,
	budget: &'a Cell<usize>,
}

fn tick<E: serde::ser::Error>(b: &Cell<usize>) -> Result<(), E> {
	if b.get() == 0 {
		return Err(E::custom("serializer gave up"));
	}
	b.set(b.get() - 1);
	Ok(())
}

impl Serialize for Walk<'_> {
	fn serialize<S: Serializer>(&self, s: S) -> Result<S::Ok, S::Error> {
		tick::<S::Error>(self.budget)?;
		match self.v {
			Value::Null => s.serialize_unit(),
			Value::Bool(b) => s.serialize_bool(*b),
			Value::Number(n) => n.serialize(s),
			Value::String(x) => s.serialize_str(x),
			Value::Array(a) => {
				let mut seq = s.serialize_seq(Some(a.len()))?;
				for e in a {
					seq.serialize_element(&Walk { v: e, budget: self.budget })?;
				}
				tick::<S::Error>(self.budget)?;
				seq.end()
			}
			Value::Object(m) => {
				let mut mp = s.serialize_map(Some(m.len()))?;
				for (k, v) in m {
					mp.serialize_key(k)?;
					mp.serialize_value(&Walk { v, budget: self.budget })?;
				}
				tick::<S::Error>(self.budget)?;
				mp.end()
			}
		}
	}
}

enum Typed {
	Null,
	Unit,
	Bool(bool),
	U64(u64),
	U8(u8),
	I64(i64),
	F64(f64),
	Str(String),
	Char(char),
	VecU64(Vec<u64>),
	VecStr(Vec<String>),
	VecVal(Vec<Value>),
	Pair(Value, Value),
	Map(BTreeMap<String, Value>),
	SomeVal(Value),
}

fn typed_of(v: Value, salt: usize) -> Typed {
	match v {
		Value::Null => {
			if salt % 2 == 0 {
				Typed::Null
			} else {
				Typed::Unit
			}
		}
		Value::Bool(b) => Typed::Bool(b),
		Value::Number(n) => {
			if let Some(u) = n.as_u64() {
				if u < 256 && salt % 2 == 0 { Typed::U8(u as u8) } else { Typed::U64(u) }
			} else if let Some(i) = n.as_i64() {
				Typed::I64(i)
			} else {
				Typed::F64(n.as_f64().unwrap())
			}
		}
		Value::String(s) => {
			let mut cs = s.chars();
			match (cs.next(), cs.next()) {
				(Some(c), None) if salt % 2 == 0 => Typed::Char(c),
				_ => Typed::Str(s),
			}
		}
		Value::Array(a) => {
			if !a.is_empty() && a.iter().all(|x| x.is_u64()) {
				Typed::VecU64(a.iter().map(|x| x.as_u64().unwrap()).collect())
			} else if !a.is_empty() && a.iter().all(|x| x.is_string()) {
				Typed::VecStr(a.iter().map(|x| x.as_str().unwrap().to_string()).collect())
			} else if a.len() == 2 && salt % 2 == 0 {
				let mut it = a.into_iter();
				Typed::Pair(it.next().unwrap(), it.next().unwrap())
			} else {
				Typed::VecVal(a)
			}
		}
		Value::Object(m) => {
			if salt % 3 == 0 {
				Typed::SomeVal(Value::Object(m))
			} else {
				Typed::Map(m.into_iter().collect())
			}
		}
	}
}

enum Item {
	Val(Value),
	Raw(Box<RawValue>),
	Typed(Typed),
	FailWalk { v: Value, n: usize, budget: Cell<usize> },
	FailRaw(String),
}

impl Item {
	fn fails(&self) -> bool {
		matches!(self, Item::FailWalk { .. } | Item::FailRaw(_))
	}
	/// What the failing serialiser really writes before it returns its error (dry run into a fresh buffer).
	fn partial(&self) -> Vec<u8> {
		let mut buf = Vec::new();
		let r = serde_json::to_writer(&mut buf, self);
		assert!(r.is_err());
		buf
	}
}

impl Serialize for Item {
	fn serialize<S: Serializer>(&self, s: S) -> Result<S::Ok, S::Error> {
		match self {
			Item::Val(v) => v.serialize(s),
			Item::Raw(r) => r.serialize(s),
			Item::Typed(t) => match t {
				Typed::Null => Option::<u32>::None.serialize(s),
				Typed::Unit => ().serialize(s),
				Typed::Bool(b) => b.serialize(s),
				Typed::U64(n) => n.serialize(s),
				Typed::U8(n) => n.serialize(s),
				Typed::I64(n) => n.serialize(s),
				Typed::F64(n) => n.serialize(s),
				Typed::Str(x) => x.as_str().serialize(s),
				Typed::Char(c) => c.serialize(s),
				Typed::VecU64(v) => v.as_slice().serialize(s),
				Typed::VecStr(v) => v.serialize(s),
				Typed::VecVal(v) => v.serialize(s),
				Typed::Pair(a, b) => (a, b).serialize(s),
				Typed::Map(m) => m.serialize(s),
				Typed::SomeVal(v) => Some(v).serialize(s),
			},
			Item::FailWalk { v, n, budget } => {
				budget.set(*n);
				Walk { v, budget }.serialize(s)?;
				Err(S::Error::custom("serializer gave up at the end"))
			}
			Item::FailRaw(p) => {
				// serde_json's own channel for pre-rendered text: writes `p` verbatim
				let mut st = s.serialize_struct("$serde_json::private::RawValue", 1)?;
				st.serialize_field("$serde_json::private::RawValue", p)?;
				Err(S::Error::custom("serializer gave up after raw bytes"))
			}
		}
	}
}

fn parse_item(tok: &str, salt: usize) -> Item {
	let (tag, rest) = tok.split_once(':').expect("item");
	match tag {
		"v" => Item::Val(serde_json::from_slice(&unhex(rest)).expect("v: text")),
		"r" => Item::Raw(RawValue::from_string(String::from_utf8(unhex(rest)).expect("utf8")).expect("r: text")),
		"t" => Item::Typed(typed_of(serde_json::from_slice(&unhex(rest)).expect("t: text"), salt)),
		"f" => {
			let mut it = rest.split(':');
			let _predicted = it.next().unwrap();
			let text = unhex(it.next().unwrap());
			let n: usize = it.next().unwrap().parse().unwrap();
			Item::FailWalk { v: serde_json::from_slice(&text).expect("f: text"), n, budget: Cell::new(0) }
		}
		"x" => Item::FailRaw(String::from_utf8(unhex(rest)).expect("utf8")),
		_ => panic!("bad item tag"),
	}
}

/// typed inserts go to the builder with their own Rust type (not through the `Item` enum)
fn insert_array(b: &mut ArrayParams, it: &Item) -> Result<(), serde_json::Error> {
	match it {
		Item::Val(v) => b.insert(v),
		Item::Raw(r) => b.insert(r),
		Item::Typed(t) => match t {
			Typed::Null => b.insert(Option::<u32>::None),
			Typed::Unit => b.insert(()),
			Typed::Bool(x) => b.insert(*x),
			Typed::U64(x) => b.insert(*x),
			Typed::U8(x) => b.insert(*x),
			Typed::I64(x) => b.insert(*x),
			Typed::F64(x) => b.insert(*x),
			Typed::Str(x) => b.insert(x.as_str()),
			Typed::Char(x) => b.insert(*x),
			Typed::VecU64(x) => b.insert(x.as_slice()),
			Typed::VecStr(x) => b.insert(x.clone()),
			Typed::VecVal(x) => b.insert(x),
			Typed::Pair(x, y) => b.insert((x, y)),
			Typed::Map(x) => b.insert(x),
			Typed::SomeVal(x) => b.insert(Some(x)),
		},
		other => b.insert(other),
	}
}

fn insert_object(b: &mut ObjectParams, k: &str, it: &Item) -> Result<(), serde_json::Error> {
	match it {
		Item::Val(v) => b.insert(k, v),
		Item::Raw(r) => b.insert(k, r),
		Item::Typed(t) => match t {
			Typed::Null => b.insert(k, Option::<u32>::None),
			Typed::Unit => b.insert(k, ()),
			Typed::Bool(x) => b.insert(k, *x),
			Typed::U64(x) => b.insert(k, *x),
			Typed::U8(x) => b.insert(k, *x),
			Typed::I64(x) => b.insert(k, *x),
			Typed::F64(x) => b.insert(k, *x),
			Typed::Str(x) => b.insert(k, x.clone()),
			Typed::Char(x) => b.insert(k, *x),
			Typed::VecU64(x) => b.insert(k, x),
			Typed::VecStr(x) => b.insert(k, x.as_slice()),
			Typed::VecVal(x) => b.insert(k, x),
			Typed::Pair(x, y) => b.insert(k, (x, y)),
			Typed::Map(x) => b.insert(k, x),
			Typed::SomeVal(x) => b.insert(k, Some(x)),
		},
		other => b.insert(k, other),
	}
}

fn tok_result(it: &Item, r: &Result<(), serde_json::Error>) -> String {
	let base = if r.is_ok() { "ok" } else { "err" };
	if it.fails() { format!("{}:p={}", base, hex(&it.partial())) } else { base.to_string() }
}

fn tok_plain(it: &Item) -> String {
	if it.fails() { format!("p={}", hex(&it.partial())) } else { "-".to_string() }
}

/// Outcome of `to_rpc_params()`.
enum Built {
	Ok(Option<Box<RawValue>>),
	Err,
	Panic,
	MacroPanic,
}

fn built_s(b: &Built) -> String {
	match b {
		Built::Ok(None) => "none".into(),
		Built::Ok(Some(r)) => format!("some:{}", hex(r.get().as_bytes())),
		Built::Err => "err".into(),
		Built::Panic => "PANIC".into(),
		Built::MacroPanic => "MACRO-PANIC".into(),
	}
}

/// What is done with the finished params object: asked for its JSON directly, or handed to the batch builder.
trait Consumer {
	fn consume<P: ToRpcParams>(self, p: P) -> Built;
}

struct Direct;
impl Consumer for Direct {
	fn consume<P: ToRpcParams>(self, p: P) -> Built {
		match catch_unwind(AssertUnwindSafe(move || p.to_rpc_params())) {
			Ok(Ok(x)) => Built::Ok(x),
			Ok(Err(_)) => Built::Err,
			Err(_) => Built::Panic,
		}
	}
}

struct IntoBatch<'b, 'a> {
	batch: &'b mut BatchRequestBuilder<'a>,
	method: &'a str,
}
impl Consumer for IntoBatch<'_, '_> {
	/// `Ok(None)` stands for "inserted" here; the stored params are read back through `iter()`.
	fn consume<P: ToRpcParams>(self, p: P) -> Built {
		let IntoBatch { batch, method } = self;
		match catch_unwind(AssertUnwindSafe(move || batch.insert(method, p))) {
			Ok(Ok(())) => Built::Ok(None),
			Ok(Err(_)) => Built::Err,
			Err(_) => Built::Panic,
		}
	}
}

macro_rules! by_len {
	($items:expr, $c:expr, $mac:ident; $($n:literal => ($($i:literal)*))*) => {
		match $items.len() {
			$($n => $mac!($items, $c; $($i)*),)*
			_ => panic!("arity out of range"),
		}
	};
}

macro_rules! mk_tuple { ($it:expr, $c:expr; $($i:literal)*) => { $c.consume(($(&$it[$i],)*)) }; }
macro_rules! mk_arr { ($it:expr, $c:expr; $($i:literal)*) => { $c.consume([$(&$it[$i],)*] as [&Item; 0 $(+ 1 + 0 * $i)*]) }; }
macro_rules! mk_rpc {
	($it:expr, $c:expr; $($i:literal)*) => {
		match catch_unwind(AssertUnwindSafe(|| rpc_params![$(&$it[$i]),*])) {
			Ok(p) => Either::Params(p),
			Err(_) => Either::MacroPanic,
		}
	};
}

enum Either {
	Params(ArrayParams),
	MacroPanic,
}

/// Runs one (kind, items) description; returns (tokens, the built params outcome).
fn run_kind<C: Consumer>(kind: &str, toks: &[&str], salt: usize, c: C) -> (Vec<String>, Built) {
	let mut out = Vec::new();
	match kind {
		// `arrayd` / `objectd`: the builder comes from `Default` (here: what `std::mem::take` leaves behind) instead of `new()`
		"array" | "arrayd" => {
			let items: Vec<Item> = toks.iter().enumerate().map(|(i, t)| parse_item(t, salt + i)).collect();
			let mut b = ArrayParams::new();
			if kind == "arrayd" {
				let _ = std::mem::take(&mut b);
			}
			for it in &items {
				let r = catch_unwind(AssertUnwindSafe(|| insert_array(&mut b, it)));
				match r {
					Ok(r) => out.push(tok_result(it, &r)),
					Err(_) => out.push("INSERT-PANIC".into()),
				}
			}
			(out, c.consume(b))
		}
		"object" | "objectd" => {
			let pairs: Vec<(String, Item)> = toks
				.iter()
				.enumerate()
				.map(|(i, t)| {
					let (k, v) = t.split_once('=').expect("k=item");
					(String::from_utf8(unhex(&k[1..])).expect("utf8 key"), parse_item(v, salt + i))
				})
				.collect();
			let mut b = ObjectParams::new();
			if kind == "objectd" {
				let _ = std::mem::take(&mut b);
			}
			for (k, it) in &pairs {
				let r = catch_unwind(AssertUnwindSafe(|| insert_object(&mut b, k, it)));
				match r {
					Ok(r) => out.push(tok_result(it, &r)),
					Err(_) => out.push("INSERT-PANIC".into()),
				}
			}
			(out, c.consume(b))
		}
		"map" => {
			let mut m = serde_json::Map::new();
			for t in toks {
				let (k, v) = t.split_once('=').expect("k=item");
				let v = v.strip_prefix("v:").expect("map takes v: items");
				m.insert(String::from_utf8(unhex(&k[1..])).expect("utf8 key"), serde_json::from_slice(&unhex(v)).expect("text"));
				out.push("-".into());
			}
			(out, c.consume(m))
		}
		_ => {
			let items: Vec<Item> = toks.iter().enumerate().map(|(i, t)| parse_item(t, salt + i)).collect();
			for it in &items {
				out.push(tok_plain(it));
			}
			let built = match kind {
				"slice" => c.consume(items.as_slice()),
				"vec" => c.consume(items.iter().collect::<Vec<&Item>>()),
				"tuple" => by_len!(items, c, mk_tuple;
					1 => (0) 2 => (0 1) 3 => (0 1 2) 4 => (0 1 2 3) 5 => (0 1 2 3 4) 6 => (0 1 2 3 4 5) 7 => (0 1 2 3 4 5 6)
					8 => (0 1 2 3 4 5 6 7) 9 => (0 1 2 3 4 5 6 7 8) 10 => (0 1 2 3 4 5 6 7 8 9) 11 => (0 1 2 3 4 5 6 7 8 9 10)
					12 => (0 1 2 3 4 5 6 7 8 9 10 11) 13 => (0 1 2 3 4 5 6 7 8 9 10 11 12) 14 => (0 1 2 3 4 5 6 7 8 9 10 11 12 13)
					15 => (0 1 2 3 4 5 6 7 8 9 10 11 12 13 14) 16 => (0 1 2 3 4 5 6 7 8 9 10 11 12 13 14 15)),
				"arr" => by_len!(items, c, mk_arr;
					0 => () 1 => (0) 2 => (0 1) 3 => (0 1 2) 4 => (0 1 2 3) 5 => (0 1 2 3 4) 6 => (0 1 2 3 4 5) 7 => (0 1 2 3 4 5 6)
					8 => (0 1 2 3 4 5 6 7) 9 => (0 1 2 3 4 5 6 7 8) 10 => (0 1 2 3 4 5 6 7 8 9) 11 => (0 1 2 3 4 5 6 7 8 9 10)
					12 => (0 1 2 3 4 5 6 7 8 9 10 11) 13 => (0 1 2 3 4 5 6 7 8 9 10 11 12) 14 => (0 1 2 3 4 5 6 7 8 9 10 11 12 13)
					15 => (0 1 2 3 4 5 6 7 8 9 10 11 12 13 14) 16 => (0 1 2 3 4 5 6 7 8 9 10 11 12 13 14 15)),
				"rpc" => {
					let e = by_len!(items, c, mk_rpc;
						0 => () 1 => (0) 2 => (0 1) 3 => (0 1 2) 4 => (0 1 2 3) 5 => (0 1 2 3 4) 6 => (0 1 2 3 4 5) 7 => (0 1 2 3 4 5 6)
						8 => (0 1 2 3 4 5 6 7) 9 => (0 1 2 3 4 5 6 7 8) 10 => (0 1 2 3 4 5 6 7 8 9) 11 => (0 1 2 3 4 5 6 7 8 9 10)
						12 => (0 1 2 3 4 5 6 7 8 9 10 11));
					match e {
						Either::Params(p) => c.consume(p),
						Either::MacroPanic => Built::MacroPanic,
					}
				}
				_ => panic!("unknown kind"),
			};
			(out, built)
		}
	}
}

fn handle(line: &str) -> String {
	let toks: Vec<&str> = line.split_whitespace().collect();
	if toks.is_empty() {
		return "?bad-line".into();
	}
	if toks[0] != "batch" {
		let (out, built) = run_kind(toks[0], &toks[1..], 0, Direct);
		let mut s = out.join(" ");
		if !s.is_empty() {
			s.push(' ');
		}
		return format!("{}=> {}", s, built_s(&built));
	}
	// batch
	let entries: Vec<&[&str]> = if toks.len() == 1 { Vec::new() } else { toks[1..].split(|t| *t == "|").collect() };
	let methods: Vec<String> = entries.iter().map(|e| String::from_utf8(unhex(&e[0][1..])).expect("utf8 method")).collect();
	let mut batch = BatchRequestBuilder::new();
	let mut outs = Vec::new();
	for (i, e) in entries.iter().enumerate() {
		let m: &str = &methods[i];
		let (out, built) = run_kind(e[1], &e[2..], i, IntoBatch { batch: &mut batch, method: m });
		let mut s = out.join(" ");
		if !s.is_empty() {
			s.push(' ');
		}
		s.push_str(match built {
			Built::Ok(_) => "-> ok",
			Built::Err => "-> err",
			Built::Panic => "-> PANIC",
			Built::MacroPanic => "-> MACRO-PANIC",
		});
		outs.push(s);
	}
	let listed: Vec<String> = batch
		.iter()
		.map(|(m, p)| match p {
			None => format!("m{}:none", hex(m.as_bytes())),
			Some(r) => format!("m{}:some:{}", hex(m.as_bytes()), hex(r.get().as_bytes())),
		})
		.collect();
	let n = listed.len();
	let built = match batch.build() {
		Ok(v) => format!("built:{}", v.len()),
		Err(_) => "built:empty".into(),
	};
	let mut s = outs.join(" | ");
	s.push_str(&format!(" || {} {}", n, built));
	for l in listed {
		s.push(' ');
		s.push_str(&l);
	}
	s
}

fn main() {
	for_each_line_catch(handle);
}
