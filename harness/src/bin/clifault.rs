//! Engine `clifault` (C09): the shutdown protocol of the real async client (`ClientBuilder::build_with_tokio`)
//! over a mock transport on a current-thread runtime that the harness owns.
//!
//! What `clihist` cannot do: the mock sender's `send` fails on demand AND its `close()` can be made to block until
//! released, so that calls / `on_disconnect()` / `is_connected()` can be issued inside the shutdown window; the
//! receiver fails with two distinguishable errors (generic error, closed by peer); the drop of the two transport
//! halves is reported (it is the only outside-visible trace of the send and read task ending); a panic hook
//! catches panics of the background tasks (build the binary in debug mode to see arithmetic overflow).
//!
//! One case per line: `<slowclose 0|1> | step ; step ; ...`; after every step the runtime is polled to quiescence
//! and the effects of the step are printed as comma-separated tokens, steps separated by " | ":
//!   W<hex>      frame written to the transport
//!   C<h>=<res>  call/batch/subscribe future h completed (ok:<hex> | batch:.. | sub:.. | call:.. | disc:<cause> | PLACEHOLDER | ..)
//!   D<h>=<c>    on_disconnect() future h completed with cause class <c> (or PLACEHOLDER)
//!   I0 / I1     is_connected()
//!   N<r>        result of polling a subscription stream once
//!   Xclosing    the transport's close() was entered;  Xsdrop / Xrdrop  the sender / receiver half was dropped
//! and at the end `P<h>.<h>...` (handles still pending) and `PANIC` if anything panicked.
//! Steps: call h | newcall h | batch h n | sub h | ondisc h | isconn | next h | back <hex> | backsplit <hex> <ms> | failsend | recvfault |
//!        peerclose | release-close | dropclient | settle
//!
//! Ping / inactivity (`ClientBuilder::enable_ws_ping`): optional config token after the slow-close flag,
//!   `<slowclose> P<interval_ms>,<limit_ms>,<maxfail> | steps`
//! The mock sender implements `send_ping` (token `Wping`; it consumes the armed send fault like any other write), the
//! mock receiver can deliver `ReceivedMessage::Pong`.  Extra steps:
//!   pong                 a Pong frame arrives
//!   quiet <ms> [class]   REAL time: the harness sleeps (in slices of 5 ms, so that the runtime runs its timers) for
//!                        <ms> ms; nothing arrives.  The class word (alive|die) is for the model side only.
//!   failping <ms>        arms the send fault and stays quiet for <ms> ms: the next ping write fails
//! Cancel-safety of the receive loop: `TransportReceiverT::receive` of the real transports is NOT cancel-safe (the
//! WebSocket transport keeps the partly read message inside the future), and so is the mock's:
//!   backsplit <hex> <ms> the frame arrives in two halves, <ms> ms of REAL time apart.  The first poll of `receive()`
//!                        takes the first half into state owned by THAT FUTURE (not by the receiver) and returns Pending.
//!                        A client that keeps the future alive until it completes sees exactly what `back <hex>` shows;
//!                        if the future is dropped in between, the first half is gone with it and the next `receive()`
//!                        finds the tail of a frame it never saw the head of: `mock transport: desynchronised` (cause
//!                        class `desync`), as a real framing layer would report.  Prints `T<a>.<gap>.<s>.<g>` (as `quiet`; <gap> = measured ms
//!                        between the two halves).
//! Because the inactivity check uses real time the engine reports what the clock did, as `T..` tokens that the
//! python side strips before diffing: in every quiet/failping segment `T<a>.<b>.<s>.<g>` = ms since the last frame was
//! handed to the receiver (or the client was built) at the start / at the end of the silence, the longest single
//! sleep slice (a stalled process shows there) and the longest gap between two frames up to the start of this silence;
//! the last segment carries `T<ms since the last frame>.<longest gap between two frames of the whole case>`.
use jrv::*;
use jsonrpsee::core::client::async_client::PingConfig;
use jsonrpsee::core::client::{
	BatchResponse, ClientBuilder, ClientT, Error, IdKind, ReceivedMessage, Subscription, SubscriptionClientT,
	SubscriptionCloseReason, SubscriptionKind, TransportReceiverT, TransportSenderT,
};
use jsonrpsee::core::params::BatchRequestBuilder;
use jsonrpsee::core::traits::ToRpcParams;
use jsonrpsee::types::SubscriptionId;
use serde_json::value::RawValue;
use std::collections::BTreeMap;
use std::sync::atomic::{AtomicBool, Ordering};
use std::sync::{Arc, Mutex};
use std::time::{Duration, Instant};
use tokio::sync::mpsc;
use tokio::task::JoinHandle;

#[derive(Debug)]
struct MockErr(&'static str);
impl std::fmt::Display for MockErr {
	fn fmt(&self, f: &mut std::fmt::Formatter<'_>) -> std::fmt::Result {
		write!(f, "mock transport: {}", self.0)
	}
}
impl std::error::Error for MockErr {}

type Log = Arc<Mutex<Vec<String>>>;

struct MockSender {
	log: Log,
	failnext: Arc<AtomicBool>,
	slow_close: bool,
	close_permit: mpsc::UnboundedReceiver<()>,
}
impl TransportSenderT for MockSender {
	type Error = MockErr;
	fn send(&mut self, msg: String) -> impl Future<Output = Result<(), MockErr>> + Send {
		async move {
			if self.failnext.swap(false, Ordering::SeqCst) {
				return Err(MockErr("injected send error"));
			}
			self.log.lock().unwrap().push(format!("W{}", hex(msg.as_bytes())));
			Ok(())
		}
	}
	fn send_ping(&mut self) -> impl Future<Output = Result<(), MockErr>> + Send {
		async move {
			if self.failnext.swap(false, Ordering::SeqCst) {
				return Err(MockErr("injected send error"));
			}
			self.log.lock().unwrap().push("Wping".into());
			Ok(())
		}
	}
	fn close(&mut self) -> impl Future<Output = Result<(), MockErr>> + Send {
		async move {
			self.log.lock().unwrap().push("Xclosing".into());
			if self.slow_close {
				let _ = self.close_permit.recv().await;
			}
			Ok(())
		}
	}
}
impl Drop for MockSender {
	fn drop(&mut self) {
		self.log.lock().unwrap().push("Xsdrop".into());
	}
}

enum Incoming {
	Frame(Vec<u8>),
	/// first / second half of a frame that arrives in two pieces
	Head(Vec<u8>),
	Tail(Vec<u8>),
	Pong,
	Fault,
	PeerClose,
}
struct MockReceiver {
	log: Log,
	frames: mpsc::UnboundedReceiver<Incoming>,
}
impl TransportReceiverT for MockReceiver {
	type Error = MockErr;
	fn receive(&mut self) -> impl Future<Output = Result<ReceivedMessage, MockErr>> + Send {
		async move {
			// NOT cancel-safe, like the real transports: the part of a message read so far lives in THIS future (a local
			// of the async block), not in the receiver.  Dropping the future between the two halves loses the first.
			// (`mpsc::UnboundedReceiver::recv` itself is cancel-safe: nothing else is lost by a drop.)
			let mut partial: Option<Vec<u8>> = None;
			loop {
				let item = self.frames.recv().await;
				match (item, partial.take()) {
					(Some(Incoming::Head(b)), None) => partial = Some(b),
					(Some(Incoming::Tail(b)), Some(mut head)) => {
						head.extend_from_slice(&b);
						return Ok(ReceivedMessage::Bytes(head));
					}
					// the tail of a frame whose head this future never saw, or anything else in the middle of a frame
					(Some(Incoming::Tail(_)), None) | (Some(_), Some(_)) => return Err(MockErr("desynchronised")),
					(Some(Incoming::Frame(b)), None) => return Ok(ReceivedMessage::Bytes(b)),
					(Some(Incoming::Pong), None) => return Ok(ReceivedMessage::Pong),
					(Some(Incoming::Fault), None) => return Err(MockErr("injected receive error")),
					(Some(Incoming::PeerClose), None) => return Err(MockErr("connection closed by peer")),
					// `receive` has no way to say "end of stream": a transport can only return a message or an error
					(None, _) => return std::future::pending().await,
				}
			}
		}
	}
}
impl Drop for MockReceiver {
	fn drop(&mut self) {
		self.log.lock().unwrap().push("Xrdrop".into());
	}
}

struct NoParams;
impl ToRpcParams for NoParams {
	fn to_rpc_params(self) -> Result<Option<Box<RawValue>>, serde_json::Error> {
		Ok(None)
	}
}

fn cause_class(e: &Error) -> String {
	let s = match e {
		Error::RestartNeeded(inner) => format!("{inner:?}"),
		other => format!("{other:?}"),
	};
	if s.contains("could not be found") {
		"PLACEHOLDER".into()
	} else if s.contains("WebSocket ping/pong inactive") {
		"inactive".into()
	} else if s.contains("injected send error") {
		"sendfault".into()
	} else if s.contains("injected receive error") {
		"recvfault".into()
	} else if s.contains("desynchronised") {
		"desync".into()
	} else if s.contains("closed by peer") {
		"peerclosed".into()
	} else if s.contains("NotPendingRequest") {
		"notpending".into()
	} else if s.contains("Unparseable") {
		"unparseable".into()
	} else if s.contains("EmptyBatchRequest") {
		"emptybatch".into()
	} else if s.contains("Invalid(") {
		"badbatchid".into()
	} else {
		format!("other:{}", hex(s.as_bytes()))
	}
}

fn err_class(e: &Error) -> String {
	match e {
		Error::Call(e) => format!(
			"call:{}:{}:{}",
			e.code(),
			hex(e.message().as_bytes()),
			opt_hex(e.data().map(|d| d.get().as_bytes()))
		),
		Error::InvalidRequestId(jsonrpsee::types::InvalidRequestId::Occupied(_)) => "occupied".into(),
		Error::InvalidRequestId(_) => "invalidid".into(),
		Error::ParseError(_) => "parse".into(),
		Error::InvalidSubscriptionId => "invalidsubid".into(),
		Error::RestartNeeded(_) => format!("disc:{}", cause_class(e)),
		Error::RequestTimeout => "timeout".into(),
		Error::ServiceDisconnect => "svcdisc".into(),
		Error::Custom(s) if s.contains("could not be found") => "PLACEHOLDER".into(),
		Error::Custom(s) => format!("custom:{}", hex(s.as_bytes())),
		other => format!("other:{}", hex(format!("{other:?}").as_bytes())),
	}
}

fn subid_s(s: &SubscriptionId) -> String {
	match s {
		SubscriptionId::Num(n) => format!("n{}", n),
		SubscriptionId::Str(s) => format!("s{}", hex(s.as_bytes())),
	}
}

type Sub = Subscription<Box<RawValue>>;
enum Done {
	Res(String),
	Sub(Result<Sub, Error>),
	Disc(String),
}

async fn settle() {
	for _ in 0..128 {
		tokio::task::yield_now().await;
	}
}

/// sleeps `total` of real time in slices of 5 ms (so that the runtime runs its timers); the longest single slice
async fn sleep_sliced(total: Duration) -> Duration {
	let begin = Instant::now();
	let mut worst = Duration::ZERO;
	loop {
		let done = begin.elapsed();
		if done >= total {
			return worst;
		}
		let slice_begin = Instant::now();
		tokio::time::sleep((total - done).min(Duration::from_millis(5))).await;
		worst = worst.max(slice_begin.elapsed());
	}
}

async fn run_case(line: &str) -> String {
	let (cfg, script) = match line.split_once('|') {
		Some(x) => x,
		None => return "?bad-line".into(),
	};
	let mut slow_close = false;
	let mut ping: Option<(u64, u64, usize)> = None;
	for t in cfg.split_whitespace() {
		if t == "1" {
			slow_close = true;
		} else if let Some(p) = t.strip_prefix('P') {
			let v: Vec<&str> = p.split(',').collect();
			if v.len() != 3 {
				return "?bad-ping-config".into();
			}
			match (v[0].parse(), v[1].parse(), v[2].parse()) {
				(Ok(a), Ok(b), Ok(c)) if c > 0 => ping = Some((a, b, c)),
				_ => return "?bad-ping-config".into(),
			}
		} else if t != "0" {
			return "?bad-config".into();
		}
	}

	let log: Log = Arc::new(Mutex::new(Vec::new()));
	let failnext = Arc::new(AtomicBool::new(false));
	let (close_tx, close_rx) = mpsc::unbounded_channel();
	let (frame_tx, frame_rx) = mpsc::unbounded_channel();
	let sender = MockSender { log: log.clone(), failnext: failnext.clone(), slow_close, close_permit: close_rx };
	let receiver = MockReceiver { log: log.clone(), frames: frame_rx };
	let builder = ClientBuilder::new()
		.request_timeout(Duration::from_secs(100_000))
		.max_concurrent_requests(1024)
		.max_buffer_capacity_per_subscription(8)
		.id_format(IdKind::Number);
	let builder = match ping {
		None => builder.disable_ws_ping(),
		Some((interval, limit, maxfail)) => builder.enable_ws_ping(
			PingConfig::new()
				.ping_interval(Duration::from_millis(interval))
				.inactive_limit(Duration::from_millis(limit))
				.max_failures(maxfail),
		),
	};
	let mut last_frame = Instant::now();
	let mut max_gap = Duration::ZERO;
	let mut client = Some(Arc::new(builder.build_with_tokio(sender, receiver)));
	if ping.is_some() {
		// the ping interval ticks immediately (timer granularity 1 ms): let the first ping go out before the script starts
		tokio::time::sleep(Duration::from_millis(2)).await;
		settle().await;
	}

	let (done_tx, mut done_rx) = mpsc::unbounded_channel::<(u64, Done)>();
	let mut tasks: BTreeMap<u64, JoinHandle<()>> = BTreeMap::new();
	let mut subs: BTreeMap<u64, Sub> = BTreeMap::new();
	let mut out_events: Vec<String> = Vec::new();

	for ev in script.split(';') {
		let t: Vec<&str> = ev.split_whitespace().collect();
		if t.is_empty() {
			continue;
		}
		let mut extra: Vec<String> = Vec::new();
		match t[0] {
			"call" | "newcall" => {
				let h: u64 = t[1].parse().unwrap();
				if let Some(c) = client.clone() {
					let tx = done_tx.clone();
					tasks.insert(
						h,
						tokio::spawn(async move {
							let r: Result<Box<RawValue>, Error> = c.request(&format!("m{h}"), NoParams).await;
							let s = match r {
								Ok(v) => format!("ok:{}", hex(v.get().as_bytes())),
								Err(e) => err_class(&e),
							};
							drop(c);
							let _ = tx.send((h, Done::Res(s)));
						}),
					);
				}
			}
			"batch" => {
				let h: u64 = t[1].parse().unwrap();
				let n: usize = t[2].parse().unwrap();
				if let Some(c) = client.clone() {
					let tx = done_tx.clone();
					tasks.insert(
						h,
						tokio::spawn(async move {
							let names: Vec<String> = (0..n).map(|j| format!("b{h}_{j}")).collect();
							let mut b = BatchRequestBuilder::new();
							for m in names.iter() {
								b.insert(m.as_str(), NoParams).unwrap();
							}
							let r: Result<BatchResponse<Box<RawValue>>, Error> = c.batch_request(b).await;
							let s = match r {
								Ok(br) => {
									let (ok, failed) = (br.num_successful_calls(), br.num_failed_calls());
									let items: Vec<String> = br
										.into_iter()
										.map(|e| match e {
											Ok(v) => format!("ok:{}", hex(v.get().as_bytes())),
											Err(e) => format!(
												"call:{}:{}:{}",
												e.code(),
												hex(e.message().as_bytes()),
												opt_hex(e.data().map(|d| d.get().as_bytes()))
											),
										})
										.collect();
									format!("batch:s={}/f={}:[{}]", ok, failed, items.join(","))
								}
								Err(e) => err_class(&e),
							};
							drop(c);
							let _ = tx.send((h, Done::Res(s)));
						}),
					);
				}
			}
			"sub" => {
				let h: u64 = t[1].parse().unwrap();
				if let Some(c) = client.clone() {
					let tx = done_tx.clone();
					tasks.insert(
						h,
						tokio::spawn(async move {
							let r: Result<Sub, Error> = c.subscribe(&format!("sub{h}"), NoParams, &format!("unsub{h}")).await;
							drop(c);
							let _ = tx.send((h, Done::Sub(r)));
						}),
					);
				}
			}
			"ondisc" => {
				let h: u64 = t[1].parse().unwrap();
				if let Some(c) = client.clone() {
					let tx = done_tx.clone();
					tasks.insert(
						h,
						tokio::spawn(async move {
							let e = c.on_disconnect().await;
							drop(c);
							let _ = tx.send((h, Done::Disc(cause_class(&e))));
						}),
					);
				}
			}
			"isconn" => {
				if let Some(c) = client.as_ref() {
					extra.push(format!("I{}", if c.is_connected() { 1 } else { 0 }));
				}
			}
			"next" => {
				let sh: u64 = t[1].parse().unwrap();
				extra.push(format!(
					"N{}",
					match subs.get_mut(&sh) {
						None => "pending".to_string(),
						Some(sub) => {
							use futures_util::FutureExt;
							match sub.next().now_or_never() {
								None => "pending".into(),
								Some(Some(Ok(v))) => format!("item:{}", hex(v.get().as_bytes())),
								Some(Some(Err(_))) => "item-undecodable".into(),
								Some(None) => match sub.close_reason() {
									Some(SubscriptionCloseReason::Lagged) => "endlag".into(),
									_ => "endclosed".into(),
								},
							}
						}
					}
				));
			}
			"back" => {
				max_gap = max_gap.max(last_frame.elapsed());
				last_frame = Instant::now();
				let _ = frame_tx.send(Incoming::Frame(unhex(t[1])));
			}
			"backsplit" => {
				let ms: u64 = match t.get(2).and_then(|x| x.parse().ok()) {
					Some(ms) => ms,
					None => return "?bad-event backsplit".into(),
				};
				let raw = unhex(t[1]);
				if raw.len() < 2 {
					return "?bad-event backsplit".into();
				}
				let cut = raw.len() / 2;
				max_gap = max_gap.max(last_frame.elapsed());
				let at_start = last_frame.elapsed().as_millis();
				let gap_so_far = max_gap.as_millis();
				let _ = frame_tx.send(Incoming::Head(raw[..cut].to_vec()));
				// the pending receive() is polled and takes the first half ...
				settle().await;
				// ... the rest is still on its way: timers tick, nothing arrives
				let begin = Instant::now();
				let worst = sleep_sliced(Duration::from_millis(ms)).await;
				extra.push(format!("T{}.{}.{}.{}", at_start, begin.elapsed().as_millis(), worst.as_millis(), gap_so_far));
				max_gap = max_gap.max(last_frame.elapsed());
				last_frame = Instant::now();
				let _ = frame_tx.send(Incoming::Tail(raw[cut..].to_vec()));
			}
			"pong" => {
				max_gap = max_gap.max(last_frame.elapsed());
				last_frame = Instant::now();
				let _ = frame_tx.send(Incoming::Pong);
			}
			"recvfault" => {
				max_gap = max_gap.max(last_frame.elapsed());
				last_frame = Instant::now();
				let _ = frame_tx.send(Incoming::Fault);
			}
			"peerclose" => {
				max_gap = max_gap.max(last_frame.elapsed());
				last_frame = Instant::now();
				let _ = frame_tx.send(Incoming::PeerClose);
			}
			"quiet" | "failping" => {
				let ms: u64 = match t.get(1).and_then(|x| x.parse().ok()) {
					Some(ms) => ms,
					None => return format!("?bad-event {}", t[0]),
				};
				if t[0] == "failping" {
					failnext.store(true, Ordering::SeqCst);
				}
				max_gap = max_gap.max(last_frame.elapsed());
				let at_start = last_frame.elapsed().as_millis();
				let gap_so_far = max_gap.as_millis();
				let worst = sleep_sliced(Duration::from_millis(ms)).await;
				extra.push(format!("T{}.{}.{}.{}", at_start, last_frame.elapsed().as_millis(), worst.as_millis(), gap_so_far));
			}
			"failsend" => {
				failnext.store(true, Ordering::SeqCst);
			}
			"release-close" => {
				let _ = close_tx.send(());
			}
			"dropclient" => {
				// every future borrowing the client has to go before the client can
				for (_, j) in std::mem::take(&mut tasks) {
					j.abort();
				}
				settle().await;
				client = None;
			}
			"settle" => {}
			_ => return format!("?bad-event {}", t[0]),
		}
		settle().await;

		let mut parts: Vec<String> = Vec::new();
		let logged: Vec<String> = std::mem::take(&mut *log.lock().unwrap());
		parts.extend(logged.iter().filter(|s| s.starts_with('W')).cloned());
		let mut comps: Vec<(u64, String)> = Vec::new();
		let mut discs: Vec<(u64, String)> = Vec::new();
		while let Ok((h, d)) = done_rx.try_recv() {
			tasks.remove(&h);
			match d {
				Done::Res(s) => comps.push((h, s)),
				Done::Disc(s) => discs.push((h, s)),
				Done::Sub(Ok(sub)) => {
					let s = match sub.kind() {
						SubscriptionKind::Subscription(id) => format!("sub:{}", subid_s(id)),
						_ => "sub:?".into(),
					};
					subs.insert(h, sub);
					comps.push((h, s));
				}
				Done::Sub(Err(e)) => comps.push((h, err_class(&e))),
			}
		}
		comps.sort();
		discs.sort();
		parts.extend(comps.into_iter().map(|(h, s)| format!("C{h}={s}")));
		parts.extend(discs.into_iter().map(|(h, s)| format!("D{h}={s}")));
		parts.extend(extra);
		for x in ["Xclosing", "Xsdrop", "Xrdrop"] {
			if logged.iter().any(|s| s == x) {
				parts.push(x.into());
			}
		}
		out_events.push(parts.join(","));
	}
	let pending: Vec<String> = tasks.keys().map(|h| h.to_string()).collect();
	out_events.push(match ping {
		None => format!("P{}", pending.join(".")),
		Some(_) => format!(
			"P{},T{}.{}",
			pending.join("."),
			last_frame.elapsed().as_millis(),
			max_gap.max(last_frame.elapsed()).as_millis()
		),
	});
	// let the background tasks go away before the next case
	drop(subs);
	for (_, j) in tasks {
		j.abort();
	}
	let _ = close_tx.send(());
	settle().await;
	drop(client);
	settle().await;
	if PANICKED.swap(false, Ordering::SeqCst) {
		out_events.push("PANIC".into());
	}
	out_events.join(" | ")
}

static PANICKED: AtomicBool = AtomicBool::new(false);

fn main() {
	let rt = tokio::runtime::Builder::new_current_thread().enable_all().build().unwrap();
	std::panic::set_hook(Box::new(|_info| {
		PANICKED.store(true, Ordering::SeqCst);
	}));
	for_each_line(|l| rt.block_on(run_case(l)));
}
