//! Engine `clihist` (C03, C05, C12-WS, C18, part of C09): the real async client
//! (`ClientBuilder::build_with_tokio`) over a scripted mock transport on a current-thread runtime.
//! One case per line: `<idstr> <qcap> <bufcap> <gate> | ev ; ev ; ...` (see modelrun/clihist_driver.ml);
//! after every event the runtime is polled to quiescence and the observable effects of that event are
//! printed: wire frames (in order), completed front-end futures (sorted by handle), a disconnect class,
//! the result of polling a subscription stream; finally the four table sizes (hook H1).
//! `hold` .. `unhold`: the front-end futures of call / batch / sub tasks are not polled in between (their completions
//! are reported at `unhold`); a request must already be on the wire when `hold` is issued.
use jrv::*;
use jsonrpsee::core::client::{
	BatchResponse, ClientBuilder, ClientT, Error, IdKind, ReceivedMessage, Subscription, SubscriptionClientT,
	SubscriptionCloseReason, SubscriptionKind, TransportReceiverT, TransportSenderT,
};
use jsonrpsee::core::params::BatchRequestBuilder;
use jsonrpsee::core::traits::ToRpcParams;
use jsonrpsee::types::SubscriptionId;
use serde_json::value::RawValue;
use std::collections::BTreeMap;
use std::sync::atomic::{AtomicBool, Ordering};
use std::sync::{Arc, Mutex};
use std::time::Duration;
use tokio::sync::mpsc;
use tokio::task::JoinHandle;

#[derive(Debug)]
struct MockErr(&'static str);
impl std::fmt::Display for MockErr {
	fn fmt(&self, f: &mut std::fmt::Formatter<'_>) -> std::fmt::Result {
		write!(f, "mock transport: {}", self.0)
	}
}
impl std::error::Error for MockErr {}

struct MockSender {
	wire: Arc<Mutex<Vec<Vec<u8>>>>,
	gated: bool,
	waiting: Arc<AtomicBool>,
	failnext: Arc<AtomicBool>,
	permits: mpsc::UnboundedReceiver<()>,
}
impl TransportSenderT for MockSender {
	type Error = MockErr;
	fn send(&mut self, msg: String) -> impl Future<Output = Result<(), MockErr>> + Send {
		async move {
			if self.failnext.swap(false, Ordering::SeqCst) {
				return Err(MockErr("injected send error"));
			}
			self.wire.lock().unwrap().push(msg.into_bytes());
			if self.gated {
				self.waiting.store(true, Ordering::SeqCst);
				let _ = self.permits.recv().await;
				self.waiting.store(false, Ordering::SeqCst);
			}
			Ok(())
		}
	}
}

struct MockReceiver {
	frames: mpsc::UnboundedReceiver<Result<Vec<u8>, ()>>,
}
impl TransportReceiverT for MockReceiver {
	type Error = MockErr;
	fn receive(&mut self) -> impl Future<Output = Result<ReceivedMessage, MockErr>> + Send {
		async move {
			match self.frames.recv().await {
				Some(Ok(b)) => Ok(ReceivedMessage::Bytes(b)),
				Some(Err(())) => Err(MockErr("injected receive error")),
				None => std::future::pending().await,
			}
		}
	}
}

/// params given as raw JSON text
struct RawParams(Option<Vec<u8>>);
impl ToRpcParams for RawParams {
	fn to_rpc_params(self) -> Result<Option<Box<RawValue>>, serde_json::Error> {
		match self.0 {
			None => Ok(None),
			Some(b) => RawValue::from_string(String::from_utf8(b).expect("utf8 params")).map(Some),
		}
	}
}

fn err_class(e: &Error) -> String {
	match e {
		Error::Call(e) => format!(
			"call:{}:{}:{}",
			e.code(),
			hex(e.message().as_bytes()),
			opt_hex(e.data().map(|d| d.get().as_bytes()))
		),
		Error::InvalidRequestId(jsonrpsee::types::InvalidRequestId::Occupied(_)) => "occupied".into(),
		Error::InvalidRequestId(_) => "invalidid".into(),
		Error::ParseError(_) => "parse".into(),
		Error::InvalidSubscriptionId => "invalidsubid".into(),
		Error::RegisterMethod(jsonrpsee::core::RegisterMethodError::AlreadyRegistered(_)) => "already".into(),
		Error::RegisterMethod(jsonrpsee::core::RegisterMethodError::SubscriptionNameConflict(_)) => "conflict".into(),
		Error::RegisterMethod(_) => "register".into(),
		Error::EmptyBatchRequest(_) => "emptybatch".into(),
		Error::RestartNeeded(_) => "disc".into(),
		Error::RequestTimeout => "timeout".into(),
		Error::ServiceDisconnect => "svcdisc".into(),
		Error::Custom(s) => format!("custom:{}", hex(s.as_bytes())),
		other => format!("other:{}", hex(format!("{other:?}").as_bytes())),
	}
}

fn fatal_class(e: &Error) -> String {
	let s = match e {
		Error::RestartNeeded(inner) => format!("{inner:?}"),
		other => format!("{other:?}"),
	};
	if s.contains("NotPendingRequest") {
		"notpending".into()
	} else if s.contains("Unparseable") {
		"unparseable".into()
	} else if s.contains("EmptyBatchRequest") {
		"emptybatch".into()
	} else if s.contains("Invalid(") {
		"badbatchid".into()
	} else if s.contains("Transport") {
		"transport".into()
	} else if s.contains("could not be found") {
		"PLACEHOLDER".into()
	} else {
		format!("other:{}", hex(s.as_bytes()))
	}
}

fn subid_s(s: &SubscriptionId) -> String {
	match s {
		SubscriptionId::Num(n) => format!("n{}", n),
		SubscriptionId::Str(s) => format!("s{}", hex(s.as_bytes())),
	}
}

type Sub = Subscription<Box<RawValue>>;
enum Done {
	Res(String),
	Sub(Result<Sub, Error>),
}

/// `hold` / `unhold`: while `held` is set the front-end futures of `call`, `batch` and `sub` tasks are not polled
/// (the caller is busy elsewhere); `unhold` clears the flag and wakes them all.
struct HoldState {
	held: AtomicBool,
	wakers: Mutex<Vec<std::task::Waker>>,
}
struct Holdable<F> {
	inner: std::pin::Pin<Box<F>>,
	st: Arc<HoldState>,
}
fn holdable<F: Future>(st: &Arc<HoldState>, f: F) -> Holdable<F> {
	Holdable { inner: Box::pin(f), st: st.clone() }
}
impl<F: Future> Future for Holdable<F> {
	type Output = F::Output;
	fn poll(self: std::pin::Pin<&mut Self>, cx: &mut std::task::Context<'_>) -> std::task::Poll<F::Output> {
		let this = self.get_mut();
		if this.st.held.load(Ordering::SeqCst) {
			this.st.wakers.lock().unwrap().push(cx.waker().clone());
			return std::task::Poll::Pending;
		}
		this.inner.as_mut().poll(cx)
	}
}

async fn settle() {
	for _ in 0..96 {
		tokio::task::yield_now().await;
	}
}

async fn run_case(line: &str) -> String {
	let (cfg, script) = match line.split_once('|') {
		Some(x) => x,
		None => return "?bad-line".into(),
	};
	let cfg: Vec<&str> = cfg.split_whitespace().collect();
	if cfg.len() != 4 {
		return "?bad-cfg".into();
	}
	let idstr = cfg[0] == "1";
	let qcap: usize = cfg[1].parse().unwrap();
	let bufcap: usize = cfg[2].parse().unwrap();
	let gated = cfg[3] == "1";

	let wire = Arc::new(Mutex::new(Vec::<Vec<u8>>::new()));
	let waiting = Arc::new(AtomicBool::new(false));
	let (permit_tx, permit_rx) = mpsc::unbounded_channel();
	let (frame_tx, frame_rx) = mpsc::unbounded_channel();
	let failnext = Arc::new(AtomicBool::new(false));
	let sender = MockSender { wire: wire.clone(), gated, waiting: waiting.clone(), failnext: failnext.clone(), permits: permit_rx };
	let receiver = MockReceiver { frames: frame_rx };
	let client = Arc::new(
		ClientBuilder::new()
			.request_timeout(Duration::from_secs(100_000))
			.max_concurrent_requests(qcap)
			.max_buffer_capacity_per_subscription(bufcap)
			.id_format(if idstr { IdKind::String } else { IdKind::Number })
			.disable_ws_ping()
			.build_with_tokio(sender, receiver),
	);

	let hold = Arc::new(HoldState { held: AtomicBool::new(false), wakers: Mutex::new(Vec::new()) });
	let (done_tx, mut done_rx) = mpsc::unbounded_channel::<(u64, Done)>();
	let mut tasks: BTreeMap<u64, JoinHandle<()>> = BTreeMap::new();
	let mut subs: BTreeMap<u64, Sub> = BTreeMap::new();
	let mut was_connected = true;
	let mut out_events: Vec<String> = Vec::new();
	let mut wire_seen = 0usize;

	for ev in script.split(';') {
		let t: Vec<&str> = ev.split_whitespace().collect();
		if t.is_empty() {
			continue;
		}
		let mut next_res: Option<String> = None;
		match t[0] {
			"call" => {
				let h: u64 = t[1].parse().unwrap();
				let m = String::from_utf8(unhex(t[2])).unwrap();
				let p = if t[3] == "-" { None } else { Some(unhex(t[3])) };
				let c = client.clone();
				let tx = done_tx.clone();
				let hs = hold.clone();
				tasks.insert(
					h,
					tokio::spawn(async move {
						let r: Result<Box<RawValue>, Error> = holdable(&hs, c.request(&m, RawParams(p))).await;
						let s = match r {
							Ok(v) => format!("ok:{}", hex(v.get().as_bytes())),
							Err(e) => err_class(&e),
						};
						let _ = tx.send((h, Done::Res(s)));
					}),
				);
			}
			"notify" => {
				let m = String::from_utf8(unhex(t[1])).unwrap();
				let p = if t[2] == "-" { None } else { Some(unhex(t[2])) };
				let c = client.clone();
				tokio::spawn(async move {
					let _ = c.notification(&m, RawParams(p)).await;
				});
			}
			"batch" => {
				let h: u64 = t[1].parse().unwrap();
				let mut entries = Vec::new();
				let mut i = 2;
				while i + 1 < t.len() {
					let m = String::from_utf8(unhex(t[i])).unwrap();
					let p = if t[i + 1] == "-" { None } else { Some(unhex(t[i + 1])) };
					entries.push((m, p));
					i += 2;
				}
				let c = client.clone();
				let tx = done_tx.clone();
				let hs = hold.clone();
				tasks.insert(
					h,
					tokio::spawn(async move {
						let mut b = BatchRequestBuilder::new();
						for (m, p) in entries.iter() {
							b.insert(m.as_str(), RawParams(p.clone())).unwrap();
						}
						let r: Result<BatchResponse<Box<RawValue>>, Error> = holdable(&hs, c.batch_request(b)).await;
						let s = match r {
							Ok(br) => {
								let (ok, failed) = (br.num_successful_calls(), br.num_failed_calls());
								let items: Vec<String> = br
									.into_iter()
									.map(|e| match e {
										Ok(v) => format!("ok:{}", hex(v.get().as_bytes())),
										Err(e) => format!(
											"call:{}:{}:{}",
											e.code(),
											hex(e.message().as_bytes()),
											opt_hex(e.data().map(|d| d.get().as_bytes()))
										),
									})
									.collect();
								format!("batch:s={}/f={}:[{}]", ok, failed, items.join(","))
							}
							Err(e) => err_class(&e),
						};
						let _ = tx.send((h, Done::Res(s)));
					}),
				);
			}
			"sub" => {
				let h: u64 = t[1].parse().unwrap();
				let sm = String::from_utf8(unhex(t[2])).unwrap();
				let um = String::from_utf8(unhex(t[3])).unwrap();
				let p = if t[4] == "-" { None } else { Some(unhex(t[4])) };
				let c = client.clone();
				let tx = done_tx.clone();
				let hs = hold.clone();
				tasks.insert(
					h,
					tokio::spawn(async move {
						let r: Result<Sub, Error> = holdable(&hs, c.subscribe(&sm, RawParams(p), &um)).await;
						let _ = tx.send((h, Done::Sub(r)));
					}),
				);
			}
			"subm" => {
				let h: u64 = t[1].parse().unwrap();
				let m = String::from_utf8(unhex(t[2])).unwrap();
				let c = client.clone();
				let tx = done_tx.clone();
				tasks.insert(
					h,
					tokio::spawn(async move {
						let r: Result<Sub, Error> = c.subscribe_to_method(&m).await;
						let _ = tx.send((h, Done::Sub(r)));
					}),
				);
			}
			"next" => {
				let sh: u64 = t[1].parse().unwrap();
				next_res = Some(match subs.get_mut(&sh) {
					None => "pending".into(),
					Some(sub) => {
						use futures_util::FutureExt;
						match sub.next().now_or_never() {
							None => "pending".into(),
							Some(Some(Ok(v))) => format!("item:{}", hex(v.get().as_bytes())),
							Some(Some(Err(_))) => "item-undecodable".into(),
							Some(None) => match sub.close_reason() {
								Some(SubscriptionCloseReason::Lagged) => "endlag".into(),
								_ => "endclosed".into(),
							},
						}
					}
				});
			}
			"unsub" => {
				let h: u64 = t[1].parse().unwrap();
				let sh: u64 = t[2].parse().unwrap();
				if let Some(sub) = subs.remove(&sh) {
					let tx = done_tx.clone();
					tasks.insert(
						h,
						tokio::spawn(async move {
							let _ = sub.unsubscribe().await;
							let _ = tx.send((h, Done::Res("done".into())));
						}),
					);
				}
			}
			"drop" => {
				let sh: u64 = t[1].parse().unwrap();
				subs.remove(&sh);
			}
			"giveup" => {
				let h: u64 = t[1].parse().unwrap();
				if let Some(j) = tasks.remove(&h) {
					j.abort();
				}
			}
			"release" => {
				if waiting.load(Ordering::SeqCst) {
					let _ = permit_tx.send(());
				}
			}
			"back" => {
				let _ = frame_tx.send(Ok(unhex(t[1])));
			}
			"fault" => {
				let _ = frame_tx.send(Err(()));
			}
			"failsend" => {
				failnext.store(true, Ordering::SeqCst);
			}
			"hold" => {
				hold.held.store(true, Ordering::SeqCst);
			}
			"unhold" => {
				hold.held.store(false, Ordering::SeqCst);
				for w in hold.wakers.lock().unwrap().drain(..) {
					w.wake();
				}
			}
			_ => return format!("?bad-event {}", t[0]),
		}
		settle().await;

		let mut parts: Vec<String> = Vec::new();
		{
			let w = wire.lock().unwrap();
			for f in w[wire_seen..].iter() {
				parts.push(format!("W{}", hex(f)));
			}
			wire_seen = w.len();
		}
		let mut comps: Vec<(u64, String)> = Vec::new();
		while let Ok((h, d)) = done_rx.try_recv() {
			tasks.remove(&h);
			match d {
				Done::Res(s) => comps.push((h, s)),
				Done::Sub(Ok(sub)) => {
					let s = match sub.kind() {
						SubscriptionKind::Subscription(id) => format!("sub:{}", subid_s(id)),
						SubscriptionKind::Method(_) => "reg".into(),
						_ => "sub:?".into(),
					};
					subs.insert(h, sub);
					comps.push((h, s));
				}
				Done::Sub(Err(e)) => comps.push((h, err_class(&e))),
			}
		}
		comps.sort();
		for (h, s) in comps {
			parts.push(format!("C{}={}", h, s));
		}
		if was_connected && !client.is_connected() {
			was_connected = false;
			let cause = tokio::time::timeout(Duration::from_millis(500), client.on_disconnect()).await;
			parts.push(match cause {
				Ok(e) => format!("F{}", fatal_class(&e)),
				Err(_) => "FNOCAUSE".into(),
			});
		}
		if let Some(n) = next_res {
			parts.push(format!("N{}", n));
		}
		out_events.push(parts.join(","));
	}
	match (client.is_connected(), client.verif_table_sizes()) {
		(true, Some(t)) => out_events.push(format!("T{},{},{},{}", t[0], t[1], t[2], t[3])),
		_ => out_events.push("Tdead".into()),
	}
	// let the background tasks go away before the next case
	drop(subs);
	for (_, j) in tasks {
		j.abort();
	}
	drop(client);
	settle().await;
	if PANICKED.swap(false, Ordering::SeqCst) {
		out_events.push("PANIC".into());
	}
	out_events.join(" | ")
}

static PANICKED: AtomicBool = AtomicBool::new(false);

fn main() {
	let rt = tokio::runtime::Builder::new_current_thread().enable_all().build().unwrap();
	std::panic::set_hook(Box::new(|_info| {
		PANICKED.store(true, Ordering::SeqCst);
	}));
	for_each_line(|l| rt.block_on(run_case(l)));
}
