//! Engine `connguard` (C11): a real `jsonrpsee_server::Server` on 127.0.0.1:0 with `max_connections(n)`,
//! driven over raw TCP by a scripted sequence of steps; after every step the observable HTTP status,
//! `ConnectionGuard::available_connections()` and the number of handler invocations are printed.
//!
//! Input line:  <max> <both|http|ws|ping> <op>.<i>.<hint> ...      (ping = both + ws ping/pong inactivity close)
//!   ops  ho hb hr ha hf hx hg   HTTP: open (head + body minus one byte) / last body byte / let the handler go /
//!                               reset / FIN-close / let go and reset at once / complete GET
//!        hu (4th field k) burst of k opens on k streams, answer = b<number of 429s>, then all reset
//!        w0  WebSocket handshake sent as HTTP/1.0 (accepted, then hyper's upgrade fails); same expected behaviour as `we`
//!        wo wb we wc wr wl wa wf wg wx   WebSocket: open / bad handshake / reset right after the service call /
//!                               call parked method / let calls go / close frame / reset / FIN-close / invalid frame /
//!                               close frame and reset at once
//!        wi  (mode ping) stop answering the server's pings, keep the socket open and silent until the server has
//!            closed the session for inactivity: answer c (closed) or o (still open after the bounded wait); in both cases
//!            the client's socket stays open and silent until the end of the case (a half-open peer that never
//!            acknowledges the close frame)
//!   hint s<N>: a response is expected in this step, afterwards wait (bounded) until N slots are free;
//!        a<N>: wait (bounded) until N slots are free (a response ends the wait as well)
//! Output line: one `<status|-|T>:<avail|?>:<handlers>` per step (same format as modelrun/connguard_driver.ml), then `X<n>`:
//! the number of steps after which more HTTP handlers were still alive (started, future not dropped) than slots in use.
//! `T` = a bounded wait of that step expired.  The guard handle is the clone the server puts into the request
//! extensions (public API); it is captured by a warm-up call, so with max = 0 it is never seen (`?`).
use jrv::*;
use jsonrpsee_server::{ConnectionGuard, PingConfig, RpcModule, Server, ServerConfig};
use std::collections::HashMap;
use std::sync::atomic::{AtomicU64, Ordering::SeqCst};
use std::sync::{Arc, Mutex};
use std::task::{Context, Poll};
use std::time::{Duration, Instant};
use tokio::io::{AsyncReadExt, AsyncWriteExt};
use tokio::net::TcpStream;
use tokio::sync::watch;

const WAIT: Duration = Duration::from_millis(2500);
/// once a bounded wait has expired in a case, later waits of that case are cut to this (a broken server must not
/// make the run take hours; the first expiry is already reported)
const WAIT_DEGRADED: Duration = Duration::from_millis(40);

#[derive(Default)]
struct Shared {
	started: Mutex<HashMap<u64, u64>>,
	finished: Mutex<HashMap<u64, u64>>,
	total: AtomicU64,
	alive_http: std::sync::atomic::AtomicI64,
	gates: Mutex<HashMap<u64, watch::Sender<bool>>>,
	guard: Mutex<Option<ConnectionGuard>>,
	calls: AtomicU64,
}

impl Shared {
	fn gate(&self, id: u64) -> watch::Receiver<bool> {
		self.gates.lock().unwrap().entry(id).or_insert_with(|| watch::channel(false).0).subscribe()
	}
	fn open_gate(&self, id: u64) {
		let mut g = self.gates.lock().unwrap();
		let tx = g.entry(id).or_insert_with(|| watch::channel(false).0);
		tx.send_replace(true);
	}
	fn open_all(&self) {
		for tx in self.gates.lock().unwrap().values() {
			tx.send_replace(true);
		}
	}
	fn started(&self, id: u64) -> u64 {
		*self.started.lock().unwrap().get(&id).unwrap_or(&0)
	}
	fn finished(&self, id: u64) -> u64 {
		*self.finished.lock().unwrap().get(&id).unwrap_or(&0)
	}
	fn avail(&self) -> Option<usize> {
		self.guard.lock().unwrap().as_ref().map(|g| g.available_connections())
	}
}

/// HTTP middleware that only counts how many times the inner service's `call` has returned.
#[derive(Clone)]
struct TapLayer(Arc<Shared>);
#[derive(Clone)]
struct Tap<S> {
	inner: S,
	shared: Arc<Shared>,
}
impl<S> tower::Layer<S> for TapLayer {
	type Service = Tap<S>;
	fn layer(&self, inner: S) -> Tap<S> {
		Tap { inner, shared: self.0.clone() }
	}
}
impl<S, R> tower::Service<R> for Tap<S>
where
	S: tower::Service<R>,
{
	type Response = S::Response;
	type Error = S::Error;
	type Future = S::Future;
	fn poll_ready(&mut self, cx: &mut Context<'_>) -> Poll<Result<(), Self::Error>> {
		self.inner.poll_ready(cx)
	}
	fn call(&mut self, req: R) -> Self::Future {
		let f = self.inner.call(req);
		self.shared.calls.fetch_add(1, SeqCst);
		f
	}
}

fn module(shared: Arc<Shared>) -> RpcModule<Arc<Shared>> {
	let mut m = RpcModule::new(shared);
	// `park` is called over WebSocket, `parkh` (same behaviour) over HTTP: an HTTP handler that is alive -- started and its
	// future not yet dropped -- is counted in `alive_http`; each one must be covered by a connection slot of its own
	for (name, http) in [("park", false), ("parkh", true)] {
		m.register_async_method(name, move |params, ctx, ext| async move {
			struct Alive(Arc<Shared>, bool);
			impl Drop for Alive {
				fn drop(&mut self) {
					if self.1 {
						self.0.alive_http.fetch_sub(1, SeqCst);
					}
				}
			}
			let id: u64 = params.one().unwrap_or(u64::MAX);
			if let Some(g) = ext.get::<ConnectionGuard>() {
				let mut slot = ctx.guard.lock().unwrap();
				if slot.is_none() {
					*slot = Some(g.clone());
				}
			}
			let mut rx = ctx.gate(id);
			if http {
				ctx.alive_http.fetch_add(1, SeqCst);
			}
			let _alive = Alive((*ctx).clone(), http);
			// total first: the harness waits on `started` and then reads `total`
			ctx.total.fetch_add(1, SeqCst);
			*ctx.started.lock().unwrap().entry(id).or_insert(0) += 1;
			let _ = rx.wait_for(|v| *v).await;
			*ctx.finished.lock().unwrap().entry(id).or_insert(0) += 1;
			id
		})
		.unwrap();
	}
	m.register_method("grab", |_, ctx, ext| {
		if let Some(g) = ext.get::<ConnectionGuard>() {
			*ctx.guard.lock().unwrap() = Some(g.clone());
		}
		0u32
	})
	.unwrap();
	m
}

enum Conn {
	HttpPartial(Stream, u8),
	HttpParked(Stream),
	Ws(WsConn),
}

enum Cmd {
	Send(Vec<u8>),
	Close { fin: bool },
}

/// A WebSocket session of the harness.  The socket is owned by a task that reads whatever the server sends and answers
/// pings with pongs (so that a server with ws ping enabled keeps the session) -- unless `silent` is set: then it keeps
/// reading but answers nothing.  Dropping the handle resets the connection.
struct WsConn {
	tx: tokio::sync::mpsc::UnboundedSender<Cmd>,
	silent: Arc<std::sync::atomic::AtomicBool>,
	eof: Arc<std::sync::atomic::AtomicBool>,
	task: Option<tokio::task::JoinHandle<()>>,
}

/// One complete server frame at the start of `buf`: (opcode, payload, bytes used).  Server frames are not masked.
fn parse_frame(buf: &[u8]) -> Option<(u8, Vec<u8>, usize)> {
	if buf.len() < 2 {
		return None;
	}
	let op = buf[0] & 0x0f;
	let masked = buf[1] & 0x80 != 0;
	let (len, mut off) = match buf[1] & 0x7f {
		126 => {
			if buf.len() < 4 {
				return None;
			}
			(u16::from_be_bytes([buf[2], buf[3]]) as usize, 4)
		}
		127 => {
			if buf.len() < 10 {
				return None;
			}
			(u64::from_be_bytes(buf[2..10].try_into().unwrap()) as usize, 10)
		}
		n => (n as usize, 2),
	};
	if masked {
		off += 4;
	}
	if buf.len() < off + len {
		return None;
	}
	Some((op, buf[off..off + len].to_vec(), off + len))
}

async fn ws_task(
	mut s: TcpStream,
	mut buf: Vec<u8>,
	mut rx: tokio::sync::mpsc::UnboundedReceiver<Cmd>,
	silent: Arc<std::sync::atomic::AtomicBool>,
	eof: Arc<std::sync::atomic::AtomicBool>,
) {
	let mut tmp = [0u8; 4096];
	let mut read_open = true;
	loop {
		while let Some((op, payload, used)) = parse_frame(&buf) {
			buf.drain(..used);
			if op == 0x9 && !silent.load(SeqCst) && payload.len() < 126 {
				let _ = s.write_all(&frame(0x8a, &payload)).await;
			}
		}
		tokio::select! {
			r = s.read(&mut tmp), if read_open => match r {
				Ok(0) | Err(_) => {
					eof.store(true, SeqCst);
					read_open = false;
				}
				Ok(n) => buf.extend_from_slice(&tmp[..n]),
			},
			c = rx.recv() => match c {
				Some(Cmd::Send(b)) => {
					let _ = s.write_all(&b).await;
				}
				Some(Cmd::Close { fin: true }) => {
					drop(s);
					return;
				}
				Some(Cmd::Close { fin: false }) | None => {
					reset(s);
					return;
				}
			},
		}
	}
}

impl WsConn {
	/// `rest`: bytes already read after the 101 head.
	fn new(mut s: Stream, rest: Vec<u8>) -> WsConn {
		let (tx, rx) = tokio::sync::mpsc::unbounded_channel();
		let silent = Arc::new(std::sync::atomic::AtomicBool::new(false));
		let eof = Arc::new(std::sync::atomic::AtomicBool::new(false));
		let tcp = s.0.take().expect("live stream");
		let task = tokio::spawn(ws_task(tcp, rest, rx, silent.clone(), eof.clone()));
		WsConn { tx, silent, eof, task: Some(task) }
	}
	fn send(&self, b: Vec<u8>) -> bool {
		self.tx.send(Cmd::Send(b)).is_ok()
	}
	async fn wait_eof(&self, limit: Duration) -> bool {
		let eof = self.eof.clone();
		poll_until(|| eof.load(SeqCst), limit).await
	}
	/// Close the socket (FIN or RST) and wait until the task has done it.
	async fn close(mut self, fin: bool) {
		let _ = self.tx.send(Cmd::Close { fin });
		if let Some(t) = self.task.take() {
			let _ = tokio::time::timeout(WAIT, t).await;
		}
	}
}


fn head_len(buf: &[u8]) -> Option<usize> {
	buf.windows(4).position(|w| w == b"\r\n\r\n").map(|p| p + 4)
}

fn find_head(buf: &[u8]) -> Option<u16> {
	let end = buf.windows(4).position(|w| w == b"\r\n\r\n")?;
	let head = std::str::from_utf8(&buf[..end]).ok()?;
	let mut it = head.split_whitespace();
	it.next()?;
	it.next()?.parse().ok()
}

enum Waited {
	Status(u16),
	Cond,
	Eof,
	Timeout,
}

/// Read from `s` until a complete response head is there, or `cond()` holds, or EOF / error, or the time is up.
async fn wait_head_or(s: &mut TcpStream, buf: &mut Vec<u8>, cond: impl Fn() -> bool, limit: Duration) -> Waited {
	let t0 = Instant::now();
	let mut tmp = [0u8; 2048];
	loop {
		if let Some(st) = find_head(buf) {
			return Waited::Status(st);
		}
		if cond() {
			return Waited::Cond;
		}
		if t0.elapsed() > limit {
			return Waited::Timeout;
		}
		match tokio::time::timeout(Duration::from_millis(1), s.read(&mut tmp)).await {
			Ok(Ok(0)) | Ok(Err(_)) => {
				return match find_head(buf) {
					Some(st) => Waited::Status(st),
					None => Waited::Eof,
				};
			}
			Ok(Ok(n)) => buf.extend_from_slice(&tmp[..n]),
			Err(_) => {}
		}
	}
}

/// Read and discard until EOF / error (true) or the time is up (false).
async fn drain_to_eof(s: &mut TcpStream, limit: Duration) -> bool {
	let mut tmp = [0u8; 2048];
	let fut = async {
		loop {
			match s.read(&mut tmp).await {
				Ok(0) | Err(_) => return,
				Ok(_) => {}
			}
		}
	};
	tokio::time::timeout(limit, fut).await.is_ok()
}

async fn poll_until(cond: impl Fn() -> bool, limit: Duration) -> bool {
	let t0 = Instant::now();
	let mut spins = 0u32;
	loop {
		if cond() {
			return true;
		}
		if t0.elapsed() > limit {
			return false;
		}
		if spins < 50 {
			spins += 1;
			tokio::task::yield_now().await;
		} else {
			tokio::time::sleep(Duration::from_millis(1)).await;
		}
	}
}

/// Closing with SO_LINGER 0 sends RST and leaves no TIME_WAIT socket behind (tens of thousands of connections are
/// made per run; FIN-first closes would eat the ephemeral port range).  Only the explicit FIN steps close gracefully.
fn reset(s: TcpStream) {
	let _ = s.set_zero_linger();
	drop(s);
}

/// A stream that is reset when it goes out of scope.
struct Stream(Option<TcpStream>);
impl Stream {
	fn fin(mut self) {
		drop(self.0.take());
	}
}
impl Drop for Stream {
	fn drop(&mut self) {
		if let Some(s) = self.0.take() {
			reset(s);
		}
	}
}
impl std::ops::Deref for Stream {
	type Target = TcpStream;
	fn deref(&self) -> &TcpStream {
		self.0.as_ref().expect("live stream")
	}
}
impl std::ops::DerefMut for Stream {
	fn deref_mut(&mut self) -> &mut TcpStream {
		self.0.as_mut().expect("live stream")
	}
}

fn post(method: &str, arg: u64) -> Vec<u8> {
	let body = format!("{{\"jsonrpc\":\"2.0\",\"id\":1,\"method\":\"{}\",\"params\":[{}]}}", method, arg);
	format!(
		"POST / HTTP/1.1\r\nHost: localhost\r\nContent-Type: application/json\r\nContent-Length: {}\r\n\r\n{}",
		body.len(),
		body
	)
	.into_bytes()
}

fn upgrade_req(version: &str) -> Vec<u8> {
	format!(
		"GET / HTTP/1.1\r\nHost: localhost\r\nConnection: Upgrade\r\nUpgrade: websocket\r\nSec-WebSocket-Version: {}\r\nSec-WebSocket-Key: dGhlIHNhbXBsZSBub25jZQ==\r\n\r\n",
		version
	)
	.into_bytes()
}

/// One masked client frame (payload < 126 bytes).
fn frame(first: u8, payload: &[u8]) -> Vec<u8> {
	assert!(payload.len() < 126);
	let key = [0x11u8, 0x22, 0x33, 0x44];
	let mut v = vec![first, 0x80 | payload.len() as u8];
	v.extend_from_slice(&key);
	v.extend(payload.iter().enumerate().map(|(i, b)| b ^ key[i % 4]));
	v
}

fn ws_call(method: &str, arg: u64, id: u64) -> Vec<u8> {
	let body = format!("{{\"jsonrpc\":\"2.0\",\"id\":{},\"method\":\"{}\",\"params\":[{}]}}", id, method, arg);
	frame(0x81, body.as_bytes())
}

struct Case {
	zombies: Vec<WsConn>,
	wait: Duration,
	addr: std::net::SocketAddr,
	shared: Arc<Shared>,
	conns: HashMap<u64, Conn>,
	next_id: u64,
}

impl Case {
	async fn connect(&self) -> Option<Stream> {
		match tokio::time::timeout(WAIT, TcpStream::connect(self.addr)).await {
			Ok(Ok(s)) => {
				let _ = s.set_nodelay(true);
				Some(Stream(Some(s)))
			}
			_ => None,
		}
	}

	/// Returns the status field of the step.
	async fn step(&mut self, op: &str, i: u64, expect_resp: bool, want: Option<usize>, k: u64) -> String {
		let sh = self.shared.clone();
		let avail_ok = || match (want, sh.avail()) {
			(Some(w), Some(a)) => a == w,
			_ => true,
		};
		let none = "-".to_string();
		let wait = self.wait;
		let timeout = "T".to_string();
		match op {
			"ho" => {
				let Some(mut s) = self.connect().await else { return timeout };
				let req = post("parkh", i);
				let calls0 = sh.calls.load(SeqCst);
				if s.write_all(&req[..req.len() - 1]).await.is_err() {
					return timeout;
				}
				let mut buf = Vec::new();
				let sh2 = sh.clone();
				let r = wait_head_or(&mut s, &mut buf, || !expect_resp && sh2.calls.load(SeqCst) > calls0 && avail_ok(), wait).await;
				match r {
					Waited::Status(st) => st.to_string(),
					Waited::Cond => {
						self.conns.insert(i, Conn::HttpPartial(s, req[req.len() - 1]));
						none
					}
					Waited::Eof => "EOF".into(),
					Waited::Timeout => {
						// keep the stream: the request is parked.  If the service call was seen and no answer came, the
						// only thing that failed to show up is the expected counter value: report the step as parked
						// and let the counter speak for itself
						self.conns.insert(i, Conn::HttpPartial(s, req[req.len() - 1]));
						if !expect_resp && sh.calls.load(SeqCst) > calls0 { none } else { timeout }
					}
				}
			}
			"hb" => match self.conns.remove(&i) {
				Some(Conn::HttpPartial(mut s, last)) => {
					if s.write_all(&[last]).await.is_err() {
						return "EOF".into();
					}
					let mut buf = Vec::new();
					let sh2 = sh.clone();
					match wait_head_or(&mut s, &mut buf, || sh2.started(i) >= 1, wait).await {
						Waited::Cond => {
							self.conns.insert(i, Conn::HttpParked(s));
							none
						}
						Waited::Status(st) => st.to_string(),
						Waited::Eof => "EOF".into(),
						Waited::Timeout => timeout,
					}
				}
				Some(c) => {
					self.conns.insert(i, c);
					none
				}
				None => none,
			},
			"hr" => match self.conns.remove(&i) {
				Some(Conn::HttpParked(mut s)) => {
					sh.open_gate(i);
					let mut buf = Vec::new();
					match wait_head_or(&mut s, &mut buf, || false, wait).await {
						Waited::Status(st) => st.to_string(),
						Waited::Eof => "EOF".into(),
						_ => timeout,
					}
				}
				Some(c) => {
					self.conns.insert(i, c);
					none
				}
				None => none,
			},
			"ha" | "hf" | "hx" => match self.conns.remove(&i) {
				Some(Conn::HttpPartial(s, _)) | Some(Conn::HttpParked(s)) => {
					if op == "hx" {
						sh.open_gate(i);
					}
					if op == "hf" { s.fin() } else { drop(s) }
					none
				}
				Some(c) => {
					self.conns.insert(i, c);
					none
				}
				None => none,
			},
			"hu" => {
				// k requests written back to back on k streams: the server's worker threads race for the slots
				let avail0 = sh.avail();
				let calls0 = sh.calls.load(SeqCst);
				let mut streams = Vec::new();
				for _ in 0..k {
					let Some(s) = self.connect().await else { return timeout };
					streams.push((s, Vec::new(), None::<u16>));
				}
				for (j, (s, _, _)) in streams.iter_mut().enumerate() {
					let req = post("parkh", i + j as u64);
					if s.write_all(&req[..req.len() - 1]).await.is_err() {
						return "EOF".into();
					}
				}
				let t0 = Instant::now();
				let mut tmp = [0u8; 2048];
				let done = loop {
					let mut answered = 0u64;
					for (s, buf, st) in streams.iter_mut() {
						if st.is_none() {
							while let Ok(n) = s.try_read(&mut tmp) {
								if n == 0 {
									break;
								}
								buf.extend_from_slice(&tmp[..n]);
							}
							*st = find_head(buf);
						}
						if st.is_some() {
							answered += 1;
						}
					}
					// every request is either answered or holds a slot
					let parked = match (avail0, sh.avail()) {
						(Some(a0), Some(a)) => a0.saturating_sub(a) as u64,
						_ => 0,
					};
					if answered + parked == k {
						break true;
					}
					if t0.elapsed() > wait {
						// all k service calls were seen: the count of answers is meaningful, the counter is what is off
						break sh.calls.load(SeqCst) >= calls0 + k;
					}
					tokio::time::sleep(Duration::from_millis(1)).await;
				};
				let refused = streams.iter().filter(|x| x.2 == Some(429)).count();
				drop(streams);
				if done { format!("b{}", refused) } else { timeout }
			}
			"hg" => {
				let Some(mut s) = self.connect().await else { return timeout };
				if s.write_all(b"GET / HTTP/1.1\r\nHost: localhost\r\n\r\n").await.is_err() {
					return timeout;
				}
				let mut buf = Vec::new();
				match wait_head_or(&mut s, &mut buf, || false, wait).await {
					Waited::Status(st) => st.to_string(),
					Waited::Eof => "EOF".into(),
					_ => timeout,
				}
			}
			"wo" | "wb" => {
				let Some(mut s) = self.connect().await else { return timeout };
				if s.write_all(&upgrade_req(if op == "wo" { "13" } else { "12" })).await.is_err() {
					return timeout;
				}
				let mut buf = Vec::new();
				match wait_head_or(&mut s, &mut buf, || false, wait).await {
					Waited::Status(st) => {
						if st == 101 {
							let rest = buf[head_len(&buf).unwrap_or(buf.len())..].to_vec();
							self.conns.insert(i, Conn::Ws(WsConn::new(s, rest)));
						}
						st.to_string()
					}
					Waited::Eof => "EOF".into(),
					_ => timeout,
				}
			}
			"we" => {
				let Some(mut s) = self.connect().await else { return timeout };
				let calls0 = sh.calls.load(SeqCst);
				if s.write_all(&upgrade_req("13")).await.is_err() {
					return timeout;
				}
				let sh2 = sh.clone();
				let seen = poll_until(|| sh2.calls.load(SeqCst) > calls0, wait).await;
				drop(s);
				if seen { none } else { timeout }
			}
			// a WebSocket handshake sent as HTTP/1.0: the handshake itself is accepted (a slot is taken, the upgrade task is
			// spawned) but hyper attaches no upgrade to an HTTP/1.0 request, so `hyper::upgrade::on` fails deterministically;
			// the client keeps the socket open until the server hangs up
			"w0" => {
				let Some(mut s) = self.connect().await else { return timeout };
				let calls0 = sh.calls.load(SeqCst);
				let req = String::from_utf8(upgrade_req("13")).unwrap().replacen("HTTP/1.1", "HTTP/1.0", 1);
				if s.write_all(req.as_bytes()).await.is_err() {
					return timeout;
				}
				let sh2 = sh.clone();
				let seen = poll_until(|| sh2.calls.load(SeqCst) > calls0, wait).await;
				let mut buf = Vec::new();
				let _ = wait_head_or(&mut s, &mut buf, || false, Duration::from_millis(300)).await;
				drop(s);
				if seen { none } else { timeout }
			}
			"wc" => match self.conns.get_mut(&i) {
				Some(Conn::Ws(s)) => {
					let before = sh.started(i);
					self.next_id += 1;
					if !s.send(ws_call("park", i, self.next_id)) {
						return "EOF".into();
					}
					let sh2 = sh.clone();
					if poll_until(|| sh2.started(i) > before, wait).await { none } else { timeout }
				}
				_ => none,
			},
			"wr" => match self.conns.get(&i) {
				Some(Conn::Ws(_)) => {
					sh.open_gate(i);
					let sh2 = sh.clone();
					if poll_until(|| sh2.finished(i) == sh2.started(i), wait).await { none } else { timeout }
				}
				_ => none,
			},
			"wl" | "wg" => match self.conns.remove(&i) {
				Some(Conn::Ws(s)) => {
					// close frame with code 1000, or a frame with the reserved opcode 3
					let f = if op == "wl" { frame(0x88, &[0x03, 0xe8]) } else { frame(0x83, b"x") };
					if !s.send(f) {
						return "EOF".into();
					}
					let ok = s.wait_eof(wait).await;
					s.close(false).await;
					if ok { none } else { timeout }
				}
				Some(c) => {
					self.conns.insert(i, c);
					none
				}
				None => none,
			},
			"wa" | "wf" | "wx" => match self.conns.remove(&i) {
				Some(Conn::Ws(s)) => {
					if op == "wx" {
						let _ = s.send(frame(0x88, &[0x03, 0xe8]));
					}
					s.close(op == "wf").await;
					none
				}
				Some(c) => {
					self.conns.insert(i, c);
					none
				}
				None => none,
			},
			// ws ping enabled on the server: stop answering pings, keep the TCP connection open, send nothing, until
			// the server has closed the connection (c) or the bounded wait is over (o: the socket stays open and silent
			// until the end of the case)
			"wi" => match self.conns.remove(&i) {
				Some(Conn::Ws(s)) => {
					s.silent.store(true, SeqCst);
					if s.wait_eof(wait).await {
						// the peer stays half-open: it neither acknowledges the server's close frame nor hangs up, for the
						// rest of the case (the slot must come back all the same: the SERVER has ended this session)
						self.zombies.push(s);
						"c".into()
					} else {
						self.zombies.push(s);
						"o".into()
					}
				}
				Some(c) => {
					self.conns.insert(i, c);
					none
				}
				None => none,
			},
			_ => "?op".into(),
		}
	}
}

async fn warm_up(case: &mut Case, mode: &str, max: u32) -> bool {
	if max == 0 {
		return true;
	}
	let Some(mut s) = case.connect().await else { return false };
	let mut buf = Vec::new();
	if mode == "ws" {
		if s.write_all(&upgrade_req("13")).await.is_err() {
			return false;
		}
		if !matches!(wait_head_or(&mut s, &mut buf, || false, WAIT).await, Waited::Status(101)) {
			return false;
		}
		if s.write_all(&ws_call("grab", 0, 0)).await.is_err() {
			return false;
		}
		let sh = case.shared.clone();
		if !poll_until(|| sh.guard.lock().unwrap().is_some(), WAIT).await {
			return false;
		}
		let _ = s.write_all(&frame(0x88, &[0x03, 0xe8])).await;
		drain_to_eof(&mut s, WAIT).await;
	} else {
		if s.write_all(&post("grab", 0)).await.is_err() {
			return false;
		}
		if !matches!(wait_head_or(&mut s, &mut buf, || false, WAIT).await, Waited::Status(200)) {
			return false;
		}
	}
	drop(s);
	let sh = case.shared.clone();
	poll_until(|| sh.avail() == Some(max as usize), WAIT).await
}

async fn run_case(line: &str) -> String {
	let mut it = line.split_whitespace();
	let max: u32 = match it.next().and_then(|x| x.parse().ok()) {
		Some(m) => m,
		None => return "?bad-line".into(),
	};
	let mode = it.next().unwrap_or("both").to_string();
	let shared = Arc::new(Shared::default());
	let mut cfg = ServerConfig::builder().max_connections(max);
	cfg = match mode.as_str() {
		"http" => cfg.http_only(),
		"ws" => cfg.ws_only(),
		// the server pings every 50 ms and closes a session that has been inactive (no pong, no message) for more than
		// 400 ms at one of its 50 ms checks
		"ping" => cfg.enable_ws_ping(
			PingConfig::new()
				.ping_interval(Duration::from_millis(50))
				.inactive_limit(Duration::from_millis(400))
				.max_failures(1),
		),
		_ => cfg,
	};
	// The listening port is picked below the ephemeral range (32768..): `bind(port 0)` needs a port with no socket at
	// all on it, and client sockets in TIME_WAIT (ours or another engine's) can exhaust that range.
	static NEXT: AtomicU64 = AtomicU64::new(0);
	let mut server = None;
	let mut last_err = String::new();
	for _ in 0..400 {
		let n = NEXT.fetch_add(1, SeqCst);
		let port = 10000 + ((std::process::id() as u64 * 7919 + n * 13) % 22000) as u16;
		match Server::builder()
			.set_config(cfg.clone().build())
			.set_http_middleware(tower::ServiceBuilder::new().layer(TapLayer(shared.clone())))
			.build(("127.0.0.1", port))
			.await
		{
			Ok(s) => {
				server = Some(s);
				break;
			}
			Err(e) => last_err = e.to_string(),
		}
	}
	let Some(server) = server else { return format!("?bind {}", last_err) };
	let addr = match server.local_addr() {
		Ok(a) => a,
		Err(e) => return format!("?addr {}", e),
	};
	let handle = server.start(module(shared.clone()));
	let mut case = Case { zombies: Vec::new(), wait: WAIT, addr, shared: shared.clone(), conns: HashMap::new(), next_id: 0 };
	let mut out: Vec<String> = Vec::new();
	if !warm_up(&mut case, &mode, max).await {
		out.push("T-warmup".into());
		case.wait = WAIT_DEGRADED;
	}
	// the warm-up call is not one of the script's handler invocations
	let base_total = shared.total.load(SeqCst);
	let mut uncovered = 0u32;
	for tok in it {
		let mut p = tok.split('.');
		let op = p.next().unwrap_or("");
		let i: u64 = p.next().and_then(|x| x.parse().ok()).unwrap_or(0);
		let hint = p.next().unwrap_or("a");
		let expect_resp = hint.starts_with('s');
		let want: Option<usize> = hint.get(1..).and_then(|x| x.parse().ok());
		let k: u64 = p.next().and_then(|x| x.parse().ok()).unwrap_or(0);
		let status = case.step(op, i, expect_resp, want, k).await;
		if status == "T" {
			case.wait = WAIT_DEGRADED;
		}
		// bounded wait for the slot counter (release after a peer reset is asynchronous)
		let sh = shared.clone();
		if let (Some(w), true) = (want, sh.avail().is_some()) {
			if !poll_until(|| sh.avail() == Some(w), case.wait).await {
				case.wait = WAIT_DEGRADED;
			}
		}
		let avail = match shared.avail() {
			Some(a) => a.to_string(),
			None => "?".into(),
		};
		out.push(format!("{}:{}:{}", status, avail, shared.total.load(SeqCst) - base_total));
		// every alive HTTP handler holds a slot of its own (WebSocket sessions only add to the slots in use): after a bounded
		// wait (the drop of an aborted request's future is asynchronous) the number of alive HTTP handlers must not exceed
		// the number of slots in use
		if let Some(a) = shared.avail() {
			let sh = shared.clone();
			let used = (max as i64) - (a as i64);
			if !poll_until(|| sh.alive_http.load(SeqCst) <= used, case.wait).await {
				uncovered += 1;
				case.wait = WAIT_DEGRADED;
			}
		}
	}
	out.push(format!("X{}", uncovered));
	// tear down: let every parked handler go, drop every stream, stop the server
	shared.open_all();
	case.conns.clear();
	case.zombies.clear();
	let _ = handle.stop();
	let _ = tokio::time::timeout(WAIT, handle.stopped()).await;
	out.join(" ")
}

fn main() {
	let rt = tokio::runtime::Builder::new_multi_thread().worker_threads(2).enable_all().build().expect("runtime");
	for_each_line(|line| {
		rt.block_on(async {
			match tokio::time::timeout(Duration::from_secs(120), run_case(line)).await {
				Ok(s) => s,
				Err(_) => "T-case".into(),
			}
		})
	});
}
