//! Engine `connq` (C04, connection-level back-pressure): the callbacks of an `RpcModule` driven the way
//! server/src/transport/ws.rs + server/src/middleware/rpc.rs drive them, WITHOUT a server: ONE bounded
//! `mpsc::channel(cap)` + `MethodSink::new(tx)` (capacity = `message_buffer_capacity`) shared by every call of the
//! script; the harness plays the connection's writer (`send_task`): a frame leaves the queue only on the step `w`.
//! Same line protocol as modelrun/connq_driver.ml (model: coq/Model/ConnQueue.v).
//!
//!     <cap> | step step ...
//!
//!   S<c>          subscribe call with id c: invoke the `MethodCallback::Subscription` of "sub" with the shared sink, a
//!                 permit of `BoundedSubscriptions`, `ConnectionId(0)` and a counting id provider (subscription id of
//!                 the n-th invocation = 1000 + n, n from 0); n is the HANDLE of the handler in the steps below.  The
//!                 call future is awaited by a task that then does what the WS transport does with the answer: a
//!                 method-call-kind response is sent through the sink (`sink.send(json).await`), a subscription-kind
//!                 response is not (accept/reject have written it themselves).
//!   a<h>          handler h calls `pending.accept().await`
//!   j<h>:<code>   handler h calls `pending.reject(ErrorObject::owned(code, "rejected", None)).await`
//!   s<h>:<x>      handler h calls `sink.send(x).await`        t<h>:<x>   `sink.try_send(x)`
//!   x<h>          handler h DROPS the future it is parked in (accept / reject / send): what `tokio::time::timeout`
//!                 or a `select!` with another branch does, and goes on waiting for commands
//!   x<h>:n | x<h>:o<x> | x<h>:e<x>    the same, and the handler RETURNS in the same poll with the closing value
//!                 None / Notif(x) / NotifErr(from_json(x))   (`match timeout(d, pending.accept()).await { Err(_) => ..}`)
//!   r<h>:n | r<h>:o<x> | r<h>:e<x>    handler h returns that closing value (dropping whatever it still holds)
//!   u<c>:<h>      unsubscribe call with id c naming the subscription id of handle h (1000 + h); answer -> sink
//!   c<c>          an ordinary method call ("say", answers "pong") with id c; answer -> sink
//!   w             the writer takes one frame out of the queue
//!   C             the connection is gone: the receiving end of the queue is dropped
//!
//! After every step the harness polls to quiescence (current-thread runtime, a fixed number of yield rounds; nothing
//! in a script waits for time) and prints one group of tokens; groups are separated by ` ; `:
//!   <l><h>=<res>  outcome of a handler command (l = a j s t x r): ok | err | done | full | closed as it happened;
//!                 `parked` when the command has not completed at quiescence (its outcome appears in the group of the
//!                 step that completes it); `busy` the handler is parked in another command (nothing is sent to it);
//!                 `na` the handler does not hold what the command needs (or x: it is not parked); `gone` the handler
//!                 future does not exist any more (it returned, or the library dropped it); `nosub` no such handle
//!   R<c>=<k><hex> the call future of call c completed with this MethodResponse (k = s subscription kind, m method
//!                 call kind, o other)
//!   F<hex>        the frame the writer took | empty | gone (no receiving end)      closed   for C
//!   q<n>          last token of every group: places of the queue in use (max_capacity - capacity); `q-` once closed
//! Tokens of a group are sorted (bytewise) except that `q..` is last.  A panic anywhere adds the token PANIC at the end.
use std::collections::HashMap;
use std::future::Future;
use std::sync::atomic::{AtomicBool, AtomicU64, Ordering};
use std::sync::{Arc, Mutex};
use std::time::Duration;

use jrv::*;
use jsonrpsee_core::error::SubscriptionError;
use jsonrpsee_core::server::{
	BoundedSubscriptions, ConnectionId, Extensions, MethodCallback, MethodResponse, MethodSink, RpcModule,
	SubscriptionCloseResponse, SubscriptionMessage, SubscriptionSink, SubscriptionState, TrySendError,
};
use jsonrpsee_core::traits::IdProvider;
use jsonrpsee_types::{ErrorObject, Id, Params, SubscriptionId};
use serde_json::value::RawValue;
use tokio::sync::mpsc;

const ID_BASE: u64 = 1000;
const ROUNDS: usize = 48;

static PANICKED: AtomicBool = AtomicBool::new(false);

#[derive(Debug)]
struct CountingIds(AtomicU64);
impl IdProvider for CountingIds {
	fn next_id(&self) -> SubscriptionId<'static> {
		SubscriptionId::Num(ID_BASE + self.0.fetch_add(1, Ordering::SeqCst))
	}
}

#[derive(Debug, Clone, Copy)]
enum Closing {
	None,
	Notif(u64),
	Err(u64),
}

impl Closing {
	fn into_response(self) -> SubscriptionCloseResponse {
		match self {
			Closing::None => SubscriptionCloseResponse::None,
			Closing::Notif(x) => SubscriptionCloseResponse::Notif(SubscriptionMessage::from(raw(x))),
			Closing::Err(x) => SubscriptionCloseResponse::NotifErr(SubscriptionError::from_json(raw(x))),
		}
	}
}

#[derive(Debug)]
enum Cmd {
	Acc,
	Rej(i32),
	Send(u64),
	Try(u64),
	Ret(Closing),
	Cancel(Option<Closing>),
}

type Slots = Arc<Mutex<HashMap<usize, mpsc::UnboundedReceiver<Cmd>>>>;

struct Ctx {
	slots: Slots,
	ev: mpsc::UnboundedSender<String>,
}

fn raw(x: u64) -> Box<RawValue> {
	serde_json::value::to_raw_value(&x).unwrap()
}

/// What a parked handler command ended with.
enum Sel<T> {
	Done(T),
	Cancelled(Option<Closing>),
	End,
}

/// Run `fut`, but give it up (drop it) when the script says so.  `fut` is polled first.
async fn parkable<T>(fut: impl Future<Output = T>, rx: &mut mpsc::UnboundedReceiver<Cmd>) -> Sel<T> {
	tokio::pin!(fut);
	loop {
		tokio::select! {
			biased;
			r = &mut fut => return Sel::Done(r),
			c = rx.recv() => match c {
				Some(Cmd::Cancel(ret)) => return Sel::Cancelled(ret),
				Some(_) => continue, // never sent while parked
				None => return Sel::End,
			},
		}
	}
}

fn module(ctx: Ctx) -> RpcModule<Ctx> {
	let mut module = RpcModule::new(ctx);
	module.register_method("say", |_, _, _| "pong").unwrap();
	module
		.register_subscription("sub", "note", "unsub", |params, pending, ctx: Arc<Ctx>, _ext| async move {
			let Ok(h) = params.one::<usize>() else { return SubscriptionCloseResponse::None };
			let Some(mut rx) = ctx.slots.lock().unwrap_or_else(|e| e.into_inner()).remove(&h) else {
				return SubscriptionCloseResponse::None;
			};
			let ev = ctx.ev.clone();
			let say = |s: String| {
				let _ = ev.send(s);
			};
			let mut pending = Some(pending);
			let mut sink: Option<SubscriptionSink> = None;
			loop {
				let Some(cmd) = rx.recv().await else { return SubscriptionCloseResponse::None };
				match cmd {
					Cmd::Acc => {
						let Some(p) = pending.take() else {
							say(format!("a{h}=na"));
							continue;
						};
						match parkable(p.accept(), &mut rx).await {
							Sel::Done(Ok(s)) => {
								sink = Some(s);
								say(format!("a{h}=ok"));
							}
							Sel::Done(Err(_)) => say(format!("a{h}=err")),
							Sel::Cancelled(ret) => {
								say(format!("x{h}=done"));
								if let Some(c) = ret {
									return c.into_response();
								}
							}
							Sel::End => return SubscriptionCloseResponse::None,
						}
					}
					Cmd::Rej(code) => {
						let Some(p) = pending.take() else {
							say(format!("j{h}=na"));
							continue;
						};
						match parkable(p.reject(ErrorObject::owned(code, "rejected", None::<()>)), &mut rx).await {
							Sel::Done(()) => say(format!("j{h}=done")),
							Sel::Cancelled(ret) => {
								say(format!("x{h}=done"));
								if let Some(c) = ret {
									return c.into_response();
								}
							}
							Sel::End => return SubscriptionCloseResponse::None,
						}
					}
					Cmd::Send(x) => {
						let Some(s) = sink.as_ref() else {
							say(format!("s{h}=na"));
							continue;
						};
						match parkable(s.send(SubscriptionMessage::from(raw(x))), &mut rx).await {
							Sel::Done(Ok(())) => say(format!("s{h}=ok")),
							Sel::Done(Err(_)) => say(format!("s{h}=closed")),
							Sel::Cancelled(ret) => {
								say(format!("x{h}=done"));
								if let Some(c) = ret {
									return c.into_response();
								}
							}
							Sel::End => return SubscriptionCloseResponse::None,
						}
					}
					Cmd::Try(x) => {
						let Some(s) = sink.as_mut() else {
							say(format!("t{h}=na"));
							continue;
						};
						match s.try_send(SubscriptionMessage::from(raw(x))) {
							Ok(()) => say(format!("t{h}=ok")),
							Err(TrySendError::Full(_)) => say(format!("t{h}=full")),
							Err(TrySendError::Closed(_)) => say(format!("t{h}=closed")),
						}
					}
					Cmd::Ret(c) => {
						say(format!("r{h}=done"));
						return c.into_response();
					}
					Cmd::Cancel(_) => say(format!("x{h}=na")),
				}
			}
		})
		.unwrap();
	module
}

#[derive(Debug)]
enum Step {
	Subscribe(u64),
	Handler(char, usize, Cmd),
	Unsub(u64, usize),
	Call(u64),
	Write,
	Close,
}

fn num(s: &str) -> Option<u64> {
	(!s.is_empty() && s.len() <= 15 && s.bytes().all(|c| c.is_ascii_digit())).then(|| s.parse().ok())?
}

fn closing(s: &str) -> Option<Closing> {
	match s.as_bytes().first()? {
		b'n' if s == "n" => Some(Closing::None),
		b'o' => Some(Closing::Notif(num(&s[1..])?)),
		b'e' => Some(Closing::Err(num(&s[1..])?)),
		_ => None,
	}
}

fn parse_step(t: &str) -> Option<Step> {
	if t == "w" {
		return Some(Step::Write);
	}
	if t == "C" {
		return Some(Step::Close);
	}
	let l = *t.as_bytes().first()? as char;
	let rest = &t[1..];
	let (a, b) = match rest.split_once(':') {
		Some((a, b)) => (a, Some(b)),
		None => (rest, None),
	};
	let n = num(a)?;
	Some(match (l, b) {
		('S', None) => Step::Subscribe(n),
		('c', None) => Step::Call(n),
		('u', Some(h)) => Step::Unsub(n, num(h)? as usize),
		('a', None) => Step::Handler('a', n as usize, Cmd::Acc),
		('j', Some(code)) => Step::Handler('j', n as usize, Cmd::Rej(i32::try_from(num(code)?).ok()?)),
		('s', Some(x)) => Step::Handler('s', n as usize, Cmd::Send(num(x)?)),
		('t', Some(x)) => Step::Handler('t', n as usize, Cmd::Try(num(x)?)),
		('r', Some(c)) => Step::Handler('r', n as usize, Cmd::Ret(closing(c)?)),
		('x', None) => Step::Handler('x', n as usize, Cmd::Cancel(None)),
		('x', Some(c)) => Step::Handler('x', n as usize, Cmd::Cancel(Some(closing(c)?))),
		_ => return None,
	})
}

struct Handle {
	tx: mpsc::UnboundedSender<Cmd>,
	parked: Option<char>,
}

/// The task that awaits one call and then does with the answer what the WS transport does (ws.rs, the spawned
/// per-message task): only method-call (and batch) answers are written to the sink by the transport.
fn spawn_call(
	c: u64,
	fut: impl Future<Output = MethodResponse> + Send + 'static,
	sink: MethodSink,
	ev: mpsc::UnboundedSender<String>,
) {
	tokio::spawn(async move {
		let rp = fut.await;
		let kind = if rp.is_subscription() {
			's'
		} else if rp.is_method_call() {
			'm'
		} else {
			'o'
		};
		let _ = ev.send(format!("R{c}={kind}{}", hex(rp.as_json().get().as_bytes())));
		if rp.is_method_call() || rp.is_batch() {
			let is_success = rp.is_success();
			let (json, mut on_close, _) = rp.into_parts();
			if sink.send(json).await.is_err() {
				return;
			}
			if let Some(n) = on_close.take() {
				n.notify(is_success);
			}
		}
	});
}

async fn quiesce() {
	for _ in 0..ROUNDS {
		tokio::task::yield_now().await;
	}
}

async fn run_case(line: &str) -> String {
	let Some((head, script)) = line.split_once('|') else {
		return "?bad-line".into();
	};
	let cap = match num(head.trim()) {
		Some(c) if (1..=100_000).contains(&c) => c as usize,
		_ => return "?bad-line".into(),
	};
	let Some(steps) = script.split_whitespace().map(parse_step).collect::<Option<Vec<Step>>>() else {
		return "?bad-line".into();
	};

	let (ev_tx, mut ev_rx) = mpsc::unbounded_channel::<String>();
	let cmd_slots: Slots = Arc::new(Mutex::new(HashMap::new()));
	let module = module(Ctx { slots: cmd_slots.clone(), ev: ev_tx.clone() });
	let Some(MethodCallback::Subscription(subscribe)) = module.method("sub").cloned() else {
		return "?no-sub".into();
	};
	let Some(MethodCallback::Unsubscription(unsubscribe)) = module.method("unsub").cloned() else {
		return "?no-unsub".into();
	};
	let Some(MethodCallback::Sync(say)) = module.method("say").cloned() else {
		return "?no-say".into();
	};

	// one connection
	let conn_id = ConnectionId(0);
	let (tx, rx) = mpsc::channel::<Box<RawValue>>(cap);
	let mut rx = Some(rx);
	let sink = MethodSink::new(tx);
	let slots = BoundedSubscriptions::new(100_000);
	let ids = CountingIds(AtomicU64::new(0));
	let mut handles: Vec<Handle> = Vec::new();
	let mut groups: Vec<String> = Vec::new();

	for step in steps {
		let mut toks: Vec<String> = Vec::new();
		let mut expect: Option<(char, usize)> = None;
		match step {
			Step::Subscribe(c) => {
				let h = handles.len();
				let (cmd_tx, cmd_rx) = mpsc::unbounded_channel::<Cmd>();
				cmd_slots.lock().unwrap_or_else(|e| e.into_inner()).insert(h, cmd_rx);
				handles.push(Handle { tx: cmd_tx, parked: None });
				let Some(permit) = slots.acquire() else { return "?no-permit".into() };
				let state = SubscriptionState { conn_id, id_provider: &ids, subscription_permit: permit };
				let params = format!("[{h}]");
				// the callback copies what it keeps (params.into_owned(), id.into_owned()) before it returns
				let fut = subscribe(Id::Number(c), Params::new(Some(&params)), sink.clone(), state, Extensions::new());
				spawn_call(c, fut, sink.clone(), ev_tx.clone());
			}
			Step::Unsub(c, h) => {
				let params = format!("[{}]", ID_BASE + h as u64);
				let rp = unsubscribe(
					Id::Number(c),
					Params::new(Some(&params)),
					conn_id,
					u32::MAX as usize,
					Extensions::new(),
				);
				spawn_call(c, async move { rp }, sink.clone(), ev_tx.clone());
			}
			Step::Call(c) => {
				let rp = say(Id::Number(c), Params::new(None), u32::MAX as usize, Extensions::new());
				spawn_call(c, async move { rp }, sink.clone(), ev_tx.clone());
			}
			Step::Write => match rx.as_mut() {
				None => toks.push("gone".into()),
				Some(r) => match r.try_recv() {
					Ok(f) => toks.push(format!("F{}", hex(f.get().as_bytes()))),
					Err(_) => toks.push("empty".into()),
				},
			},
			Step::Close => {
				drop(rx.take());
				toks.push("closed".into());
			}
			Step::Handler(l, h, cmd) => match handles.get_mut(h) {
				None => toks.push(format!("{l}{h}=nosub")),
				Some(hd) => {
					let is_cancel = matches!(cmd, Cmd::Cancel(_));
					if hd.parked.is_some() && !is_cancel {
						toks.push(format!("{l}{h}=busy"));
					} else if hd.parked.is_none() && is_cancel && hd.tx.is_closed() {
						toks.push(format!("{l}{h}=gone"));
					} else if hd.parked.is_none() && is_cancel {
						toks.push(format!("{l}{h}=na"));
					} else if hd.tx.send(cmd).is_err() {
						toks.push(format!("{l}{h}=gone"));
					} else {
						if is_cancel {
							hd.parked = None;
						}
						expect = Some((l, h));
					}
				}
			},
		}
		quiesce().await;
		while let Ok(e) = ev_rx.try_recv() {
			// a parked command that has completed
			if let Some((name, _)) = e.split_once('=') {
				let l = name.as_bytes()[0] as char;
				if let Some(h) = num(&name[1..]) {
					if let Some(hd) = handles.get_mut(h as usize) {
						if hd.parked == Some(l) {
							hd.parked = None;
						}
					}
				}
			}
			toks.push(e);
		}
		if let Some((l, h)) = expect {
			let pre = format!("{l}{h}=");
			if !toks.iter().any(|t| t.starts_with(&pre)) {
				toks.push(format!("{pre}parked"));
				handles[h].parked = Some(l);
			}
		}
		toks.sort();
		toks.push(match rx {
			Some(_) => format!("q{}", sink.max_capacity() - sink.capacity()),
			None => "q-".into(),
		});
		groups.push(toks.join(" "));
	}
	groups.join(" ; ")
}

fn main() {
	std::panic::set_hook(Box::new(|_| PANICKED.store(true, Ordering::SeqCst)));
	for_each_line(|l| {
		PANICKED.store(false, Ordering::SeqCst);
		let r = std::panic::catch_unwind(std::panic::AssertUnwindSafe(|| {
			let rt = tokio::runtime::Builder::new_current_thread().enable_all().build().unwrap();
			let r = rt.block_on(async {
				tokio::time::timeout(Duration::from_secs(30), run_case(l)).await.unwrap_or_else(|_| "?timeout".into())
			});
			rt.shutdown_timeout(Duration::from_millis(200));
			r
		}));
		let mut r = r.unwrap_or_else(|e| {
			let msg = e.downcast_ref::<&str>().map(|s| s.to_string()).or_else(|| e.downcast_ref::<String>().cloned());
			format!("PANIC {}", hex(msg.unwrap_or_default().as_bytes()))
		});
		if PANICKED.load(Ordering::SeqCst) && !r.starts_with("PANIC") {
			r.push_str(" PANIC");
		}
		r
	});
}
