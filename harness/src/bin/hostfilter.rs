//! Engine `hostfilter` (C14): the real `HostFilterLayer` around a recording inner tower service,
//! driven with hand-built `http::Request`s.  Line protocol shared with modelrun/hostfilter_driver.ml.
//!
//!   auth h<hex>                      -> ok h<hosthex> <port> | err | nostr
//!   req <filter> <hosts> <uri>       -> nostr | nohdr | nouri | badlist | <status> <ran> <authority>
//!     filter : off | - (empty allow-list) | h<hex>,h<hex>,...     (allow-list entries, UTF-8 strings)
//!     hosts  : - (no Host header)  | h<hex>,h<hex>,...            (one header line per item, raw bytes)
//!     uri    : - (the default request-target "/") | h<hex>         (raw bytes given to `Uri::try_from`)
//!   seq <filter> <hosts>|<uri> ...   -> `<status> <ran>` per request joined by `;`  (one layer, requests in order)
//!   port      : D (default) | A (`*`) | F<n>
//!   authority : none | h<hosthex>:<port>       (what `Authority::from_http_request` decides)
//! Order of the early exits (the same in the model driver): nostr, nohdr, nouri, badlist.
use jrv::*;
use jsonrpsee_server::middleware::http::{Authority, HostFilterLayer, Port};
use jsonrpsee_server::{HttpBody, HttpRequest, HttpResponse};
use std::convert::Infallible;
use std::sync::Arc;
use std::sync::atomic::{AtomicUsize, Ordering};
use std::task::{Context, Poll, Waker};
use tower::{Layer, Service};

type ReqBody = http_body_util::Empty<bytes::Bytes>;

/// The "RPC service" behind the filter: counts how often it is called, answers 200.
#[derive(Clone)]
struct Recording(Arc<AtomicUsize>);

impl Service<HttpRequest<ReqBody>> for Recording {
	type Response = HttpResponse;
	type Error = Infallible;
	type Future = std::future::Ready<Result<HttpResponse, Infallible>>;

	fn poll_ready(&mut self, _: &mut Context<'_>) -> Poll<Result<(), Self::Error>> {
		Poll::Ready(Ok(()))
	}

	fn call(&mut self, _req: HttpRequest<ReqBody>) -> Self::Future {
		self.0.fetch_add(1, Ordering::SeqCst);
		std::future::ready(Ok(HttpResponse::new(HttpBody::empty())))
	}
}

fn port_s(p: &Port) -> String {
	match p {
		Port::Default => "D".into(),
		Port::Any => "A".into(),
		Port::Fixed(n) => format!("F{}", n),
	}
}

fn auth_s(a: &Authority) -> String {
	format!("h{}:{}", hex(a.host.as_bytes()), port_s(&a.port))
}

fn list(tok: &str) -> Vec<Vec<u8>> {
	if tok == "-" {
		return Vec::new();
	}
	tok.split(',').map(|t| unhex(t.strip_prefix('h').expect("item prefix"))).collect()
}

fn handle(line: &str) -> String {
	let mut it = line.split_whitespace();
	match it.next().unwrap_or("") {
		"auth" => {
			let b = unhex(it.next().unwrap_or("h").strip_prefix('h').unwrap_or(""));
			let Ok(s) = String::from_utf8(b) else { return "nostr".into() };
			match Authority::try_from(s.as_str()) {
				Ok(a) => format!("ok h{} {}", hex(a.host.as_bytes()), port_s(&a.port)),
				Err(_) => "err".into(),
			}
		}
		"req" => {
			let filter = it.next().unwrap_or("-");
			let hosts = list(it.next().unwrap_or("-"));
			let uri = it.next().unwrap_or("-");
			// allow-list entries are Rust strings
			let mut allow: Option<Vec<String>> = None;
			if filter != "off" {
				let mut v = Vec::new();
				for e in list(filter) {
					match String::from_utf8(e) {
						Ok(s) => v.push(s),
						Err(_) => return "nostr".into(),
					}
				}
				allow = Some(v);
			}
			let mut req = HttpRequest::new(ReqBody::new());
			for h in &hosts {
				match http::HeaderValue::from_bytes(h) {
					Ok(v) => {
						req.headers_mut().append(http::header::HOST, v);
					}
					Err(_) => return "nohdr".into(),
				}
			}
			if uri != "-" {
				let b = unhex(uri.strip_prefix('h').expect("uri prefix"));
				match http::Uri::try_from(&b[..]) {
					Ok(u) => *req.uri_mut() = u,
					Err(_) => return "nouri".into(),
				}
			}
			let layer = match allow {
				None => HostFilterLayer::disable(),
				Some(v) => match HostFilterLayer::new(v) {
					Ok(l) => l,
					Err(_) => return "badlist".into(),
				},
			};
			let decided = match Authority::from_http_request(&req) {
				Some(a) => auth_s(&a),
				None => "none".into(),
			};
			let ran = Arc::new(AtomicUsize::new(0));
			let mut svc = layer.layer(Recording(ran.clone()));
			let mut cx = Context::from_waker(Waker::noop());
			match svc.poll_ready(&mut cx) {
				Poll::Ready(Ok(())) => {}
				_ => return "?not-ready".into(),
			}
			let mut fut = svc.call(req);
			let status = match fut.as_mut().poll(&mut cx) {
				Poll::Ready(Ok(resp)) => resp.status().as_u16(),
				Poll::Ready(Err(_)) => return "?service-error".into(),
				Poll::Pending => return "?pending".into(),
			};
			format!("{} {} {}", status, ran.load(Ordering::SeqCst), decided)
		}
		// seq <filter> <hosts>|<uri> <hosts>|<uri> ...  : ONE layer (as the server keeps one per service builder), a fresh
		// service built from it per request (as the server does per connection/request), the requests in order; output =
		// the `<status> <ran>` of every request joined by `;` (early exits nostr / nohdr / nouri / badlist as for `req`)
		"seq" => {
			let filter = it.next().unwrap_or("-");
			let mut allow: Option<Vec<String>> = None;
			if filter != "off" {
				let mut v = Vec::new();
				for e in list(filter) {
					match String::from_utf8(e) {
						Ok(s) => v.push(s),
						Err(_) => return "nostr".into(),
					}
				}
				allow = Some(v);
			}
			let layer = match allow {
				None => HostFilterLayer::disable(),
				Some(v) => match HostFilterLayer::new(v) {
					Ok(l) => l,
					Err(_) => return "badlist".into(),
				},
			};
			let mut out = Vec::new();
			for item in it {
				let (hosts_s, uri) = item.split_once('|').unwrap_or((item, "-"));
				let mut req = HttpRequest::new(ReqBody::new());
				let mut bad = None;
				for h in &list(hosts_s) {
					match http::HeaderValue::from_bytes(h) {
						Ok(v) => {
							req.headers_mut().append(http::header::HOST, v);
						}
						Err(_) => bad = Some("nohdr"),
					}
				}
				if uri != "-" {
					let b = unhex(uri.strip_prefix('h').expect("uri prefix"));
					match http::Uri::try_from(&b[..]) {
						Ok(u) => *req.uri_mut() = u,
						Err(_) => bad = bad.or(Some("nouri")),
					}
				}
				if let Some(b) = bad {
					out.push(b.to_string());
					continue;
				}
				let ran = Arc::new(AtomicUsize::new(0));
				let mut svc = layer.layer(Recording(ran.clone()));
				let mut cx = Context::from_waker(Waker::noop());
				match svc.poll_ready(&mut cx) {
					Poll::Ready(Ok(())) => {}
					_ => return "?not-ready".into(),
				}
				let mut fut = svc.call(req);
				let status = match fut.as_mut().poll(&mut cx) {
					Poll::Ready(Ok(resp)) => resp.status().as_u16(),
					Poll::Ready(Err(_)) => return "?service-error".into(),
					Poll::Pending => return "?pending".into(),
				};
				out.push(format!("{} {}", status, ran.load(Ordering::SeqCst)));
			}
			out.join(";")
		}
		_ => "?unknown-kind".into(),
	}
}

fn main() {
	for_each_line_catch(handle);
}
