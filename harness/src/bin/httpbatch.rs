//! Engine `httpbatch` (C12-HTTP, HTTP part of C03/C09): the real `HttpClient` (`HttpClientBuilder`, public API
//! only) doing one `batch_request` against a scripted in-process HTTP server on 127.0.0.1:0.
//! One case per line (same protocol as modelrun/httpbatch_driver.ml):
//!     <idkind:n|s> <pre> <n> <item> <item> ...
//! A fresh client (ids Number / String) per case, URL path `/c<case number>`; one server for the process whose
//! script is replaced before each case.  If pre > 0 a preliminary, correctly
//! answered batch of `pre` entries ("pre0".. no params) moves the id counter to `pre`.  Then THE batch of n
//! entries ("m0".."m{n-1}", no params, R = Box<RawValue>) is made (ids pre .. pre+n); the server answers it
//! with the array of the items, in this order:
//!     <idspec>:<payload>   idspec  = p<k>  the id of request position k exactly as the client wrote it
//!                                          (k >= n: pre+k in the client's id kind)
//!                                  | n<dec> the number <dec> verbatim | s<hex|-> the string <hex> | z  null
//!                          payload = r<hex>  "result":<raw JSON text>
//!                                  | e<code>:<msghex|->:<datahex|->   "error":{code,message[,data]}
//!     x<hex>               an array element given verbatim
//!     B<hex|->             (only item) the whole body given verbatim
//! Output:  batch:s=<num_successful_calls>/f=<num_failed_calls>:[<entry>,...]
//!              entry = ok:<rawhex> | call:<code>:<msghex>:<-|h<datahex>>
//!      or  err:parse | err:invalidid | err:notpending | err:occupied | err:timeout | err:transport
//!          | err:other:<hex of Debug>
//! Single-call mode:   single <idkind:n|s> <pre> <item>
//! same client and preliminary batch, then `request::<Box<RawValue>, _>("m0", rpc_params![])` (id = pre); the
//! server answers with the element text of the one item, not wrapped in an array (p0 = the id as sent, p<k> =
//! pre+k in the client's id kind; x<hex> and B<hex|-> both give the body verbatim).
//! Output:  ok:<rawhex> | call:<code>:<msghex>:<-|h<datahex>> | err:<class as above>
//! Both modes:  ?bad-line | ?pre-failed:<class> | ?client:<class> | ?timeout | PANIC <hex>
use jrv::*;
use jsonrpsee::core::client::{BatchResponse, ClientT, Error, IdKind};
use jsonrpsee::core::params::BatchRequestBuilder;
use jsonrpsee::http_client::HttpClientBuilder;
use jsonrpsee::rpc_params;
use jsonrpsee::types::InvalidRequestId;
use serde_json::value::RawValue;
use std::sync::{Arc, Mutex};
use std::time::Duration;
use tokio::io::{AsyncReadExt, AsyncWriteExt};
use tokio::net::{TcpListener, TcpStream};

const IO: Duration = Duration::from_secs(6);

enum Id {
	Pos(u64),
	Verbatim(Vec<u8>),
}
enum Payload {
	Result(Vec<u8>),
	Error(Vec<u8>),
}
enum Item {
	Resp(Id, Payload),
	Raw(Vec<u8>),
}
enum Script {
	Items(Vec<Item>),
	Body(Vec<u8>),
}
struct Case {
	single: bool,
	idstr: bool,
	pre: u64,
	n: u64,
	script: Script,
}

fn hx(s: &str) -> Option<Vec<u8>> {
	(s == "-" || (s.len() % 2 == 0 && s.bytes().all(|c| c.is_ascii_hexdigit()))).then(|| unhex(s))
}
fn json_str(b: Vec<u8>) -> Option<Vec<u8>> {
	Some(serde_json::to_string(&String::from_utf8(b).ok()?).ok()?.into_bytes())
}
fn dec(s: &str, signed: bool) -> Option<&str> {
	let d = if signed { s.strip_prefix('-').unwrap_or(s) } else { s };
	(!d.is_empty() && d.bytes().all(|c| c.is_ascii_digit())).then_some(s)
}

fn parse_item(it: &str) -> Option<Item> {
	if let Some(h) = it.strip_prefix('x') {
		return Some(Item::Raw(hx(h)?));
	}
	let f: Vec<&str> = it.split(':').collect();
	let spec = f[0];
	let id = match spec.chars().next()? {
		'p' => Id::Pos(spec[1..].parse().ok()?),
		'n' => Id::Verbatim(dec(&spec[1..], false)?.as_bytes().to_vec()),
		's' => Id::Verbatim(json_str(hx(&spec[1..])?)?),
		'z' if spec == "z" => Id::Verbatim(b"null".to_vec()),
		_ => return None,
	};
	let payload = match f[1..] {
		[r] if r.starts_with('r') => Payload::Result(hx(&r[1..])?),
		[c, m, d] if c.starts_with('e') => {
			let mut o = format!("{{\"code\":{},\"message\":", dec(&c[1..], true)?).into_bytes();
			o.extend(json_str(hx(m)?)?);
			if d != "-" {
				o.extend(b",\"data\":");
				o.extend(hx(d)?);
			}
			o.push(b'}');
			Payload::Error(o)
		}
		_ => return None,
	};
	Some(Item::Resp(id, payload))
}

fn parse_case(line: &str) -> Option<Case> {
	let mut t: Vec<&str> = line.split_whitespace().collect();
	let single = t.first() == Some(&"single");
	if single {
		// `single <kind> <pre> <item>` is handled as `<kind> <pre> 1 <item>` with an unwrapped answer
		if t.len() != 4 {
			return None;
		}
		t.remove(0);
		t.insert(2, "1");
	}
	if t.len() < 3 || !(t[0] == "n" || t[0] == "s") {
		return None;
	}
	let (pre, n): (u64, u64) = (t[1].parse().ok()?, t[2].parse().ok()?);
	if n == 0 || n > 10_000 || pre > 10_000 {
		return None;
	}
	let script = match t[3..] {
		[b] if b.starts_with('B') => Script::Body(hx(&b[1..])?),
		ref items => Script::Items(items.iter().map(|it| parse_item(it)).collect::<Option<Vec<_>>>()?),
	};
	Some(Case { single, idstr: t[0] == "s", pre, n, script })
}

#[derive(serde::Deserialize)]
struct ReqEntry {
	id: Box<RawValue>,
}

/// The HTTP body answering request number `seq` (0-based) of the case, whose body is `req`.
fn reply(case: &Case, seq: usize, req: &[u8]) -> Option<Vec<u8>> {
	let is_pre = case.pre > 0 && seq == 0;
	let wrap = is_pre || !case.single;
	let ids: Vec<Box<RawValue>> = if wrap {
		serde_json::from_slice::<Vec<ReqEntry>>(req).ok()?.into_iter().map(|e| e.id).collect()
	} else {
		vec![serde_json::from_slice::<ReqEntry>(req).ok()?.id]
	};
	let mut out = if wrap { vec![b'['] } else { Vec::new() };
	let sep = |out: &mut Vec<u8>, i: usize| {
		if i > 0 {
			out.push(b',')
		}
	};
	if is_pre {
		for (i, id) in ids.iter().enumerate() {
			sep(&mut out, i);
			out.extend(format!("{{\"jsonrpc\":\"2.0\",\"id\":{},\"result\":0}}", id.get()).bytes());
		}
	} else {
		let items = match &case.script {
			Script::Body(b) => return Some(b.clone()),
			Script::Items(items) => items,
		};
		for (i, it) in items.iter().enumerate() {
			sep(&mut out, i);
			match it {
				Item::Raw(b) => out.extend(b),
				Item::Resp(id, payload) => {
					out.extend(b"{\"jsonrpc\":\"2.0\",\"id\":");
					match id {
						Id::Pos(k) if (*k as usize) < ids.len() => out.extend(ids[*k as usize].get().bytes()),
						Id::Pos(k) if case.idstr => out.extend(format!("\"{}\"", case.pre + k).bytes()),
						Id::Pos(k) => out.extend(format!("{}", case.pre + k).bytes()),
						Id::Verbatim(b) => out.extend(b),
					}
					match payload {
						Payload::Result(b) => out.extend(b",\"result\":".iter().chain(b)),
						Payload::Error(b) => out.extend(b",\"error\":".iter().chain(b)),
					}
					out.push(b'}');
				}
			}
		}
	}
	if wrap {
		out.push(b']');
	}
	Some(out)
}

/// The script of the case in progress: (case number, case, number of requests answered so far).
type Shared = Arc<Mutex<(u64, Option<Arc<Case>>, usize)>>;

/// Keep-alive loop on one connection: request head, Content-Length body, scripted answer.  The script is looked
/// up when a request is complete, and only a request whose path is `/c<case number>` of the case in progress is
/// served from it (anything else, e.g. a straggler of an earlier case, gets a 500 and does not count).
async fn serve_conn(mut sock: TcpStream, shared: Shared) -> Option<()> {
	let mut buf: Vec<u8> = Vec::new();
	let mut chunk = [0u8; 8192];
	loop {
		let head_end = loop {
			if let Some(p) = buf.windows(4).position(|w| w == b"\r\n\r\n") {
				break p + 4;
			}
			let k = tokio::time::timeout(IO, sock.read(&mut chunk)).await.ok()?.ok()?;
			if k == 0 {
				return None;
			}
			buf.extend_from_slice(&chunk[..k]);
		};
		let head = String::from_utf8_lossy(&buf[..head_end]).to_ascii_lowercase();
		let len: usize = head.lines().find_map(|l| l.strip_prefix("content-length:"))?.trim().parse().ok()?;
		while buf.len() < head_end + len {
			let k = tokio::time::timeout(IO, sock.read(&mut chunk)).await.ok()?.ok()?;
			if k == 0 {
				return None;
			}
			buf.extend_from_slice(&chunk[..k]);
		}
		let path_no: Option<u64> = head.split_whitespace().nth(1).and_then(|p| p.strip_prefix("/c")?.parse().ok());
		let cur = {
			let mut g = shared.lock().unwrap_or_else(|e| e.into_inner());
			match (path_no, g.1.clone()) {
				(Some(no), Some(case)) if no == g.0 => {
					g.2 += 1;
					Some((case, g.2 - 1))
				}
				_ => None,
			}
		};
		let body = cur.and_then(|(case, seq)| reply(&case, seq, &buf[head_end..head_end + len]));
		let mut resp = match &body {
			Some(b) => format!("HTTP/1.1 200 OK\r\ncontent-type: application/json\r\ncontent-length: {}\r\n\r\n", b.len()),
			None => "HTTP/1.1 500 Internal Server Error\r\ncontent-length: 0\r\n\r\n".to_string(),
		}
		.into_bytes();
		resp.extend(body.unwrap_or_default());
		tokio::time::timeout(IO, sock.write_all(&resp)).await.ok()?.ok()?;
		buf.drain(..head_end + len);
	}
}

/// One listener and one accept loop for the whole process; accept errors are retried.
async fn start_server(shared: Shared) -> Option<std::net::SocketAddr> {
	for _ in 0..100 {
		if let Ok(listener) = TcpListener::bind("127.0.0.1:0").await {
			if let Ok(addr) = listener.local_addr() {
				tokio::spawn(async move {
					loop {
						match listener.accept().await {
							Ok((sock, _)) => drop(tokio::spawn(serve_conn(sock, shared.clone()))),
							Err(_) => tokio::time::sleep(Duration::from_millis(5)).await,
						}
					}
				});
				return Some(addr);
			}
		}
		tokio::time::sleep(Duration::from_millis(50)).await;
	}
	None
}

fn call_s(e: &jsonrpsee::types::ErrorObject<'_>) -> String {
	format!("call:{}:{}:{}", e.code(), hex(e.message().as_bytes()), opt_hex(e.data().map(|d| d.get().as_bytes())))
}

fn err_class(e: &Error) -> String {
	match e {
		Error::ParseError(_) => "parse".into(),
		Error::InvalidRequestId(InvalidRequestId::Invalid(_)) => "invalidid".into(),
		Error::InvalidRequestId(InvalidRequestId::NotPendingRequest(_)) => "notpending".into(),
		Error::InvalidRequestId(InvalidRequestId::Occupied(_)) => "occupied".into(),
		Error::RequestTimeout => "timeout".into(),
		Error::Transport(_) => "transport".into(),
		other => format!("other:{}", hex(format!("{other:?}").as_bytes())),
	}
}

async fn batch(client: &impl ClientT, prefix: &str, n: u64) -> Result<(usize, usize, Vec<String>), Error> {
	let methods: Vec<String> = (0..n).map(|i| format!("{prefix}{i}")).collect();
	let mut b = BatchRequestBuilder::new();
	for m in methods.iter() {
		b.insert(m.as_str(), rpc_params![]).unwrap();
	}
	let br: BatchResponse<Box<RawValue>> = client.batch_request(b).await?;
	let (ok, failed) = (br.num_successful_calls(), br.num_failed_calls());
	let entries = br
		.into_iter()
		.map(|e| match e {
			Ok(v) => format!("ok:{}", hex(v.get().as_bytes())),
			Err(e) => call_s(&e),
		})
		.collect();
	Ok((ok, failed, entries))
}

async fn run_case(line: &str, addr: std::net::SocketAddr, shared: &Shared) -> String {
	let case = match parse_case(line) {
		Some(c) => Arc::new(c),
		None => return "?bad-line".into(),
	};
	let no = {
		let mut g = shared.lock().unwrap_or_else(|e| e.into_inner());
		*g = (g.0 + 1, Some(case.clone()), 0);
		g.0
	};
	let client = match HttpClientBuilder::new()
		.request_timeout(Duration::from_secs(5))
		.id_format(if case.idstr { IdKind::String } else { IdKind::Number })
		.build(format!("http://{addr}/c{no}"))
	{
		Ok(c) => c,
		Err(e) => return format!("?client:{}", err_class(&e)),
	};
	if case.pre > 0 {
		match batch(&client, "pre", case.pre).await {
			Ok((ok, 0, _)) if ok as u64 == case.pre => {}
			Ok(_) => return "?pre-failed:wrong-answer".to_string(),
			Err(e) => return format!("?pre-failed:{}", err_class(&e)),
		}
	}
	if case.single {
		return match client.request::<Box<RawValue>, _>("m0", rpc_params![]).await {
			Ok(v) => format!("ok:{}", hex(v.get().as_bytes())),
			Err(Error::Call(e)) => call_s(&e),
			Err(e) => format!("err:{}", err_class(&e)),
		};
	}
	match batch(&client, "m", case.n).await {
		Ok((ok, failed, entries)) => format!("batch:s={}/f={}:[{}]", ok, failed, entries.join(",")),
		Err(e) => format!("err:{}", err_class(&e)),
	}
}

fn main() {
	let rt = tokio::runtime::Builder::new_multi_thread().worker_threads(2).enable_all().build().unwrap();
	std::panic::set_hook(Box::new(|_| {}));
	let shared: Shared = Arc::new(Mutex::new((0, None, 0)));
	let Some(addr) = rt.block_on(start_server(shared.clone())) else {
		eprintln!("httpbatch: cannot bind a listener on 127.0.0.1");
		std::process::exit(2);
	};
	for_each_line(|l| {
		let r = std::panic::catch_unwind(std::panic::AssertUnwindSafe(|| {
			rt.block_on(async {
				let r = tokio::time::timeout(Duration::from_secs(10), run_case(l, addr, &shared)).await;
				shared.lock().unwrap_or_else(|e| e.into_inner()).1 = None; // nothing is served between cases
				r.unwrap_or_else(|_| "?timeout".into())
			})
		}));
		r.unwrap_or_else(|e| {
			let msg = e.downcast_ref::<&str>().map(|s| s.to_string()).or_else(|| e.downcast_ref::<String>().cloned());
			format!("PANIC {}", hex(msg.unwrap_or_default().as_bytes()))
		})
	});
}
