//! Engine `httpgate` (C19): the real HTTP branch of the jsonrpsee tower service, driven without sockets
//! (`ServerBuilder::to_service_builder().build(methods, stop).call(request)`) with the request body given as
//! an explicit list of frames, plus a direct call of the public `read_body` on the same headers/frames.
//!
//! input line : `<method-hex> <max> <content-types> <content-lengths> <frames> [H]`   (H: the body reports its exact size as size hint)
//!              lists are comma separated, `-` is the empty list; a header value is hex (`e` = empty value);
//!              a frame is `d<hex>` (data frame, `d` = empty data frame) or `t` (trailers frame)
//! output line: `<status> <read_body> <response-body-hex|-> <handler-log|->`
//!              read_body = `ok:<1|0>:<hex>` | `toolarge` | `malformed` | `stream`
//!              handler-log = `;`-joined `<method>:<params-hex|->` in invocation order
use bytes::Bytes;
use http_body::Frame;
use http_body_util::BodyExt;
use jrv::*;
use jsonrpsee_core::http_helpers::{HttpError, read_body};
use jsonrpsee_server::{RpcModule, ServerConfig, ServerHandle, StopHandle, stop_channel};
use std::collections::VecDeque;
use std::pin::Pin;
use std::sync::{Arc, Mutex};
use std::task::{Context, Poll};
use tower::Service;

#[derive(Clone)]
enum F {
	Data(Vec<u8>),
	Trailers,
}

/// A request body that yields exactly the given frames, one per poll.  With `hint` it reports the exact total length of its
/// data frames as its size hint (what hyper's `Incoming` does for a request with a Content-Length, or a `Full` body).
struct FrameBody(VecDeque<F>, bool);

impl http_body::Body for FrameBody {
	type Data = Bytes;
	type Error = std::convert::Infallible;

	fn poll_frame(mut self: Pin<&mut Self>, _cx: &mut Context<'_>) -> Poll<Option<Result<Frame<Bytes>, Self::Error>>> {
		Poll::Ready(self.0.pop_front().map(|f| {
			Ok(match f {
				F::Data(d) => Frame::data(Bytes::from(d)),
				F::Trailers => Frame::trailers(http::HeaderMap::new()),
			})
		}))
	}

	fn size_hint(&self) -> http_body::SizeHint {
		if self.1 {
			let n: usize = self.0.iter().map(|f| if let F::Data(d) = f { d.len() } else { 0 }).sum();
			http_body::SizeHint::with_exact(n as u64)
		} else {
			http_body::SizeHint::default()
		}
	}
}

type Log = Arc<Mutex<Vec<String>>>;

fn module(log: Log) -> RpcModule<Log> {
	let mut m = RpcModule::new(log);
	let rec = |log: &Log, name: &str, p: &jsonrpsee_types::Params| {
		log.lock().unwrap().push(format!("{}:{}", name, opt_hex(p.as_str().map(|s| s.as_bytes()))));
	};
	m.register_method("say_hello", move |p, log, _| {
		rec(log, "say_hello", &p);
		"hello"
	})
	.unwrap();
	m.register_method("echo", move |p, log, _| {
		rec(log, "echo", &p);
		p.parse::<serde_json::Value>()
	})
	.unwrap();
	m.register_async_method("add", move |p, log, _| async move {
		rec(&log, "add", &p);
		let (a, b): (u64, u64) = p.parse()?;
		Ok::<u64, jsonrpsee_types::ErrorObjectOwned>(a.wrapping_add(b))
	})
	.unwrap();
	m.register_method("fail", move |p, log, _| {
		rec(log, "fail", &p);
		Err::<u8, _>(jsonrpsee_types::ErrorObjectOwned::owned(-32001, "failed", None::<()>))
	})
	.unwrap();
	m
}

fn list(s: &str) -> Vec<&str> {
	if s == "-" { Vec::new() } else { s.split(',').collect() }
}

fn hval(s: &str) -> Option<http::HeaderValue> {
	http::HeaderValue::from_bytes(&if s == "e" { Vec::new() } else { unhex(s) }).ok()
}

struct Engine {
	rt: tokio::runtime::Runtime,
	stop: StopHandle,
	_server: ServerHandle,
}

impl Engine {
	fn handle(&self, line: &str) -> String {
		let parts: Vec<&str> = line.split_whitespace().collect();
		let hinted = parts.len() == 6 && parts[5] == "H";
		if parts.len() != 5 && !hinted {
			return "?bad-line".into();
		}
		let Ok(method) = http::Method::from_bytes(&unhex(parts[0])) else { return "?bad-method".into() };
		let Ok(max) = parts[1].parse::<u32>() else { return "?bad-max".into() };
		let mut headers = http::HeaderMap::new();
		for v in list(parts[2]) {
			let Some(v) = hval(v) else { return "?bad-header".into() };
			headers.append(http::header::CONTENT_TYPE, v);
		}
		for v in list(parts[3]) {
			let Some(v) = hval(v) else { return "?bad-header".into() };
			headers.append(http::header::CONTENT_LENGTH, v);
		}
		let mut frames = VecDeque::new();
		for f in list(parts[4]) {
			match f.as_bytes().first() {
				Some(b'd') => frames.push_back(F::Data(unhex(&f[1..]))),
				Some(b't') if f.len() == 1 => frames.push_back(F::Trailers),
				_ => return "?bad-frame".into(),
			}
		}

		// (a) the public read_body on the same headers and frames
		let rb = match self.rt.block_on(read_body(&headers, FrameBody(frames.clone(), hinted), max)) {
			Ok((b, single)) => format!("ok:{}:{}", if single { 1 } else { 0 }, hex(&b)),
			Err(HttpError::TooLarge) => "toolarge".into(),
			Err(HttpError::Malformed) => "malformed".into(),
			Err(HttpError::Stream(_)) => "stream".into(),
		};

		// (b) the whole service
		let log: Log = Arc::new(Mutex::new(Vec::new()));
		let cfg = ServerConfig::builder().max_request_body_size(max).build();
		let mut svc = jsonrpsee_server::Server::builder().set_config(cfg).to_service_builder().build(module(log.clone()), self.stop.clone());
		let mut req = http::Request::new(FrameBody(frames, hinted));
		*req.method_mut() = method;
		*req.uri_mut() = "/".parse().unwrap();
		*req.headers_mut() = headers;
		let (status, body) = self.rt.block_on(async move {
			let rp = svc.call(req).await.expect("service is infallible");
			let status = rp.status().as_u16();
			let body = rp.into_body().collect().await.map(|c| c.to_bytes().to_vec()).unwrap_or_else(|_| b"?body-error".to_vec());
			(status, body)
		});
		let log = log.lock().unwrap();
		format!(
			"{} {} {} {}",
			status,
			rb,
			if body.is_empty() { "-".to_string() } else { hex(&body) },
			if log.is_empty() { "-".to_string() } else { log.join(";") }
		)
	}
}

fn main() {
	let rt = tokio::runtime::Builder::new_current_thread().enable_time().build().unwrap();
	let (stop, server) = stop_channel();
	let e = Engine { rt, stop, _server: server };
	let e = std::panic::AssertUnwindSafe(e);
	for_each_line_catch(move |l| e.handle(l));
}
