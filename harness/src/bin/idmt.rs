//! Engine `idmt` (C12, C03): REAL thread-level concurrency on the client's request-id allocator
//! (`jsonrpsee_core::client::RequestIdManager`, shared by the async/WebSocket client and the HTTP client).
//!
//! This is a STRESS TEST in support of the search for a concrete failing schedule (the interleavings that occur are
//! whatever the OS scheduler produces; nothing is enumerated).  Its Coq counterpart is the all-zero line that follows from
//! theorem C12_id_ranges_disjoint_under_interleaving (Props/C12.v): for every thread-level schedule the ranges handed
//! out are pairwise disjoint and the counter ends at start + total.
//!
//! Mode 1, the allocator alone.  Input line  `<threads> <reservations per thread> <max batch len> <seed>`
//!   One `RequestIdManager` (IdKind::Number for an even seed, IdKind::String for an odd one).  The counter is probed with
//!   one `next_request_id()`; then `threads` OS threads, released by ONE barrier (an OS barrier followed by a spin barrier, so
//!   that all of them are running when the first one starts), each PINNED to its own CPU (round robin over the CPUs the process
//!   may use; on a quiet machine the scheduler may otherwise keep all of them on one CPU and nothing runs in parallel), each perform `reservations` reservations
//!   chosen at random: a single id (`next_request_id`, 1 in 3) or a batch range (`next_batch_id_range(len)`, len in
//!   1..=max); now and then a thread yields or spins a little so that the preemption points move.  All threads are joined
//!   (bounded: the work is finite and lock-free), the counter is probed again.  Facts:
//!     overlaps  number of handed-out ranges that share an id with an earlier one (after sorting by start)
//!     lost      (counter advance between the probes) - (ids handed out)          [signed]
//!     panics    threads that panicked
//!     errors    reservations that returned Err, ranges whose length is not the requested one, ids that are not numbers
//!   Output: `overlaps=<n> lost=<n> panics=<n> errors=<n> ; reservations=<n> ids=<n> first=<id> cpus=<n> pinned=<threads pinned> ms=<n>`
//!
//! Mode 2, the REAL async client.  Input line  `client <rounds> <seed>`
//!   A multi-thread tokio runtime (4 workers).  Per round: a fresh `Client` (`ClientBuilder::build_with_tokio`) over an
//!   in-memory transport (two unbounded channels); two OS threads (pinned to two different CPUs), released together by a spin barrier placed inside the
//!   future right in front of the call, each `block_on(async { barrier; client.batch_request(..).await })`: batch A with n entries `a0..`, batch B with n-1 entries `b0..` (n in 2..=5
//!   from the seed and the round).  The scripted peer waits for both batches (bounded), answers the LONGER one first and
//!   SHORT - the answer to its last entry is left out -, then the other one in full (one round in four both are answered
//!   in full: control rounds in which both calls succeed); the answer to an entry is the name of its method under the id
//!   of the entry, and every reply lists its entries in reverse order.  With disjoint id ranges the short reply is nobody's and the calls fail;
//!   with overlapping ranges its id span can be exactly the other batch's key.  Facts:
//!     foreign_answers  entries of an Ok batch result whose value is not the name of the entry's own method
//!     wire_overlaps    rounds in which the two batches, as the peer received them, share a request id
//!     wrong_len        Ok results whose length is not the number of entries asked for, or whose counts do not add up
//!     panics           caller threads that panicked
//!     timeouts         calls that ended with RequestTimeout / rounds in which the peer did not see both batches
//!   Output: `foreign_answers=<n> wire_overlaps=<n> wrong_len=<n> panics=<n> timeouts=<n> ; rounds=<n> ok=<n> failed=<n> ms=<n>`
use std::sync::atomic::{AtomicUsize, Ordering};
use std::sync::{Arc, Barrier};
use std::time::{Duration, Instant};

use jrv::*;
use jsonrpsee_core::client::{
	BatchResponse, ClientBuilder, ClientT, Error, IdKind, ReceivedMessage, RequestIdManager, TransportReceiverT, TransportSenderT,
};
use jsonrpsee_core::params::BatchRequestBuilder;
use jsonrpsee_types::Id;
use tokio::sync::mpsc;

/// xorshift64*: the only randomness of the engine, seeded from the case
struct Rng(u64);
impl Rng {
	fn next(&mut self) -> u64 {
		let mut x = self.0;
		x ^= x >> 12;
		x ^= x << 25;
		x ^= x >> 27;
		self.0 = x;
		x.wrapping_mul(0x2545F4914F6CDD1D)
	}
	fn below(&mut self, n: u64) -> u64 {
		if n == 0 { 0 } else { self.next() % n }
	}
}

// Threads are PINNED to distinct CPUs (round robin over the CPUs this process may use): on a quiet machine the scheduler may
// keep freshly spawned short-lived threads on the CPU of their parent, and then nothing runs in parallel at all.
unsafe extern "C" {
	fn sched_getaffinity(pid: i32, cpusetsize: usize, mask: *mut u64) -> i32;
	fn sched_setaffinity(pid: i32, cpusetsize: usize, mask: *const u64) -> i32;
}

fn allowed_cpus() -> Vec<usize> {
	let mut mask = [0u64; 16];
	if unsafe { sched_getaffinity(0, 128, mask.as_mut_ptr()) } != 0 {
		return Vec::new();
	}
	(0..1024).filter(|i| (mask[i / 64] >> (i % 64)) & 1 == 1).collect()
}

/// pins the calling thread; false when the kernel refused (the thread then runs wherever the scheduler puts it)
fn pin_to(cpus: &[usize], k: usize) -> bool {
	if cpus.is_empty() {
		return false;
	}
	let cpu = cpus[k % cpus.len()];
	let mut mask = [0u64; 16];
	mask[cpu / 64] |= 1u64 << (cpu % 64);
	unsafe { sched_setaffinity(0, 128, mask.as_ptr()) == 0 }
}

fn id_number(id: &Id<'_>) -> Option<u64> {
	match id {
		Id::Number(n) => Some(*n),
		Id::Str(s) => s.parse::<u64>().ok(),
		Id::Null => None,
	}
}

// ------------------------------------------------------------------------------------------------ mode 1
fn run_alloc(threads: usize, per_thread: usize, max_len: u64, seed: u64) -> String {
	let t0 = Instant::now();
	let kind = if seed % 2 == 0 { IdKind::Number } else { IdKind::String };
	let manager = Arc::new(RequestIdManager::new(kind));
	let mut errors: u64 = 0;
	let first = match id_number(&manager.next_request_id()) {
		Some(v) => v,
		None => {
			errors += 1;
			0
		}
	};
	let barrier = Arc::new(Barrier::new(threads));
	let spinning = Arc::new(AtomicUsize::new(0));
	let mut handles = Vec::new();
	let mut seeder = Rng(seed.wrapping_mul(0x9E3779B97F4A7C15) | 1);
	let cpus = Arc::new(allowed_cpus());
	let pinned = Arc::new(AtomicUsize::new(0));
	for k in 0..threads {
		let manager = manager.clone();
		let barrier = barrier.clone();
		let spinning = spinning.clone();
		let cpus = cpus.clone();
		let pinned = pinned.clone();
		let mut rng = Rng(seeder.next() | 1);
		handles.push(std::thread::spawn(move || {
			if pin_to(&cpus, k) {
				pinned.fetch_add(1, Ordering::SeqCst);
			}
			let mut got: Vec<(u64, u64)> = Vec::with_capacity(per_thread);
			let mut errs = 0u64;
			// released together: the OS barrier first (all threads exist), then a spin barrier (all threads are RUNNING: a thread
			// woken from a futex may start later than the others need for their whole work)
			barrier.wait();
			spinning.fetch_add(1, Ordering::SeqCst);
			let t = Instant::now();
			let mut spins = 0u32;
			while spinning.load(Ordering::SeqCst) < threads && t.elapsed() < Duration::from_secs(5) {
				spins += 1;
				if spins % 4096 == 0 {
					std::thread::yield_now(); // more threads than cores: let the others arrive
				} else {
					std::hint::spin_loop();
				}
			}
			for _ in 0..per_thread {
				let r = rng.next();
				if r % 3 == 0 {
					match id_number(&manager.next_request_id()) {
						Some(v) => got.push((v, v + 1)),
						None => errs += 1,
					}
				} else {
					let len = 1 + (r >> 8) % max_len;
					match manager.next_batch_id_range(len) {
						Ok(rg) => {
							if rg.end.wrapping_sub(rg.start) != len {
								errs += 1;
							}
							got.push((rg.start, rg.end));
						}
						Err(_) => errs += 1,
					}
				}
				match (r >> 40) % 4096 {
					0 => std::thread::yield_now(),
					1 => {
						let t = Instant::now();
						let d = Duration::from_nanos(200 + (r >> 50) % 2000);
						while t.elapsed() < d {
							std::hint::spin_loop();
						}
					}
					_ => {}
				}
			}
			(got, errs)
		}));
	}
	let mut all: Vec<(u64, u64)> = Vec::with_capacity(threads * per_thread);
	let mut panics = 0u64;
	for h in handles {
		match h.join() {
			Ok((got, errs)) => {
				errors += errs;
				all.extend(got);
			}
			Err(_) => panics += 1,
		}
	}
	let last = match id_number(&manager.next_request_id()) {
		Some(v) => v,
		None => {
			errors += 1;
			0
		}
	};
	let ids: u128 = all.iter().map(|(lo, hi)| hi.wrapping_sub(*lo) as u128).sum();
	// the two probes took one id each; the first probe's id is `first`, so the threads' ids lie in first+1 .. last
	let advance = last as i128 - first as i128 - 1;
	let lost = advance - ids as i128;
	let reservations = all.len();
	// the two probes are reservations as well
	all.push((first, first + 1));
	all.push((last, last + 1));
	all.sort_unstable();
	let mut overlaps = 0u64;
	let mut reach = 0u64; // greatest end seen so far
	for (i, (lo, hi)) in all.iter().enumerate() {
		if i > 0 && *lo < reach {
			overlaps += 1;
		}
		reach = reach.max(*hi);
	}
	format!(
		"overlaps={} lost={} panics={} errors={} ; reservations={} ids={} first={} cpus={} pinned={} ms={}",
		overlaps,
		lost,
		panics,
		errors,
		reservations,
		ids,
		first,
		cpus.len(),
		pinned.load(Ordering::SeqCst),
		t0.elapsed().as_millis()
	)
}

// ------------------------------------------------------------------------------------------------ mode 2
struct MemSender(mpsc::UnboundedSender<String>);
struct MemReceiver(mpsc::UnboundedReceiver<String>);

impl TransportSenderT for MemSender {
	type Error = std::io::Error;
	fn send(&mut self, msg: String) -> impl Future<Output = Result<(), Self::Error>> + Send {
		let res = self.0.send(msg).map_err(|_| std::io::Error::other("peer gone"));
		async move { res }
	}
}

impl TransportReceiverT for MemReceiver {
	type Error = std::io::Error;
	fn receive(&mut self) -> impl Future<Output = Result<ReceivedMessage, Self::Error>> + Send {
		async move {
			match self.0.recv().await {
				Some(msg) => Ok(ReceivedMessage::Text(msg)),
				None => Err(std::io::Error::other("peer gone")),
			}
		}
	}
}

const PEER_WAIT: Duration = Duration::from_secs(5);
const CALL_WAIT: Duration = Duration::from_secs(10);

/// Waits for the two batches of the round, answers the longer one first and short, the other one in full.
/// Returns false when it did not see both batches in time.
async fn peer(
	mut from_client: mpsc::UnboundedReceiver<String>,
	to_client: mpsc::UnboundedSender<String>,
	seen: Arc<AtomicUsize>,
	wire_overlap: Arc<AtomicUsize>,
	short: bool,
) {
	let mut batches: Vec<Vec<serde_json::Value>> = Vec::new();
	while batches.len() < 2 {
		match tokio::time::timeout(PEER_WAIT, from_client.recv()).await {
			Ok(Some(raw)) => match serde_json::from_str::<Vec<serde_json::Value>>(&raw) {
				Ok(b) => batches.push(b),
				Err(_) => break,
			},
			_ => break,
		}
	}
	// ids of requests in flight must be pairwise distinct: do the two batches share an id on the wire?
	if batches.len() == 2 {
		let ids0: Vec<String> = batches[0].iter().map(|r| r["id"].to_string()).collect();
		if batches[1].iter().any(|r| ids0.contains(&r["id"].to_string())) {
			wire_overlap.fetch_add(1, Ordering::SeqCst);
		}
	}
	seen.store(batches.len(), Ordering::SeqCst);
	batches.sort_by_key(|b| std::cmp::Reverse(b.len()));
	for (k, batch) in batches.iter().enumerate() {
		let answered = if short && k == 0 && batch.len() > 1 { &batch[..batch.len() - 1] } else { &batch[..] };
		// entries in reverse order: the client has to restore the positions from the ids
		let reply: Vec<serde_json::Value> = answered
			.iter()
			.rev()
			.map(|req| serde_json::json!({ "jsonrpc": "2.0", "id": req["id"].clone(), "result": req["method"].clone() }))
			.collect();
		if to_client.send(serde_json::to_string(&reply).unwrap_or_default()).is_err() {
			break;
		}
	}
	// keep the connection open until the client is done with it
	while from_client.recv().await.is_some() {}
}

#[derive(Default)]
struct CFacts {
	foreign: u64,
	wrong_len: u64,
	panics: u64,
	timeouts: u64,
	ok: u64,
	failed: u64,
	rounds: u64,
}

fn judge(methods: &[String], res: Result<BatchResponse<'_, String>, Error>, f: &mut CFacts) {
	match res {
		Err(Error::RequestTimeout) => f.timeouts += 1,
		Err(_) => f.failed += 1, // "the whole call fails"
		Ok(rp) => {
			f.ok += 1;
			let oks = rp.iter().filter(|e| e.is_ok()).count();
			if rp.len() != methods.len() || rp.num_successful_calls() != oks || rp.num_failed_calls() != rp.len() - oks {
				f.wrong_len += 1;
			}
			for (entry, method) in rp.iter().zip(methods) {
				// an entry reported as an error is fine; a value must be the answer to this very entry
				if let Ok(value) = entry {
					if value != method {
						f.foreign += 1;
					}
				}
			}
		}
	}
}

fn run_client(rounds: usize, seed: u64) -> String {
	let t0 = Instant::now();
	let mut f = CFacts::default();
	let rt = match tokio::runtime::Builder::new_multi_thread().worker_threads(4).enable_all().build() {
		Ok(rt) => rt,
		Err(_) => return "fatal=runtime".into(),
	};
	let mut rng = Rng(seed.wrapping_mul(0x9E3779B97F4A7C15) | 1);
	let wire_overlap = Arc::new(AtomicUsize::new(0));
	let cpus = allowed_cpus();
	for round in 0..rounds {
		let n = 2 + rng.below(4) as usize; // batch A: n entries, batch B: n-1
		let a: Vec<String> = (0..n).map(|i| format!("a{i}")).collect();
		let b: Vec<String> = (0..n - 1).map(|i| format!("b{i}")).collect();
		let (to_peer, from_client) = mpsc::unbounded_channel();
		let (to_client, from_peer) = mpsc::unbounded_channel();
		let client = {
			let _guard = rt.enter();
			Arc::new(ClientBuilder::default().request_timeout(CALL_WAIT).build_with_tokio(MemSender(to_peer), MemReceiver(from_peer)))
		};
		let seen = Arc::new(AtomicUsize::new(0));
		let short = rng.below(4) != 0; // one round in four is answered in full (both calls must then succeed, positions restored)
		let server = rt.spawn(peer(from_client, to_client, seen.clone(), wire_overlap.clone(), short));
		let ready = AtomicUsize::new(0);
		// mostly no skew, sometimes a few tens of nanoseconds one way or the other
		let delay_a = if rng.below(4) == 0 { rng.below(200) } else { 0 };
		let delay_b = if rng.below(4) == 0 { rng.below(200) } else { 0 };
		let call = |methods: &[String], delay: u64, k: usize| {
			let cpus = &cpus;
			let client = client.clone();
			let ready = &ready;
			let handle = rt.handle().clone();
			let methods: Vec<String> = methods.to_vec();
			move || {
				pin_to(cpus, k);
				let mut batch = BatchRequestBuilder::new();
				for m in &methods {
					let _ = batch.insert(m.as_str(), jsonrpsee_core::rpc_params![]);
				}
				// the barrier is INSIDE the future, in the same poll that then enters batch_request: the two callers reach the id
				// reservation within nanoseconds of each other (block_on polls on this OS thread, so spinning here is harmless)
				let fut = async {
					ready.fetch_add(1, Ordering::SeqCst);
					let t = Instant::now();
					let mut spins = 0u32;
					while ready.load(Ordering::SeqCst) < 2 && t.elapsed() < PEER_WAIT {
						spins += 1;
						if spins % 2048 == 0 {
							std::thread::yield_now(); // the other caller may not have a core yet
						} else {
							std::hint::spin_loop();
						}
					}
					let t = Instant::now();
					while (t.elapsed().as_nanos() as u64) < delay {
						std::hint::spin_loop();
					}
					client.batch_request::<String>(batch).await
				};
				let res = handle.block_on(fut);
				let mut d = CFacts::default();
				judge(&methods, res, &mut d);
				d
			}
		};
		let (ra, rb) = std::thread::scope(|s| {
			let ha = s.spawn(call(&a, delay_a, 2 * round));
			let hb = s.spawn(call(&b, delay_b, 2 * round + 1));
			(ha.join(), hb.join())
		});
		for r in [ra, rb] {
			match r {
				Ok(d) => {
					f.foreign += d.foreign;
					f.wrong_len += d.wrong_len;
					f.timeouts += d.timeouts;
					f.ok += d.ok;
					f.failed += d.failed;
				}
				Err(_) => f.panics += 1,
			}
		}
		if seen.load(Ordering::SeqCst) < 2 {
			f.timeouts += 1;
		}
		drop(client);
		server.abort();
		f.rounds += 1;
		if f.timeouts > 3 {
			break; // something is stuck: do not spend rounds x 10 s
		}
	}
	rt.shutdown_timeout(Duration::from_secs(5));
	format!(
		"foreign_answers={} wire_overlaps={} wrong_len={} panics={} timeouts={} ; rounds={} ok={} failed={} ms={}",
		f.foreign,
		wire_overlap.load(Ordering::SeqCst),
		f.wrong_len,
		f.panics,
		f.timeouts,
		f.rounds,
		f.ok,
		f.failed,
		t0.elapsed().as_millis()
	)
}

fn handle_line(line: &str) -> String {
	let toks: Vec<&str> = line.split_whitespace().collect();
	if toks.first() == Some(&"client") {
		let p: Vec<u64> = toks[1..].iter().filter_map(|t| t.parse::<u64>().ok()).collect();
		if p.len() != 2 || p[0] == 0 || p[0] > 1_000_000 {
			return "fatal=bad-case".into();
		}
		return match std::panic::catch_unwind(|| run_client(p[0] as usize, p[1])) {
			Ok(s) => s,
			Err(_) => "foreign_answers=0 wire_overlaps=0 wrong_len=0 panics=1 timeouts=0 ; engine-panic".into(),
		};
	}
	let p: Vec<u64> = toks.iter().filter_map(|t| t.parse::<u64>().ok()).collect();
	if p.len() != 4 || toks.len() != 4 || p[0] == 0 || p[0] > 256 || p[1] == 0 || p[1] > 50_000_000 || p[2] == 0 || p[2] > 1 << 32 {
		return "fatal=bad-case".into();
	}
	match std::panic::catch_unwind(|| run_alloc(p[0] as usize, p[1] as usize, p[2], p[3])) {
		Ok(s) => s,
		Err(_) => "overlaps=0 lost=0 panics=1 errors=0 ; engine-panic".into(),
	}
}

fn main() {
	std::panic::set_hook(Box::new(|_| {}));
	for_each_line(|l| handle_line(l));
	std::process::exit(0);
}
