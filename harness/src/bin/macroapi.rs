//! Engine `macroapi` (C17): a fixed family of `#[rpc(client, server, ..)]` traits, RECORDING server impls, and the
//! real async client (`ClientBuilder::build_with_tokio`) connected to the generated server's `RpcModule` through an
//! in-process transport (every frame the client sends is handed to `Methods::raw_json_request`, the answer and the
//! subscription notifications are handed back as received frames).
//!
//! The text between `// TYPES-BEGIN` / `// TYPES-END` and `// FAMILY-BEGIN` / `// FAMILY-END` is ALSO read by
//! tools/translators/macroapi.py, which derives the API descriptions the Coq model and the Python generator work with
//! (keep the plain one-item-per-line style there).
//!
//! One case per line:
//!   stub <api> <m|s><idx> <hex(JSON array of the argument values)> <outcome> - <ret>
//!        call the generated client stub with these (typed) arguments
//!   raw  <api> <hex method name> <hex params text | -> <outcome> <hex unsubscribe method name | -> <ret>
//!        hand `{"jsonrpc":"2.0","id":1,"method":..,"params":..}` to the module directly (omitted / null optionals,
//!        aliases, by-name calls with alias keys, malformed calls); for a subscription the items are read from the
//!        returned receiver and the given unsubscribe method is called with the subscription id
//!   outcome = ok | err:<code>:<hex message>:<hex data JSON | ->      what the server method is told to answer
//!   ret = ignored here (the model driver is told what the recording method returns; here the method computes it)
//! Output: `w:<hex method>:<hex params|-> h:<handler|-> a:<hex JSON array received|-> c:<client side>` with
//!   c:ok:<hex JSON> | c:err:<code>:<hex message>:<hex data|-> | c:notif | c:fail:<hex text>
//!   c:sub:<hex notification method|->:<hex JSON array of items>:u:<hex unsubscribe method>:<r:<hex result JSON>|e:<code>>
#![allow(non_snake_case)]
use jrv::*;
use jsonrpsee::core::client::{
	ClientBuilder, Error, ReceivedMessage, Subscription, TransportReceiverT, TransportSenderT,
};
use jsonrpsee::core::server::Methods;
use jsonrpsee::core::{RpcResult, SubscriptionResult, async_trait};
use jsonrpsee::proc_macros::rpc;
use jsonrpsee::types::{ErrorObject, ErrorObjectOwned};
use jsonrpsee::{PendingSubscriptionSink, SubscriptionMessage};
use serde::de::DeserializeOwned;
use serde::{Deserialize, Serialize};
use serde_json::Value;
use serde_json::value::RawValue;
use std::collections::BTreeMap;
use futures_util::FutureExt;
use std::future::Future;
use std::io::{BufRead, Write};
use std::option;
use std::sync::{Arc, Mutex};
use std::time::Duration;
use tokio::sync::mpsc;

// TYPES-BEGIN
#[derive(Serialize, Deserialize, Clone, Debug, PartialEq)]
pub struct Inner {
	pub flag: bool,
	pub w: u16,
	pub m: BTreeMap<String, u64>,
}

#[derive(Serialize, Deserialize, Clone, Debug, PartialEq)]
pub struct Point {
	pub x: i64,
	pub y: u32,
	pub label: String,
	pub tags: Vec<String>,
	pub inner: Option<Inner>,
}

#[derive(Serialize, Deserialize, Clone, Debug, PartialEq)]
pub enum Shape {
	Unit,
	Circle(u32),
	Rect { w: u32, h: u8 },
	Pair(i64, String),
	Wrap(Inner),
}

#[derive(Serialize, Deserialize, Clone, Debug, PartialEq)]
pub struct Echo3 {
	pub c: bool,
	pub b: i64,
	pub a: u32,
}

#[derive(Serialize, Deserialize, Clone, Debug, PartialEq)]
pub struct Echo4 {
	pub weights: BTreeMap<String, i64>,
	pub first: Option<Shape>,
	pub point: Point,
	pub id: u64,
}
// TYPES-END

// FAMILY-BEGIN
#[rpc(client, server)]
pub trait Plain {
	#[method(name = "zero")]
	fn zero(&self) -> RpcResult<u64>;
	#[method(name = "one_u8")]
	async fn one_u8(&self, a: u8) -> RpcResult<u8>;
	#[method(name = "two", aliases = ["two_alias", "TwoAlias2"])]
	fn two(&self, a: u16, b: String) -> RpcResult<(String, u16)>;
	#[method(name = "three", blocking)]
	fn three(&self, a: u32, b: i64, c: bool) -> RpcResult<Echo3>;
	#[method(name = "four")]
	async fn four(&self, a: u64, b: Point, c: Vec<Shape>, d: BTreeMap<String, i64>) -> RpcResult<(BTreeMap<String, i64>, Vec<Shape>, Point, u64)>;
	#[method(name = "opt1")]
	fn opt1(&self, a: u32, b: Option<u32>) -> RpcResult<Option<u32>>;
	#[method(name = "opt2")]
	async fn opt2(&self, a: String, b: Option<u64>, c: Option<Point>) -> RpcResult<(String, Option<u64>, Option<Point>)>;
	#[method(name = "optmid")]
	fn optmid(&self, a: Option<u8>, b: u16) -> RpcResult<(Option<u8>, u16)>;
	#[method(name = "allopt")]
	async fn allopt(&self, a: Option<i8>, b: Option<String>) -> RpcResult<(Option<i8>, Option<String>)>;
	#[method(name = "anyval")]
	fn anyval(&self, v: Value) -> RpcResult<Value>;
	#[method(name = "unit", blocking)]
	fn unit(&self, a: i32) -> RpcResult<()>;
	#[method(name = "note")]
	fn note(&self, a: u8);
	#[method(name = "tail3")]
	fn tail3(&self, a: u32, b: Option<u32>, c: Option<u32>, d: Option<u32>) -> RpcResult<(u32, Option<u32>, Option<u32>, Option<u32>)>;
	#[method(name = "tail2")]
	async fn tail2(&self, a: String, b: Option<u64>, c: Option<u64>) -> RpcResult<(String, Option<u64>, Option<u64>)>;
	#[method(name = "tailonly", blocking)]
	fn tailonly(&self, a: Option<String>, b: Option<String>, c: Option<String>) -> RpcResult<(Option<String>, Option<String>, Option<String>)>;
}

#[rpc(client, server, namespace = "ns")]
pub trait Ns {
	#[method(name = "mapTwo", param_kind = map)]
	async fn map_two(&self, param_a: u8, param_b: String) -> RpcResult<(u8, String)>;
	#[method(name = "renamed", param_kind = map)]
	fn renamed(&self, #[argument(rename = "type")] r#type: u16, #[argument(rename = "halfType")] ignored_name: bool) -> RpcResult<(bool, u16)>;
	#[method(name = "mapOpt", param_kind = map, aliases = ["plainAlias"])]
	fn map_opt(&self, a: u32, b: Option<String>, c: Option<Vec<u8>>) -> RpcResult<(u32, Option<String>, Option<Vec<u8>>)>;
	#[method(name = "mapFour", param_kind = map, blocking)]
	fn map_four(&self, id: u64, point: Point, shapes: Vec<Shape>, weights: BTreeMap<String, i64>) -> RpcResult<Echo4>;
	#[method(name = "arrRenamed", param_kind = array)]
	async fn arr_renamed(&self, #[argument(rename = "x-y z")] xyz: i16, plain: bool) -> RpcResult<(i16, bool)>;
	#[subscription(name = "subscribeItems" => "itemsNotif", item = Point, aliases = ["subAlias"], unsubscribe_aliases = ["unsubAlias"])]
	async fn sub_items(&self, start: u32, tag: Option<String>) -> SubscriptionResult;
	#[subscription(name = "syncSub", unsubscribe = "syncUnsub", item = u64, param_kind = map)]
	fn sync_sub(&self, n: u8, k: u64);
	#[subscription(name = "subscribeTail", item = (u32, Option<u32>, Option<u32>, Option<u32>))]
	async fn sub_tail(&self, a: u32, b: Option<u32>, c: Option<u32>, d: Option<u32>) -> SubscriptionResult;
}

#[rpc(client, server, namespace = "svc.v1", namespace_separator = ".")]
pub trait Dot {
	#[method(name = "get", aliases = ["svc_get", "get"])]
	async fn get(&self) -> RpcResult<String>;
	#[method(name = "heck", param_kind = map)]
	fn heck(&self, XMLHttpReq: u8, a1b2: u8, _lead: u8, already_snake: u8, camelCaseX: u8) -> RpcResult<(u8, u8, u8, u8, u8)>;
	#[method(name = "blk", param_kind = map, blocking)]
	fn blk(&self, key: String, val: Option<Shape>) -> RpcResult<Option<Shape>>;
	#[subscription(name = "subscribe_evts", item = (u64, String), param_kind = map)]
	async fn sub_evts(&self, from: u64, prefix: String) -> SubscriptionResult;
}

#[rpc(client, server, namespace = "e", namespace_separator = "")]
pub trait Glue {
	#[method(name = "cho", aliases = ["e_cho"])]
	async fn cho(&self, a: Vec<Option<u16>>) -> RpcResult<Vec<Option<u16>>>;
}

#[rpc(client, server)]
pub trait Neg {
	#[method(name = "collide", param_kind = map)]
	fn collide(&self, a_b: u8, aB: u8) -> RpcResult<(u8, u8)>;
	#[method(name = "optopt")]
	fn optopt(&self, a: Option<Option<u8>>) -> RpcResult<String>;
}
#[rpc(client, server, namespace = "raw")]
pub trait Raw {
	#[method(name = "mapRaw", param_kind = map)]
	async fn map_raw(&self, r#type: u32, r#ref: String) -> RpcResult<(u32, String)>;
	#[method(name = "arrRaw", param_kind = array)]
	fn arr_raw(&self, r#type: u32, r#ref: String) -> RpcResult<(String, u32)>;
	#[method(name = "mapRawRenamed", param_kind = map)]
	fn map_raw_renamed(&self, #[argument(rename = "type")] r#type: u32, r#match: bool) -> RpcResult<(bool, u32)>;
	#[method(name = "mapRawOpt", param_kind = map, blocking)]
	fn map_raw_opt(&self, r#move: u8, r#loop: Option<String>) -> RpcResult<(u8, Option<String>)>;
	#[method(name = "mapUnder", param_kind = map)]
	async fn map_under(&self, _lead: u8, trail_: u8, mid1dle: u8, r#type_: u8) -> RpcResult<(u8, u8, u8, u8)>;
	#[method(name = "arrRawOpt")]
	fn arr_raw_opt(&self, r#fn: i16, r#in: Option<u64>) -> RpcResult<(i16, Option<u64>)>;
	#[subscription(name = "subscribeRaw", item = (u32, String), param_kind = map)]
	async fn sub_raw(&self, r#type: u32, r#ref: String) -> SubscriptionResult;
	#[subscription(name = "subscribeRawArr", item = u64, aliases = ["rawArrAlias"])]
	async fn sub_raw_arr(&self, r#type: u32, r#while: Option<u64>) -> SubscriptionResult;
}
#[rpc(client, server, namespace = "sp")]
pub trait Spell {
	#[method(name = "stdTail")]
	fn std_tail(&self, a: u32, b: std::option::Option<u32>) -> RpcResult<(u32, Option<u32>)>;
	#[method(name = "coreTail")]
	async fn core_tail(&self, a: u8, b: core::option::Option<String>) -> RpcResult<(u8, Option<String>)>;
	#[method(name = "globalTail", blocking)]
	fn global_tail(&self, a: String, b: ::core::option::Option<u64>) -> RpcResult<(String, Option<u64>)>;
	#[method(name = "modTail")]
	fn mod_tail(&self, a: i16, b: option::Option<u8>) -> RpcResult<(i16, Option<u8>)>;
	#[method(name = "mixTail")]
	async fn mix_tail(&self, a: u32, b: Option<u32>, c: std::option::Option<u32>, d: core::option::Option<String>, e: ::core::option::Option<u64>) -> RpcResult<(u32, Option<u32>, Option<u32>, Option<String>, Option<u64>)>;
	#[method(name = "allSpell", blocking)]
	fn all_spell(&self, a: core::option::Option<String>, b: option::Option<u8>, c: Option<u32>) -> RpcResult<(Option<String>, Option<u8>, Option<u32>)>;
	#[method(name = "coreMid")]
	fn core_mid(&self, a: core::option::Option<String>, b: u16) -> RpcResult<(Option<String>, u16)>;
	#[method(name = "mapSpell", param_kind = map)]
	fn map_spell(&self, a: u32, b: core::option::Option<String>, c: ::core::option::Option<u64>, d: std::option::Option<u32>) -> RpcResult<(u32, Option<String>, Option<u64>, Option<u32>)>;
	#[method(name = "mapSpellAsync", param_kind = map)]
	async fn map_spell_async(&self, key: String, val: option::Option<u8>, more: core::option::Option<String>) -> RpcResult<(String, Option<u8>, Option<String>)>;
	#[subscription(name = "subscribeSpell", item = (u32, Option<String>, Option<u64>), aliases = ["spellAlias"])]
	async fn sub_spell(&self, a: u32, b: core::option::Option<String>, c: ::core::option::Option<u64>) -> SubscriptionResult;
	#[subscription(name = "subscribeSpellMap", item = u64, param_kind = map)]
	async fn sub_spell_map(&self, n: u32, k: std::option::Option<u32>) -> SubscriptionResult;
}
#[rpc(client, server, namespace = "ren")]
pub trait Ren {
	#[method(name = "mapBackslash", param_kind = map)]
	fn map_backslash(&self, #[argument(rename = "dir\\name")] dir: String, plain: u32) -> RpcResult<(u32, String)>;
	#[method(name = "mapQuote", param_kind = map)]
	async fn map_quote(&self, #[argument(rename = "say \"hi\"")] quoted: u16, plain: bool) -> RpcResult<(bool, u16)>;
	#[method(name = "mapUnicode", param_kind = map, blocking)]
	fn map_unicode(&self, #[argument(rename = "größe in µm")] size: u64, plain: Option<String>) -> RpcResult<(u64, Option<String>)>;
	#[method(name = "mapTab", param_kind = map)]
	fn map_tab(&self, plain: i16, #[argument(rename = "col\tumn")] column: Option<u8>) -> RpcResult<(i16, Option<u8>)>;
	#[method(name = "mapSpace", param_kind = map)]
	async fn map_space(&self, #[argument(rename = " ")] blank: String, plain: u8) -> RpcResult<(u8, String)>;
	#[method(name = "mapAll", param_kind = map, blocking)]
	fn map_all(&self, #[argument(rename = "dir\\name")] dir: String, #[argument(rename = "say \"hi\"")] quoted: u16, #[argument(rename = "gr\u{f6}\u{df}e in \u{b5}m")] size: u64, #[argument(rename = "col\tumn")] column: Option<u8>, #[argument(rename = " ")] blank: bool, plain: Option<String>) -> RpcResult<(Option<String>, bool, Option<u8>, u64, u16, String)>;
	#[method(name = "mapQuoteOnly", param_kind = map)]
	async fn map_quote_only(&self, #[argument(rename = "\"")] q: u32, plain: Option<u32>) -> RpcResult<(u32, Option<u32>)>;
	#[subscription(name = "subscribeRen", item = (u32, String), param_kind = map)]
	async fn sub_ren(&self, #[argument(rename = "dir\\name")] dir: String, #[argument(rename = "a\"b")] quoted: u32, plain: Option<u64>) -> SubscriptionResult;
}
// FAMILY-END

// ------------------------------------------------------------------ recording server side

#[derive(Clone)]
enum Outcome {
	Ok,
	Err(i32, String, Option<Value>),
}

#[derive(Default)]
struct Shared {
	log: Mutex<Vec<(String, Vec<u8>)>>,
	outcome: Mutex<Option<Outcome>>,
	/// (method, params text, answer text) of every frame the client sent
	wire: Mutex<Vec<(String, Option<String>, Option<String>)>>,
	/// notification frames forwarded to the client
	notifs: Mutex<Vec<String>>,
	/// number of items the subscription handler is going to send
	sub_k: Mutex<Option<usize>>,
}

impl Shared {
	fn reset(&self, o: Outcome) {
		self.log.lock().unwrap().clear();
		self.wire.lock().unwrap().clear();
		self.notifs.lock().unwrap().clear();
		*self.sub_k.lock().unwrap() = None;
		*self.outcome.lock().unwrap() = Some(o);
	}
	/// store the received argument tuple under the handler's identity; answer what the case dictates
	fn rec<A: Serialize>(&self, h: &str, args: &A) -> Result<(), ErrorObjectOwned> {
		self.log.lock().unwrap().push((h.to_string(), serde_json::to_vec(args).expect("args to JSON")));
		match self.outcome.lock().unwrap().clone().unwrap_or(Outcome::Ok) {
			Outcome::Ok => Ok(()),
			Outcome::Err(c, m, d) => Err(ErrorObject::owned(c, m, d)),
		}
	}
}

#[derive(Clone)]
struct Impl(Arc<Shared>);

fn wadd(a: u64, b: u64) -> u64 {
	a.wrapping_add(b)
}

#[async_trait]
impl PlainServer for Impl {
	fn zero(&self) -> RpcResult<u64> {
		self.0.rec("0.m0", &[0u8; 0])?;
		Ok(7)
	}
	async fn one_u8(&self, a: u8) -> RpcResult<u8> {
		self.0.rec("0.m1", &(a,))?;
		Ok(a)
	}
	fn two(&self, a: u16, b: String) -> RpcResult<(String, u16)> {
		self.0.rec("0.m2", &(a, &b))?;
		Ok((b, a))
	}
	fn three(&self, a: u32, b: i64, c: bool) -> RpcResult<Echo3> {
		self.0.rec("0.m3", &(a, b, c))?;
		Ok(Echo3 { c, b, a })
	}
	async fn four(&self, a: u64, b: Point, c: Vec<Shape>, d: BTreeMap<String, i64>) -> RpcResult<(BTreeMap<String, i64>, Vec<Shape>, Point, u64)> {
		self.0.rec("0.m4", &(a, &b, &c, &d))?;
		Ok((d, c, b, a))
	}
	fn opt1(&self, a: u32, b: Option<u32>) -> RpcResult<Option<u32>> {
		self.0.rec("0.m5", &(a, b))?;
		Ok(b)
	}
	async fn opt2(&self, a: String, b: Option<u64>, c: Option<Point>) -> RpcResult<(String, Option<u64>, Option<Point>)> {
		self.0.rec("0.m6", &(&a, b, &c))?;
		Ok((a, b, c))
	}
	fn optmid(&self, a: Option<u8>, b: u16) -> RpcResult<(Option<u8>, u16)> {
		self.0.rec("0.m7", &(a, b))?;
		Ok((a, b))
	}
	async fn allopt(&self, a: Option<i8>, b: Option<String>) -> RpcResult<(Option<i8>, Option<String>)> {
		self.0.rec("0.m8", &(a, &b))?;
		Ok((a, b))
	}
	fn anyval(&self, v: Value) -> RpcResult<Value> {
		self.0.rec("0.m9", &(&v,))?;
		Ok(v)
	}
	fn unit(&self, a: i32) -> RpcResult<()> {
		self.0.rec("0.m10", &(a,))?;
		Ok(())
	}
	fn note(&self, a: u8) {
		let _ = self.0.rec("0.m11", &(a,));
	}
	fn tail3(&self, a: u32, b: Option<u32>, c: Option<u32>, d: Option<u32>) -> RpcResult<(u32, Option<u32>, Option<u32>, Option<u32>)> {
		self.0.rec("0.m12", &(a, b, c, d))?;
		Ok((a, b, c, d))
	}
	async fn tail2(&self, a: String, b: Option<u64>, c: Option<u64>) -> RpcResult<(String, Option<u64>, Option<u64>)> {
		self.0.rec("0.m13", &(&a, b, c))?;
		Ok((a, b, c))
	}
	fn tailonly(&self, a: Option<String>, b: Option<String>, c: Option<String>) -> RpcResult<(Option<String>, Option<String>, Option<String>)> {
		self.0.rec("0.m14", &(&a, &b, &c))?;
		Ok((a, b, c))
	}
}

/// items a subscription handler sends: computed from the arguments, the same formula is in tools/props/c17.py
fn point_items(start: u32, tag: &Option<String>) -> Vec<Point> {
	let k = 1 + (start % 3) as usize;
	(0..k)
		.map(|i| Point {
			x: start as i64 - i as i64,
			y: start.wrapping_add(i as u32),
			label: tag.clone().unwrap_or_default(),
			tags: (0..i).map(|j| format!("t{}", j)).collect(),
			inner: if i % 2 == 1 { Some(Inner { flag: tag.is_some(), w: (start % 65536) as u16, m: BTreeMap::new() }) } else { None },
		})
		.collect()
}

async fn serve_sub<T: Serialize>(sh: Arc<Shared>, h: &str, args: Vec<u8>, pending: PendingSubscriptionSink, items: Vec<T>) {
	sh.log.lock().unwrap().push((h.to_string(), args));
	let o = sh.outcome.lock().unwrap().clone().unwrap_or(Outcome::Ok);
	if let Outcome::Err(c, m, d) = o {
		pending.reject(ErrorObject::owned(c, m, d)).await;
		return;
	}
	*sh.sub_k.lock().unwrap() = Some(items.len());
	let Ok(sink) = pending.accept().await else { return };
	for it in &items {
		let raw = serde_json::value::to_raw_value(it).expect("item to JSON");
		if sink.send(SubscriptionMessage::from(raw)).await.is_err() {
			return;
		}
	}
	// keep the subscription alive until the client unsubscribes (or goes away)
	sink.closed().await;
}

#[async_trait]
impl NsServer for Impl {
	async fn map_two(&self, param_a: u8, param_b: String) -> RpcResult<(u8, String)> {
		self.0.rec("1.m0", &(param_a, &param_b))?;
		Ok((param_a, param_b))
	}
	fn renamed(&self, r#type: u16, ignored_name: bool) -> RpcResult<(bool, u16)> {
		self.0.rec("1.m1", &(r#type, ignored_name))?;
		Ok((ignored_name, r#type))
	}
	fn map_opt(&self, a: u32, b: Option<String>, c: Option<Vec<u8>>) -> RpcResult<(u32, Option<String>, Option<Vec<u8>>)> {
		self.0.rec("1.m2", &(a, &b, &c))?;
		Ok((a, b, c))
	}
	fn map_four(&self, id: u64, point: Point, shapes: Vec<Shape>, weights: BTreeMap<String, i64>) -> RpcResult<Echo4> {
		self.0.rec("1.m3", &(id, &point, &shapes, &weights))?;
		Ok(Echo4 { weights, first: shapes.first().cloned(), point, id })
	}
	async fn arr_renamed(&self, xyz: i16, plain: bool) -> RpcResult<(i16, bool)> {
		self.0.rec("1.m4", &(xyz, plain))?;
		Ok((xyz, plain))
	}
	async fn sub_items(&self, pending: PendingSubscriptionSink, start: u32, tag: Option<String>) -> SubscriptionResult {
		let args = serde_json::to_vec(&(start, &tag)).unwrap();
		serve_sub(self.0.clone(), "1.s0", args, pending, point_items(start, &tag)).await;
		Ok(())
	}
	async fn sub_tail(&self, pending: PendingSubscriptionSink, a: u32, b: Option<u32>, c: Option<u32>, d: Option<u32>) -> SubscriptionResult {
		let args = serde_json::to_vec(&(a, b, c, d)).unwrap();
		let items: Vec<(u32, Option<u32>, Option<u32>, Option<u32>)> = (0..(1 + a % 3)).map(|i| (a.wrapping_add(i), b, c, d)).collect();
		serve_sub(self.0.clone(), "1.s2", args, pending, items).await;
		Ok(())
	}
	fn sync_sub(&self, pending: PendingSubscriptionSink, n: u8, k: u64) {
		let args = serde_json::to_vec(&(n, k)).unwrap();
		let items: Vec<u64> = (0..(1 + (n % 3) as u64)).map(|i| wadd(k, i)).collect();
		let sh = self.0.clone();
		tokio::spawn(async move { serve_sub(sh, "1.s1", args, pending, items).await });
	}
}

#[async_trait]
impl DotServer for Impl {
	async fn get(&self) -> RpcResult<String> {
		self.0.rec("2.m0", &[0u8; 0])?;
		Ok("dot".to_string())
	}
	fn heck(&self, XMLHttpReq: u8, a1b2: u8, _lead: u8, already_snake: u8, camelCaseX: u8) -> RpcResult<(u8, u8, u8, u8, u8)> {
		self.0.rec("2.m1", &(XMLHttpReq, a1b2, _lead, already_snake, camelCaseX))?;
		Ok((camelCaseX, already_snake, _lead, a1b2, XMLHttpReq))
	}
	fn blk(&self, key: String, val: Option<Shape>) -> RpcResult<Option<Shape>> {
		self.0.rec("2.m2", &(&key, &val))?;
		Ok(val)
	}
	async fn sub_evts(&self, pending: PendingSubscriptionSink, from: u64, prefix: String) -> SubscriptionResult {
		let args = serde_json::to_vec(&(from, &prefix)).unwrap();
		let items: Vec<(u64, String)> = (0..(1 + from % 3)).map(|i| (wadd(from, i), format!("{}{}", prefix, i))).collect();
		serve_sub(self.0.clone(), "2.s0", args, pending, items).await;
		Ok(())
	}
}

#[async_trait]
impl GlueServer for Impl {
	async fn cho(&self, a: Vec<Option<u16>>) -> RpcResult<Vec<Option<u16>>> {
		self.0.rec("3.m0", &(&a,))?;
		Ok(a.into_iter().rev().collect())
	}
}

impl NegServer for Impl {
	fn collide(&self, a_b: u8, aB: u8) -> RpcResult<(u8, u8)> {
		self.0.rec("4.m0", &(a_b, aB))?;
		Ok((a_b, aB))
	}
	fn optopt(&self, a: Option<Option<u8>>) -> RpcResult<String> {
		// `null` cannot tell None from Some(None): the received value is logged by its Debug text
		let d = format!("{:?}", a);
		self.0.rec("4.m1", &(&d,))?;
		Ok(d)
	}
}

#[async_trait]
impl RawServer for Impl {
	async fn map_raw(&self, r#type: u32, r#ref: String) -> RpcResult<(u32, String)> {
		self.0.rec("5.m0", &(r#type, &r#ref))?;
		Ok((r#type, r#ref))
	}
	fn arr_raw(&self, r#type: u32, r#ref: String) -> RpcResult<(String, u32)> {
		self.0.rec("5.m1", &(r#type, &r#ref))?;
		Ok((r#ref, r#type))
	}
	fn map_raw_renamed(&self, r#type: u32, r#match: bool) -> RpcResult<(bool, u32)> {
		self.0.rec("5.m2", &(r#type, r#match))?;
		Ok((r#match, r#type))
	}
	fn map_raw_opt(&self, r#move: u8, r#loop: Option<String>) -> RpcResult<(u8, Option<String>)> {
		self.0.rec("5.m3", &(r#move, &r#loop))?;
		Ok((r#move, r#loop))
	}
	async fn map_under(&self, _lead: u8, trail_: u8, mid1dle: u8, r#type_: u8) -> RpcResult<(u8, u8, u8, u8)> {
		self.0.rec("5.m4", &(_lead, trail_, mid1dle, r#type_))?;
		Ok((r#type_, mid1dle, trail_, _lead))
	}
	fn arr_raw_opt(&self, r#fn: i16, r#in: Option<u64>) -> RpcResult<(i16, Option<u64>)> {
		self.0.rec("5.m5", &(r#fn, r#in))?;
		Ok((r#fn, r#in))
	}
	async fn sub_raw(&self, pending: PendingSubscriptionSink, r#type: u32, r#ref: String) -> SubscriptionResult {
		let args = serde_json::to_vec(&(r#type, &r#ref)).unwrap();
		let items: Vec<(u32, String)> = (0..(1 + r#type % 3)).map(|i| (r#type.wrapping_add(i), format!("{}{}", r#ref, i))).collect();
		serve_sub(self.0.clone(), "5.s0", args, pending, items).await;
		Ok(())
	}
	async fn sub_raw_arr(&self, pending: PendingSubscriptionSink, r#type: u32, r#while: Option<u64>) -> SubscriptionResult {
		let args = serde_json::to_vec(&(r#type, r#while)).unwrap();
		let items: Vec<u64> = (0..(1 + (r#type % 3) as u64)).map(|i| wadd(r#while.unwrap_or(5), i)).collect();
		serve_sub(self.0.clone(), "5.s1", args, pending, items).await;
		Ok(())
	}
}

// the impl spells the types the short way: the qualified spellings matter only in the trait text the macro reads
#[async_trait]
impl SpellServer for Impl {
	fn std_tail(&self, a: u32, b: Option<u32>) -> RpcResult<(u32, Option<u32>)> {
		self.0.rec("6.m0", &(a, b))?;
		Ok((a, b))
	}
	async fn core_tail(&self, a: u8, b: Option<String>) -> RpcResult<(u8, Option<String>)> {
		self.0.rec("6.m1", &(a, &b))?;
		Ok((a, b))
	}
	fn global_tail(&self, a: String, b: Option<u64>) -> RpcResult<(String, Option<u64>)> {
		self.0.rec("6.m2", &(&a, b))?;
		Ok((a, b))
	}
	fn mod_tail(&self, a: i16, b: Option<u8>) -> RpcResult<(i16, Option<u8>)> {
		self.0.rec("6.m3", &(a, b))?;
		Ok((a, b))
	}
	async fn mix_tail(&self, a: u32, b: Option<u32>, c: Option<u32>, d: Option<String>, e: Option<u64>) -> RpcResult<(u32, Option<u32>, Option<u32>, Option<String>, Option<u64>)> {
		self.0.rec("6.m4", &(a, b, c, &d, e))?;
		Ok((a, b, c, d, e))
	}
	fn all_spell(&self, a: Option<String>, b: Option<u8>, c: Option<u32>) -> RpcResult<(Option<String>, Option<u8>, Option<u32>)> {
		self.0.rec("6.m5", &(&a, b, c))?;
		Ok((a, b, c))
	}
	fn core_mid(&self, a: Option<String>, b: u16) -> RpcResult<(Option<String>, u16)> {
		self.0.rec("6.m6", &(&a, b))?;
		Ok((a, b))
	}
	fn map_spell(&self, a: u32, b: Option<String>, c: Option<u64>, d: Option<u32>) -> RpcResult<(u32, Option<String>, Option<u64>, Option<u32>)> {
		self.0.rec("6.m7", &(a, &b, c, d))?;
		Ok((a, b, c, d))
	}
	async fn map_spell_async(&self, key: String, val: Option<u8>, more: Option<String>) -> RpcResult<(String, Option<u8>, Option<String>)> {
		self.0.rec("6.m8", &(&key, val, &more))?;
		Ok((key, val, more))
	}
	async fn sub_spell(&self, pending: PendingSubscriptionSink, a: u32, b: Option<String>, c: Option<u64>) -> SubscriptionResult {
		let args = serde_json::to_vec(&(a, &b, c)).unwrap();
		let items: Vec<(u32, Option<String>, Option<u64>)> = (0..(1 + a % 3)).map(|i| (a.wrapping_add(i), b.clone(), c)).collect();
		serve_sub(self.0.clone(), "6.s0", args, pending, items).await;
		Ok(())
	}
	async fn sub_spell_map(&self, pending: PendingSubscriptionSink, n: u32, k: Option<u32>) -> SubscriptionResult {
		let args = serde_json::to_vec(&(n, k)).unwrap();
		let items: Vec<u64> = (0..(1 + (n % 3) as u64)).map(|i| wadd(k.unwrap_or(9) as u64, i)).collect();
		serve_sub(self.0.clone(), "6.s1", args, pending, items).await;
		Ok(())
	}
}

#[async_trait]
impl RenServer for Impl {
	fn map_backslash(&self, dir: String, plain: u32) -> RpcResult<(u32, String)> {
		self.0.rec("7.m0", &(&dir, plain))?;
		Ok((plain, dir))
	}
	async fn map_quote(&self, quoted: u16, plain: bool) -> RpcResult<(bool, u16)> {
		self.0.rec("7.m1", &(quoted, plain))?;
		Ok((plain, quoted))
	}
	fn map_unicode(&self, size: u64, plain: Option<String>) -> RpcResult<(u64, Option<String>)> {
		self.0.rec("7.m2", &(size, &plain))?;
		Ok((size, plain))
	}
	fn map_tab(&self, plain: i16, column: Option<u8>) -> RpcResult<(i16, Option<u8>)> {
		self.0.rec("7.m3", &(plain, column))?;
		Ok((plain, column))
	}
	async fn map_space(&self, blank: String, plain: u8) -> RpcResult<(u8, String)> {
		self.0.rec("7.m4", &(&blank, plain))?;
		Ok((plain, blank))
	}
	fn map_all(&self, dir: String, quoted: u16, size: u64, column: Option<u8>, blank: bool, plain: Option<String>) -> RpcResult<(Option<String>, bool, Option<u8>, u64, u16, String)> {
		self.0.rec("7.m5", &(&dir, quoted, size, column, blank, &plain))?;
		Ok((plain, blank, column, size, quoted, dir))
	}
	async fn map_quote_only(&self, q: u32, plain: Option<u32>) -> RpcResult<(u32, Option<u32>)> {
		self.0.rec("7.m6", &(q, plain))?;
		Ok((q, plain))
	}
	async fn sub_ren(&self, pending: PendingSubscriptionSink, dir: String, quoted: u32, plain: Option<u64>) -> SubscriptionResult {
		let args = serde_json::to_vec(&(&dir, quoted, plain)).unwrap();
		let items: Vec<(u32, String)> = (0..(1 + quoted % 3)).map(|i| (quoted.wrapping_add(i), format!("{}{}", dir, i))).collect();
		serve_sub(self.0.clone(), "7.s0", args, pending, items).await;
		Ok(())
	}
}

// ------------------------------------------------------------------ in-process transport

#[derive(Debug)]
struct MemErr;
impl std::fmt::Display for MemErr {
	fn fmt(&self, f: &mut std::fmt::Formatter<'_>) -> std::fmt::Result {
		write!(f, "in-process transport closed")
	}
}
impl std::error::Error for MemErr {}

#[derive(Deserialize)]
struct Frame<'a> {
	#[serde(borrow)]
	method: std::borrow::Cow<'a, str>,
	#[serde(borrow)]
	params: Option<&'a RawValue>,
}

struct MemSender {
	methods: Methods,
	sh: Arc<Shared>,
	back: mpsc::UnboundedSender<String>,
}
impl TransportSenderT for MemSender {
	type Error = MemErr;
	fn send(&mut self, msg: String) -> impl Future<Output = Result<(), MemErr>> + Send {
		async move {
			let (method, params) = match serde_json::from_str::<Frame>(&msg) {
				Ok(f) => (f.method.into_owned(), f.params.map(|p| p.get().to_string())),
				Err(_) => ("?".to_string(), None),
			};
			// a frame without `id` (a notification) is not a Request: the server never runs a handler for it
			match self.methods.raw_json_request(&msg, 64).await {
				Ok((resp, mut rx)) => {
					let text = resp.get().to_string();
					self.sh.wire.lock().unwrap().push((method, params, Some(text.clone())));
					let _ = self.back.send(text);
					let back = self.back.clone();
					let sh = self.sh.clone();
					tokio::spawn(async move {
						while let Some(n) = rx.recv().await {
							let t = n.get().to_string();
							sh.notifs.lock().unwrap().push(t.clone());
							if back.send(t).is_err() {
								break;
							}
						}
					});
				}
				Err(_) => self.sh.wire.lock().unwrap().push((method, params, None)),
			}
			Ok(())
		}
	}
}

struct MemReceiver {
	frames: mpsc::UnboundedReceiver<String>,
}
impl TransportReceiverT for MemReceiver {
	type Error = MemErr;
	fn receive(&mut self) -> impl Future<Output = Result<ReceivedMessage, MemErr>> + Send {
		async move {
			match self.frames.recv().await {
				Some(t) => Ok(ReceivedMessage::Text(t)),
				None => std::future::pending().await,
			}
		}
	}
}

type Cli = jsonrpsee::core::client::Client;

struct Api {
	methods: Methods,
	client: Cli,
}

fn mk_api(methods: Methods, sh: &Arc<Shared>) -> Api {
	let (tx, rx) = mpsc::unbounded_channel();
	let sender = MemSender { methods: methods.clone(), sh: sh.clone(), back: tx };
	let receiver = MemReceiver { frames: rx };
	let client = ClientBuilder::new()
		.request_timeout(Duration::from_secs(100_000))
		.max_buffer_capacity_per_subscription(1024)
		.disable_ws_ping()
		.build_with_tokio(sender, receiver);
	Api { methods, client }
}

// ------------------------------------------------------------------ running one case

/// messages of the panics seen since the last case (any thread): the hook keeps them off stderr (vlib reads stderr and
/// stdout as one stream) and run_case reports them in the case's own line
static PANICS: Mutex<Vec<String>> = Mutex::new(Vec::new());

fn install_panic_hook() {
	std::panic::set_hook(Box::new(|info| {
		let msg = match info.payload().downcast_ref::<&str>() {
			Some(s) => s.to_string(),
			None => match info.payload().downcast_ref::<String>() {
				Some(s) => s.clone(),
				None => "(non-string payload)".to_string(),
			},
		};
		let at = info.location().map(|l| format!("{}:{}", l.file(), l.line())).unwrap_or_default();
		if let Ok(mut p) = PANICS.lock() {
			p.push(format!("{} @ {}", msg, at));
		}
	}));
}

fn take_panics() -> Vec<String> {
	PANICS.lock().map(|mut p| std::mem::take(&mut *p)).unwrap_or_default()
}

fn client_err(e: Error) -> String {
	match e {
		Error::Call(e) => format!("c:err:{}:{}:{}", e.code(), hex(e.message().as_bytes()), opt_hex_plain(e.data().map(|d| d.get().as_bytes()))),
		other => format!("c:fail:{}", hex(format!("{:?}", other).as_bytes())),
	}
}

fn opt_hex_plain(b: Option<&[u8]>) -> String {
	match b {
		None => "-".to_string(),
		Some(b) => hex(b),
	}
}

fn fin<T: Serialize>(r: Result<T, Error>) -> String {
	match r {
		Ok(v) => format!("c:ok:{}", hex(&serde_json::to_vec(&v).expect("result to JSON"))),
		Err(e) => client_err(e),
	}
}

macro_rules! stub {
	($args:expr; $client:expr, $meth:ident;) => {
		fin($client.$meth().await)
	};
	($args:expr; $client:expr, $meth:ident; $($n:ident : $t:ty),+) => {{
		let ($($n,)+): ($($t,)+) = serde_json::from_slice($args).expect("typed args of the case");
		fin($client.$meth($($n),+).await)
	}};
}

async fn wait_until(mut f: impl FnMut() -> bool) {
	// the condition becomes true as soon as the client's background task has run: normally within a few polls
	let deadline = std::time::Instant::now() + Duration::from_secs(60);
	let mut i = 0u32;
	while !f() && std::time::Instant::now() < deadline {
		if i < 200 {
			tokio::task::yield_now().await;
		} else {
			tokio::time::sleep(Duration::from_micros(200)).await;
		}
		i = i.saturating_add(1);
	}
}

fn notif_name(sh: &Shared) -> String {
	match sh.notifs.lock().unwrap().first() {
		Some(t) => match serde_json::from_str::<Frame>(t) {
			Ok(f) => hex(f.method.as_bytes()),
			Err(_) => "?".to_string(),
		},
		None => "-".to_string(),
	}
}

/// read the k items the handler announced, unsubscribe through the client, report the unsubscribe exchange
async fn drain<T: DeserializeOwned + Serialize>(sh: &Arc<Shared>, r: Result<Subscription<T>, Error>) -> String {
	let mut sub = match r {
		Ok(s) => s,
		Err(e) => return client_err(e),
	};
	let k = sh.sub_k.lock().unwrap().unwrap_or(0);
	let mut items: Vec<String> = Vec::new();
	for _ in 0..k {
		match sub.next().await {
			Some(Ok(it)) => items.push(serde_json::to_string(&it).unwrap()),
			Some(Err(e)) => return format!("c:fail:{}", hex(format!("item: {}", e).as_bytes())),
			None => break,
		}
	}
	let nn = notif_name(sh);
	let _ = sub.unsubscribe().await;
	wait_until(|| sh.wire.lock().unwrap().len() >= 2).await;
	let w = sh.wire.lock().unwrap();
	let u = match w.get(1) {
		Some((m, _, Some(resp))) => format!("u:{}:{}", hex(m.as_bytes()), answer_class(resp)),
		Some((m, _, None)) => format!("u:{}:-", hex(m.as_bytes())),
		None => "u:-:-".to_string(),
	};
	format!("c:sub:{}:{}:{}", nn, hex(format!("[{}]", items.join(",")).as_bytes()), u)
}

/// the `result` / `error` member of an answer (a `null` result is a result)
enum Ans {
	Res(String),
	Err(ErrorObjectOwned),
	Bad,
}

fn answer(resp: &str) -> Ans {
	#[derive(Deserialize)]
	struct Raw<'a> {
		#[serde(borrow, default, deserialize_with = "some_raw")]
		result: Option<&'a RawValue>,
		error: Option<ErrorObjectOwned>,
	}
	fn some_raw<'de, D: serde::Deserializer<'de>>(d: D) -> Result<Option<&'de RawValue>, D::Error> {
		<&RawValue>::deserialize(d).map(Some)
	}
	match serde_json::from_str::<Raw>(resp) {
		Ok(Raw { error: Some(e), .. }) => Ans::Err(e),
		Ok(Raw { result: Some(r), .. }) => Ans::Res(r.get().to_string()),
		_ => Ans::Bad,
	}
}

fn answer_class(resp: &str) -> String {
	match answer(resp) {
		Ans::Err(e) => format!("e:{}", e.code()),
		Ans::Res(r) => format!("r:{}", hex(r.as_bytes())),
		Ans::Bad => "?".to_string(),
	}
}

async fn run_stub(apis: &[Api], sh: &Arc<Shared>, api: usize, m: &str, args: &[u8]) -> String {
	let c = &apis[api].client;
	match (api, m) {
		(0, "m0") => stub!(args; c, zero;),
		(0, "m1") => stub!(args; c, one_u8; a: u8),
		(0, "m2") => stub!(args; c, two; a: u16, b: String),
		(0, "m3") => stub!(args; c, three; a: u32, b: i64, cc: bool),
		(0, "m4") => stub!(args; c, four; a: u64, b: Point, cc: Vec<Shape>, d: BTreeMap<String, i64>),
		(0, "m5") => stub!(args; c, opt1; a: u32, b: Option<u32>),
		(0, "m6") => stub!(args; c, opt2; a: String, b: Option<u64>, cc: Option<Point>),
		(0, "m7") => stub!(args; c, optmid; a: Option<u8>, b: u16),
		(0, "m8") => stub!(args; c, allopt; a: Option<i8>, b: Option<String>),
		(0, "m9") => stub!(args; c, anyval; v: Value),
		(0, "m10") => stub!(args; c, unit; a: i32),
		(0, "m11") => {
			let (a,): (u8,) = serde_json::from_slice(args).expect("typed args of the case");
			match PlainClient::note(c, a).await {
				Ok(()) => {
					wait_until(|| !sh.wire.lock().unwrap().is_empty()).await;
					"c:notif".to_string()
				}
				Err(e) => client_err(e),
			}
		}
		(0, "m12") => stub!(args; c, tail3; a: u32, b: Option<u32>, cc: Option<u32>, d: Option<u32>),
		(0, "m13") => stub!(args; c, tail2; a: String, b: Option<u64>, cc: Option<u64>),
		(0, "m14") => stub!(args; c, tailonly; a: Option<String>, b: Option<String>, cc: Option<String>),
		(1, "m0") => stub!(args; c, map_two; a: u8, b: String),
		(1, "m1") => stub!(args; c, renamed; a: u16, b: bool),
		(1, "m2") => stub!(args; c, map_opt; a: u32, b: Option<String>, cc: Option<Vec<u8>>),
		(1, "m3") => stub!(args; c, map_four; a: u64, b: Point, cc: Vec<Shape>, d: BTreeMap<String, i64>),
		(1, "m4") => stub!(args; c, arr_renamed; a: i16, b: bool),
		(1, "s0") => {
			let (a, b): (u32, Option<String>) = serde_json::from_slice(args).expect("typed args of the case");
			drain::<Point>(sh, c.sub_items(a, b).await).await
		}
		(1, "s1") => {
			let (a, b): (u8, u64) = serde_json::from_slice(args).expect("typed args of the case");
			drain::<u64>(sh, c.sync_sub(a, b).await).await
		}
		(1, "s2") => {
			let (a, b, cc, d): (u32, Option<u32>, Option<u32>, Option<u32>) = serde_json::from_slice(args).expect("typed args of the case");
			drain::<(u32, Option<u32>, Option<u32>, Option<u32>)>(sh, c.sub_tail(a, b, cc, d).await).await
		}
		(2, "m0") => stub!(args; c, get;),
		(2, "m1") => stub!(args; c, heck; a: u8, b: u8, cc: u8, d: u8, e: u8),
		(2, "m2") => stub!(args; c, blk; a: String, b: Option<Shape>),
		(2, "s0") => {
			let (a, b): (u64, String) = serde_json::from_slice(args).expect("typed args of the case");
			drain::<(u64, String)>(sh, c.sub_evts(a, b).await).await
		}
		(3, "m0") => stub!(args; c, cho; a: Vec<Option<u16>>),
		(4, "m0") => stub!(args; c, collide; a: u8, b: u8),
		(4, "m1") => {
			// the argument is given as "none" | "some-none" | <number>
			let (v,): (Value,) = serde_json::from_slice(args).expect("typed args of the case");
			let a: Option<Option<u8>> = match &v {
				Value::String(s) if s == "none" => None,
				Value::String(s) if s == "some-none" => Some(None),
				other => Some(Some(serde_json::from_value(other.clone()).expect("u8"))),
			};
			fin(c.optopt(a).await)
		}
		(5, "m0") => stub!(args; c, map_raw; a: u32, b: String),
		(5, "m1") => stub!(args; c, arr_raw; a: u32, b: String),
		(5, "m2") => stub!(args; c, map_raw_renamed; a: u32, b: bool),
		(5, "m3") => stub!(args; c, map_raw_opt; a: u8, b: Option<String>),
		(5, "m4") => stub!(args; c, map_under; a: u8, b: u8, cc: u8, d: u8),
		(5, "m5") => stub!(args; c, arr_raw_opt; a: i16, b: Option<u64>),
		(5, "s0") => {
			let (a, b): (u32, String) = serde_json::from_slice(args).expect("typed args of the case");
			drain::<(u32, String)>(sh, c.sub_raw(a, b).await).await
		}
		(5, "s1") => {
			let (a, b): (u32, Option<u64>) = serde_json::from_slice(args).expect("typed args of the case");
			drain::<u64>(sh, c.sub_raw_arr(a, b).await).await
		}
		(6, "m0") => stub!(args; c, std_tail; a: u32, b: Option<u32>),
		(6, "m1") => stub!(args; c, core_tail; a: u8, b: Option<String>),
		(6, "m2") => stub!(args; c, global_tail; a: String, b: Option<u64>),
		(6, "m3") => stub!(args; c, mod_tail; a: i16, b: Option<u8>),
		(6, "m4") => stub!(args; c, mix_tail; a: u32, b: Option<u32>, cc: Option<u32>, d: Option<String>, e: Option<u64>),
		(6, "m5") => stub!(args; c, all_spell; a: Option<String>, b: Option<u8>, cc: Option<u32>),
		(6, "m6") => stub!(args; c, core_mid; a: Option<String>, b: u16),
		(6, "m7") => stub!(args; c, map_spell; a: u32, b: Option<String>, cc: Option<u64>, d: Option<u32>),
		(6, "m8") => stub!(args; c, map_spell_async; a: String, b: Option<u8>, cc: Option<String>),
		(6, "s0") => {
			let (a, b, cc): (u32, Option<String>, Option<u64>) = serde_json::from_slice(args).expect("typed args of the case");
			drain::<(u32, Option<String>, Option<u64>)>(sh, c.sub_spell(a, b, cc).await).await
		}
		(6, "s1") => {
			let (a, b): (u32, Option<u32>) = serde_json::from_slice(args).expect("typed args of the case");
			drain::<u64>(sh, c.sub_spell_map(a, b).await).await
		}
		(7, "m0") => stub!(args; c, map_backslash; a: String, b: u32),
		(7, "m1") => stub!(args; c, map_quote; a: u16, b: bool),
		(7, "m2") => stub!(args; c, map_unicode; a: u64, b: Option<String>),
		(7, "m3") => stub!(args; c, map_tab; a: i16, b: Option<u8>),
		(7, "m4") => stub!(args; c, map_space; a: String, b: u8),
		(7, "m5") => stub!(args; c, map_all; a: String, b: u16, cc: u64, d: Option<u8>, e: bool, f: Option<String>),
		(7, "m6") => stub!(args; c, map_quote_only; a: u32, b: Option<u32>),
		(7, "s0") => {
			let (a, b, cc): (String, u32, Option<u64>) = serde_json::from_slice(args).expect("typed args of the case");
			drain::<(u32, String)>(sh, c.sub_ren(a, b, cc).await).await
		}
		_ => "c:fail:".to_string() + &hex(b"no such stub"),
	}
}

/// `{"jsonrpc":"2.0","id":<id>,"method":<name>[,"params":<text>]}`
fn request_text(id: u64, method: &str, params: Option<&str>) -> String {
	let mut s = format!("{{\"jsonrpc\":\"2.0\",\"id\":{},\"method\":{}", id, serde_json::to_string(method).unwrap());
	if let Some(p) = params {
		s.push_str(",\"params\":");
		s.push_str(p);
	}
	s.push('}');
	s
}

fn raw_answer(resp: &str) -> String {
	match answer(resp) {
		Ans::Err(e) => format!("c:err:{}:{}:{}", e.code(), hex(e.message().as_bytes()), opt_hex_plain(e.data().map(|d| d.get().as_bytes()))),
		Ans::Res(r) => format!("c:ok:{}", hex(r.as_bytes())),
		Ans::Bad => format!("c:fail:{}", hex(resp.as_bytes())),
	}
}

async fn run_raw(apis: &[Api], sh: &Arc<Shared>, api: usize, method: &str, params: Option<&str>, unsub: Option<&str>) -> String {
	let methods = &apis[api].methods;
	let req = request_text(1, method, params);
	let (resp, mut rx) = match methods.raw_json_request(&req, 64).await {
		Ok(x) => x,
		Err(e) => return format!("c:fail:{}", hex(format!("request rejected: {}", e).as_bytes())),
	};
	let k = *sh.sub_k.lock().unwrap();
	let Some(k) = k else { return raw_answer(resp.get()) };
	// a subscription was accepted: the answer carries the subscription id
	let sub_id = match answer(resp.get()) {
		Ans::Res(r) => r,
		_ => return raw_answer(resp.get()),
	};
	let mut items: Vec<String> = Vec::new();
	let mut nn = "-".to_string();
	for _ in 0..k {
		let Some(n) = rx.recv().await else { break };
		#[derive(Deserialize)]
		struct SubParams {
			subscription: Value,
			result: Box<RawValue>,
		}
		#[derive(Deserialize)]
		struct SubNotif {
			method: String,
			params: SubParams,
		}
		match serde_json::from_str::<SubNotif>(n.get()) {
			Ok(sn) => {
				if serde_json::to_string(&sn.params.subscription).unwrap() != sub_id {
					return format!("c:fail:{}", hex(b"notification for another subscription"));
				}
				if nn == "-" {
					nn = hex(sn.method.as_bytes());
				}
				items.push(sn.params.result.get().to_string());
			}
			Err(e) => return format!("c:fail:{}", hex(format!("notification: {}", e).as_bytes())),
		}
	}
	let uname = unsub.unwrap_or("?");
	let ureq = request_text(2, uname, Some(&format!("[{}]", sub_id)));
	let u = match methods.raw_json_request(&ureq, 64).await {
		Ok((r, _)) => answer_class(r.get()),
		Err(_) => "-".to_string(),
	};
	drop(rx);
	format!("c:sub:{}:{}:u:{}:{}", nn, hex(format!("[{}]", items.join(",")).as_bytes()), hex(uname.as_bytes()), u)
}

fn parse_outcome(t: &str) -> Outcome {
	if t == "ok" {
		return Outcome::Ok;
	}
	let p: Vec<&str> = t.split(':').collect();
	assert!(p.len() == 4 && p[0] == "err", "bad outcome {t}");
	let data = if p[3] == "-" { None } else { Some(serde_json::from_slice::<Value>(&unhex(p[3])).expect("outcome data")) };
	Outcome::Err(p[1].parse().expect("code"), String::from_utf8(unhex(p[2])).expect("utf8 message"), data)
}

async fn run_case(apis: &[Api], sh: &Arc<Shared>, line: &str) -> String {
	let t: Vec<&str> = line.split_whitespace().collect();
	if t.len() < 5 {
		return "?bad-line".to_string();
	}
	let api: usize = t[1].parse().expect("api index");
	if api >= apis.len() {
		return "?bad-api".to_string();
	}
	sh.reset(parse_outcome(t[4]));
	let (w, c) = match t[0] {
		"stub" => {
			let args = unhex(t[3]);
			// a generated stub that panics (e.g. params that are not JSON) is a result of the case, not the end of the engine
			let c = match std::panic::AssertUnwindSafe(run_stub(apis, sh, api, t[2], &args)).catch_unwind().await {
				Ok(c) => c,
				Err(_) => format!("c:fail:{}", hex(format!("PANIC in the client stub: {}", take_panics().join(" | ")).as_bytes())),
			};
			let w = match sh.wire.lock().unwrap().first() {
				Some((m, p, _)) => format!("w:{}:{}", hex(m.as_bytes()), opt_hex_plain(p.as_ref().map(|p| p.as_bytes()))),
				None => "w:-:-".to_string(),
			};
			(w, c)
		}
		"raw" => {
			let method = String::from_utf8(unhex(t[2])).expect("utf8 method");
			let params = if t[3] == "-" { None } else { Some(String::from_utf8(unhex(t[3])).expect("utf8 params")) };
			let unsub = t.get(5).filter(|u| **u != "-").map(|u| String::from_utf8(unhex(u)).expect("utf8 unsub"));
			let c = match std::panic::AssertUnwindSafe(run_raw(apis, sh, api, &method, params.as_deref(), unsub.as_deref())).catch_unwind().await {
				Ok(c) => c,
				Err(_) => format!("c:fail:{}", hex(format!("PANIC in the raw call: {}", take_panics().join(" | ")).as_bytes())),
			};
			("w:-:-".to_string(), c)
		}
		_ => return "?unknown-mode".to_string(),
	};
	// a panic elsewhere (a handler task, the client's background task) that nothing above caught
	let stray = take_panics();
	let c = if stray.is_empty() { c } else { format!("c:fail:{}", hex(format!("PANIC in a background task: {} (client side was {})", stray.join(" | "), c).as_bytes())) };
	let log = sh.log.lock().unwrap();
	let (h, a) = if log.is_empty() {
		("-".to_string(), "-".to_string())
	} else {
		(log.iter().map(|e| e.0.clone()).collect::<Vec<_>>().join(","), log.iter().map(|e| hex(&e.1)).collect::<Vec<_>>().join(","))
	};
	format!("{} h:{} a:{} {}", w, h, a, c)
}

fn main() {
	install_panic_hook();
	let rt = tokio::runtime::Builder::new_multi_thread().worker_threads(2).enable_all().build().expect("runtime");
	rt.block_on(async {
		let sh = Arc::new(Shared::default());
		let apis = vec![
			mk_api(PlainServer::into_rpc(Impl(sh.clone())).into(), &sh),
			mk_api(NsServer::into_rpc(Impl(sh.clone())).into(), &sh),
			mk_api(DotServer::into_rpc(Impl(sh.clone())).into(), &sh),
			mk_api(GlueServer::into_rpc(Impl(sh.clone())).into(), &sh),
			mk_api(NegServer::into_rpc(Impl(sh.clone())).into(), &sh),
			mk_api(RawServer::into_rpc(Impl(sh.clone())).into(), &sh),
			mk_api(SpellServer::into_rpc(Impl(sh.clone())).into(), &sh),
			mk_api(RenServer::into_rpc(Impl(sh.clone())).into(), &sh),
		];
		let stdin = std::io::stdin();
		let stdout = std::io::stdout();
		let mut out = std::io::BufWriter::new(stdout.lock());
		for line in stdin.lock().lines() {
			let line = line.expect("stdin");
			let r = if line == "names" {
				// the registered method names of every API, sorted (a cross-check of the description)
				apis.iter()
					.map(|a| {
						let mut n: Vec<&str> = a.methods.method_names().collect();
						n.sort();
						n.join(",")
					})
					.collect::<Vec<_>>()
					.join(" | ")
			} else {
				run_case(&apis, &sh, &line).await
			};
			writeln!(out, "{}", r).unwrap();
		}
		out.flush().unwrap();
	});
}
