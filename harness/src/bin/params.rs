//! Engine `params` (C16): the real `jsonrpsee_types::Params` / `ParamsSequence` on a params text and a read
//! script, printed in the line format shared with modelrun/params_driver.ml.
//!   line   = <params text as hex | "-" for None | "e" for the empty text> { " " <read> }
//!   read   = next:<ty> | opt:<ty> | parse:<ty> | one:<ty>
//!   output = obj=<0|1> { " " <result> } ; result = ok:<hex of serde_json::to_string(value)> | absent | err:<code>
//! `params types` prints the type universe (one name per line).
use jrv::*;
use jsonrpsee_types::params::{Params, ParamsSequence};
use serde::{Deserialize, Serialize};
use serde_json::Value;

fn ok_s<T: Serialize>(v: &T) -> String {
	format!("ok:{}", hex(serde_json::to_string(v).expect("serialisable").as_bytes()))
}

fn read<'a, T>(kind: &str, p: &'a Params<'a>, seq: &mut ParamsSequence<'a>) -> String
where
	T: Deserialize<'a> + Serialize,
{
	match kind {
		"next" => match seq.next::<T>() {
			Ok(v) => ok_s(&v),
			Err(e) => format!("err:{}", e.code()),
		},
		"opt" => match seq.optional_next::<T>() {
			Ok(Some(v)) => ok_s(&v),
			Ok(None) => "absent".into(),
			Err(e) => format!("err:{}", e.code()),
		},
		"parse" => match p.parse::<T>() {
			Ok(v) => ok_s(&v),
			Err(e) => format!("err:{}", e.code()),
		},
		"one" => match p.one::<T>() {
			Ok(v) => ok_s(&v),
			Err(e) => format!("err:{}", e.code()),
		},
		_ => "?bad-read".into(),
	}
}

macro_rules! universe {
	($($name:literal => $t:ty),* $(,)?) => {
		const TYPES: &[&str] = &[$($name),*];
		fn dispatch<'a>(kind: &str, ty: &str, p: &'a Params<'a>, seq: &mut ParamsSequence<'a>) -> String {
			match ty {
				$($name => read::<$t>(kind, p, seq),)*
				_ => "?bad-type".into(),
			}
		}
	};
}

universe! {
	"u64" => u64,
	"i64" => i64,
	"bool" => bool,
	"str" => String,
	"val" => Value,
	"opt(u64)" => Option<u64>,
	"opt(i64)" => Option<i64>,
	"opt(bool)" => Option<bool>,
	"opt(str)" => Option<String>,
	"opt(val)" => Option<Value>,
	"opt(opt(u64))" => Option<Option<u64>>,
	"vec(u64)" => Vec<u64>,
	"vec(i64)" => Vec<i64>,
	"vec(str)" => Vec<String>,
	"vec(val)" => Vec<Value>,
	"vec(bool)" => Vec<bool>,
	"vec(opt(i64))" => Vec<Option<i64>>,
	"vec(vec(u64))" => Vec<Vec<u64>>,
	"vec(pair(str,i64))" => Vec<(String, i64)>,
	"opt(vec(u64))" => Option<Vec<u64>>,
	"opt(vec(val))" => Option<Vec<Value>>,
	"pair(u64,str)" => (u64, String),
	"pair(val,bool)" => (Value, bool),
	"pair(i64,i64)" => (i64, i64),
	"pair(vec(u64),opt(bool))" => (Vec<u64>, Option<bool>),
	"pair(str,pair(u64,val))" => (String, (u64, Value)),
	"opt(pair(u64,str))" => Option<(u64, String)>,
}

fn handle(line: &str) -> String {
	let mut it = line.split_whitespace();
	let text = match it.next() {
		Some(t) => t,
		None => return "?bad-line".into(),
	};
	let bytes;
	let raw: Option<&str> = match text {
		"-" => None,
		"e" => Some(""),
		h => {
			bytes = unhex(h);
			match std::str::from_utf8(&bytes) {
				Ok(s) => Some(s),
				Err(_) => return "badutf8".into(),
			}
		}
	};
	let p = Params::new(raw);
	let mut seq = p.sequence();
	let mut out = vec![format!("obj={}", if p.is_object() { 1 } else { 0 })];
	for r in it {
		let (kind, ty) = match r.split_once(':') {
			Some(x) => x,
			None => {
				out.push("?bad-read".into());
				continue;
			}
		};
		out.push(dispatch(kind, ty, &p, &mut seq));
	}
	out.join(" ")
}

fn main() {
	if std::env::args().nth(1).as_deref() == Some("types") {
		for t in TYPES {
			println!("{}", t);
		}
		return;
	}
	for_each_line_catch(handle);
}
