//! Engine `registry` (C13): op sequences on real `RpcModule` values (several alive at once because of clone),
//! printed in the line format shared with modelrun/registry_driver.ml.
//!
//! One input line = one sequence of ops (grammar in tools/props/c13.py).  Per op the output is
//! `<observation>@<dump>`: the `Result` of the call (error kind + the name it carries), and the dump of every live
//! module: `method_names()` sorted, each with the `MethodCallback` variant found by `method()`.
//!
//! Handler identity: every registration gets a closure answering with the tag the op carries, so `ca` (call through
//! `raw_json_request`) and `rv` (the removed callback, re-inserted into a scratch `Methods` and called) report which
//! handler is bound.  A subscribe handler accepts and sends its tag as the first notification.  An unsubscribe handler
//! is identified by the `Subscribers` table it closes over: right after a successful subscription registration the
//! harness opens spare subscriptions through the new subscribe method ("probes"); calling an unsubscribe method with a
//! probe id of tag T answers `true` exactly when it is T's handler.
use jrv::*;
use jsonrpsee::core::server::{MethodCallback, Methods};
use jsonrpsee::core::RegisterMethodError;
use jsonrpsee::RpcModule;
use serde_json::value::RawValue;
use std::collections::{BTreeMap, HashMap};
use std::time::Duration;
use tokio::sync::mpsc::Receiver;

type Probe = (String, Receiver<Box<RawValue>>);

struct World {
	mods: Vec<RpcModule<()>>,
	probes: BTreeMap<u64, Vec<Probe>>,
	names: HashMap<String, &'static str>,
}

#[derive(Clone)]
enum Reg {
	Method(String, u64),
	Async(String, u64),
	Blocking(String, u64),
	Sub(bool, String, String, u64),
}

fn name_of(h: &str) -> String {
	String::from_utf8(unhex(h)).expect("names are UTF-8")
}
fn hex_name(n: &str) -> String {
	if n.is_empty() { "-".into() } else { hex(n.as_bytes()) }
}

impl World {
	fn intern(&mut self, s: &str) -> &'static str {
		if let Some(x) = self.names.get(s) {
			return x;
		}
		let l: &'static str = Box::leak(s.to_string().into_boxed_str());
		self.names.insert(s.to_string(), l);
		l
	}
}

fn err_s(r: Result<(), RegisterMethodError>, merge: bool) -> String {
	match r {
		Ok(()) => "ok".into(),
		Err(RegisterMethodError::AlreadyRegistered(n)) => {
			format!("{}{}", if merge { "E:already-merge:" } else { "E:already:" }, hex_name(&n))
		}
		Err(RegisterMethodError::SubscriptionNameConflict(n)) => format!("E:conflict:{}", hex_name(&n)),
		Err(RegisterMethodError::MethodNotFound(n)) => format!("E:notfound:{}", hex_name(&n)),
	}
}

fn kind_of(cb: &MethodCallback) -> &'static str {
	match cb {
		MethodCallback::Sync(_) => "Sync",
		MethodCallback::Async(_) => "Async",
		MethodCallback::Subscription(_) => "Subscription",
		MethodCallback::Unsubscription(_) => "Unsubscription",
	}
}

fn request(name: &str, params: Option<&str>) -> String {
	let n = serde_json::to_string(name).unwrap();
	match params {
		None => format!(r#"{{"jsonrpc":"2.0","id":0,"method":{}}}"#, n),
		Some(p) => format!(r#"{{"jsonrpc":"2.0","id":0,"method":{},"params":{}}}"#, n, p),
	}
}

/// (result text | error code) of a raw response
fn split_response(resp: &RawValue) -> Result<String, i64> {
	let v: serde_json::Value = serde_json::from_str(resp.get()).expect("response is JSON");
	if let Some(e) = v.get("error") {
		return Err(e.get("code").and_then(|c| c.as_i64()).unwrap_or(0));
	}
	Ok(v.get("result").map(|r| r.to_string()).unwrap_or_else(|| "?".into()))
}

async fn subscribe_once(ms: &Methods, sub_name: &str) -> Result<(String, u64, Receiver<Box<RawValue>>), String> {
	let (resp, mut rx) = ms.raw_json_request(&request(sub_name, None), 4).await.map_err(|e| format!("parse:{e}"))?;
	let id = split_response(&resp).map_err(|c| format!("err{c}"))?;
	let first = tokio::time::timeout(Duration::from_secs(5), rx.recv()).await.map_err(|_| "timeout".to_string())?;
	let first = first.ok_or_else(|| "closed".to_string())?;
	let v: serde_json::Value = serde_json::from_str(first.get()).map_err(|_| "notif-not-json".to_string())?;
	let p = v.get("params").ok_or("no-params")?;
	if p.get("subscription").map(|s| s.to_string()) != Some(id.clone()) {
		return Err("foreign-subscription-id".into());
	}
	let tag = p.get("result").and_then(|r| r.as_u64()).ok_or("no-tag")?;
	Ok((id, tag, rx))
}

/// Which handler answers `name` on `ms`: "nf" or "<Kind>:<tag>".
async fn dispatch(ms: &Methods, name: &str, probes: &mut BTreeMap<u64, Vec<Probe>>) -> String {
	let kind = ms.method(name).map(kind_of);
	match ms.method_with_name(name) {
		Some((n, cb)) if n == name && Some(kind_of(cb)) == kind => {}
		None if kind.is_none() => {}
		_ => return "INCONSISTENT:method_with_name".into(),
	}
	match kind {
		None => {
			let r = ms.raw_json_request(&request(name, None), 4).await;
			match r.map(|(resp, _)| split_response(&resp)) {
				Ok(Err(-32601)) => "nf".into(),
				other => format!("INCONSISTENT:unbound-but-{:?}", other.map_err(|e| e.to_string())),
			}
		}
		Some(k @ ("Sync" | "Async")) => match ms.raw_json_request(&request(name, None), 4).await {
			Ok((resp, _)) => match split_response(&resp) {
				Ok(t) => format!("{k}:{t}"),
				Err(c) => format!("{k}:err{c}"),
			},
			Err(e) => format!("{k}:parse:{e}"),
		},
		Some("Subscription") => match subscribe_once(ms, name).await {
			Ok((_, tag, _rx)) => format!("Subscription:{tag}"),
			Err(e) => format!("Subscription:{e}"),
		},
		Some(_) => {
			let mut hits = Vec::new();
			let mut dry = false;
			for (tag, ps) in probes.iter_mut() {
				let Some((id, _rx)) = ps.pop() else {
					dry = true;
					continue;
				};
				let params = format!("[{}]", id);
				match ms.raw_json_request(&request(name, Some(&params)), 4).await.map(|(resp, _)| split_response(&resp)) {
					Ok(Ok(t)) if t == "true" => hits.push(*tag),
					Ok(Ok(t)) if t == "false" => {}
					other => return format!("Unsubscription:odd:{:?}", other.map_err(|e| e.to_string())),
				}
			}
			match hits.as_slice() {
				[t] => format!("Unsubscription:{t}"),
				[] if dry => "Unsubscription:noprobe".into(),
				[] => "Unsubscription:?".into(),
				_ => "Unsubscription:multi".into(),
			}
		}
	}
}

/// Apply one registration to `m`; on success of a subscription open `spare` probe subscriptions.
async fn register(w_names: &mut World, m: &mut RpcModule<()>, r: &Reg, spare: usize) -> Result<(), RegisterMethodError> {
	match r {
		Reg::Method(n, t) => {
			let (n, t) = (w_names.intern(n), *t);
			m.register_method(n, move |_, _, _| t).map(|_| ())
		}
		Reg::Async(n, t) => {
			let (n, t) = (w_names.intern(n), *t);
			m.register_async_method(n, move |_, _, _| async move { t }).map(|_| ())
		}
		Reg::Blocking(n, t) => {
			let (n, t) = (w_names.intern(n), *t);
			m.register_blocking_method(n, move |_, _, _| t).map(|_| ())
		}
		Reg::Sub(raw, s, u, t) => {
			let (s, u, t) = (w_names.intern(s), w_names.intern(u), *t);
			let res = if *raw {
				m.register_subscription_raw(s, "n", u, move |_, pending, _, _| {
					tokio::spawn(async move {
						if let Ok(sink) = pending.accept().await {
							let _ = sink.send(serde_json::value::to_raw_value(&t).unwrap()).await;
							sink.closed().await;
						}
					});
				})
				.map(|_| ())
			} else {
				m.register_subscription(s, "n", u, move |_, pending, _, _| async move {
					if let Ok(sink) = pending.accept().await {
						let _ = sink.send(serde_json::value::to_raw_value(&t).unwrap()).await;
						sink.closed().await;
					}
				})
				.map(|_| ())
			};
			if res.is_ok() {
				let mut ps = Vec::with_capacity(spare);
				for _ in 0..spare {
					match subscribe_once(m, s).await {
						Ok((id, tag, rx)) if tag == t => ps.push((id, rx)),
						_ => {}
					}
				}
				w_names.probes.insert(t, ps);
			}
			res
		}
	}
}

fn dump(w: &World) -> String {
	w.mods
		.iter()
		.map(|m| {
			let mut names: Vec<&'static str> = m.method_names().collect();
			names.sort();
			if names.is_empty() {
				return "_".to_string();
			}
			names
				.iter()
				.map(|n| format!("{}.{}", hex_name(n), m.method(n).map(kind_of).unwrap_or("MISSING")))
				.collect::<Vec<_>>()
				.join(",")
		})
		.collect::<Vec<_>>()
		.join("/")
}

fn parse_reg(f: &[&str]) -> Reg {
	match f {
		["m", n, t] => Reg::Method(name_of(n), t.parse().unwrap()),
		["a", n, t] => Reg::Async(name_of(n), t.parse().unwrap()),
		["b", n, t] => Reg::Blocking(name_of(n), t.parse().unwrap()),
		["s", s, u, t] => Reg::Sub(false, name_of(s), name_of(u), t.parse().unwrap()),
		["r", s, u, t] => Reg::Sub(true, name_of(s), name_of(u), t.parse().unwrap()),
		_ => panic!("bad reg"),
	}
}

async fn run_line(line: &str) -> String {
	let toks: Vec<&str> = line.split_whitespace().collect();
	if toks.is_empty() {
		return "?empty".into();
	}
	let mut w = World { mods: vec![RpcModule::new(())], probes: BTreeMap::new(), names: HashMap::new() };
	let mut out = Vec::with_capacity(toks.len());
	// probes a later op may consume: one per call/remove still to come
	let consumers = |from: usize| toks[from..].iter().filter(|t| t.starts_with("ca:") || t.starts_with("rv:")).count();
	for (i, tok) in toks.iter().enumerate() {
		let f: Vec<&str> = tok.split(':').collect();
		let modi = |k: usize| f[k].parse::<usize>().unwrap();
		let valid = |w: &World, k: usize| k < w.mods.len();
		let spare = consumers(i + 1);
		let obs: String = match f[0] {
			"m" | "a" | "b" | "s" | "r" => {
				let m = modi(1);
				if !valid(&w, m) {
					"bad".into()
				} else {
					let mut ff = vec![f[0]];
					ff.extend_from_slice(&f[2..]);
					let r = parse_reg(&ff);
					let mut module = std::mem::replace(&mut w.mods[m], RpcModule::new(()));
					let res = register(&mut w, &mut module, &r, spare).await;
					w.mods[m] = module;
					err_s(res, false)
				}
			}
			"al" => {
				let m = modi(1);
				if !valid(&w, m) {
					"bad".into()
				} else {
					let (a, e) = (w.intern(&name_of(f[2])), w.intern(&name_of(f[3])));
					err_s(w.mods[m].register_alias(a, e), false)
				}
			}
			"mm" => {
				let (m, j) = (modi(1), modi(2));
				if !valid(&w, m) || !valid(&w, j) {
					"bad".into()
				} else {
					let other = w.mods[j].clone();
					err_s(w.mods[m].merge(other), true)
				}
			}
			"mn" => {
				let m = modi(1);
				if !valid(&w, m) {
					"bad".into()
				} else {
					let mut fresh = RpcModule::new(());
					let mut built = Vec::new();
					if f[2] != "_" {
						for r in f[2].split(',') {
							let r = parse_reg(&r.split('.').collect::<Vec<_>>());
							built.push(err_s(register(&mut w, &mut fresh, &r, spare).await, false));
						}
					}
					format!("mn[{}]{}", built.join(","), err_s(w.mods[m].merge(fresh), true))
				}
			}
			"rv" => {
				let m = modi(1);
				if !valid(&w, m) {
					"bad".into()
				} else {
					let n = w.intern(&name_of(f[2]));
					match w.mods[m].remove_method(n) {
						None => "rm:none".into(),
						Some(cb) => {
							let mut scratch = Methods::new();
							scratch.verify_and_insert("x", cb).map(|_| ()).expect("fresh Methods");
							format!("rm:{}", dispatch(&scratch, "x", &mut w.probes).await)
						}
					}
				}
			}
			"cl" => {
				let m = modi(1);
				if !valid(&w, m) {
					"bad".into()
				} else {
					let c = w.mods[m].clone();
					w.mods.push(c);
					format!("h:{}", w.mods.len() - 1)
				}
			}
			"nw" => {
				w.mods.push(RpcModule::new(()));
				format!("h:{}", w.mods.len() - 1)
			}
			"ca" => {
				let m = modi(1);
				if !valid(&w, m) {
					"bad".into()
				} else {
					let n = name_of(f[2]);
					let World { mods, probes, .. } = &mut w;
					format!("call:{}", dispatch(&mods[m], &n, probes).await)
				}
			}
			_ => "?bad-op".into(),
		};
		out.push(format!("{}@{}", obs, dump(&w)));
	}
	// close every subscription opened for this line and let their tasks finish
	drop(w);
	for _ in 0..4 {
		tokio::task::yield_now().await;
	}
	out.join(" ")
}

fn main() {
	let rt = tokio::runtime::Builder::new_current_thread().enable_time().build().unwrap();
	for_each_line(|l| rt.block_on(run_line(l)));
}
