//! respsize: the real `MethodResponse::{response, error}` and `BatchResponseBuilder` on given id / payload / limit.
//!
//! Line protocol (one result line per input line), shared with modelrun/respsize_driver.ml:
//!   single <id> <payload> <max> [cuts]       MethodResponse::response(id, payload, max)      ([cuts] is for the model only)
//!   error  <id> <code> <msg> <data|->        MethodResponse::error(id, ErrorObject::owned(code, msg, data))
//!   batch  <max> <id>,<payload>;...|-        the loop of RpcService::batch: append each entry's response, finish
//! id:      null | n:<u64> | s:<segs>
//! payload: r:<segs> raw JSON result | s:<segs> string result | f:<segs> a Serialize that emits `["<string>"` then fails
//!          | e:<code>:<msgsegs>:<datasegs|-> error payload (data = raw JSON)
//! segs:    hex*count+hex*count...   ("-" = empty)
//! result:  <len> <crc32> <hex of the first 300 bytes> <hex of the last 64 bytes, "-" if len <= 300> <ok|err:code|fail index>
use jrv::{for_each_line_catch, hex, unhex};
use jsonrpsee_core::server::{BatchResponseBuilder, MethodResponse, ResponsePayload};
use jsonrpsee_types::{ErrorObjectOwned, Id};
use serde::ser::{SerializeSeq, Serializer};
use serde_json::value::RawValue;

fn segs(s: &str) -> Vec<u8> {
	let mut out = Vec::new();
	if s == "-" || s.is_empty() {
		return out;
	}
	for p in s.split('+') {
		let mut it = p.split('*');
		let unit = unhex(it.next().unwrap());
		let n: usize = it.next().map(|c| c.parse().unwrap()).unwrap_or(1);
		for _ in 0..n {
			out.extend_from_slice(&unit);
		}
	}
	out
}

fn utf8(b: Vec<u8>) -> String {
	String::from_utf8(b).expect("generator emits UTF-8")
}

fn crc32(data: &[u8]) -> u32 {
	let mut table = [0u32; 256];
	for n in 0..256u32 {
		let mut c = n;
		for _ in 0..8 {
			c = if c & 1 == 1 { 0xEDB88320 ^ (c >> 1) } else { c >> 1 };
		}
		table[n as usize] = c;
	}
	let mut c = 0xFFFF_FFFFu32;
	for b in data {
		c = table[((c ^ *b as u32) & 0xFF) as usize] ^ (c >> 8);
	}
	c ^ 0xFFFF_FFFF
}

fn digest(b: &[u8]) -> String {
	let n = b.len();
	let head = if n == 0 { "-".to_string() } else { hex(&b[..n.min(300)]) };
	let tail = if n <= 300 { "-".to_string() } else { hex(&b[n - 64..]) };
	format!("{} {:08x} {} {}", n, crc32(b), head, tail)
}

fn id_of(s: &str) -> Id<'static> {
	if s == "null" {
		Id::Null
	} else if let Some(n) = s.strip_prefix("n:") {
		Id::Number(n.parse().expect("u64 id"))
	} else if let Some(h) = s.strip_prefix("s:") {
		Id::Str(utf8(segs(h)).into())
	} else {
		panic!("bad id")
	}
}

/// A value whose serialisation writes `["<s>"` and then fails with a non-io error.
#[derive(Clone)]
struct FailAfter(String);
impl serde::Serialize for FailAfter {
	fn serialize<S: Serializer>(&self, s: S) -> Result<S::Ok, S::Error> {
		let mut seq = s.serialize_seq(None)?;
		seq.serialize_element(&self.0)?;
		Err(serde::ser::Error::custom("serialiser failed"))
	}
}

fn error_object(code: &str, msg: &str, data: &str) -> ErrorObjectOwned {
	let code: i32 = code.parse().expect("i32 code");
	let msg = utf8(segs(msg));
	if data == "-" {
		ErrorObjectOwned::owned(code, msg, None::<()>)
	} else {
		let raw = RawValue::from_string(utf8(segs(data))).expect("data is JSON");
		ErrorObjectOwned::owned(code, msg, Some(raw))
	}
}

fn response(id: Id<'static>, payload: &str, max: usize) -> MethodResponse {
	let (kind, rest) = payload.split_at(2);
	match kind {
		"r:" => {
			let raw = RawValue::from_string(utf8(segs(rest))).expect("result is JSON");
			MethodResponse::response(id, ResponsePayload::success(raw), max)
		}
		"s:" => MethodResponse::response(id, ResponsePayload::success(utf8(segs(rest))), max),
		"f:" => MethodResponse::response(id, ResponsePayload::success(FailAfter(utf8(segs(rest)))), max),
		"e:" => {
			let p: Vec<&str> = rest.split(':').collect();
			MethodResponse::response(id, ResponsePayload::<()>::error(error_object(p[0], p[1], p[2])), max)
		}
		_ => panic!("bad payload"),
	}
}

fn flag(r: &MethodResponse) -> String {
	match r.as_error_code() {
		None => "ok".to_string(),
		Some(c) => format!("err:{}", c),
	}
}

fn handle(line: &str) -> String {
	let t: Vec<&str> = line.split_whitespace().collect();
	match t.as_slice() {
		["single", id, payload, max, ..] => {
			let r = response(id_of(id), payload, max.parse::<u64>().unwrap() as usize);
			format!("{} {}", digest(r.as_json().get().as_bytes()), flag(&r))
		}
		["error", id, code, msg, data] => {
			let r = MethodResponse::error(id_of(id), error_object(code, msg, data));
			format!("{} {}", digest(r.as_json().get().as_bytes()), flag(&r))
		}
		["batch", max, entries] => {
			let max = max.parse::<u64>().unwrap() as usize;
			let mut b = BatchResponseBuilder::new_with_limit(max);
			let mut failed = None;
			if *entries != "-" {
				for (k, e) in entries.split(';').enumerate() {
					let (id, payload) = e.split_once(',').expect("entry");
					if let Err(err) = b.append(response(id_of(id), payload, max)) {
						failed = Some((k, err));
						break;
					}
				}
			}
			match failed {
				Some((k, err)) => format!("{} {}", digest(err.as_json().get().as_bytes()), k),
				None => {
					let r = MethodResponse::from_batch(b.finish());
					format!("{} -", digest(r.as_json().get().as_bytes()))
				}
			}
		}
		_ => "?bad-line".to_string(),
	}
}

fn main() {
	for_each_line_catch(handle);
}
