//! Engine `sinkbp` (C04, back-pressure): ONE subscription's `SubscriptionSink` over the bounded tokio mpsc that
//! `Methods::raw_json_request` / `Methods::subscribe` create (capacity = buf_size), no server, no socket.
//! Same line protocol as modelrun/sinkbp_driver.ml (model: coq/Model/SinkQueue.v):
//!
//!     <cap> <-|sid|s<hex>> <raw|sub> | op op op ...
//!
//!   cap   capacity of the channel (>= 1)
//!   sid   `-` or a decimal number: ignored here, the id is drawn by the library (the model needs it, see below);
//!         `s<hex>`: a STRING subscription id, given as the hex of its UTF-8 text (any characters: quotes, backslashes,
//!         control characters, non-ASCII, empty).  Only with `raw`.  `Methods::raw_json_request` / `subscribe` fix the
//!         id provider (RandomIntegerIdProvider), so for a string id the harness does what `Methods::inner_call`
//!         does with its own `SubscriptionState { id_provider: &FixedId(..), .. }` (what a server built with
//!         `ServerConfig::builder().set_id_provider(..)` hands to the callback): a bounded `mpsc::channel(cap)`,
//!         `MethodSink::new(tx)`, the `MethodCallback::Subscription` of "sub" is awaited, the answer to the
//!         subscribe call is taken out of the channel, the harness's own sender is dropped.
//!   raw   the subscription is started with `raw_json_request("{..\"method\":\"sub\"..}", cap)`; the receiving end
//!         is the `mpsc::Receiver<Box<RawValue>>` it returns, so every frame is seen byte for byte
//!   sub   the subscription is started with `Methods::subscribe("sub", EmptyServerParams::new(), cap)`; the receiving
//!         end is `Subscription::next::<Box<RawValue>>()`, which yields (result text, subscription id) of the frame
//!   ops   s<x> | t<x> | o<x>        the handler sends the fresh message `Box<RawValue>` = decimal x through
//!                                   SubscriptionSink::send / try_send / send_timeout(.., 30 ms); a message that is
//!                                   handed back by the error is kept in slot x
//!         Rs<k> | Rt<k> | Ro<k>     the handler takes the message kept in slot k and sends it again through
//!                                   send / try_send / send_timeout; handed back again -> kept in slot k again
//!         r                         the receiver takes the next frame if there is one (never waits)
//!         c                         the receiver closes the channel (`Receiver::close` / `Subscription::close`)
//!
//! Output: `id=<subscription id> tok tok ...`, one token per op (string id: `id=j<hex of the "result" text of the
//!         accepting response>`, i.e. the id as the library serialised it for the subscriber):
//!         ok | full=<m> | timeout=<m> | closed=<m> | wouldblock | na      for a send / re-send; <m> is the message
//!                                   that was handed back: C<hex of json> (Complete) or N<hex of raw> (NeedsData),
//!                                   read off the Debug output of SubscriptionMessage (its field is crate-private)
//!         F<hex of frame> (raw) | I<sid>:<hex of result> (sub) | E (sub: frame not decodable) | empty | end   for r
//!         done                      for c
//!     or  ?<what>                   when the harness itself is in trouble
//!     or  PANIC <hex of message>    something panicked while the case ran: the harness thread, or a task of the
//!                                   library / the handler (seen by the panic hook; such a case reports nothing else)
//! `wouldblock`: `send` did not finish within 25 ms; the future is dropped (that consumes the message).
//! `na`: the slot holds nothing.
//!
//! A numeric subscription id comes from RandomIntegerIdProvider (fixed in Methods::inner_call), so it is REPORTED
//! (`id=`) and the python glue passes the same id to the model on its input line.  A string id is configured by the
//! case line on both sides; `id=j..` then shows how the accepting response spelled it.
//! The handler is remote-controlled: it accepts the pending sink and then executes the commands the script sends it
//! over a channel, until the script ends (then it returns `()`, i.e. no closing notification).
//! What accepting does to the channel: `PendingSubscriptionSink::accept` puts the answer to the subscribe call INTO
//! the bounded channel, and `Methods::inner_call` takes it out again (`rx.recv()` after the callback) before it
//! returns, so the script starts on an empty channel with all `cap` places free.  The harness checks that (a frame
//! found before the first op is reported as `?initial-frame`).
//! Current-thread runtime, a fresh runtime + module per line, every wait is bounded.
use std::collections::HashMap;
use std::sync::{Arc, Mutex};
use std::time::Duration;

use futures_util::FutureExt;
use jrv::*;
use jsonrpsee_core::EmptyServerParams;
use jsonrpsee_core::server::{
	BoundedSubscriptions, ConnectionId, DisconnectError, Extensions, MethodCallback, MethodSink, RpcModule, SendTimeoutError,
	Subscription, SubscriptionMessage, SubscriptionSink, SubscriptionState, TrySendError,
};
use jsonrpsee_core::traits::IdProvider;
use jsonrpsee_types::{Id, Params, SubscriptionId};
use serde_json::value::RawValue;
use tokio::sync::mpsc;

const SEND_TIMEOUT: Duration = Duration::from_millis(30);
const BLOCK_WAIT: Duration = Duration::from_millis(25);
const CMD_WAIT: Duration = Duration::from_secs(5);

/// First panic message seen by the hook while a case runs (panics of spawned tasks never reach the harness thread).
static PANIC_MSG: Mutex<Option<String>> = Mutex::new(None);

/// The custom `IdProvider` of the case line: every subscription gets exactly this string.
#[derive(Debug)]
struct FixedId(String);
impl IdProvider for FixedId {
	fn next_id(&self) -> SubscriptionId<'static> {
		SubscriptionId::Str(self.0.clone().into())
	}
}

#[derive(Clone, Copy, Debug)]
enum Path {
	Send,
	Try,
	Timeout,
}

#[derive(Debug)]
enum Cmd {
	Fresh(Path, u64),
	Resend(Path, u64),
}

enum Op {
	Handler(Cmd),
	Recv,
	Close,
}

type Chans = (mpsc::UnboundedReceiver<Cmd>, mpsc::UnboundedSender<String>);
struct Ctl(Mutex<Option<Chans>>);

fn msg_token(m: &SubscriptionMessage) -> String {
	let d = format!("{m:?}");
	for (tag, pre) in [("C", "SubscriptionMessage(Complete(RawValue("), ("N", "SubscriptionMessage(NeedsData(RawValue(")] {
		if let Some(j) = d.strip_prefix(pre).and_then(|r| r.strip_suffix(")))")) {
			return format!("{tag}{}", hex(j.as_bytes()));
		}
	}
	format!("?{}", hex(d.as_bytes()))
}

/// One call of the sink; the message handed back by a failure is kept in `held[slot]`.
async fn sink_send(
	sink: &mut SubscriptionSink,
	held: &mut HashMap<u64, SubscriptionMessage>,
	path: Path,
	slot: u64,
	msg: SubscriptionMessage,
) -> String {
	let (tok, back) = match path {
		Path::Send => match tokio::time::timeout(BLOCK_WAIT, sink.send(msg)).await {
			Ok(Ok(())) => ("ok", None),
			Ok(Err(DisconnectError(m))) => ("closed", Some(m)),
			Err(_) => ("wouldblock", None),
		},
		Path::Try => match sink.try_send(msg) {
			Ok(()) => ("ok", None),
			Err(TrySendError::Full(m)) => ("full", Some(m)),
			Err(TrySendError::Closed(m)) => ("closed", Some(m)),
		},
		Path::Timeout => match sink.send_timeout(msg, SEND_TIMEOUT).await {
			Ok(()) => ("ok", None),
			Err(SendTimeoutError::Timeout(m)) => ("timeout", Some(m)),
			Err(SendTimeoutError::Closed(m)) => ("closed", Some(m)),
		},
	};
	match back {
		Some(m) => {
			let t = format!("{tok}={}", msg_token(&m));
			held.insert(slot, m);
			t
		}
		None => tok.to_string(),
	}
}

fn module() -> (RpcModule<Ctl>, mpsc::UnboundedSender<Cmd>, mpsc::UnboundedReceiver<String>) {
	let (cmd_tx, cmd_rx) = mpsc::unbounded_channel::<Cmd>();
	let (res_tx, res_rx) = mpsc::unbounded_channel::<String>();
	let mut module = RpcModule::new(Ctl(Mutex::new(Some((cmd_rx, res_tx)))));
	module
		.register_subscription("sub", "note", "unsub", |_params, pending, ctl: Arc<Ctl>, _ext| async move {
			let Some((mut cmd_rx, res_tx)) = ctl.0.lock().unwrap_or_else(|e| e.into_inner()).take() else {
				return;
			};
			let mut sink = match pending.accept().await {
				Ok(s) => s,
				Err(_) => {
					let _ = res_tx.send("?accept-failed".into());
					return;
				}
			};
			let mut held: HashMap<u64, SubscriptionMessage> = HashMap::new();
			while let Some(cmd) = cmd_rx.recv().await {
				let tok = match cmd {
					Cmd::Fresh(path, x) => {
						let raw: Box<RawValue> = serde_json::value::to_raw_value(&x).unwrap();
						sink_send(&mut sink, &mut held, path, x, SubscriptionMessage::from(raw)).await
					}
					Cmd::Resend(path, k) => match held.remove(&k) {
						Some(m) => sink_send(&mut sink, &mut held, path, k, m).await,
						None => "na".to_string(),
					},
				};
				if res_tx.send(tok).is_err() {
					break;
				}
			}
		})
		.unwrap();
	(module, cmd_tx, res_rx)
}

enum Rx {
	Raw(mpsc::Receiver<Box<RawValue>>),
	Sub(Subscription),
}

impl Rx {
	/// The next frame if one is queued; never waits (one poll of the receiving future).
	fn recv(&mut self) -> String {
		match self {
			Rx::Raw(rx) => match rx.recv().now_or_never() {
				Some(Some(f)) => format!("F{}", hex(f.get().as_bytes())),
				Some(None) => "end".into(),
				None => "empty".into(),
			},
			Rx::Sub(sub) => match sub.next::<Box<RawValue>>().now_or_never() {
				Some(Some(Ok((result, sid)))) => {
					format!("I{}:{}", serde_json::to_string(&sid).unwrap_or_default(), hex(result.get().as_bytes()))
				}
				Some(Some(Err(_))) => "E".into(),
				Some(None) => "end".into(),
				None => "empty".into(),
			},
		}
	}
	fn close(&mut self) {
		match self {
			Rx::Raw(rx) => rx.close(),
			Rx::Sub(sub) => sub.close(),
		}
	}
}

fn num(s: &str) -> Option<u64> {
	(!s.is_empty() && s.len() <= 18 && s.bytes().all(|c| c.is_ascii_digit())).then(|| s.parse().ok())?
}

/// lower-case hex of a UTF-8 text -> the text
fn hex_text(h: &str) -> Option<String> {
	let b = h.as_bytes();
	if b.len() % 2 != 0 || !b.iter().all(|c| matches!(c, b'0'..=b'9' | b'a'..=b'f')) {
		return None;
	}
	String::from_utf8(unhex(h)).ok()
}

fn parse_op(t: &str) -> Option<Op> {
	let path = |c: u8| match c {
		b's' => Some(Path::Send),
		b't' => Some(Path::Try),
		b'o' => Some(Path::Timeout),
		_ => None,
	};
	let b = t.as_bytes();
	Some(match b.first()? {
		b'r' if t == "r" => Op::Recv,
		b'c' if t == "c" => Op::Close,
		b'R' => Op::Handler(Cmd::Resend(path(*b.get(1)?)?, num(&t[2..])?)),
		c => Op::Handler(Cmd::Fresh(path(*c)?, num(&t[1..])?)),
	})
}

#[derive(serde::Deserialize)]
struct SubOk {
	result: Box<RawValue>,
}

async fn run_case(line: &str) -> String {
	let Some((head, script)) = line.split_once('|') else {
		return "?bad-line".into();
	};
	let head: Vec<&str> = head.split_whitespace().collect();
	let (cap, sid_arg, mode) = match head[..] {
		[cap, sid, mode @ ("raw" | "sub")] => match num(cap) {
			Some(c) if (1..=1_000_000).contains(&c) => (c as usize, sid, mode),
			_ => return "?bad-line".into(),
		},
		_ => return "?bad-line".into(),
	};
	let str_id: Option<String> = match sid_arg.strip_prefix('s') {
		Some(h) => match hex_text(h) {
			Some(s) if mode == "raw" => Some(s),
			_ => return "?bad-line".into(),
		},
		None if sid_arg == "-" || num(sid_arg).is_some() => None,
		None => return "?bad-line".into(),
	};
	let Some(ops) = script.split_whitespace().map(parse_op).collect::<Option<Vec<Op>>>() else {
		return "?bad-line".into();
	};
	let (module, cmd_tx, mut res_rx) = module();
	let (sid, mut rx) = if let Some(s) = str_id {
		// Methods::inner_call, with the id provider of the case line
		let Some(MethodCallback::Subscription(cb)) = module.method("sub").cloned() else {
			return "?no-sub".into();
		};
		let (tx, mut rx) = mpsc::channel::<Box<RawValue>>(cap);
		let Some(permit) = BoundedSubscriptions::new(1).acquire() else { return "?no-permit".into() };
		let ids = FixedId(s);
		let state = SubscriptionState { conn_id: ConnectionId(0), id_provider: &ids, subscription_permit: permit };
		let fut = cb(Id::Number(0), Params::new(Some("[]")), MethodSink::new(tx.clone()), state, Extensions::new());
		let resp = match tokio::time::timeout(CMD_WAIT, fut).await {
			Ok(r) => r,
			Err(_) => return "?subscribe-timeout".into(),
		};
		match tokio::time::timeout(CMD_WAIT, rx.recv()).await {
			Ok(Some(_)) => {}
			_ => return "?subscribe-no-answer".into(),
		}
		let is_success = resp.is_success();
		let (rp, notif, _) = resp.into_parts();
		if let Some(n) = notif {
			n.notify(is_success);
		}
		drop(tx);
		match serde_json::from_str::<SubOk>(rp.get()) {
			Ok(ok) => (format!("j{}", hex(ok.result.get().as_bytes())), Rx::Raw(rx)),
			Err(_) => return format!("?subscribe-answer:{}", hex(rp.get().as_bytes())),
		}
	} else if mode == "raw" {
		let req = r#"{"jsonrpc":"2.0","id":0,"method":"sub","params":[]}"#;
		match tokio::time::timeout(CMD_WAIT, module.raw_json_request(req, cap)).await {
			Ok(Ok((resp, rx))) => match serde_json::from_str::<SubOk>(resp.get()) {
				Ok(ok) => (ok.result.get().to_string(), Rx::Raw(rx)),
				Err(_) => return format!("?subscribe-answer:{}", hex(resp.get().as_bytes())),
			},
			Ok(Err(_)) => return "?subscribe-failed".into(),
			Err(_) => return "?subscribe-timeout".into(),
		}
	} else {
		match tokio::time::timeout(CMD_WAIT, module.subscribe("sub", EmptyServerParams::new(), cap)).await {
			Ok(Ok(sub)) => (serde_json::to_string(sub.subscription_id()).unwrap_or_default(), Rx::Sub(sub)),
			Ok(Err(_)) => return "?subscribe-failed".into(),
			Err(_) => return "?subscribe-timeout".into(),
		}
	};
	// the answer to the subscribe call must not sit in the channel any more
	tokio::task::yield_now().await;
	let first = rx.recv();
	if first != "empty" {
		return format!("?initial-frame:{first}");
	}
	let mut out = vec![format!("id={sid}")];
	for op in ops {
		tokio::task::yield_now().await; // fresh cooperative budget for the single polls in `Rx::recv`
		out.push(match op {
			Op::Recv => rx.recv(),
			Op::Close => {
				rx.close();
				"done".into()
			}
			Op::Handler(cmd) => {
				if cmd_tx.send(cmd).is_err() {
					return "?handler-gone".into();
				}
				match tokio::time::timeout(CMD_WAIT, res_rx.recv()).await {
					Ok(Some(tok)) => tok,
					Ok(None) => return "?handler-gone".into(),
					Err(_) => return "?handler-timeout".into(),
				}
			}
		});
	}
	drop(cmd_tx); // the handler returns
	out.join(" ")
}

fn panic_text(p: &(dyn std::any::Any + Send)) -> String {
	p.downcast_ref::<&str>().map(|s| s.to_string()).or_else(|| p.downcast_ref::<String>().cloned()).unwrap_or_default()
}

fn main() {
	std::panic::set_hook(Box::new(|info| {
		let mut g = PANIC_MSG.lock().unwrap_or_else(|e| e.into_inner());
		if g.is_none() {
			*g = Some(panic_text(info.payload()));
		}
	}));
	for_each_line(|l| {
		*PANIC_MSG.lock().unwrap_or_else(|e| e.into_inner()) = None;
		let r = std::panic::catch_unwind(std::panic::AssertUnwindSafe(|| {
			let rt = tokio::runtime::Builder::new_current_thread().enable_all().build().unwrap();
			let r = rt.block_on(async {
				tokio::time::timeout(Duration::from_secs(30), run_case(l)).await.unwrap_or_else(|_| "?timeout".into())
			});
			rt.shutdown_timeout(Duration::from_millis(200));
			r
		}));
		let r = r.unwrap_or_else(|e| format!("PANIC {}", hex(panic_text(&*e).as_bytes())));
		match PANIC_MSG.lock().unwrap_or_else(|e| e.into_inner()).take() {
			Some(msg) if !r.starts_with("PANIC") => format!("PANIC {}", hex(msg.as_bytes())),
			_ => r,
		}
	});
}
