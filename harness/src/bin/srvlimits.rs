//! srvlimits: end-to-end size-limit scenarios against real servers, through every way a server can be assembled.
//!
//! One JSON case per input line, one JSON result per output line.
//!   {"ep": "server"|"tower"|"wsconnect"|"httpbuilder"|"httpcall", "t": "ws"|"http", "rq": u32, "rs": u32,
//!    "subid": n (length of the string subscription ids handed out), "msgs": [segs...]           (ws)
//!    "frames": [segs...], "cl": null | number                                                   (http) }
//! segs = hex*count+hex*count...
//! Entry points:
//!   server      `Server::builder().set_config(cfg).build("127.0.0.1:0")` + `start(module)`; WS and HTTP over loop-back TCP
//!   tower       `ServerBuilder::to_service_builder()`; WS: the TowerService served with `serve_with_graceful_shutdown` on
//!               loop-back TCP; HTTP: socket-free `.build(methods, stop).call(request)` with the body given as explicit frames
//!   wsconnect   low-level `jsonrpsee_server::ws::connect` (as examples/jsonrpsee_server_low_level_api.rs) on loop-back TCP
//!   httpbuilder low-level `jsonrpsee_server::http::call_with_service_builder`, called directly (no socket)
//!   httpcall    low-level `jsonrpsee_server::http::call_with_service(req, batch_cfg, rq, service)` with a user service
//! WS client: the raw soketto transport of jsonrpsee-client-transport with a dedicated reader task.
//! Result: ws   {"replies": [hex | "TIMEOUT" | "CLOSED:<why>" ...] one per message sent, "log": [handler log]}
//!         http {"status": n, "body": hex, "log": [...]}
//!
//! WS pipeline mode (the rejection under back-pressure): {"t":"ws", "mode":"pipeline", "buf": n | null, "rcvbuf": bytes,
//!   "barrier": id, "settle": {"at": i, "log": n, "ms": m} | null, "msgs": [...]}
//!   The server (every WS entry point) is built with `set_message_buffer_capacity(buf)`; the client socket gets a small
//!   receive buffer (SO_RCVBUF = rcvbuf, default 4096) and its reader task does not read while the messages are written.
//!   All messages are written back-to-back (with "settle": before message `at` is written the writer waits -- at most 5 s --
//!   until the handler log has `log` entries, then `ms` milliseconds more, so that the responses produced so far have
//!   filled the socket buffers and the connection's bounded queue); THEN the reader is released and every frame is read
//!   until the reply with id `barrier` has arrived and (as many frames as messages have arrived | the connection has
//!   been quiet for 1.5 s); without the barrier reply: quiet for 6 s or 30 s in total -> the marker "TIMEOUT" is appended.
//!   Result: {"replies": [frame ...] in arrival order, "wrote": number of messages written, "stalled": bool (the
//!   writer had not finished after 3 s: the reader was released anyway), "log": [...]}
//!   frame = hex (<= 1024 bytes) | "L:<len>:<crc32 hex>:<hex of the first 96 bytes>" | "CLOSED:<why>" | "TIMEOUT" | "SENDERR:<k>:<why>"
//!
//! WS frag mode (fragmented messages, RFC 6455 5.4): {"t":"ws", "mode":"frag", "barrier": id, "quiet": ms (default 250),
//!   "mask": 8 hex digits (default 37fa213d), "msgs": [msg ...]}, msg = [item ...] | {"items": [item ...], "expect": n (default 1)}
//!   item = segs                 one fragment of the message: opcode Text on the first, Continuation afterwards, FIN on the last
//!        | "T0:segs" | "T1:segs" | "C0:segs" | "C1:segs"    explicit data frame (Text / Continuation, FIN bit 0 / 1)
//!        | "P:segs" | "O:segs"   a Ping / an unsolicited Pong control frame (payload <= 125 bytes)
//!        | "R:segs"              raw bytes written to the socket as they are (no frame header)
//!        | "S:ms"                pause (<= 1000 ms)
//!   The client is a raw WebSocket client over a TcpStream: HTTP upgrade by hand, every frame masked, minimal length
//!   encoding, one write per item (TCP_NODELAY).  One message at a time: all its items are written, then frames are read
//!   until `expect` text frames have arrived (at most 4 s) -- with "expect": 0 for `quiet` ms; everything that arrives is
//!   recorded under that message.  After the last message the barrier call {"jsonrpc":"2.0","id":<barrier>,"method":
//!   "nosuch"} (answered -32601, no handler) is written and frames are read until its reply arrived (at most 3 s) plus 30 ms.
//!   Result: {"replies": [[frame ...] per message], "final": [frame ...], "alive": bool (the barrier was answered), "log": [...]}
//!   frame = hex of a text frame's payload (frame_repr) | "PONG:hex" | "PING:hex" | "BIN:hex" | "CLOSE:hex" | "EOF" | "IOERR:<kind>"
//!         | "SENDERR:<kind>" | "HANDSHAKE:<why>"
use std::convert::Infallible;
use std::io::{BufRead, Write};
use std::sync::{Arc, Mutex};
use std::time::Duration;

use bytes::Bytes;
use futures_util::FutureExt;
use http_body_util::{BodyExt, Full, StreamBody, combinators::BoxBody};
use jrv::{hex, unhex};
use jsonrpsee_client_transport::ws::{Url, WsTransportClientBuilder};
use jsonrpsee_core::client::{ReceivedMessage, TransportReceiverT, TransportSenderT};
use jsonrpsee_core::middleware::{Batch, Notification, RpcServiceBuilder, RpcServiceT};
use jsonrpsee_core::traits::IdProvider;
use jsonrpsee_server::{
	BatchRequestConfig, ConnectionGuard, ConnectionState, MethodResponse, Methods, RpcModule, Server, ServerConfig,
	http as jhttp, serve_with_graceful_shutdown, stop_channel, ws as jws,
};
use jsonrpsee_types::{ErrorObjectOwned, Id, Request, SubscriptionId};
use serde_json::{Value, json};
use tokio::net::TcpListener;
use tower::Service;

type Log = Arc<Mutex<Vec<String>>>;

fn segs(s: &str) -> Vec<u8> {
	let mut out = Vec::new();
	if s == "-" || s.is_empty() {
		return out;
	}
	for p in s.split('+') {
		let mut it = p.split('*');
		let unit = unhex(it.next().unwrap());
		let n: usize = it.next().map(|c| c.parse().unwrap()).unwrap_or(1);
		for _ in 0..n {
			out.extend_from_slice(&unit);
		}
	}
	out
}

#[derive(Debug)]
struct FixedId(usize);
impl IdProvider for FixedId {
	fn next_id(&self) -> SubscriptionId<'static> {
		SubscriptionId::Str("S".repeat(self.0).into())
	}
}

/// params: [count, unit] -> unit repeated count times
fn gen_value(params: &jsonrpsee_types::Params) -> Result<String, ErrorObjectOwned> {
	let (n, unit): (usize, String) = params.parse()?;
	Ok(unit.repeat(n))
}

fn module(log: Log) -> Methods {
	let mut m = RpcModule::new(log);
	m.register_method("echo", |p, log, _| {
		log.lock().unwrap().push(format!("echo:{}", p.as_str().map(|s| s.len()).unwrap_or(0)));
		"ok"
	})
	.unwrap();
	m.register_method("gen", |p, log, _| {
		log.lock().unwrap().push("gen".to_string());
		gen_value(&p)
	})
	.unwrap();
	m.register_async_method("agen", |p, log, _| async move {
		log.lock().unwrap().push("agen".to_string());
		gen_value(&p)
	})
	.unwrap();
	m.register_blocking_method("bgen", |p, log, _| {
		log.lock().unwrap().push("bgen".to_string());
		gen_value(&p)
	})
	.unwrap();
	// params: [code, message, count] -> error with data "d" * count
	m.register_method("err", |p, log, _| {
		log.lock().unwrap().push("err".to_string());
		let r: Result<String, ErrorObjectOwned> = match p.parse::<(i32, String, usize)>() {
			Ok((code, msg, n)) => Err(ErrorObjectOwned::owned(code, msg, Some("d".repeat(n)))),
			Err(e) => Err(e),
		};
		r
	})
	.unwrap();
	m.register_subscription("sub", "sub_notif", "unsub", |_p, pending, log, _| async move {
		log.lock().unwrap().push("sub".to_string());
		let sink = pending.accept().await?;
		// keep the subscription open until the peer goes away; never sends an item
		sink.closed().await;
		Ok(())
	})
	.unwrap();
	m.into()
}

/// The user-supplied service for `http::call_with_service`: logs and answers "ok" (RpcService itself is not constructible
/// outside the crate).
#[derive(Clone)]
struct UserSvc(Log);
impl RpcServiceT for UserSvc {
	type MethodResponse = MethodResponse;
	type NotificationResponse = MethodResponse;
	type BatchResponse = MethodResponse;
	fn call<'a>(&self, req: Request<'a>) -> impl Future<Output = MethodResponse> + Send + 'a {
		let log = self.0.clone();
		async move {
			log.lock().unwrap().push(format!("user:{}", req.method_name()));
			MethodResponse::response(req.id().into_owned(), jsonrpsee_server::ResponsePayload::success("ok"), usize::MAX)
		}
	}
	fn batch<'a>(&self, _b: Batch<'a>) -> impl Future<Output = MethodResponse> + Send + 'a {
		let log = self.0.clone();
		async move {
			log.lock().unwrap().push("user:batch".to_string());
			MethodResponse::error(Id::Null, ErrorObjectOwned::owned(-32000, "no batches", None::<()>))
		}
	}
	fn notification<'a>(&self, _n: Notification<'a>) -> impl Future<Output = MethodResponse> + Send + 'a {
		let log = self.0.clone();
		async move {
			log.lock().unwrap().push("user:notif".to_string());
			MethodResponse::notification()
		}
	}
}

fn config(rq: u32, rs: u32, subid: usize, buf: Option<u32>) -> ServerConfig {
	let mut b = ServerConfig::builder()
		.max_request_body_size(rq)
		.max_response_body_size(rs)
		.set_id_provider(FixedId(subid))
		.set_batch_request_config(BatchRequestConfig::Unlimited);
	if let Some(n) = buf {
		b = b.set_message_buffer_capacity(n.max(1));
	}
	b.build()
}

type Stopper = Box<dyn FnOnce() + Send>;

/// Loop-back address to listen on: 127.0.0.1 first; when the port space of that address is exhausted (tens of
/// thousands of short-lived listeners in one run leave their ports in TIME_WAIT) another address of 127.0.0.0/8.
async fn bind_loopback() -> TcpListener {
	use std::sync::atomic::{AtomicU32, Ordering};
	static N: AtomicU32 = AtomicU32::new(0);
	let mut last = None;
	for attempt in 0..200u32 {
		let addr = if attempt == 0 {
			"127.0.0.1:0".to_string()
		} else {
			let k = N.fetch_add(1, Ordering::Relaxed).wrapping_add(std::process::id());
			format!("127.{}.{}.{}:0", 1 + (k / 62500) % 250, 1 + (k / 250) % 250, 1 + k % 250)
		};
		match TcpListener::bind(&addr).await {
			Ok(l) => return l,
			Err(e) => last = Some(e),
		}
		if attempt > 20 {
			tokio::time::sleep(Duration::from_millis(50)).await;
		}
	}
	panic!("bind: {:?}", last);
}

/// Start the entry point on loop-back TCP; returns the address and a closure that shuts it down.
async fn start_tcp(ep: &str, cfg: ServerConfig, methods: Methods) -> (std::net::SocketAddr, Stopper) {
	match ep {
		"server" => {
			let mut tries = 0;
			let server = loop {
				let probe = bind_loopback().await;
				let ip = probe.local_addr().unwrap().ip();
				drop(probe);
				match Server::builder().set_config(cfg.clone()).build((ip, 0)).await {
					Ok(s) => break s,
					Err(e) if tries > 50 => panic!("bind: {e:?}"),
					Err(_) => tries += 1,
				}
			};
			let addr = server.local_addr().unwrap();
			let handle = server.start(methods);
			(addr, Box::new(move || {
				let _ = handle.stop();
			}))
		}
		"tower" | "wsconnect" => {
			let listener = bind_loopback().await;
			let addr = listener.local_addr().unwrap();
			let (stop_handle, server_handle) = stop_channel();
			let svc_builder = Server::builder().set_config(cfg.clone()).to_service_builder();
			let conn_guard = ConnectionGuard::new(100);
			let low_level = ep == "wsconnect";
			let task = tokio::spawn(async move {
				let mut conn_id = 0u32;
				loop {
					let (sock, _) = tokio::select! {
						r = listener.accept() => match r { Ok(s) => s, Err(_) => continue },
						_ = stop_handle.clone().shutdown() => break,
					};
					conn_id += 1;
					let stop2 = stop_handle.clone();
					if low_level {
						let (methods, cfg, guard, stop3) = (methods.clone(), cfg.clone(), conn_guard.clone(), stop_handle.clone());
						let svc = tower::service_fn(move |req: http::Request<hyper::body::Incoming>| {
							let (methods, cfg, guard, stop) = (methods.clone(), cfg.clone(), guard.clone(), stop3.clone());
							async move {
								let Some(permit) = guard.try_acquire() else {
									return Ok::<_, Infallible>(jhttp::response::too_many_requests());
								};
								let conn = ConnectionState::new(stop, conn_id, permit);
								if jws::is_upgrade_request(&req) {
									match jws::connect(req, cfg, methods, conn, RpcServiceBuilder::new()).await {
										Ok((rp, conn_fut)) => {
											tokio::spawn(conn_fut);
											Ok(rp)
										}
										Err(rp) => Ok(rp),
									}
								} else {
									Ok(jhttp::call_with_service_builder(req, cfg, conn, methods, RpcServiceBuilder::new()).await)
								}
							}
							.boxed()
						});
						tokio::spawn(serve_with_graceful_shutdown(sock, svc, stop2.shutdown()));
					} else {
						let (methods, builder, stop3) = (methods.clone(), svc_builder.clone(), stop_handle.clone());
						let svc = tower::service_fn(move |req: http::Request<hyper::body::Incoming>| {
							let mut svc = builder.clone().build(methods.clone(), stop3.clone());
							async move { svc.call(req).await }.boxed()
						});
						tokio::spawn(serve_with_graceful_shutdown(sock, svc, stop2.shutdown()));
					}
				}
			});
			(addr, Box::new(move || {
				let _ = server_handle.stop();
				task.abort();
			}))
		}
		_ => panic!("entry point {ep} has no TCP form"),
	}
}

async fn run_ws(ep: &str, cfg: ServerConfig, methods: Methods, msgs: Vec<Vec<u8>>) -> Value {
	let (addr, stop) = start_tcp(ep, cfg, methods).await;
	let url = Url::parse(&format!("ws://{}", addr)).unwrap();
	let built = WsTransportClientBuilder::default()
		.max_request_size(u32::MAX)
		.max_response_size(u32::MAX)
		.build(url)
		.await;
	let (mut tx, mut rx) = match built {
		Ok(p) => p,
		Err(e) => {
			stop();
			return json!({"replies": [format!("HANDSHAKE:{e}")]});
		}
	};
	// dedicated reader task: `receive()` is not cancel-safe
	let (ftx, mut frx) = tokio::sync::mpsc::unbounded_channel::<String>();
	let reader = tokio::spawn(async move {
		loop {
			match rx.receive().await {
				Ok(ReceivedMessage::Text(s)) => {
					let _ = ftx.send(hex(s.as_bytes()));
				}
				Ok(ReceivedMessage::Bytes(b)) => {
					let _ = ftx.send(hex(&b));
				}
				Ok(ReceivedMessage::Pong) => {}
				Err(e) => {
					let _ = ftx.send(format!("CLOSED:{e}"));
					break;
				}
			}
		}
	});
	let mut replies = Vec::new();
	for m in msgs {
		let text = String::from_utf8(m).expect("generator emits UTF-8");
		if let Err(e) = tx.send(text).await {
			replies.push(format!("SENDERR:{e}"));
			continue;
		}
		match tokio::time::timeout(Duration::from_secs(6), frx.recv()).await {
			Ok(Some(f)) => replies.push(f),
			Ok(None) => replies.push("CLOSED:reader-ended".to_string()),
			Err(_) => replies.push("TIMEOUT".to_string()),
		}
	}
	// anything unsolicited that arrives right after the last reply
	let mut extra = Vec::new();
	while let Ok(Some(f)) = tokio::time::timeout(Duration::from_millis(30), frx.recv()).await {
		if f.starts_with("CLOSED") {
			break;
		}
		extra.push(f);
	}
	let _ = tx.close().await;
	reader.abort();
	stop();
	json!({"replies": replies, "extra": extra})
}

fn crc32(data: &[u8]) -> u32 {
	static TABLE: std::sync::OnceLock<[u32; 256]> = std::sync::OnceLock::new();
	let t = TABLE.get_or_init(|| {
		let mut t = [0u32; 256];
		for i in 0..256u32 {
			let mut c = i;
			for _ in 0..8 {
				c = if c & 1 != 0 { 0xEDB88320 ^ (c >> 1) } else { c >> 1 };
			}
			t[i as usize] = c;
		}
		t
	});
	let mut c = 0xFFFF_FFFFu32;
	for b in data {
		c = t[((c ^ *b as u32) & 0xFF) as usize] ^ (c >> 8);
	}
	c ^ 0xFFFF_FFFF
}

fn frame_repr(b: &[u8]) -> String {
	if b.len() <= 1024 { hex(b) } else { format!("L:{}:{:08x}:{}", b.len(), crc32(b), hex(&b[..96])) }
}

/// id of a reply frame when it is a number (looks only at the head: the large frames are not parsed)
fn frame_id(b: &[u8]) -> Option<u64> {
	let head = &b[..b.len().min(64)];
	let pat = b"\"id\":";
	let p = head.windows(pat.len()).position(|w| w == pat)? + pat.len();
	let digits: Vec<u8> = head[p..].iter().copied().take_while(|c| c.is_ascii_digit()).collect();
	if digits.is_empty() { None } else { std::str::from_utf8(&digits).ok()?.parse().ok() }
}

struct Pipeline {
	rcvbuf: u32,
	barrier: Option<u64>,
	settle: Option<(usize, usize, u64)>,
}

async fn run_ws_pipeline(ep: &str, cfg: ServerConfig, methods: Methods, log: Log, msgs: Vec<Vec<u8>>, p: Pipeline) -> Value {
	let (addr, stop) = start_tcp(ep, cfg, methods).await;
	let url = Url::parse(&format!("ws://{}", addr)).unwrap();
	let fail = |stop: Stopper, why: String| {
		stop();
		json!({"replies": [why], "wrote": 0, "stalled": false})
	};
	let sock = match tokio::net::TcpSocket::new_v4() {
		Ok(s) => s,
		Err(e) => return fail(stop, format!("HANDSHAKE:socket {e}")),
	};
	// must be set before connect(): the window scale is negotiated in the SYN
	let _ = sock.set_recv_buffer_size(p.rcvbuf);
	let stream = match tokio::time::timeout(Duration::from_secs(5), sock.connect(addr)).await {
		Ok(Ok(s)) => s,
		Ok(Err(e)) => return fail(stop, format!("HANDSHAKE:connect {e}")),
		Err(_) => return fail(stop, "HANDSHAKE:connect timeout".to_string()),
	};
	let _ = stream.set_nodelay(true);
	let built = tokio::time::timeout(
		Duration::from_secs(5),
		WsTransportClientBuilder::default().max_request_size(u32::MAX).max_response_size(u32::MAX).build_with_stream(url, stream),
	)
	.await;
	let (mut tx, mut rx) = match built {
		Ok(Ok(pr)) => pr,
		Ok(Err(e)) => return fail(stop, format!("HANDSHAKE:{e}")),
		Err(_) => return fail(stop, "HANDSHAKE:timeout".to_string()),
	};
	// the reader does not touch the socket before it is released
	let (go_tx, go_rx) = tokio::sync::oneshot::channel::<()>();
	let (ftx, mut frx) = tokio::sync::mpsc::unbounded_channel::<(String, Option<u64>)>();
	let reader = tokio::spawn(async move {
		if go_rx.await.is_err() {
			return;
		}
		loop {
			match rx.receive().await {
				Ok(ReceivedMessage::Text(s)) => {
					let _ = ftx.send((frame_repr(s.as_bytes()), frame_id(s.as_bytes())));
				}
				Ok(ReceivedMessage::Bytes(b)) => {
					let _ = ftx.send((frame_repr(&b), frame_id(&b)));
				}
				Ok(ReceivedMessage::Pong) => {}
				Err(e) => {
					let _ = ftx.send((format!("CLOSED:{e}"), None));
					break;
				}
			}
		}
	});
	// the writer: everything back-to-back
	let total = msgs.len();
	let wrote = Arc::new(std::sync::atomic::AtomicUsize::new(0));
	let (wrote2, log2, settle) = (wrote.clone(), log.clone(), p.settle);
	let (etx, mut erx) = tokio::sync::mpsc::unbounded_channel::<String>();
	let mut writer = tokio::spawn(async move {
		for (k, m) in msgs.into_iter().enumerate() {
			if let Some((at, want, ms)) = settle {
				if at == k {
					let end = tokio::time::Instant::now() + Duration::from_secs(5);
					while log2.lock().unwrap().len() < want && tokio::time::Instant::now() < end {
						tokio::time::sleep(Duration::from_millis(2)).await;
					}
					tokio::time::sleep(Duration::from_millis(ms)).await;
				}
			}
			let text = String::from_utf8(m).expect("generator emits UTF-8");
			if let Err(e) = tx.send(text).await {
				let _ = etx.send(format!("SENDERR:{k}:{e}"));
				continue;
			}
			wrote2.fetch_add(1, std::sync::atomic::Ordering::SeqCst);
		}
		tx
	});
	// bounded: a writer that is itself stuck behind the unread responses must not hang the case
	let mut tx_back = None;
	let mut writer_done = false;
	let stalled = match tokio::time::timeout(Duration::from_secs(3 + settle.map(|s| 5 + s.2 / 1000).unwrap_or(0)), &mut writer).await {
		Ok(r) => {
			tx_back = r.ok();
			writer_done = true;
			false
		}
		Err(_) => true,
	};
	let _ = go_tx.send(());
	let mut replies: Vec<String> = Vec::new();
	while let Ok(e) = erx.try_recv() {
		replies.push(e);
	}
	let start = tokio::time::Instant::now();
	let mut frames = 0usize;
	let mut barrier_seen = p.barrier.is_none();
	loop {
		let complete = barrier_seen && frames >= total;
		// complete: a short look for anything in excess; barrier answered: 1.5 s of silence; otherwise 6 s
		let quiet = if complete { 60 } else if barrier_seen { 1500 } else { 6000 };
		let left = Duration::from_secs(30).saturating_sub(start.elapsed());
		if left.is_zero() {
			replies.push("TIMEOUT".to_string());
			break;
		}
		match tokio::time::timeout(Duration::from_millis(quiet).min(left), frx.recv()).await {
			Ok(Some((f, id))) => {
				let closed = f.starts_with("CLOSED");
				replies.push(f);
				if closed {
					break;
				}
				frames += 1;
				if id.is_some() && id == p.barrier {
					barrier_seen = true;
				}
			}
			Ok(None) => {
				replies.push("CLOSED:reader-ended".to_string());
				break;
			}
			Err(_) => {
				if !barrier_seen {
					replies.push("TIMEOUT".to_string());
				}
				break;
			}
		}
	}
	if !writer_done {
		if let Ok(Ok(t)) = tokio::time::timeout(Duration::from_millis(200), &mut writer).await {
			tx_back = Some(t);
		} else {
			writer.abort();
		}
	}
	while let Ok(e) = erx.try_recv() {
		replies.push(e);
	}
	if let Some(mut t) = tx_back {
		let _ = tokio::time::timeout(Duration::from_millis(200), t.close()).await;
	}
	reader.abort();
	stop();
	json!({"replies": replies, "wrote": wrote.load(std::sync::atomic::Ordering::SeqCst), "stalled": stalled})
}


// ---------------------------------------------------------------- WS frag mode: raw frames over a TcpStream

enum FragItem {
	/// (first byte of the header, payload)
	Frame(u8, Vec<u8>),
	Raw(Vec<u8>),
	Sleep(u64),
}

/// One masked client frame, minimal length encoding.
fn client_frame(first: u8, payload: &[u8], key: [u8; 4]) -> Vec<u8> {
	let n = payload.len();
	let mut v = Vec::with_capacity(n + 14);
	v.push(first);
	if n < 126 {
		v.push(0x80 | n as u8);
	} else if n <= 0xFFFF {
		v.push(0x80 | 126);
		v.extend_from_slice(&(n as u16).to_be_bytes());
	} else {
		v.push(0x80 | 127);
		v.extend_from_slice(&(n as u64).to_be_bytes());
	}
	v.extend_from_slice(&key);
	v.extend(payload.iter().enumerate().map(|(i, b)| b ^ key[i & 3]));
	v
}

fn frag_items(items: &[Value]) -> Vec<FragItem> {
	let strs: Vec<&str> = items.iter().map(|s| s.as_str().expect("item is a string")).collect();
	let last_plain = strs.iter().rposition(|s| !s.contains(':'));
	let mut seen_plain = false;
	let mut out = Vec::new();
	for (k, s) in strs.iter().enumerate() {
		match s.split_once(':') {
			None => {
				let fin = if Some(k) == last_plain { 0x80 } else { 0 };
				let op = if seen_plain { 0x0 } else { 0x1 };
				seen_plain = true;
				out.push(FragItem::Frame(fin | op, segs(s)));
			}
			Some(("T0", r)) => out.push(FragItem::Frame(0x01, segs(r))),
			Some(("T1", r)) => out.push(FragItem::Frame(0x81, segs(r))),
			Some(("C0", r)) => out.push(FragItem::Frame(0x00, segs(r))),
			Some(("C1", r)) => out.push(FragItem::Frame(0x80, segs(r))),
			Some(("P", r)) => out.push(FragItem::Frame(0x89, segs(r))),
			Some(("O", r)) => out.push(FragItem::Frame(0x8a, segs(r))),
			Some(("R", r)) => out.push(FragItem::Raw(segs(r))),
			Some(("S", r)) => out.push(FragItem::Sleep(r.parse::<u64>().unwrap_or(0).min(1000))),
			Some((p, _)) => panic!("bad item prefix {p}"),
		}
	}
	out
}

/// Raw reader of (unmasked) server frames with its own buffer.
struct RawWs {
	s: tokio::net::TcpStream,
	buf: Vec<u8>,
	dead: Option<String>,
}

impl RawWs {
	/// One complete frame at the start of the buffer: (opcode, fin, payload).
	fn take_frame(&mut self) -> Option<(u8, bool, Vec<u8>)> {
		let b = &self.buf;
		if b.len() < 2 {
			return None;
		}
		let (len, mut off) = match b[1] & 0x7f {
			126 => {
				if b.len() < 4 {
					return None;
				}
				(u16::from_be_bytes([b[2], b[3]]) as usize, 4)
			}
			127 => {
				if b.len() < 10 {
					return None;
				}
				(u64::from_be_bytes(b[2..10].try_into().unwrap()) as usize, 10)
			}
			n => (n as usize, 2),
		};
		if b[1] & 0x80 != 0 {
			off += 4;
		}
		if b.len() < off + len {
			return None;
		}
		let out = (b[0] & 0x0f, b[0] & 0x80 != 0, b[off..off + len].to_vec());
		self.buf.drain(..off + len);
		Some(out)
	}

	/// The next frame as its textual form, or None when `deadline` passed.  EOF / errors are reported once, then None.
	async fn next(&mut self, deadline: tokio::time::Instant, partial: &mut Vec<u8>) -> Option<(String, bool, Vec<u8>)> {
		use tokio::io::AsyncReadExt;
		loop {
			if let Some((op, fin, payload)) = self.take_frame() {
				match op {
					0x0 | 0x1 => {
						partial.extend_from_slice(&payload);
						if fin {
							let whole = std::mem::take(partial);
							return Some((frame_repr(&whole), true, whole));
						}
						continue;
					}
					0x2 => return Some((format!("BIN:{}", hex(&payload)), false, payload)),
					0x8 => return Some((format!("CLOSE:{}", hex(&payload)), false, payload)),
					0x9 => return Some((format!("PING:{}", hex(&payload)), false, payload)),
					0xa => return Some((format!("PONG:{}", hex(&payload)), false, payload)),
					x => return Some((format!("OPCODE:{x}"), false, payload)),
				}
			}
			if self.dead.is_some() {
				return None;
			}
			let mut tmp = [0u8; 8192];
			match tokio::time::timeout_at(deadline, self.s.read(&mut tmp)).await {
				Err(_) => return None,
				Ok(Ok(0)) => {
					self.dead = Some("EOF".to_string());
					return Some(("EOF".to_string(), false, Vec::new()));
				}
				Ok(Ok(n)) => self.buf.extend_from_slice(&tmp[..n]),
				Ok(Err(e)) => {
					let why = format!("IOERR:{:?}", e.kind());
					self.dead = Some(why.clone());
					return Some((why, false, Vec::new()));
				}
			}
		}
	}
}

struct Frag {
	msgs: Vec<(Vec<FragItem>, usize)>,
	barrier: u64,
	quiet: u64,
	key: [u8; 4],
}

async fn run_ws_frag(ep: &str, cfg: ServerConfig, methods: Methods, f: Frag) -> Value {
	use tokio::io::{AsyncReadExt, AsyncWriteExt};
	let (addr, stop) = start_tcp(ep, cfg, methods).await;
	let fail = |stop: Stopper, why: String| {
		stop();
		json!({"replies": [[why]], "final": [], "alive": false})
	};
	let mut s = match tokio::time::timeout(Duration::from_secs(5), tokio::net::TcpStream::connect(addr)).await {
		Ok(Ok(s)) => s,
		Ok(Err(e)) => return fail(stop, format!("HANDSHAKE:connect {e}")),
		Err(_) => return fail(stop, "HANDSHAKE:connect timeout".to_string()),
	};
	let _ = s.set_nodelay(true);
	let req = format!(
		"GET / HTTP/1.1\r\nHost: {addr}\r\nConnection: Upgrade\r\nUpgrade: websocket\r\nSec-WebSocket-Version: 13\r\nSec-WebSocket-Key: dGhlIHNhbXBsZSBub25jZQ==\r\n\r\n"
	);
	if let Err(e) = s.write_all(req.as_bytes()).await {
		return fail(stop, format!("HANDSHAKE:write {e}"));
	}
	// the response head; whatever follows it already belongs to the frame stream
	let mut head = Vec::new();
	let end = tokio::time::Instant::now() + Duration::from_secs(5);
	let rest = loop {
		if let Some(p) = head.windows(4).position(|w| w == b"\r\n\r\n") {
			break head.split_off(p + 4);
		}
		let mut tmp = [0u8; 2048];
		match tokio::time::timeout_at(end, s.read(&mut tmp)).await {
			Ok(Ok(n)) if n > 0 => head.extend_from_slice(&tmp[..n]),
			_ => return fail(stop, format!("HANDSHAKE:no response head ({} bytes)", head.len())),
		}
	};
	if !head.starts_with(b"HTTP/1.1 101") {
		return fail(stop, format!("HANDSHAKE:{}", String::from_utf8_lossy(&head[..head.len().min(60)])));
	}
	let mut ws = RawWs { s, buf: rest, dead: None };
	let mut partial = Vec::new();
	let mut replies: Vec<Vec<String>> = Vec::new();
	for (items, expect) in f.msgs {
		let mut got: Vec<String> = Vec::new();
		for it in items {
			let bytes = match it {
				FragItem::Frame(first, payload) => client_frame(first, &payload, f.key),
				FragItem::Raw(b) => b,
				FragItem::Sleep(ms) => {
					tokio::time::sleep(Duration::from_millis(ms)).await;
					continue;
				}
			};
			if let Err(e) = ws.s.write_all(&bytes).await {
				got.push(format!("SENDERR:{:?}", e.kind()));
				break;
			}
		}
		let _ = ws.s.flush().await;
		let deadline = tokio::time::Instant::now() + Duration::from_millis(if expect == 0 { f.quiet } else { 4000 });
		let mut texts = 0usize;
		while expect == 0 || texts < expect {
			match ws.next(deadline, &mut partial).await {
				Some((repr, is_text, _)) => {
					got.push(repr);
					if is_text {
						texts += 1;
					}
				}
				None => break,
			}
		}
		replies.push(got);
	}
	// the barrier: is the connection still serving?
	let call = format!("{{\"jsonrpc\":\"2.0\",\"id\":{},\"method\":\"nosuch\"}}", f.barrier);
	let mut fin: Vec<String> = Vec::new();
	let mut alive = false;
	if let Err(e) = ws.s.write_all(&client_frame(0x81, call.as_bytes(), f.key)).await {
		fin.push(format!("SENDERR:{:?}", e.kind()));
	}
	let mut deadline = tokio::time::Instant::now() + Duration::from_secs(3);
	while let Some((repr, is_text, payload)) = ws.next(deadline, &mut partial).await {
		fin.push(repr);
		if is_text && !alive && frame_id(&payload) == Some(f.barrier) {
			alive = true;
			deadline = tokio::time::Instant::now() + Duration::from_millis(30);
		}
	}
	drop(ws);
	stop();
	json!({"replies": replies, "final": fin, "alive": alive})
}

fn frames_body(frames: Vec<Vec<u8>>) -> BoxBody<Bytes, Infallible> {
	let it = frames.into_iter().map(|f| Ok::<_, Infallible>(http_body::Frame::data(Bytes::from(f))));
	BoxBody::new(StreamBody::new(futures_util::stream::iter(it)))
}

async fn finish_http<B>(resp: http::Response<B>) -> Value
where
	B: http_body::Body,
	B::Error: std::fmt::Debug,
{
	let status = resp.status().as_u16();
	let body = resp.into_body().collect().await.map(|c| c.to_bytes()).unwrap_or_default();
	json!({"status": status, "body": hex(&body)})
}

async fn run_http(ep: &str, rq: u32, cfg: ServerConfig, methods: Methods, log: Log, frames: Vec<Vec<u8>>, cl: Option<u64>) -> Value {
	let mut builder = http::Request::builder().method("POST").uri("/").header("content-type", "application/json");
	if let Some(n) = cl {
		builder = builder.header("content-length", n.to_string());
	}
	match ep {
		"tower" => {
			let (stop_handle, _server_handle) = stop_channel();
			let mut svc = Server::builder().set_config(cfg).to_service_builder().build(methods, stop_handle);
			let req = builder.body(frames_body(frames)).unwrap();
			match svc.call(req).await {
				Ok(resp) => finish_http(resp).await,
				Err(e) => json!({"status": 0, "body": "", "error": e.to_string()}),
			}
		}
		"httpbuilder" => {
			let (stop_handle, _server_handle) = stop_channel();
			let permit = ConnectionGuard::new(10).try_acquire().unwrap();
			let conn = ConnectionState::new(stop_handle, 1, permit);
			let req = builder.body(frames_body(frames)).unwrap();
			finish_http(jhttp::call_with_service_builder(req, cfg, conn, methods, RpcServiceBuilder::new()).await).await
		}
		"httpcall" => {
			let req = builder.body(frames_body(frames)).unwrap();
			finish_http(jhttp::call_with_service(req, BatchRequestConfig::Unlimited, rq, UserSvc(log)).await).await
		}
		"server" | "wsconnect" => {
			// real HTTP/1.1 over loop-back TCP; with a Content-Length the body is sent whole, without it chunked
			let (addr, stop) = start_tcp(ep, cfg, methods).await;
			let client = hyper_util::client::legacy::Client::builder(hyper_util::rt::TokioExecutor::new())
				.build_http::<BoxBody<Bytes, Infallible>>();
			let mut b = http::Request::builder()
				.method("POST")
				.uri(format!("http://{}/", addr))
				.header("content-type", "application/json");
			let body = if cl.is_some() {
				let all: Vec<u8> = frames.concat();
				b = b.header("content-length", all.len().to_string());
				BoxBody::new(Full::new(Bytes::from(all)))
			} else {
				frames_body(frames)
			};
			let out = match client.request(b.body(body).unwrap()).await {
				Ok(resp) => finish_http(resp).await,
				Err(e) => json!({"status": 0, "body": "", "error": format!("{e:?}")}),
			};
			stop();
			out
		}
		_ => panic!("bad ep"),
	}
}

async fn run_case(line: &str) -> Value {
	let v: Value = serde_json::from_str(line).expect("case is JSON");
	let ep = v["ep"].as_str().unwrap().to_string();
	let rq = v["rq"].as_u64().unwrap() as u32;
	let rs = v["rs"].as_u64().unwrap() as u32;
	let subid = v["subid"].as_u64().unwrap_or(16) as usize;
	let log: Log = Arc::new(Mutex::new(Vec::new()));
	let methods = module(log.clone());
	let pipeline = v["mode"] == "pipeline";
	let frag = v["mode"] == "frag";
	let cfg = config(rq, rs, subid, if pipeline { v["buf"].as_u64().map(|n| n as u32) } else { None });
	let list = |k: &str| -> Vec<Vec<u8>> {
		v[k].as_array().map(|a| a.iter().map(|s| segs(s.as_str().unwrap())).collect()).unwrap_or_default()
	};
	let fut = async {
		if v["t"] == "ws" && pipeline {
			let p = Pipeline {
				rcvbuf: v["rcvbuf"].as_u64().unwrap_or(4096) as u32,
				barrier: v["barrier"].as_u64(),
				settle: v["settle"].as_object().map(|o| {
					(o["at"].as_u64().unwrap_or(0) as usize, o["log"].as_u64().unwrap_or(0) as usize, o["ms"].as_u64().unwrap_or(0).min(2000))
				}),
			};
			run_ws_pipeline(&ep, cfg, methods, log.clone(), list("msgs"), p).await
		} else if v["t"] == "ws" && frag {
			let msgs = v["msgs"]
				.as_array()
				.map(|a| {
					a.iter()
						.map(|m| match m {
							Value::Array(items) => (frag_items(items), 1usize),
							_ => (frag_items(m["items"].as_array().expect("msg.items")), m["expect"].as_u64().unwrap_or(1) as usize),
						})
						.collect()
				})
				.unwrap_or_default();
			let mut key = [0x37u8, 0xfa, 0x21, 0x3d];
			if let Some(m) = v["mask"].as_str() {
				let b = unhex(m);
				if b.len() == 4 {
					key.copy_from_slice(&b);
				}
			}
			let f = Frag {
				msgs,
				barrier: v["barrier"].as_u64().unwrap_or(9_999_999),
				quiet: v["quiet"].as_u64().unwrap_or(250).min(3000),
				key,
			};
			run_ws_frag(&ep, cfg, methods, f).await
		} else if v["t"] == "ws" {
			run_ws(&ep, cfg, methods, list("msgs")).await
		} else {
			run_http(&ep, rq, cfg, methods, log.clone(), list("frames"), v["cl"].as_u64()).await
		}
	};
	let mut out = match tokio::time::timeout(Duration::from_secs(if pipeline { 55 } else { 40 }), fut).await {
		Ok(o) => o,
		Err(_) => json!({"error": "CASE-TIMEOUT"}),
	};
	// let handlers that were just dispatched finish logging
	tokio::time::sleep(Duration::from_millis(2)).await;
	out["log"] = json!(log.lock().unwrap().clone());
	out
}

fn main() {
	let rt = tokio::runtime::Builder::new_multi_thread().worker_threads(2).enable_all().build().unwrap();
	let stdin = std::io::stdin();
	let stdout = std::io::stdout();
	let mut out = stdout.lock();
	for line in stdin.lock().lines() {
		let line = line.unwrap();
		if line.trim().is_empty() {
			continue;
		}
		let r = rt.block_on(run_case(&line));
		writeln!(out, "{}", r).unwrap();
		out.flush().unwrap();
	}
}
