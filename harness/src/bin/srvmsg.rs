//! Engine `srvmsg` (C01, C02): one message (single or batch) delivered to a REAL jsonrpsee server over HTTP
//! or WebSocket; the observable outcome is printed in the line format shared with modelrun/server_driver.ml.
//!
//! input line : `<transport> <batchcfg> <message-hex|-> [quiet-ms]`
//!              transport = `http` | `ws` (text frame when the message is UTF-8, else binary) | `wsb` (binary frame)
//!                        | `httpl` (as http, with an explicit Content-Length header)
//!                        | `httpc` (as http, the body delivered as 1..3 data frames of unknown total length -- what a
//!                          `Transfer-Encoding: chunked` / HTTP/2 request without Content-Length looks like to the service)
//!                        | `httpk` (HTTP/1.1 over a real socket: a `Server` on 127.0.0.1:0 and ONE persistent raw-TCP
//!                          keep-alive connection per config key, reused across the cases of the process; the message is
//!                          the Content-Length body of a `POST /`; exactly one response is read; then a fixed barrier
//!                          call is sent on the SAME connection)
//!              batchcfg  = `d` (Disabled) | `u` (Unlimited) | `l<n>` (Limit(n)), optionally followed by `+r<N>`
//!                          (max_response_body_size = N; default 10 MiB)
//! output line: `s=<http-status|-> f=<frame-hex,...|-> l=<handler-log|-> a=<1|0>`
//!              f = HTTP: the response body (one frame; `-` when empty); WS: EVERY frame the server sent on the
//!                  connection from the moment the message was written until the connection was quiet again
//!                  (barrier round-trips on the same connection + a silence window), in arrival order
//!              l = `;`-joined `<method-hex>:<params-hex|->` in invocation order (user handlers only)
//!              a = the connection still answers a later call (WS and `httpk`: the barrier call on the same connection
//!                  is answered with the barrier's result; 0 = closed / reset / timed out, the next case reconnects;
//!                  socket-free HTTP: always 1)
//!
//! HTTP is driven socket-free through `ServerBuilder::to_service_builder().build(methods, stop).call(request)`
//! (POST, content-type application/json, the message as one body frame).  WebSocket runs over 127.0.0.1:0 with a
//! raw soketto client (text and binary frames); a dedicated reader task feeds an mpsc (receive is not cancel-safe).
//! One server + one WS connection (+ one `httpk` TCP connection) per batch config, reused across the cases of the process.
//!
//! Registry (the OCaml driver computes the same function of (method, params text)):
//!   echo (sync) -> params | null            aecho (async) -> {"method":"aecho","params":<params|null>}
//!   becho (blocking) -> [<params|null>]     bpanic (blocking) -> panics unless params contain `calm` (then as becho)
//!   hexs (sync) -> "<hex of params>"        x"y (sync, name needs escaping) -> as echo
//!   parse1 (sync) -> params.parse::<[u64;1]>() : n | genuine -32602
//!   every one of those except parse1: params containing `err`  -> Err{code 42, "handler error in <m>", data = params}
//!                                     params containing `fail` -> Err{code i32::MIN|i32::MAX|-32099, message with
//!                                                                  quotes/backslash/newline/non-ASCII, no data}
//!   sub/unsub (subscription pair, notification method `note`): the handler rejects (code 43 "rejected") when params
//!   contain `rej`, else accepts and returns at once; subscription ids are the constant string "S#1".
use std::collections::HashMap;
use std::sync::atomic::{AtomicU64, AtomicUsize, Ordering};
use std::sync::{Arc, Mutex};
use std::time::Duration;

use bytes::Bytes;
use http_body_util::{BodyExt, Full};
use jrv::*;
use jsonrpsee_core::traits::IdProvider;
use jsonrpsee_server::{BatchRequestConfig, Methods, RpcModule, Server, ServerConfig, ServerHandle, StopHandle, stop_channel};
use jsonrpsee_types::{ErrorObjectOwned, Params, SubscriptionId};
use serde_json::value::RawValue;
use tokio::io::{AsyncReadExt, AsyncWriteExt};
use tokio::sync::mpsc;
use tokio::time::{Instant, sleep, timeout};
use tokio_util::compat::{Compat, TokioAsyncReadCompatExt};
use tower::Service;

const WAIT: Duration = Duration::from_secs(5);

struct Ctx {
	log: Mutex<Vec<String>>,
	inflight: AtomicUsize,
}
type C = Arc<Ctx>;

struct Flight(C);
impl Flight {
	fn new(c: &C) -> Self {
		c.inflight.fetch_add(1, Ordering::SeqCst);
		Flight(c.clone())
	}
}
impl Drop for Flight {
	fn drop(&mut self) {
		self.0.inflight.fetch_sub(1, Ordering::SeqCst);
	}
}

fn rec(c: &C, name: &str, p: &Params) {
	let ps = p.as_str().map(|s| hex(s.as_bytes())).unwrap_or_else(|| "-".into());
	c.log.lock().unwrap().push(format!("{}:{}", hex(name.as_bytes()), ps));
}

fn raw(s: String) -> Box<RawValue> {
	RawValue::from_string(s).expect("handler result is JSON")
}

fn contains(p: Option<&str>, needle: &str) -> bool {
	p.is_some_and(|s| s.contains(needle))
}

/// The deterministic handler function shared by the generic methods.
fn decide(method: &str, p: Option<&str>) -> Result<Box<RawValue>, ErrorObjectOwned> {
	let text = p.unwrap_or("null");
	if contains(p, "err") {
		return Err(ErrorObjectOwned::owned(42, format!("handler error in {method}"), Some(raw(text.to_string()))));
	}
	if contains(p, "fail") {
		let code = if contains(p, "failmin") {
			i32::MIN
		} else if contains(p, "failmax") {
			i32::MAX
		} else {
			-32099
		};
		return Err(ErrorObjectOwned::owned(code, "failed \"q\" \\ \n \u{e9}\u{1f600}", None::<()>));
	}
	Ok(match method {
		"aecho" => raw(format!(r#"{{"method":"aecho","params":{text}}}"#)),
		"becho" | "bpanic" => raw(format!("[{text}]")),
		"hexs" => raw(format!("\"{}\"", hex(p.unwrap_or("").as_bytes()))),
		_ => raw(text.to_string()),
	})
}

#[derive(Debug)]
struct ConstId;
impl IdProvider for ConstId {
	fn next_id(&self) -> SubscriptionId<'static> {
		SubscriptionId::Str("S#1".into())
	}
}

fn module(ctx: C) -> RpcModule<C> {
	let mut m = RpcModule::new(ctx);
	m.register_method("echo", |p, c, _| {
		let _f = Flight::new(c);
		rec(c, "echo", &p);
		decide("echo", p.as_str())
	})
	.unwrap();
	m.register_method("hexs", |p, c, _| {
		let _f = Flight::new(c);
		rec(c, "hexs", &p);
		decide("hexs", p.as_str())
	})
	.unwrap();
	m.register_method("x\"y", |p, c, _| {
		let _f = Flight::new(c);
		rec(c, "x\"y", &p);
		decide("x\"y", p.as_str())
	})
	.unwrap();
	m.register_method("parse1", |p, c, _| {
		let _f = Flight::new(c);
		rec(c, "parse1", &p);
		let [n]: [u64; 1] = p.parse()?;
		Ok::<u64, ErrorObjectOwned>(n)
	})
	.unwrap();
	m.register_async_method("aecho", |p, c, _| async move {
		let _f = Flight::new(&c);
		rec(&c, "aecho", &p);
		tokio::task::yield_now().await;
		decide("aecho", p.as_str())
	})
	.unwrap();
	m.register_blocking_method("becho", |p, c, _| {
		let _f = Flight::new(&c);
		rec(&c, "becho", &p);
		decide("becho", p.as_str())
	})
	.unwrap();
	m.register_blocking_method("bpanic", |p, c, _| {
		let _f = Flight::new(&c);
		rec(&c, "bpanic", &p);
		if !contains(p.as_str(), "calm") {
			panic!("bpanic handler panics");
		}
		decide("bpanic", p.as_str())
	})
	.unwrap();
	m.register_subscription("sub", "note", "unsub", |p, pending, c, _| async move {
		let _f = Flight::new(&c);
		rec(&c, "sub", &p);
		if contains(p.as_str(), "rej") {
			pending.reject(ErrorObjectOwned::owned(43, "rejected", None::<()>)).await;
		} else {
			let _sink = pending.accept().await;
		}
	})
	.unwrap();
	m
}

enum Ev {
	Frame(Vec<u8>),
	Closed,
}

struct WsConn {
	sender: soketto::Sender<Compat<tokio::net::TcpStream>>,
	rx: mpsc::UnboundedReceiver<Ev>,
	reader: tokio::task::JoinHandle<()>,
}

/// The persistent HTTP/1.1 connection of transport `httpk`: the socket and the bytes read beyond the last response.
struct HttpConn {
	sock: tokio::net::TcpStream,
	buf: Vec<u8>,
}

struct Srv {
	cfg: ServerConfig,
	addr: std::net::SocketAddr,
	_handle: ServerHandle,
	conn: Option<WsConn>,
	hconn: Option<HttpConn>,
}

struct Engine {
	ctx: C,
	methods: Methods,
	stop: StopHandle,
	_stop_keep: ServerHandle,
	servers: HashMap<String, Srv>,
	barrier: AtomicU64,
}

/// `<batchcfg>[+r<N>]`: optional response-size limit (max_response_body_size = N)
fn resp_limit(s: &str) -> Option<u32> {
	s.split_once("+r").and_then(|(_, n)| n.parse::<u32>().ok())
}

fn batch_cfg(s: &str) -> Option<BatchRequestConfig> {
	let s = s.split_once("+r").map(|(a, _)| a).unwrap_or(s);
	match s {
		"d" => Some(BatchRequestConfig::Disabled),
		"u" => Some(BatchRequestConfig::Unlimited),
		_ => s.strip_prefix('l').and_then(|n| n.parse::<u32>().ok()).map(BatchRequestConfig::Limit),
	}
}

fn server_cfg(b: BatchRequestConfig, rs: Option<u32>) -> ServerConfig {
	let c = ServerConfig::builder().set_batch_request_config(b).set_id_provider(ConstId);
	match rs {
		Some(n) => c.max_response_body_size(n).build(),
		None => c.build(),
	}
}

fn is_barrier(frame: &[u8]) -> bool {
	match serde_json::from_slice::<serde_json::Value>(frame) {
		Ok(serde_json::Value::Object(m)) => m.get("id").and_then(|i| i.as_str()).is_some_and(|s| s.starts_with("__b")),
		_ => false,
	}
}

async fn connect(addr: std::net::SocketAddr) -> Option<WsConn> {
	let sock = timeout(WAIT, tokio::net::TcpStream::connect(addr)).await.ok()?.ok()?;
	sock.set_nodelay(true).ok()?;
	let host = addr.to_string();
	let mut client = soketto::handshake::Client::new(sock.compat(), &host, "/");
	match timeout(WAIT, client.handshake()).await.ok()?.ok()? {
		soketto::handshake::ServerResponse::Accepted { .. } => {}
		_ => return None,
	}
	let (sender, mut receiver) = client.into_builder().finish();
	let (tx, rx) = mpsc::unbounded_channel();
	// dedicated reader: receive_data is not cancel-safe, it is only ever awaited here
	let reader = tokio::spawn(async move {
		loop {
			let mut data = Vec::new();
			match receiver.receive_data(&mut data).await {
				Ok(_) => {
					if tx.send(Ev::Frame(data)).is_err() {
						break;
					}
				}
				Err(_) => {
					let _ = tx.send(Ev::Closed);
					break;
				}
			}
		}
	});
	Some(WsConn { sender, rx, reader })
}


async fn http_connect(addr: std::net::SocketAddr) -> Option<HttpConn> {
	let sock = timeout(WAIT, tokio::net::TcpStream::connect(addr)).await.ok()?.ok()?;
	sock.set_nodelay(true).ok()?;
	Some(HttpConn { sock, buf: Vec::new() })
}

impl HttpConn {
	/// The connection is known to be unusable before anything is written: the peer has closed or reset it, or bytes
	/// nobody asked for are waiting on it (those are reported as `stale`).
	fn dead_or_stale(&mut self) -> (bool, Vec<u8>) {
		let mut stale = std::mem::take(&mut self.buf);
		let mut chunk = [0u8; 4096];
		loop {
			match self.sock.try_read(&mut chunk) {
				Ok(0) => return (true, stale),
				Ok(n) => stale.extend_from_slice(&chunk[..n]),
				Err(e) if e.kind() == std::io::ErrorKind::WouldBlock => return (!stale.is_empty(), stale),
				Err(_) => return (true, stale),
			}
		}
	}

	/// More bytes into `buf`; false when the peer closed, the read failed or nothing arrived within `WAIT`.
	async fn fill(&mut self) -> bool {
		let mut chunk = [0u8; 16384];
		match timeout(WAIT, self.sock.read(&mut chunk)).await {
			Ok(Ok(n)) if n > 0 => {
				self.buf.extend_from_slice(&chunk[..n]);
				true
			}
			_ => false,
		}
	}

	/// `POST / HTTP/1.1` with the message as Content-Length body; false when the bytes could not be written.
	async fn post(&mut self, host: &str, body: &[u8]) -> bool {
		let mut rq = format!("POST / HTTP/1.1\r\nHost: {host}\r\nContent-Type: application/json\r\nContent-Length: {}\r\n\r\n", body.len()).into_bytes();
		rq.extend_from_slice(body);
		matches!(timeout(WAIT, async { self.sock.write_all(&rq).await?; self.sock.flush().await }).await, Ok(Ok(())))
	}

	/// Exactly one response: status line, headers, body (Content-Length, or chunked); what follows stays in `buf`.
	async fn response(&mut self) -> Option<(u16, Vec<u8>)> {
		loop {
			let head_end = loop {
				if let Some(p) = self.buf.windows(4).position(|w| w == b"\r\n\r\n") {
					break p + 4;
				}
				if self.buf.len() > (1 << 20) || !self.fill().await {
					return None;
				}
			};
			let head = String::from_utf8_lossy(&self.buf[..head_end]).to_string();
			self.buf.drain(..head_end);
			let mut lines = head.split("\r\n");
			let status: u16 = lines.next()?.strip_prefix("HTTP/1.1 ")?.get(..3)?.parse().ok()?;
			let mut len: Option<usize> = None;
			let mut chunked = false;
			for l in lines {
				let Some((name, value)) = l.split_once(':') else { continue };
				if name.eq_ignore_ascii_case("content-length") {
					len = Some(value.trim().parse().ok()?);
				} else if name.eq_ignore_ascii_case("transfer-encoding") && value.to_ascii_lowercase().contains("chunked") {
					chunked = true;
				}
			}
			if (100..200).contains(&status) {
				continue; // interim response: the real one follows
			}
			let mut body = Vec::new();
			if chunked {
				loop {
					let eol = loop {
						if let Some(p) = self.buf.windows(2).position(|w| w == b"\r\n") {
							break p;
						}
						if !self.fill().await {
							return None;
						}
					};
					let size_txt = String::from_utf8_lossy(&self.buf[..eol]).to_string();
					let size = usize::from_str_radix(size_txt.split(';').next()?.trim(), 16).ok()?;
					self.buf.drain(..eol + 2);
					while self.buf.len() < size + 2 {
						if !self.fill().await {
							return None;
						}
					}
					body.extend_from_slice(&self.buf[..size]);
					self.buf.drain(..size + 2);
					if size == 0 {
						break;
					}
				}
			} else {
				// a response without either framing header would be delimited by the close of the connection:
				// no such response exists in this server; it is reported as unreadable
				let len = len?;
				while self.buf.len() < len {
					if !self.fill().await {
						return None;
					}
				}
				body.extend_from_slice(&self.buf[..len]);
				self.buf.drain(..len);
			}
			return Some((status, body));
		}
	}
}

impl Engine {
	async fn server(&mut self, key: &str) -> Option<&mut Srv> {
		if !self.servers.contains_key(key) {
			let cfg = server_cfg(batch_cfg(key)?, resp_limit(key));
			let server = timeout(WAIT, Server::builder().set_config(cfg.clone()).build("127.0.0.1:0")).await.ok()?.ok()?;
			let addr = server.local_addr().ok()?;
			let handle = server.start(self.methods.clone());
			self.servers.insert(key.to_string(), Srv { cfg, addr, _handle: handle, conn: None, hconn: None });
		}
		self.servers.get_mut(key)
	}

	async fn http_case(&mut self, key: &str, msg: Vec<u8>, framing: &str) -> String {
		use http_body_util::{StreamBody, combinators::BoxBody};
		use std::convert::Infallible;
		let Some(b) = batch_cfg(key) else { return "?bad-cfg".into() };
		let mut svc = Server::builder().set_config(server_cfg(b, resp_limit(key))).to_service_builder().build(self.methods.clone(), self.stop.clone());
		let len = msg.len();
		let body: BoxBody<Bytes, Infallible> = if framing == "httpc" {
			// cut points derived from the message itself (deterministic): after 1/3 and 2/3 of the bytes
			let cuts = [len / 3, (2 * len) / 3];
			let frames: Vec<Vec<u8>> = vec![msg[..cuts[0]].to_vec(), msg[cuts[0]..cuts[1]].to_vec(), msg[cuts[1]..].to_vec()];
			let it = frames.into_iter().filter(|f| !f.is_empty()).map(|f| Ok::<_, Infallible>(hyper::body::Frame::data(Bytes::from(f))));
			BoxBody::new(StreamBody::new(futures_util::stream::iter(it)))
		} else {
			BoxBody::new(Full::new(Bytes::from(msg)))
		};
		let mut req = http::Request::new(body);
		*req.method_mut() = http::Method::POST;
		*req.uri_mut() = "/".parse().unwrap();
		req.headers_mut().insert(http::header::CONTENT_TYPE, http::HeaderValue::from_static("application/json"));
		if framing == "httpl" {
			req.headers_mut().insert(http::header::CONTENT_LENGTH, http::HeaderValue::from_str(&len.to_string()).unwrap());
		}
		let rp = svc.call(req).await.expect("service is infallible");
		let status = rp.status().as_u16();
		let body = rp.into_body().collect().await.map(|c| c.to_bytes().to_vec()).unwrap_or_else(|_| b"?body-error".to_vec());
		// a handler still running after the response was produced would be a finding of its own
		let t0 = Instant::now();
		while self.ctx.inflight.load(Ordering::SeqCst) != 0 && t0.elapsed() < WAIT {
			sleep(Duration::from_millis(1)).await;
		}
		self.finish(Some(status), if body.is_empty() { vec![] } else { vec![body] }, true)
	}

	/// Transport `httpk`: the message and then the barrier call on ONE persistent HTTP/1.1 connection.
	async fn httpk_case(&mut self, key: &str, msg: Vec<u8>) -> String {
		let ctx = self.ctx.clone();
		let bar = self.barrier.fetch_add(1000, Ordering::SeqCst) + 1;
		let Some(srv) = self.server(key).await else { return "?no-server".into() };
		let host = srv.addr.to_string();
		let mut frames: Vec<Vec<u8>> = Vec::new();
		if let Some(c) = srv.hconn.as_mut() {
			let (dead, stale) = c.dead_or_stale();
			if !stale.is_empty() {
				frames.push([b"STALE:".to_vec(), stale].concat());
			}
			if dead {
				srv.hconn = None;
			}
		}
		if srv.hconn.is_none() {
			srv.hconn = http_connect(srv.addr).await;
		}
		let Some(conn) = srv.hconn.as_mut() else { return "?no-connection".into() };
		let mut status = None;
		let mut alive = conn.post(&host, &msg).await;
		if alive {
			match conn.response().await {
				Some((s, body)) => {
					status = Some(s);
					if !body.is_empty() {
						frames.push(body);
					}
				}
				None => alive = false,
			}
		}
		// a handler still running after the response was produced would be a finding of its own
		let t0 = Instant::now();
		while ctx.inflight.load(Ordering::SeqCst) != 0 && t0.elapsed() < WAIT {
			sleep(Duration::from_millis(1)).await;
		}
		if alive {
			let bid = format!("__b{bar}");
			let b = format!(r#"{{"jsonrpc":"2.0","id":"{bid}","method":"__barrier"}}"#);
			alive = conn.post(&host, b.as_bytes()).await
				&& match conn.response().await {
					Some((200, body)) => match serde_json::from_slice::<serde_json::Value>(&body) {
						// the barrier's result; under a `+r<N>` smaller than the barrier's own reply, the server's
						// "response too big" (-32008) error for the barrier's id is its answer
						Ok(v) => {
							v.get("id").and_then(|i| i.as_str()) == Some(bid.as_str())
								&& (v.get("result").and_then(|r| r.as_u64()) == Some(0)
									|| v.get("error").and_then(|e| e.get("code")).and_then(|c| c.as_i64()) == Some(-32008))
						}
						Err(_) => false,
					},
					_ => false,
				};
		}
		if !alive {
			srv.hconn = None;
		}
		self.finish(status, frames, alive)
	}

	fn finish(&self, status: Option<u16>, frames: Vec<Vec<u8>>, alive: bool) -> String {
		let log: Vec<String> = std::mem::take(&mut *self.ctx.log.lock().unwrap());
		format!(
			"s={} f={} l={} a={}",
			status.map(|s| s.to_string()).unwrap_or_else(|| "-".into()),
			if frames.is_empty() { "-".to_string() } else { frames.iter().map(|f| if f.is_empty() { "e".to_string() } else { hex(f) }).collect::<Vec<_>>().join(",") },
			if log.is_empty() { "-".to_string() } else { log.join(";") },
			if alive { 1 } else { 0 }
		)
	}

	async fn ws_case(&mut self, key: &str, msg: Vec<u8>, force_binary: bool, quiet: Duration) -> String {
		let ctx = self.ctx.clone();
		let bar0 = self.barrier.fetch_add(1000, Ordering::SeqCst);
		let Some(srv) = self.server(key).await else { return "?no-server".into() };
		if srv.conn.is_none() {
			srv.conn = connect(srv.addr).await;
		}
		let Some(conn) = srv.conn.as_mut() else { return "?no-connection".into() };
		let mut frames: Vec<Vec<u8>> = Vec::new();
		let mut alive = true;
		// nothing may be pending from the previous case
		while let Ok(ev) = conn.rx.try_recv() {
			match ev {
				Ev::Frame(f) => frames.push([b"STALE:".to_vec(), f].concat()),
				Ev::Closed => alive = false,
			}
		}
		if alive {
			let sent = match std::str::from_utf8(&msg) {
				Ok(s) if !force_binary => conn.sender.send_text(s).await,
				_ => conn.sender.send_binary(&msg).await,
			};
			if sent.is_err() || conn.sender.flush().await.is_err() {
				alive = false;
			}
		}
		let mut last_frame = Instant::now();
		let mut idle_rounds = 0;
		let mut round = 0u64;
		while alive {
			round += 1;
			let bid = format!("__b{}", bar0 + round);
			let b = format!(r#"{{"jsonrpc":"2.0","id":"{bid}","method":"__barrier"}}"#);
			if conn.sender.send_text(&b).await.is_err() || conn.sender.flush().await.is_err() {
				alive = false;
				break;
			}
			let mut new_frames = false;
			// wait for this barrier's answer, keeping everything else
			loop {
				match timeout(WAIT, conn.rx.recv()).await {
					Ok(Some(Ev::Frame(f))) => {
						if is_barrier(&f) {
							if std::str::from_utf8(&f).is_ok_and(|s| s.contains(&bid)) {
								break;
							}
						} else {
							frames.push(f);
							new_frames = true;
							last_frame = Instant::now();
						}
					}
					_ => {
						alive = false;
						break;
					}
				}
			}
			if !alive {
				break;
			}
			if new_frames || ctx.inflight.load(Ordering::SeqCst) != 0 {
				idle_rounds = 0;
			} else {
				idle_rounds += 1;
			}
			if idle_rounds >= 2 {
				let since = last_frame.elapsed();
				if since >= quiet {
					break;
				}
				sleep(std::cmp::min(quiet - since, Duration::from_millis(5))).await;
			} else {
				tokio::task::yield_now().await;
			}
			if round > 2000 {
				frames.push(b"NEVER-QUIET".to_vec());
				break;
			}
		}
		if !alive {
			if let Some(c) = srv.conn.take() {
				c.reader.abort();
			}
		}
		self.finish(None, frames, alive)
	}

	async fn handle(&mut self, line: &str) -> String {
		let parts: Vec<&str> = line.split_whitespace().collect();
		if parts.len() < 3 {
			return "?bad-line".into();
		}
		if batch_cfg(parts[1]).is_none() {
			return "?bad-cfg".into();
		}
		let msg = unhex(parts[2]);
		let quiet = Duration::from_millis(parts.get(3).and_then(|q| q.parse().ok()).unwrap_or(20));
		match parts[0] {
			"http" | "httpl" | "httpc" => self.http_case(parts[1], msg, parts[0]).await,
			"httpk" => self.httpk_case(parts[1], msg).await,
			"ws" => self.ws_case(parts[1], msg, false, quiet).await,
			"wsb" => self.ws_case(parts[1], msg, true, quiet).await,
			_ => "?bad-transport".into(),
		}
	}
}

fn main() {
	// the panicking blocking handler is part of the registry: keep its message off stderr
	std::panic::set_hook(Box::new(|_| {}));
	let rt = tokio::runtime::Builder::new_current_thread().enable_all().build().unwrap();
	let ctx: C = Arc::new(Ctx { log: Mutex::new(Vec::new()), inflight: AtomicUsize::new(0) });
	let mut m = module(ctx.clone());
	m.register_method("__barrier", |_, _, _| 0u8).unwrap();
	let (stop, keep) = stop_channel();
	let mut e = Engine { ctx, methods: m.into(), stop, _stop_keep: keep, servers: HashMap::new(), barrier: AtomicU64::new(0) };
	for_each_line(|l| rt.block_on(e.handle(l)));
	for (_, s) in e.servers.drain() {
		drop(s.cfg);
	}
	rt.shutdown_timeout(Duration::from_millis(200));
}
