//! C10 engine `srvstop`: scripted stop histories against the real `jsonrpsee_server::Server`.
//!
//! One input line = one history (space separated ops), one output line = canonical facts.
//!   cw | ch      open a WebSocket / HTTP(1.1, raw TCP) connection; connections are numbered in script order
//!   s<c>         send the next call (ids 0,1,2.. in script order) on connection c, do not wait
//!   a<k>         wait until the handler of call k has started
//!   r<k>         open the gate of call k (its handler then returns)
//!   f<k>         wait until the handler of call k has returned
//!   y<k>         wait until the client has read the reply to call k
//!   d<c>         the client drops connection c (no close frame)
//!   u<c>         subscribe on WS connection c and wait for the answer
//!   S            `handle.stop()` on a held handle (result recorded)
//!   C / D        clone a handle / drop one held handle
//!   W            clone a handle and spawn an observer awaiting `stopped()`
//!   Z            wait until the observer has seen `stopped()` resolve
//!   p            pause 25 ms
//!   N            wait 300 ms for the observer: `stopped()` is expected NOT to resolve meanwhile (`to=` lists `N!` if it did)
//!   B<n>         (first) ServerBuilder::set_message_buffer_capacity(n): the bounded outgoing queue of a WS connection
//!   P<n>         (first) every reply is padded to n KiB
//!   I<ms>        (first) ServerBuilder::enable_ws_ping with ping interval <ms> (inactivity limit 60 s): the clients' reader tasks
//!                answer every ping with a pong, so pongs keep arriving while calls execute and while the server stops
//!   T<ms>        (first) ServerConfigBuilder::set_keep_alive_timeout(<ms> milliseconds): hyper's keep-alive timeout; it must have no effect
//!                on a graceful stop (a call started before the stop is completed and answered however long its handler takes)
//!   cW           like cw, but the client socket has a 4 KiB receive buffer (with q<c> the server's writer blocks)
//!   q<c> / g<c>  the client's reader task of connection c stops / resumes reading
//!   A            open the gates of all calls sent so far in one step
//! At the end every gate is opened, `stopped()` is awaited when a stop signal was given and an observer
//! exists, the connections are given time to close, and the facts are printed:
//!   stops=<ok|already|nohandle,..>;stopped=<yes|no|nowatch>;conns=<c|o|x ..>;calls=<SFR[L] ..>;to=<timed-out ops>
//!   S: a = handler started before the stop signal, b = after it but before `stopped` resolved, c = after
//!      `stopped` resolved, - = never;  F: < handler returned before `stopped` resolved, > after, - never;
//!   R: reply read by the client (r: read, but more than 100 ms after `stopped` was observed: it cannot have been
//!      handed to the transport before; ?: not read, and the client's WS reader ended with an I/O error instead of the
//!      server's close frame, so it never saw the end of what the server wrote: unobservable);  L: the call was sent after `stopped` had resolved.
//!   conns: c = closed by the server, o = still open, x = dropped by the client.
//! Every await is under a timeout; a wait that expires is listed in `to=` and the history goes on.
use std::collections::HashMap;
use std::sync::atomic::{AtomicBool, AtomicU64, Ordering};
use std::sync::{Arc, Mutex};
use std::time::Duration;

use jrv::*;
use jsonrpsee_client_transport::ws::{Url, WsError, WsTransportClientBuilder};
use jsonrpsee_core::client::{ReceivedMessage, TransportReceiverT, TransportSenderT};
use jsonrpsee_server::{PendingSubscriptionSink, RpcModule, Server, ServerHandle};
use tokio::io::{AsyncReadExt, AsyncWriteExt};
use tokio::net::TcpStream;
use tokio::sync::{Notify, Semaphore};
use tokio::time::{Instant, sleep, timeout};

static PANICS: AtomicU64 = AtomicU64::new(0);
const MAXCALLS: usize = 32;
const WAIT: Duration = Duration::from_millis(4000);
const LATE_CONNECT: Duration = Duration::from_millis(400);

#[derive(Clone, Copy, PartialEq, Eq, Debug)]
enum Ev {
	Start(u64),
	Fin(u64),
	Reply(u64),
	SubOk(usize),
	Closed(usize),
	/// the client's WS reader ended with an I/O error instead of the server's close frame
	Reset(usize),
	Sig,
	Stopped,
	StoppedGrace,
}

struct Case {
	seq: AtomicU64,
	log: Mutex<Vec<(u64, Ev)>>,
	notify: Notify,
	gates: Vec<Semaphore>,
	pad: usize,
}

impl Case {
	fn new(pad: usize) -> Self {
		Case {
			pad,
			seq: AtomicU64::new(0),
			log: Mutex::new(Vec::new()),
			notify: Notify::new(),
			gates: (0..MAXCALLS).map(|_| Semaphore::new(0)).collect(),
		}
	}
	fn push(&self, e: Ev) {
		let mut l = self.log.lock().unwrap();
		let n = self.seq.fetch_add(1, Ordering::SeqCst);
		l.push((n, e));
		drop(l);
		self.notify.notify_waiters();
	}
	fn find(&self, e: Ev) -> Option<u64> {
		self.log.lock().unwrap().iter().find(|(_, x)| *x == e).map(|(n, _)| *n)
	}
	async fn wait_for(&self, e: Ev, d: Duration) -> bool {
		let end = Instant::now() + d;
		loop {
			if self.find(e).is_some() {
				return true;
			}
			let now = Instant::now();
			if now >= end {
				return false;
			}
			let slice = std::cmp::min(end - now, Duration::from_millis(3));
			let _ = timeout(slice, self.notify.notified()).await;
		}
	}
}

enum ClientConn {
	Ws { tx: Box<dyn WsSend>, reader: tokio::task::JoinHandle<()>, paused: Arc<AtomicBool> },
	Http { wr: tokio::net::tcp::OwnedWriteHalf, reader: tokio::task::JoinHandle<()>, paused: Arc<AtomicBool> },
	Failed,
	Dropped,
}

// object-safe wrapper over the transport sender (its concrete type is private-ish and long)
trait WsSend: Send {
	fn send_text<'a>(&'a mut self, s: String) -> std::pin::Pin<Box<dyn std::future::Future<Output = bool> + Send + 'a>>;
}
impl<T: TransportSenderT + Send> WsSend for T {
	fn send_text<'a>(&'a mut self, s: String) -> std::pin::Pin<Box<dyn std::future::Future<Output = bool> + Send + 'a>> {
		Box::pin(async move { self.send(s).await.is_ok() })
	}
}

fn reply_id(text: &str) -> Option<u64> {
	let v: serde_json::Value = serde_json::from_str(text).ok()?;
	if v.get("result").is_none() && v.get("error").is_none() {
		return None;
	}
	v.get("id")?.as_u64()
}

async fn open_ws(case: &Arc<Case>, addr: std::net::SocketAddr, c: usize, d: Duration, small: bool) -> ClientConn {
	let url = Url::parse(&format!("ws://{}", addr)).unwrap();
	let sock = match tokio::net::TcpSocket::new_v4() {
		Ok(s) => s,
		Err(_) => return ClientConn::Failed,
	};
	if small {
		let _ = sock.set_recv_buffer_size(4096);
	}
	let stream = match timeout(d, sock.connect(addr)).await {
		Ok(Ok(s)) => s,
		_ => return ClientConn::Failed,
	};
	let _ = stream.set_nodelay(true);
	// the handshake future is dropped on timeout: nothing of it is reused afterwards
	let (tx, mut rx) = match timeout(d, WsTransportClientBuilder::default().build_with_stream(url, stream)).await {
		Ok(Ok(p)) => p,
		_ => return ClientConn::Failed,
	};
	let case = case.clone();
	let paused = Arc::new(AtomicBool::new(false));
	let pz = paused.clone();
	// dedicated reader: `receive()` is not cancel-safe, it is only awaited here (the task is aborted only to drop it)
	let reader = tokio::spawn(async move {
		loop {
			while pz.load(Ordering::SeqCst) {
				sleep(Duration::from_millis(2)).await;
			}
			match rx.receive().await {
				Ok(ReceivedMessage::Text(s)) => {
					if let Some(id) = reply_id(&s) {
						if id >= 1000 { case.push(Ev::SubOk((id - 1000) as usize)) } else { case.push(Ev::Reply(id)) }
					}
				}
				Ok(_) => {}
				Err(e) => {
					// anything but the close frame: the reader did not get to the end of what the server wrote (a pong
					// answered into a closed socket fails `receive()`, a TCP reset discards unread data)
					if !matches!(e, WsError::Closed(_)) {
						case.push(Ev::Reset(c));
					}
					case.push(Ev::Closed(c));
					break;
				}
			}
		}
	});
	ClientConn::Ws { tx: Box::new(tx), reader, paused }
}

async fn open_http(case: &Arc<Case>, addr: std::net::SocketAddr, c: usize, d: Duration) -> ClientConn {
	let sock = match timeout(d, TcpStream::connect(addr)).await {
		Ok(Ok(s)) => s,
		_ => return ClientConn::Failed,
	};
	let _ = sock.set_nodelay(true);
	let (mut rd, wr) = sock.into_split();
	let case = case.clone();
	let paused = Arc::new(AtomicBool::new(false));
	let pz = paused.clone();
	let reader = tokio::spawn(async move {
		let mut buf: Vec<u8> = Vec::new();
		let mut tmp = [0u8; 4096];
		'outer: loop {
			while pz.load(Ordering::SeqCst) {
				sleep(Duration::from_millis(2)).await;
			}
			// one response: head, then Content-Length bytes
			let head_end = loop {
				if let Some(p) = buf.windows(4).position(|w| w == b"\r\n\r\n") {
					break p + 4;
				}
				while pz.load(Ordering::SeqCst) {
					sleep(Duration::from_millis(2)).await;
				}
				match rd.read(&mut tmp).await {
					Ok(0) | Err(_) => break 'outer,
					Ok(n) => buf.extend_from_slice(&tmp[..n]),
				}
			};
			let head = String::from_utf8_lossy(&buf[..head_end]).to_ascii_lowercase();
			let len = head
				.lines()
				.find_map(|l| l.strip_prefix("content-length:").map(|v| v.trim().parse::<usize>().unwrap_or(0)))
				.unwrap_or(0);
			while buf.len() < head_end + len {
				// a paused reader stops in the middle of a response too (at most one 4 KiB read later)
				while pz.load(Ordering::SeqCst) {
					sleep(Duration::from_millis(2)).await;
				}
				match rd.read(&mut tmp).await {
					Ok(0) | Err(_) => break 'outer,
					Ok(n) => buf.extend_from_slice(&tmp[..n]),
				}
			}
			let body = String::from_utf8_lossy(&buf[head_end..head_end + len]).to_string();
			buf.drain(..head_end + len);
			if let Some(id) = reply_id(&body) {
				case.push(Ev::Reply(id));
			}
		}
		case.push(Ev::Closed(c));
	});
	ClientConn::Http { wr, reader, paused }
}

fn module(case: Arc<Case>) -> RpcModule<Arc<Case>> {
	let mut m = RpcModule::new(case);
	m.register_async_method("g", |params, ctx, _| async move {
		let k: u64 = params.one::<u64>().unwrap_or(u64::MAX);
		if (k as usize) < MAXCALLS {
			ctx.push(Ev::Start(k));
			if let Ok(p) = ctx.gates[k as usize].acquire().await {
				p.forget();
			}
			ctx.push(Ev::Fin(k));
		}
		let mut out = format!("{k}:");
		out.extend(std::iter::repeat('x').take(ctx.pad));
		out
	})
	.unwrap();
	m.register_subscription("sub", "n", "unsub", |_, pending: PendingSubscriptionSink, _, _| async move {
		if let Ok(sink) = pending.accept().await {
			sink.closed().await;
		}
	})
	.unwrap();
	m
}

async fn run_case(line: &str) -> String {
	let mut cap: Option<u32> = None;
	let mut pad = 0usize;
	let mut ping: Option<u64> = None;
	let mut keep_alive_timeout: Option<u64> = None;
	for op in line.split_whitespace() {
		if let Some(v) = op.strip_prefix('I') {
			ping = v.parse().ok();
		} else if let Some(v) = op.strip_prefix('T') {
			keep_alive_timeout = v.parse().ok();
		} else if let Some(v) = op.strip_prefix('B') {
			cap = v.parse().ok();
		} else if let Some(v) = op.strip_prefix('P') {
			pad = v.parse::<usize>().unwrap_or(0) * 1024;
		}
	}
	let case = Arc::new(Case::new(pad));
	// one loop-back address per harness process: a port freed by a stopped server can then only be re-used by
	// this process (whose earlier servers are gone), never by a server of a concurrently running history
	let pid = std::process::id();
	let bind = format!("127.{}.{}.1:0", 1 + (pid / 250) % 250, pid % 250);
	let mut cfg = jsonrpsee_server::ServerConfig::builder();
	if let Some(n) = cap {
		cfg = cfg.set_message_buffer_capacity(n.max(1));
	}
	if let Some(ms) = ping {
		cfg = cfg.enable_ws_ping(
			jsonrpsee_server::PingConfig::new().ping_interval(Duration::from_millis(ms.max(1))).inactive_limit(Duration::from_secs(60)),
		);
	}
	if let Some(ms) = keep_alive_timeout {
		cfg = cfg.set_keep_alive_timeout(Duration::from_millis(ms.max(1)));
	}
	let builder = if cap.is_some() || ping.is_some() || keep_alive_timeout.is_some() {
		jsonrpsee_server::ServerBuilder::with_config(cfg.build())
	} else {
		Server::builder()
	};
	let server = match builder.build(bind.as_str()).await {
		Ok(s) => s,
		Err(_) => return "FATAL bind".into(),
	};
	let addr = match server.local_addr() {
		Ok(a) => a,
		Err(_) => return "FATAL addr".into(),
	};
	let first: ServerHandle = server.start(module(case.clone()));
	let mut handles: Vec<ServerHandle> = vec![first];
	let mut watchers = 0usize; // observers whose `stopped()` is still pending own a handle each
	let mut have_watch = false;
	let mut conns: Vec<ClientConn> = Vec::new();
	let mut sent: Vec<(usize, bool)> = Vec::new(); // call k -> (conn, sent after `stopped` was seen)
	let mut stops: Vec<&'static str> = Vec::new();
	let mut to: Vec<String> = Vec::new();
	let mut stop_op_seen = false;

	for op in line.split_whitespace() {
		let (head, arg) = op.split_at(1);
		let n: usize = arg.parse().unwrap_or(0);
		match (head, op) {
			(_, "cw") | (_, "cW") | (_, "ch") => {
				let d = if stop_op_seen { LATE_CONNECT } else { WAIT };
				let c = conns.len();
				let cc = if op == "ch" { open_http(&case, addr, c, d).await } else { open_ws(&case, addr, c, d, op == "cW").await };
				conns.push(cc);
			}
			("s", _) => {
				let k = sent.len() as u64;
				let late = case.find(Ev::Stopped).is_some();
				sent.push((n, late));
				let body = format!(r#"{{"jsonrpc":"2.0","id":{k},"method":"g","params":[{k}]}}"#);
				match conns.get_mut(n) {
					Some(ClientConn::Ws { tx, .. }) => {
						let _ = timeout(WAIT, tx.send_text(body)).await;
					}
					Some(ClientConn::Http { wr, .. }) => {
						let req = format!(
							"POST / HTTP/1.1\r\nHost: {addr}\r\nContent-Type: application/json\r\nContent-Length: {}\r\n\r\n{body}",
							body.len()
						);
						let _ = timeout(WAIT, wr.write_all(req.as_bytes())).await;
					}
					_ => {}
				}
			}
			("a", _) => {
				if !case.wait_for(Ev::Start(n as u64), WAIT).await {
					to.push(op.to_string());
				}
			}
			("f", _) => {
				if !case.wait_for(Ev::Fin(n as u64), WAIT).await {
					to.push(op.to_string());
				}
			}
			("y", _) => {
				if !case.wait_for(Ev::Reply(n as u64), WAIT).await {
					to.push(op.to_string());
				}
			}
			("r", _) => {
				if n < MAXCALLS {
					case.gates[n].add_permits(1);
				}
			}
			("d", _) => {
				if let Some(cc) = conns.get_mut(n) {
					match std::mem::replace(cc, ClientConn::Dropped) {
						ClientConn::Ws { tx, reader, .. } => {
							reader.abort();
							let _ = reader.await;
							drop(tx);
						}
						ClientConn::Http { wr, reader, .. } => {
							reader.abort();
							let _ = reader.await;
							drop(wr);
						}
						ClientConn::Failed => *cc = ClientConn::Failed,
						ClientConn::Dropped => {}
					}
				}
			}
			("u", _) => {
				if let Some(ClientConn::Ws { tx, .. }) = conns.get_mut(n) {
					let body = format!(r#"{{"jsonrpc":"2.0","id":{},"method":"sub","params":[]}}"#, 1000 + n);
					let _ = timeout(WAIT, tx.send_text(body)).await;
					if !case.wait_for(Ev::SubOk(n), WAIT).await {
						to.push(op.to_string());
					}
				}
			}
			("S", _) => {
				stop_op_seen = true;
				match handles.last() {
					None => stops.push("nohandle"),
					Some(h) => {
						// the signal is logged before it is raised: a start logged earlier really was earlier
						let had = case.find(Ev::Sig).is_some();
						if !had {
							case.push(Ev::Sig);
						}
						match h.stop() {
							Ok(()) => stops.push("ok"),
							Err(_) => stops.push("already"),
						}
					}
				}
			}
			("C", _) => {
				if let Some(h) = handles.last() {
					let h2 = h.clone();
					handles.push(h2);
				}
			}
			("D", _) => {
				if !handles.is_empty() {
					let pending_watch = watchers > 0 && case.find(Ev::Stopped).is_none();
					if handles.len() == 1 && !pending_watch {
						stop_op_seen = true;
						if case.find(Ev::Sig).is_none() {
							case.push(Ev::Sig);
						}
					}
					handles.pop();
				}
			}
			("W", _) => {
				if let Some(h) = handles.last() {
					let h2 = h.clone();
					let cs = case.clone();
					watchers += 1;
					have_watch = true;
					tokio::spawn(async move {
						h2.stopped().await;
						cs.push(Ev::Stopped);
						// everything the server handed to a transport before this point reaches the client's
						// reader task well within the grace period; a reply read later was not handed over before
						sleep(Duration::from_millis(100)).await;
						cs.push(Ev::StoppedGrace);
					});
				}
			}
			("Z", _) => {
				if !have_watch || !case.wait_for(Ev::Stopped, WAIT).await {
					to.push(op.to_string());
				}
			}
			("N", _) => {
				// `stopped` must NOT resolve within 300 ms (replies are stuck behind a client that does not read): listed
				// in `to=` as `N!` when it did
				if have_watch && case.wait_for(Ev::Stopped, Duration::from_millis(300)).await {
					to.push("N!".to_string());
				}
			}
			("p", _) => sleep(Duration::from_millis(25)).await,
			("B", _) | ("P", _) | ("I", _) | ("T", _) => {}
			("A", _) => {
				for k in 0..sent.len().min(MAXCALLS) {
					case.gates[k].add_permits(1);
				}
			}
			("q", _) | ("g", _) => match conns.get(n) {
				Some(ClientConn::Ws { paused, .. }) | Some(ClientConn::Http { paused, .. }) => paused.store(head == "q", Ordering::SeqCst),
				_ => {}
			},
			_ => return format!("BADOP {op}"),
		}
	}

	// settle
	for cc in &conns {
		if let ClientConn::Ws { paused, .. } | ClientConn::Http { paused, .. } = cc {
			paused.store(false, Ordering::SeqCst);
		}
	}
	for g in &case.gates {
		g.add_permits(1);
	}
	let sig = case.find(Ev::Sig).is_some();
	if sig {
		if have_watch && !case.wait_for(Ev::Stopped, WAIT).await {
			to.push("Zfinal".into());
		}
		if case.find(Ev::Stopped).is_some() {
			let _ = case.wait_for(Ev::StoppedGrace, Duration::from_millis(1000)).await;
		}
		for (c, cc) in conns.iter().enumerate() {
			if matches!(cc, ClientConn::Ws { .. } | ClientConn::Http { .. }) {
				let _ = case.wait_for(Ev::Closed(c), Duration::from_millis(3000)).await;
			}
		}
	}
	sleep(Duration::from_millis(if sig { 30 } else { 80 })).await;

	// facts
	let log = case.log.lock().unwrap().clone();
	let pos = |e: Ev| log.iter().find(|(_, x)| *x == e).map(|(n, _)| *n);
	let sig_at = pos(Ev::Sig).unwrap_or(u64::MAX);
	let stopped_at = pos(Ev::Stopped).unwrap_or(u64::MAX);
	let mut dup: HashMap<String, usize> = HashMap::new();
	for (_, e) in &log {
		if let Ev::Start(_) | Ev::Fin(_) | Ev::Reply(_) = e {
			*dup.entry(format!("{e:?}")).or_default() += 1;
		}
	}
	let calls: Vec<String> = (0..sent.len() as u64)
		.map(|k| {
			let s = match pos(Ev::Start(k)) {
				None => '-',
				Some(n) if n < sig_at => 'a',
				Some(n) if n < stopped_at => 'b',
				Some(_) => 'c',
			};
			let f = match pos(Ev::Fin(k)) {
				None => '-',
				Some(n) if n < stopped_at => '<',
				Some(_) => '>',
			};
			let grace_at = pos(Ev::StoppedGrace).unwrap_or(u64::MAX);
			let r = match pos(Ev::Reply(k)) {
				None if pos(Ev::Reset(sent[k as usize].0)).is_some() => '?',
				None => '-',
				Some(n) if n < grace_at => 'R',
				Some(_) => 'r',
			};
			format!("{s}{f}{r}{}", if sent[k as usize].1 { "L" } else { "" })
		})
		.collect();
	let cfacts: Vec<&str> = conns
		.iter()
		.enumerate()
		.map(|(c, cc)| match cc {
			ClientConn::Dropped => "x",
			ClientConn::Failed => "c",
			_ => {
				if pos(Ev::Closed(c)).is_some() {
					"c"
				} else {
					"o"
				}
			}
		})
		.collect();
	let stopped = if !have_watch {
		"nowatch"
	} else if stopped_at != u64::MAX {
		"yes"
	} else {
		"no"
	};
	let dups: Vec<String> = dup.into_iter().filter(|(_, n)| *n > 1).map(|(k, n)| format!("{k}x{n}")).collect();
	let mut out = format!(
		"stops={};stopped={};conns={};calls={};to={}",
		if stops.is_empty() { "-".to_string() } else { stops.join(",") },
		stopped,
		if cfacts.is_empty() { "-".to_string() } else { cfacts.join(",") },
		if calls.is_empty() { "-".to_string() } else { calls.join(",") },
		if to.is_empty() { "-".to_string() } else { to.join(",") },
	);
	if !dups.is_empty() {
		out.push_str(&format!(";dup={}", dups.join(",")));
	}
	drop(handles);
	out
}

fn main() {
	std::panic::set_hook(Box::new(|_| {
		PANICS.fetch_add(1, Ordering::SeqCst);
	}));
	for_each_line(|line| {
		let p0 = PANICS.load(Ordering::SeqCst);
		let rt = tokio::runtime::Builder::new_multi_thread().worker_threads(2).enable_all().build().expect("runtime");
		let line = line.to_string();
		let res = std::panic::catch_unwind(std::panic::AssertUnwindSafe(|| rt.block_on(run_case(&line))));
		rt.shutdown_timeout(Duration::from_millis(200));
		match res {
			Ok(s) => {
				let p1 = PANICS.load(Ordering::SeqCst);
				if p1 != p0 { format!("{s};panics={}", p1 - p0) } else { s }
			}
			Err(e) => {
				let msg = e.downcast_ref::<&str>().map(|s| s.to_string()).or_else(|| e.downcast_ref::<String>().cloned()).unwrap_or_default();
				format!("PANIC {}", hex(msg.as_bytes()))
			}
		}
	});
}
