//! Engine `subhist` (C04, C06): server-side subscription histories on a REAL `jsonrpsee_server::Server`.
//!
//! One input line = one history:
//!   `[E<server|tower|towermw>] K<cap> C<nconns> step step ...`        (steps are comma-separated tokens, see `parse_step`)
//!   E = the ENTRY POINT the server is assembled through (default `server`):
//!     server  `Server::builder().set_config(..).set_rpc_middleware(..).build(addr)` + `Server::start(module)`
//!     tower   `Server::builder()...to_service_builder()`: ONE `TowerServiceBuilder` per history (same config: cap, id
//!             provider, the abandon middleware), CLONED for every accepted TCP connection (`.clone().build(methods,
//!             stop_handle)`), each connection served from the harness's own accept loop with
//!             `serve_with_graceful_shutdown` (the shape of examples/jsonrpsee_as_service.rs); `stop` = the
//!             `ServerHandle` of `stop_channel()`.  Steps and outputs are the same.
//!     towermw like tower, but the shared builder carries no rpc middleware: it is set per accepted connection on the
//!             clone (`shared.clone().set_rpc_middleware(mw).build(..)`), no explicit `connection_id`: the connection
//!             ids must still come from the ONE shared counter
//!     <entry>+r  the same entry point with an `IdProvider` that hands out the SAME subscription id (1000) every time
//!             (id re-use after the earlier subscription under that id is gone); the glue (subhist_common.py) sends
//!             scripts in which a new subscribe on a connection follows only after the previous one there was
//!             unsubscribed / rejected / lost its last sink, and renames the ids in the output by generation
//!   sub,c,req | uns,c,req,target | acc,s | rej,s,code | cl,s,src,k | dr,s,k | snd,s,k,x | tsnd,s,k,x | isc,s,k |
//!   ret,s,n|m|e,x | ab,s,k|d (abandon the subscribe call of s) | dp,s (drop the pending sink unanswered) | cd,c | stop
//! One output line = the ordered observations, as JSON with sorted keys:
//!   {"c":[[frame,..] per connection],"end":[server closed conn i],"r":[result of step i]}
//!
//! The server listens on 127.0.0.1:0 with `max_subscriptions_per_connection(cap)` and a counting
//! `IdProvider` (ids 1000, 1001, ...).  One subscription method `sub`/`note`/`unsub` whose handler is
//! remote-controlled: the n-th handler invocation registers command/result channels under handle n and then
//! executes the commands the script sends it (accept, reject, clone, drop, send, is_closed, return).
//! Sink clones that are still alive when the handler returns are moved to a detached keeper task (a handler
//! that handed its clones to another task), so "handler returned" and "sinks dropped" stay separate events.
//!
//! Abandoned subscribe calls (`ab,s,k|d`): every server carries an rpc middleware (`Abandon`) that, for calls of
//! `sub` that reached the handler, races the inner call future against a per-call signal.  It polls the inner
//! future first and is otherwise transparent; when the script fires the signal it DROPS the inner future (the
//! subscribe-call future of `register_subscription`: its oneshot receiver and `accepted_tx` go with it) and answers
//! the call itself with error 44 "abandoned".  The library then drops the handler future.  Mode `d`: the pending
//! sink dies with the handler future (the handler held it itself).  Mode `k`: the pending sink and the command
//! loop move to a detached task (`pending_keeper`: the handler had handed its pending sink to another task), so
//! a later `acc,s` / `rej,s,code` / `dp,s` (drop the pending sink unanswered) acts on the surviving sink.
//! Clients are raw soketto transports; a dedicated reader task per connection feeds an mpsc (`receive()` is not
//! cancel-safe, it is never wrapped in a timeout).  Everything runs on a current-thread runtime, one fresh
//! runtime per history; after each step the harness polls to quiescence (barrier round-trips on every open
//! connection while the server runs, idle rounds otherwise), every wait is bounded.
use std::collections::HashMap;
use std::sync::atomic::{AtomicBool, AtomicU64, AtomicUsize, Ordering};
use std::sync::{Arc, Mutex};
use std::time::Duration;

use futures_util::FutureExt;
use futures_util::future::Either;
use jrv::*;
use jsonrpsee_client_transport::ws::{Url, WsTransportClientBuilder};
use jsonrpsee_core::client::{ReceivedMessage, TransportReceiverT, TransportSenderT};
use jsonrpsee_core::error::SubscriptionError;
use jsonrpsee_core::middleware::{Batch, Notification, RpcServiceBuilder, RpcServiceT};
use jsonrpsee_core::traits::IdProvider;
use jsonrpsee_server::{
	ConnectionGuard, MethodResponse, Methods, PendingSubscriptionSink, RpcModule, Server, ServerConfig, ServerHandle,
	SubscriptionCloseResponse, SubscriptionMessage, SubscriptionSink, serve_with_graceful_shutdown, stop_channel,
};
use jsonrpsee_types::{ErrorObject, Request, SubscriptionId};
use serde_json::Value;
use tokio::sync::{mpsc, oneshot};
use tokio::time::{Instant, sleep, timeout};
use tower::Service;

const ID_BASE: u64 = 1000;
const BARRIER_BASE: u64 = 1_000_000;
const CMD_WAIT: Duration = Duration::from_secs(5);
const REQ_WAIT: Duration = Duration::from_secs(3);
const ABANDONED_CODE: i32 = 44;

#[derive(Debug)]
struct CountingIds(AtomicU64);
impl IdProvider for CountingIds {
	fn next_id(&self) -> SubscriptionId<'static> {
		SubscriptionId::Num(ID_BASE + self.0.fetch_add(1, Ordering::SeqCst))
	}
}

/// Entry suffix `+r`: every subscription gets the SAME id (`ID_BASE`), the way a fixed / topic-derived id provider
/// re-uses an id once the earlier subscription under it is gone.
#[derive(Debug)]
struct ConstantId;
impl IdProvider for ConstantId {
	fn next_id(&self) -> SubscriptionId<'static> {
		SubscriptionId::Num(ID_BASE)
	}
}

#[derive(Debug, Clone)]
enum Cmd {
	Accept,
	Reject(i32),
	Clone(u32, u32),
	Drop(u32),
	Send(u32, u64),
	TrySend(u32, u64),
	IsClosed(u32),
	Ret(u8, u64),
	DropPending,
}

struct SubCtl {
	cmd: mpsc::UnboundedSender<Cmd>,
	res: mpsc::UnboundedReceiver<String>,
}

/// The script's handle on one subscribe call that reached the handler (middleware side).
struct CallCtl {
	fire: Option<oneshot::Sender<()>>,
	dropped: Arc<AtomicBool>,
}

struct Ctl {
	next: AtomicUsize,
	reg: mpsc::UnboundedSender<(usize, SubCtl)>,
	guard: Mutex<Option<ConnectionGuard>>,
	/// handle -> abandon signal of its subscribe call
	calls: Mutex<HashMap<usize, CallCtl>>,
	/// handle -> "the pending sink outlives the handler future" (set by the script just before it abandons the call)
	keep: Mutex<HashMap<usize, Arc<AtomicBool>>>,
}

/// Rpc middleware installed on every server: transparent unless the script abandons a subscribe call.
#[derive(Clone)]
struct Abandon<S> {
	service: S,
	ctl: Arc<Ctl>,
}

impl<S> RpcServiceT for Abandon<S>
where
	S: RpcServiceT<MethodResponse = MethodResponse, BatchResponse = MethodResponse, NotificationResponse = MethodResponse>
		+ Send
		+ Sync
		+ Clone
		+ 'static,
{
	type MethodResponse = MethodResponse;
	type NotificationResponse = MethodResponse;
	type BatchResponse = MethodResponse;

	fn call<'a>(&self, req: Request<'a>) -> impl Future<Output = MethodResponse> + Send + 'a {
		let is_sub = req.method_name() == "sub";
		let id = req.id().into_owned();
		// the subscription callback runs synchronously inside `call` and takes the next handle: that is how the
		// middleware learns which handle (if any: not when the call is refused with -32006) this call belongs to
		let before = self.ctl.next.load(Ordering::SeqCst);
		let fut = self.service.call(req);
		let after = self.ctl.next.load(Ordering::SeqCst);
		let slot = if is_sub && after == before + 1 {
			let (tx, rx) = oneshot::channel::<()>();
			let dropped = Arc::new(AtomicBool::new(false));
			self.ctl.calls.lock().unwrap().insert(before, CallCtl { fire: Some(tx), dropped: dropped.clone() });
			Some((rx, dropped))
		} else {
			None
		};
		async move {
			let Some((rx, dropped)) = slot else { return fut.await };
			// `select` polls the inner future first: an answer that is ready always wins
			match futures_util::future::select(Box::pin(fut), rx).await {
				Either::Left((rp, _)) => rp,
				Either::Right((Ok(()), inner)) => {
					drop(inner);
					dropped.store(true, Ordering::SeqCst);
					MethodResponse::error(id, ErrorObject::owned(ABANDONED_CODE, "abandoned", None::<()>))
				}
				// the script went away without abandoning: keep waiting for the answer
				Either::Right((Err(_), inner)) => inner.await,
			}
		}
	}

	fn batch<'a>(&self, batch: Batch<'a>) -> impl Future<Output = MethodResponse> + Send + 'a {
		self.service.batch(batch)
	}

	fn notification<'a>(&self, n: Notification<'a>) -> impl Future<Output = MethodResponse> + Send + 'a {
		self.service.notification(n)
	}
}

fn raw(x: u64) -> SubscriptionMessage {
	SubscriptionMessage::from(serde_json::value::to_raw_value(&x).unwrap())
}

async fn sink_cmd(sinks: &mut HashMap<u32, SubscriptionSink>, cmd: Cmd) -> String {
	match cmd {
		Cmd::Clone(j, k) => {
			if sinks.contains_key(&k) {
				return "na".into();
			}
			match sinks.get(&j).cloned() {
				Some(s) => {
					sinks.insert(k, s);
					"ok".into()
				}
				None => "na".into(),
			}
		}
		Cmd::Drop(k) => match sinks.remove(&k) {
			Some(s) => {
				drop(s);
				"ok".into()
			}
			None => "na".into(),
		},
		Cmd::Send(k, x) => match sinks.get(&k) {
			Some(s) => match timeout(CMD_WAIT, s.send(raw(x))).await {
				Ok(Ok(())) => "ok".into(),
				Ok(Err(_)) => "err".into(),
				Err(_) => "timeout".into(),
			},
			None => "na".into(),
		},
		Cmd::TrySend(k, x) => match sinks.get_mut(&k) {
			Some(s) => match s.try_send(raw(x)) {
				Ok(()) => "ok".into(),
				Err(_) => "err".into(),
			},
			None => "na".into(),
		},
		Cmd::IsClosed(k) => match sinks.get(&k) {
			Some(s) => {
				let a = s.is_closed();
				let b = s.closed().now_or_never().is_some();
				if a != b {
					format!("mismatch:{}:{}", a as u8, b as u8)
				} else if a {
					"1".into()
				} else {
					"0".into()
				}
			}
			None => "na".into(),
		},
		Cmd::Accept | Cmd::Reject(_) | Cmd::Ret(..) | Cmd::DropPending => "na".into(),
	}
}

async fn do_accept(p: PendingSubscriptionSink, sinks: &mut HashMap<u32, SubscriptionSink>) -> String {
	match timeout(CMD_WAIT, p.accept()).await {
		Ok(Ok(s)) => {
			sinks.insert(0, s);
			"ok".into()
		}
		Ok(Err(_)) => "err".into(),
		Err(_) => "timeout".into(),
	}
}

async fn do_reject(p: PendingSubscriptionSink, code: i32) -> String {
	match timeout(CMD_WAIT, p.reject(ErrorObject::owned(code, "rejected", None::<()>))).await {
		Ok(()) => "ok".into(),
		Err(_) => "timeout".into(),
	}
}

/// What the handler future owns.  When the library drops the handler future while the pending sink is still
/// unanswered (that only happens to an abandoned call) and the script asked for it (`ab,s,k`), the pending sink
/// and the command channels move to a detached task instead of dying with the handler.
struct HandlerState {
	pending: Option<PendingSubscriptionSink>,
	chan: Option<(mpsc::UnboundedReceiver<Cmd>, mpsc::UnboundedSender<String>)>,
	keep: Arc<AtomicBool>,
}

impl Drop for HandlerState {
	fn drop(&mut self) {
		if !self.keep.load(Ordering::SeqCst) {
			return;
		}
		if let (Some(p), Some((rx, tx))) = (self.pending.take(), self.chan.take()) {
			if let Ok(rt) = tokio::runtime::Handle::try_current() {
				rt.spawn(pending_keeper(p, rx, tx));
			}
		}
	}
}

/// The pending sink of an abandoned call, in a task of its own: accept / reject / drop it; should an accept ever
/// succeed here its sinks are served like the handler's.
async fn pending_keeper(p: PendingSubscriptionSink, mut rx: mpsc::UnboundedReceiver<Cmd>, tx: mpsc::UnboundedSender<String>) {
	let mut pending = Some(p);
	let mut sinks: HashMap<u32, SubscriptionSink> = HashMap::new();
	while let Some(cmd) = rx.recv().await {
		let r: String = match cmd {
			Cmd::Accept => match pending.take() {
				None => "na".into(),
				Some(p) => do_accept(p, &mut sinks).await,
			},
			Cmd::Reject(code) => match pending.take() {
				None => "na".into(),
				Some(p) => do_reject(p, code).await,
			},
			Cmd::DropPending => match pending.take() {
				None => "na".into(),
				Some(p) => {
					drop(p);
					"ok".into()
				}
			},
			// the handler future is gone: it cannot return any more
			Cmd::Ret(..) => "na".into(),
			other => sink_cmd(&mut sinks, other).await,
		};
		if tx.send(r).is_err() {
			break;
		}
	}
}

/// The handler's clones after it returned: same command loop, no pending sink, no return value.
async fn keeper(mut sinks: HashMap<u32, SubscriptionSink>, mut rx: mpsc::UnboundedReceiver<Cmd>, tx: mpsc::UnboundedSender<String>) {
	while let Some(cmd) = rx.recv().await {
		let r = sink_cmd(&mut sinks, cmd).await;
		if tx.send(r).is_err() {
			break;
		}
	}
}

async fn handler(
	pending: PendingSubscriptionSink,
	rx: mpsc::UnboundedReceiver<Cmd>,
	tx: mpsc::UnboundedSender<String>,
	keep: Arc<AtomicBool>,
) -> SubscriptionCloseResponse {
	let mut st = HandlerState { pending: Some(pending), chan: Some((rx, tx)), keep };
	let mut sinks: HashMap<u32, SubscriptionSink> = HashMap::new();
	loop {
		let Some(cmd) = st.chan.as_mut().unwrap().0.recv().await else { return SubscriptionCloseResponse::None };
		let r: String = match cmd {
			Cmd::Accept => match st.pending.take() {
				None => "na".into(),
				Some(p) => do_accept(p, &mut sinks).await,
			},
			Cmd::Reject(code) => match st.pending.take() {
				None => "na".into(),
				Some(p) => do_reject(p, code).await,
			},
			Cmd::DropPending => match st.pending.take() {
				None => "na".into(),
				Some(p) => {
					drop(p);
					"ok".into()
				}
			},
			Cmd::Ret(kind, x) => {
				let resp = match kind {
					1 => SubscriptionCloseResponse::Notif(raw(x)),
					2 => SubscriptionCloseResponse::NotifErr(SubscriptionError::from(format!("e{}", x))),
					_ => SubscriptionCloseResponse::None,
				};
				let (rx, tx) = st.chan.take().unwrap();
				let _ = tx.send("ok".into());
				// a pending sink that was neither accepted nor rejected is dropped here, with the handler
				drop(st.pending.take());
				tokio::spawn(keeper(sinks, rx, tx));
				return resp;
			}
			other => sink_cmd(&mut sinks, other).await,
		};
		if st.chan.as_ref().unwrap().1.send(r).is_err() {
			return SubscriptionCloseResponse::None;
		}
	}
}

enum Ev {
	Frame(String),
	Closed,
}

type WsSender = jsonrpsee_client_transport::ws::Sender<tokio_util::compat::Compat<tokio::net::TcpStream>>;

struct Conn {
	sender: Option<WsSender>,
	reader: Option<tokio::task::JoinHandle<()>>,
	frames: Vec<Value>,
	alive: bool,       // the harness still holds the client transport
	closed_seen: bool, // the client saw the server end the connection
	ended_by_server: bool,
}

struct H {
	conns: Vec<Conn>,
	ev_rx: mpsc::UnboundedReceiver<(usize, Ev)>,
	reg_rx: mpsc::UnboundedReceiver<(usize, SubCtl)>,
	subs: Vec<SubCtl>,
	responses: HashMap<(usize, u64), Value>,
	ctl: Arc<Ctl>,
	handle: ServerHandle,
	stopped: bool,
	next_barrier: u64,
	activity: u64,
	problems: Vec<String>,
}

fn canon(v: &Value) -> String {
	match v {
		Value::Object(m) => {
			let mut ks: Vec<&String> = m.keys().collect();
			ks.sort();
			let parts: Vec<String> = ks.iter().map(|k| format!("{}:{}", serde_json::to_string(k).unwrap(), canon(&m[*k]))).collect();
			format!("{{{}}}", parts.join(","))
		}
		Value::Array(a) => format!("[{}]", a.iter().map(canon).collect::<Vec<_>>().join(",")),
		other => serde_json::to_string(other).unwrap(),
	}
}

/// errors -> (code, message): the `data` member is dropped before comparing
fn strip_error_data(mut v: Value) -> Value {
	if let Some(e) = v.get_mut("error").and_then(|e| e.as_object_mut()) {
		e.remove("data");
	}
	v
}

impl H {
	fn on_event(&mut self, c: usize, ev: Ev) {
		self.activity += 1;
		match ev {
			Ev::Closed => {
				self.conns[c].closed_seen = true;
				if self.conns[c].alive {
					self.conns[c].ended_by_server = true;
				}
			}
			Ev::Frame(s) => {
				let v: Value = match serde_json::from_str(&s) {
					Ok(v) => v,
					Err(_) => Value::String(format!("UNPARSEABLE:{}", hex(s.as_bytes()))),
				};
				if let Some(id) = v.get("id").and_then(|i| i.as_u64()) {
					if id >= BARRIER_BASE {
						self.responses.insert((c, id), v);
						self.activity -= 1;
						return;
					}
					self.responses.insert((c, id), v.clone());
				}
				self.conns[c].frames.push(strip_error_data(v));
			}
		}
	}

	fn drain(&mut self) {
		while let Ok((c, ev)) = self.ev_rx.try_recv() {
			self.on_event(c, ev);
		}
		while let Ok((h, ctl)) = self.reg_rx.try_recv() {
			self.on_reg(h, ctl);
		}
	}

	fn on_reg(&mut self, h: usize, ctl: SubCtl) {
		self.activity += 1;
		if h != self.subs.len() {
			self.problems.push(format!("handle-out-of-order:{}", h));
		}
		self.subs.push(ctl);
	}

	/// Process events until `pred` holds or `wait` has elapsed.
	async fn pump_until(&mut self, wait: Duration, pred: impl Fn(&H) -> bool) -> bool {
		let deadline = Instant::now() + wait;
		loop {
			self.drain();
			if pred(self) {
				return true;
			}
			tokio::select! {
				ev = self.ev_rx.recv() => match ev { Some((c, ev)) => self.on_event(c, ev), None => return false },
				r = self.reg_rx.recv() => match r { Some((h, ctl)) => self.on_reg(h, ctl), None => return false },
				_ = tokio::time::sleep_until(deadline) => { self.drain(); return pred(self); }
			}
		}
	}

	async fn send_raw(&mut self, c: usize, text: String) -> bool {
		let Some(conn) = self.conns.get_mut(c) else { return false };
		if !conn.alive || conn.closed_seen {
			return false;
		}
		let Some(s) = conn.sender.as_mut() else { return false };
		matches!(timeout(REQ_WAIT, s.send(text)).await, Ok(Ok(())))
	}

	fn open_conns(&self) -> Vec<usize> {
		(0..self.conns.len()).filter(|&c| self.conns[c].alive && !self.conns[c].closed_seen).collect()
	}

	fn live_server_conns(&self) -> Option<usize> {
		let g = self.ctl.guard.lock().unwrap();
		g.as_ref().map(|g| g.max_connections() - g.available_connections())
	}

	/// One barrier round-trip on every open connection (only while the server reads requests).
	async fn barrier_round(&mut self) {
		for c in self.open_conns() {
			let id = self.next_barrier;
			self.next_barrier += 1;
			if !self.send_raw(c, format!(r#"{{"jsonrpc":"2.0","id":{},"method":"sync"}}"#, id)).await {
				continue;
			}
			let ok = self.pump_until(REQ_WAIT, |h| h.responses.contains_key(&(c, id)) || h.conns[c].closed_seen).await;
			if !ok {
				self.problems.push(format!("barrier-timeout:c{}", c));
			}
		}
	}

	/// No barrier is possible (server stopped, or no open connection): let every ready task run (yielding polls the
	/// I/O driver on a current-thread runtime), then require a quiet millisecond.
	async fn idle_rounds(&mut self, max_rounds: u32) {
		for _ in 0..max_rounds {
			let mut last = (self.activity, self.live_server_conns());
			let mut quiet = 0;
			let mut spins = 0;
			while quiet < 40 && spins < 4000 {
				tokio::task::yield_now().await;
				self.drain();
				spins += 1;
				let now = (self.activity, self.live_server_conns());
				if now == last {
					quiet += 1;
				} else {
					quiet = 0;
					last = now;
				}
			}
			sleep(Duration::from_millis(1)).await;
			self.drain();
			if (self.activity, self.live_server_conns()) == last {
				return;
			}
		}
	}

	async fn quiesce(&mut self) {
		if self.stopped {
			self.idle_rounds(200).await;
			return;
		}
		// wait for the server to have released every connection the harness dropped
		let expected = self.open_conns().len();
		if self.live_server_conns().is_some() {
			let deadline = Instant::now() + Duration::from_secs(3);
			let mut spins = 0u32;
			while self.live_server_conns() != Some(expected) && Instant::now() < deadline {
				spins += 1;
				if spins % 200 == 0 {
					sleep(Duration::from_millis(1)).await;
				} else {
					tokio::task::yield_now().await;
				}
				self.drain();
			}
			if self.live_server_conns() != Some(expected) {
				self.problems.push("conn-count-timeout".into());
			}
		}
		let mut rounds = 0;
		loop {
			let before = self.activity;
			self.barrier_round().await;
			tokio::task::yield_now().await;
			self.drain();
			rounds += 1;
			if (self.activity == before && rounds >= 2) || rounds >= 50 {
				break;
			}
		}
		if self.open_conns().is_empty() {
			self.idle_rounds(100).await;
		}
	}

	async fn handler_cmd(&mut self, s: usize, cmd: Cmd) -> String {
		let Some(ctl) = self.subs.get_mut(s) else { return "na".into() };
		// The library drops (cancels) the handler future once the subscribe call was answered with an error
		// (reject / failed accept): its command channel is closed then, and the command is not applicable.
		if ctl.cmd.send(cmd).is_err() {
			return "na".into();
		}
		match timeout(CMD_WAIT, ctl.res.recv()).await {
			Ok(Some(r)) => r,
			Ok(None) => "na".into(),
			Err(_) => "timeout".into(),
		}
	}

	async fn step(&mut self, st: &Step) -> String {
		match *st {
			Step::Sub(c, req) => {
				let before = self.subs.len();
				if !self.send_raw(c, format!(r#"{{"jsonrpc":"2.0","id":{},"method":"sub"}}"#, req)).await {
					return "na".into();
				}
				let wait = if self.stopped { Duration::from_millis(15) } else { REQ_WAIT };
				self.pump_until(wait, |h| h.subs.len() > before || h.responses.contains_key(&(c, req))).await;
				if self.subs.len() > before {
					format!("h{}", before)
				} else if let Some(v) = self.responses.get(&(c, req)) {
					match v.get("error").and_then(|e| e.get("code")).and_then(|c| c.as_i64()) {
						Some(-32006) => "refused".into(),
						Some(code) => format!("error:{}", code),
						None => "resp".into(),
					}
				} else {
					"na".into()
				}
			}
			Step::Unsub(c, req, target) => {
				if !self.send_raw(c, format!(r#"{{"jsonrpc":"2.0","id":{},"method":"unsub","params":[{}]}}"#, req, target)).await {
					return "na".into();
				}
				let wait = if self.stopped { Duration::from_millis(15) } else { REQ_WAIT };
				self.pump_until(wait, |h| h.responses.contains_key(&(c, req))).await;
				match self.responses.get(&(c, req)).and_then(|v| v.get("result")).and_then(|r| r.as_bool()) {
					Some(true) => "t".into(),
					Some(false) => "f".into(),
					None => {
						if self.responses.contains_key(&(c, req)) {
							"resp".into()
						} else {
							"na".into()
						}
					}
				}
			}
			Step::Accept(s) => self.handler_cmd(s, Cmd::Accept).await,
			Step::Reject(s, code) => self.handler_cmd(s, Cmd::Reject(code)).await,
			Step::CloneSink(s, j, k) => self.handler_cmd(s, Cmd::Clone(j, k)).await,
			Step::DropSink(s, k) => self.handler_cmd(s, Cmd::Drop(k)).await,
			Step::Send(s, k, x) => self.handler_cmd(s, Cmd::Send(k, x)).await,
			Step::TrySend(s, k, x) => self.handler_cmd(s, Cmd::TrySend(k, x)).await,
			Step::IsClosed(s, k) => self.handler_cmd(s, Cmd::IsClosed(k)).await,
			Step::Ret(s, kind, x) => self.handler_cmd(s, Cmd::Ret(kind, x)).await,
			Step::DropPending(s) => self.handler_cmd(s, Cmd::DropPending).await,
			Step::Abandon(s, keep) => {
				// the subscribe call of handle s is still waiting for its answer <=> its wrapper still holds the receiver
				let (fire, dropped) = {
					let mut calls = self.ctl.calls.lock().unwrap();
					match calls.get_mut(&s) {
						Some(c) => (c.fire.take(), c.dropped.clone()),
						None => return "na".into(),
					}
				};
				let Some(fire) = fire else { return "na".into() };
				if fire.is_closed() {
					return "na".into();
				}
				if let Some(k) = self.ctl.keep.lock().unwrap().get(&s) {
					k.store(keep, Ordering::SeqCst);
				}
				if fire.send(()).is_err() {
					return "na".into();
				}
				// wait until the middleware has really dropped the inner call future
				let deadline = Instant::now() + REQ_WAIT;
				while !dropped.load(Ordering::SeqCst) && Instant::now() < deadline {
					tokio::task::yield_now().await;
					self.drain();
				}
				if dropped.load(Ordering::SeqCst) { "ok".into() } else { "timeout".into() }
			}
			Step::ConnDrop(c) => {
				let Some(conn) = self.conns.get_mut(c) else { return "na".into() };
				let was_open = conn.alive && !conn.closed_seen;
				conn.alive = false;
				conn.sender = None;
				if let Some(r) = conn.reader.take() {
					r.abort();
					let _ = timeout(REQ_WAIT, r).await;
				}
				if was_open { "ok".into() } else { "na".into() }
			}
			Step::Stop => {
				if self.stopped {
					return "na".into();
				}
				self.stopped = true;
				match self.handle.stop() {
					Ok(()) => "ok".into(),
					Err(_) => "already".into(),
				}
			}
		}
	}
}

#[derive(Debug, Clone)]
enum Step {
	Sub(usize, u64),
	Unsub(usize, u64, u64),
	Accept(usize),
	Reject(usize, i32),
	CloneSink(usize, u32, u32),
	DropSink(usize, u32),
	Send(usize, u32, u64),
	TrySend(usize, u32, u64),
	IsClosed(usize, u32),
	Ret(usize, u8, u64),
	DropPending(usize),
	Abandon(usize, bool),
	ConnDrop(usize),
	Stop,
}

fn parse_step(tok: &str) -> Option<Step> {
	let f: Vec<&str> = tok.split(',').collect();
	let n = |i: usize| -> Option<u64> { f.get(i)?.parse::<u64>().ok() };
	Some(match f[0] {
		"sub" => Step::Sub(n(1)? as usize, n(2)?),
		"uns" => Step::Unsub(n(1)? as usize, n(2)?, n(3)?),
		"acc" => Step::Accept(n(1)? as usize),
		"rej" => Step::Reject(n(1)? as usize, f.get(2)?.parse::<i32>().ok()?),
		"cl" => Step::CloneSink(n(1)? as usize, n(2)? as u32, n(3)? as u32),
		"dr" => Step::DropSink(n(1)? as usize, n(2)? as u32),
		"snd" => Step::Send(n(1)? as usize, n(2)? as u32, n(3)?),
		"tsnd" => Step::TrySend(n(1)? as usize, n(2)? as u32, n(3)?),
		"isc" => Step::IsClosed(n(1)? as usize, n(2)? as u32),
		"ret" => Step::Ret(
			n(1)? as usize,
			match *f.get(2)? {
				"n" => 0,
				"m" => 1,
				"e" => 2,
				_ => return None,
			},
			n(3).unwrap_or(0),
		),
		"dp" => Step::DropPending(n(1)? as usize),
		"ab" => Step::Abandon(
			n(1)? as usize,
			match f.get(2).copied().unwrap_or("k") {
				"k" => true,
				"d" => false,
				_ => return None,
			},
		),
		"cd" => Step::ConnDrop(n(1)? as usize),
		"stop" => Step::Stop,
		_ => return None,
	})
}

/// How the server is assembled (script token `E<server|tower|towermw>[+r]`).
#[derive(Debug, Clone, Copy, PartialEq)]
enum Entry {
	Server,
	Tower,
	/// like `Tower`, but the rpc middleware is set per accepted connection on a clone of the shared builder
	/// (`shared.clone().set_rpc_middleware(..).build(..)`, the pattern of examples/jsonrpsee_as_service.rs)
	TowerMw,
}

async fn run_case(entry: Entry, reuse_ids: bool, cap: u32, nconns: usize, steps: Vec<Step>) -> String {
	let (reg_tx, reg_rx) = mpsc::unbounded_channel();
	let ctl = Arc::new(Ctl {
		next: AtomicUsize::new(0),
		reg: reg_tx,
		guard: Mutex::new(None),
		calls: Mutex::new(HashMap::new()),
		keep: Mutex::new(HashMap::new()),
	});
	let mut module = RpcModule::new(ctl.clone());
	module
		.register_subscription("sub", "note", "unsub", |_params, pending, ctx: Arc<Arc<Ctl>>, _ext| {
			let h = ctx.next.fetch_add(1, Ordering::SeqCst);
			let (cmd_tx, cmd_rx) = mpsc::unbounded_channel();
			let (res_tx, res_rx) = mpsc::unbounded_channel();
			let keep = Arc::new(AtomicBool::new(false));
			ctx.keep.lock().unwrap().insert(h, keep.clone());
			let _ = ctx.reg.send((h, SubCtl { cmd: cmd_tx, res: res_rx }));
			handler(pending, cmd_rx, res_tx, keep)
		})
		.unwrap();
	module
		.register_method("sync", |_p, ctx, ext| {
			if let Some(g) = ext.get::<ConnectionGuard>() {
				let mut slot = ctx.guard.lock().unwrap();
				if slot.is_none() {
					*slot = Some(g.clone());
				}
			}
			0u8
		})
		.unwrap();
	let cfg = ServerConfig::builder().max_subscriptions_per_connection(cap);
	let cfg = if reuse_ids { cfg.set_id_provider(ConstantId) } else { cfg.set_id_provider(CountingIds(AtomicU64::new(0))) };
	let cfg = cfg.build();
	let (addr, handle) = match entry {
		Entry::Server => {
			let mut server = None;
			for attempt in 0..5u64 {
				let mw_ctl = ctl.clone();
				let mw = RpcServiceBuilder::new().layer_fn(move |service| Abandon { service, ctl: mw_ctl.clone() });
				match timeout(REQ_WAIT, Server::builder().set_config(cfg.clone()).set_rpc_middleware(mw).build("127.0.0.1:0")).await {
					Ok(Ok(s)) => {
						server = Some(s);
						break;
					}
					_ => sleep(Duration::from_millis(20 * (attempt + 1))).await,
				}
			}
			let Some(server) = server else { return r#"{"fatal":"bind"}"#.into() };
			let addr = server.local_addr().unwrap();
			(addr, server.start(module))
		}
		Entry::Tower | Entry::TowerMw => {
			let mut listener = None;
			for attempt in 0..5u64 {
				match tokio::net::TcpListener::bind("127.0.0.1:0").await {
					Ok(l) => {
						listener = Some(l);
						break;
					}
					_ => sleep(Duration::from_millis(20 * (attempt + 1))).await,
				}
			}
			let Some(listener) = listener else { return r#"{"fatal":"bind"}"#.into() };
			let addr = listener.local_addr().unwrap();
			let (stop_handle, server_handle) = stop_channel();
			let mw_ctl = ctl.clone();
			let mw = RpcServiceBuilder::new().layer_fn(move |service| Abandon { service, ctl: mw_ctl.clone() });
			if entry == Entry::Tower {
				// ONE builder per history; every accepted TCP connection gets a service built from a CLONE of it
				let svc_builder = Server::builder().set_config(cfg.clone()).set_rpc_middleware(mw).to_service_builder();
				let methods: Methods = module.into();
				tokio::spawn(async move {
					loop {
						let sock = tokio::select! {
							r = listener.accept() => match r { Ok((s, _)) => s, Err(_) => continue },
							_ = stop_handle.clone().shutdown() => break,
						};
						let _ = sock.set_nodelay(true);
						let conn_svc = svc_builder.clone().build(methods.clone(), stop_handle.clone());
						let svc = tower::service_fn(move |req: http::Request<hyper::body::Incoming>| {
							let mut conn_svc = conn_svc.clone();
							async move { conn_svc.call(req).await }.boxed()
						});
						tokio::spawn(serve_with_graceful_shutdown(sock, svc, stop_handle.clone().shutdown()));
					}
				});
			} else {
				// ONE builder per history; every accepted TCP connection gets a service built from a CLONE of it
				// the shared builder carries NO rpc middleware: it is set per connection on the clone
				let svc_builder = Server::builder().set_config(cfg.clone()).to_service_builder();
				let methods: Methods = module.into();
				tokio::spawn(async move {
					loop {
						let sock = tokio::select! {
							r = listener.accept() => match r { Ok((s, _)) => s, Err(_) => continue },
							_ = stop_handle.clone().shutdown() => break,
						};
						let _ = sock.set_nodelay(true);
						let conn_svc = svc_builder.clone().set_rpc_middleware(mw.clone()).build(methods.clone(), stop_handle.clone());
						let svc = tower::service_fn(move |req: http::Request<hyper::body::Incoming>| {
							let mut conn_svc = conn_svc.clone();
							async move { conn_svc.call(req).await }.boxed()
						});
						tokio::spawn(serve_with_graceful_shutdown(sock, svc, stop_handle.clone().shutdown()));
					}
				});
			}
			(addr, server_handle)
		}
	};

	let (ev_tx, ev_rx) = mpsc::unbounded_channel();
	let mut h = H {
		conns: Vec::new(),
		ev_rx,
		reg_rx,
		subs: Vec::new(),
		responses: HashMap::new(),
		ctl,
		handle,
		stopped: false,
		next_barrier: BARRIER_BASE,
		activity: 0,
		problems: Vec::new(),
	};
	for c in 0..nconns {
		let url = Url::parse(&format!("ws://{}", addr)).unwrap();
		// own TCP stream with SO_LINGER 0: dropping the transport resets the connection instead of leaving a
		// TIME_WAIT socket behind (hundreds of thousands of histories would exhaust the ephemeral ports)
		let mut stream = None;
		for attempt in 0..5u64 {
			match timeout(REQ_WAIT, tokio::net::TcpStream::connect(addr)).await {
				Ok(Ok(st)) => {
					stream = Some(st);
					break;
				}
				_ => sleep(Duration::from_millis(20 * (attempt + 1))).await,
			}
		}
		let Some(stream) = stream else { return r#"{"fatal":"connect"}"#.into() };
		#[allow(deprecated)] // a zero linger never blocks
		let _ = stream.set_linger(Some(Duration::ZERO));
		let _ = stream.set_nodelay(true);
		let (tx, mut rx) = match timeout(REQ_WAIT, WsTransportClientBuilder::default().build_with_stream(url, stream)).await {
			Ok(Ok(p)) => p,
			_ => return r#"{"fatal":"handshake"}"#.into(),
		};
		let ev = ev_tx.clone();
		// dedicated reader: `receive()` is not cancel-safe, so it is only ever awaited here, to completion
		let reader = tokio::spawn(async move {
			loop {
				match rx.receive().await {
					Ok(ReceivedMessage::Text(s)) => {
						if ev.send((c, Ev::Frame(s))).is_err() {
							break;
						}
					}
					Ok(ReceivedMessage::Bytes(b)) => {
						if ev.send((c, Ev::Frame(format!("BYTES:{}", hex(&b))))).is_err() {
							break;
						}
					}
					Ok(ReceivedMessage::Pong) => {}
					Err(_) => {
						let _ = ev.send((c, Ev::Closed));
						break;
					}
				}
			}
		});
		h.conns.push(Conn { sender: Some(tx), reader: Some(reader), frames: Vec::new(), alive: true, closed_seen: false, ended_by_server: false });
		// one round-trip fixes the connection id order (and captures the connection guard)
		h.barrier_round().await;
	}
	h.activity = 0;

	let mut results = Vec::new();
	for st in &steps {
		let r = h.step(st).await;
		results.push(r);
		h.quiesce().await;
	}
	h.drain();
	let conns: Vec<String> =
		h.conns.iter().map(|c| format!("[{}]", c.frames.iter().map(canon).collect::<Vec<_>>().join(","))).collect();
	let ends: Vec<&str> = h.conns.iter().map(|c| if c.ended_by_server { "true" } else { "false" }).collect();
	let res: Vec<String> = results.iter().map(|r| serde_json::to_string(r).unwrap()).collect();
	let mut out = format!(r#"{{"c":[{}],"end":[{}],"r":[{}]"#, conns.join(","), ends.join(","), res.join(","));
	if !h.problems.is_empty() {
		out.push_str(&format!(r#","zproblems":{}"#, serde_json::to_string(&h.problems).unwrap()));
	}
	out.push('}');
	out
}

fn handle_line(line: &str) -> String {
	let mut cap = 0u32;
	let mut nconns = 1usize;
	let mut entry = Entry::Server;
	let mut reuse_ids = false;
	let mut steps = Vec::new();
	for tok in line.split_whitespace() {
		if let Some(e) = tok.strip_prefix('E') {
			let e = match e.strip_suffix("+r") {
				Some(e) => {
					reuse_ids = true;
					e
				}
				None => e,
			};
			entry = match e {
				"server" => Entry::Server,
				"tower" => Entry::Tower,
				"towermw" => Entry::TowerMw,
				_ => return r#"{"fatal":"bad-entry"}"#.into(),
			};
		} else if let Some(k) = tok.strip_prefix('K') {
			match k.parse() {
				Ok(k) => cap = k,
				Err(_) => return r#"{"fatal":"bad-cap"}"#.into(),
			}
		} else if let Some(c) = tok.strip_prefix('C') {
			match c.parse() {
				Ok(c) => nconns = c,
				Err(_) => return r#"{"fatal":"bad-conns"}"#.into(),
			}
		} else {
			match parse_step(tok) {
				Some(s) => steps.push(s),
				None => return format!(r#"{{"fatal":"bad-step:{}"}}"#, tok),
			}
		}
	}
	let rt = tokio::runtime::Builder::new_current_thread().enable_all().build().unwrap();
	let out = rt.block_on(async move {
		match timeout(Duration::from_secs(60), run_case(entry, reuse_ids, cap, nconns, steps)).await {
			Ok(s) => s,
			Err(_) => r#"{"fatal":"case-timeout"}"#.into(),
		}
	});
	rt.shutdown_timeout(Duration::from_secs(2));
	out
}

fn main() {
	for_each_line(|l| handle_line(l));
}
