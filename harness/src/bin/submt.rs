//! Engine `submt` (C06): REAL thread-level concurrency on the shared per-method subscriber table.
//!
//! This is a STRESS TEST in support of the search for a concrete failing schedule (the interleavings that occur are
//! whatever the OS scheduler produces; nothing is enumerated).  What it is the counterpart of on the Coq side is the
//! all-zero line that follows from theorem C06_table_ops_unconditional (Props/C06.v): for every thread-level trace
//! the unsubscribe truth table holds and every slot comes back.
//!
//! One input line = one case:   `<conns> <subs_per_conn> <threads> <rounds> <seed>`
//! One output line = canonical facts as JSON with sorted keys:
//!   {"double_true":0,"engine":0,"info":{..},"panics":0,"refused":0,"stale_true":0,"timeouts":0}
//!
//! A real `jsonrpsee_server::Server` runs on a MULTI-thread tokio runtime (clamp(threads, 4, 8) workers) with
//! `max_subscriptions_per_connection(subs_per_conn)` (the cap is exactly what one round needs, so slot accounting is
//! exact) and a counting IdProvider.  The handler of `sub`/`note`/`unsub` accepts and parks its sink in a shared Vec,
//! then returns.  `conns` raw WebSocket connections (soketto transport, a dedicated reader task each).  Per round:
//!   1. every connection subscribes `subs_per_conn` times (pipelined); a refusal (-32006) is counted (`refused`): after the
//!      first round it means a slot of the previous round did not come back;
//!   2. all sinks are taken out of the Vec, shuffled and dealt to `threads` OS threads; one more OS thread per connection
//!      issues unsubscribe calls for a random half of that connection's ids; ONE barrier releases all of them: the
//!      sinks are dropped (SubscriptionGuard::drop -> table remove) from `threads` threads at once while the server's
//!      workers run the unsubscribe callbacks (table remove + answer); every answer is recorded;
//!   3. quiescence: all threads joined, all concurrent answers read, one `sync` round-trip on every connection;
//!   4. sweep: EVERY id of the round is unsubscribed on its own, still open connection.  No handler holds a sink any
//!      more, so each answer must be `false`: a `true` for an id whose concurrent unsubscribe already answered `true`
//!      is counted as `double_true`, any other `true` as `stale_true`.
//! Contention amplifier (cases with an odd seed; 1-2 extra "holder" connections, not counted in `conns`): the
//! unsubscribe callback hashes its key INSIDE the table's critical section (`subscribers.lock().remove(&key)`), and a
//! subscription id may be a string of any length below the request limit.  Released by the same barrier, each holder streams
//! unsubscribe calls naming unknown string ids of 1-4 MiB (each must answer `false`): the server's workers then spend a good
//! part of their time inside the table's critical section, while the droppers pace their drops (short spins / yields) over the
//! same few milliseconds.  Everything goes through the public API; it makes an overlap of a drop with a held mutex likely
//! even when the machine gives this process a single core.
//! After the last round every connection subscribes `subs_per_conn` times once more (all must be admitted).
//! Every wait is bounded (WAIT); a wait that runs out is counted (`timeouts`) and ends the case.
use std::collections::HashMap;
use std::sync::atomic::{AtomicU64, AtomicUsize, Ordering};
use std::sync::{Arc, Barrier, Mutex};
use std::time::{Duration, Instant};

use jrv::*;
use jsonrpsee_client_transport::ws::{Url, WsTransportClientBuilder};
use jsonrpsee_core::client::{ReceivedMessage, TransportReceiverT, TransportSenderT};
use jsonrpsee_core::traits::IdProvider;
use jsonrpsee_server::{
	PendingSubscriptionSink, RpcModule, Server, ServerConfig, ServerHandle, SubscriptionCloseResponse, SubscriptionSink,
};
use jsonrpsee_types::SubscriptionId;
use serde_json::Value;
use tokio::runtime::{Handle, Runtime};
use tokio::sync::mpsc;
use tokio::time::timeout;

const WAIT: Duration = Duration::from_secs(60);
const ID_BASE: u64 = 1000;

#[derive(Debug)]
struct CountingIds(AtomicU64);
impl IdProvider for CountingIds {
	fn next_id(&self) -> SubscriptionId<'static> {
		SubscriptionId::Num(ID_BASE + self.0.fetch_add(1, Ordering::SeqCst))
	}
}

struct Shared {
	sinks: Mutex<Vec<SubscriptionSink>>,
	accept_failed: AtomicUsize,
}

/// xorshift64*: the only randomness of the engine, seeded from the case
struct Rng(u64);
impl Rng {
	fn next(&mut self) -> u64 {
		let mut x = self.0;
		x ^= x >> 12;
		x ^= x << 25;
		x ^= x >> 27;
		self.0 = x;
		x.wrapping_mul(0x2545F4914F6CDD1D)
	}
	fn below(&mut self, n: u64) -> u64 {
		if n == 0 { 0 } else { self.next() % n }
	}
	fn shuffle<T>(&mut self, v: &mut [T]) {
		for i in (1..v.len()).rev() {
			let j = self.below(i as u64 + 1) as usize;
			v.swap(i, j);
		}
	}
}

fn spin(d: Duration) {
	let t = Instant::now();
	while t.elapsed() < d {
		std::hint::spin_loop();
	}
}

type WsSender = jsonrpsee_client_transport::ws::Sender<tokio_util::compat::Compat<tokio::net::TcpStream>>;

struct Conn {
	sender: WsSender,
	rx: mpsc::UnboundedReceiver<Option<String>>,
	next_req: u64,
}

#[derive(Default, Clone, Copy)]
struct Facts {
	stale_true: u64,
	double_true: u64,
	refused: u64,
	panics: u64,
	timeouts: u64,
	engine: u64,
	// information only
	subs: u64,
	conc_true: u64,
	conc_false: u64,
	sweep_false: u64,
	holder_false: u64,
	rounds_done: u64,
}

impl Conn {
	/// Sends all requests (pipelined), then reads until every one of them has its response.
	/// Err(true) = a wait ran out, Err(false) = the connection ended / a frame could not be read.
	async fn round_trip(&mut self, reqs: &[(u64, String)]) -> Result<HashMap<u64, Value>, bool> {
		for (_, text) in reqs {
			match timeout(WAIT, self.sender.send(text.clone())).await {
				Ok(Ok(())) => {}
				Ok(Err(_)) => return Err(false),
				Err(_) => return Err(true),
			}
		}
		let mut want: std::collections::HashSet<u64> = reqs.iter().map(|(id, _)| *id).collect();
		let mut got = HashMap::new();
		let deadline = tokio::time::Instant::now() + WAIT;
		while !want.is_empty() {
			let fr = match tokio::time::timeout_at(deadline, self.rx.recv()).await {
				Ok(Some(Some(s))) => s,
				Ok(_) => return Err(false),
				Err(_) => return Err(true),
			};
			let v: Value = match serde_json::from_str(&fr) {
				Ok(v) => v,
				Err(_) => return Err(false),
			};
			if let Some(id) = v.get("id").and_then(|i| i.as_u64()) {
				if want.remove(&id) {
					got.insert(id, v);
				}
			}
		}
		Ok(got)
	}

	fn req(&mut self, method: &str, params: Option<u64>) -> (u64, String) {
		let id = self.next_req;
		self.next_req += 1;
		let text = match params {
			Some(p) => format!(r#"{{"jsonrpc":"2.0","id":{},"method":"{}","params":[{}]}}"#, id, method, p),
			None => format!(r#"{{"jsonrpc":"2.0","id":{},"method":"{}"}}"#, id, method),
		};
		(id, text)
	}
}

async fn connect(addr: std::net::SocketAddr) -> Option<Conn> {
	let url = Url::parse(&format!("ws://{}", addr)).ok()?;
	let mut stream = None;
	for attempt in 0..5u64 {
		match timeout(Duration::from_secs(5), tokio::net::TcpStream::connect(addr)).await {
			Ok(Ok(st)) => {
				stream = Some(st);
				break;
			}
			_ => tokio::time::sleep(Duration::from_millis(20 * (attempt + 1))).await,
		}
	}
	let stream = stream?;
	#[allow(deprecated)] // a zero linger never blocks
	let _ = stream.set_linger(Some(Duration::ZERO));
	let _ = stream.set_nodelay(true);
	let (sender, mut receiver) = match timeout(WAIT, WsTransportClientBuilder::default().build_with_stream(url, stream)).await {
		Ok(Ok(p)) => p,
		_ => return None,
	};
	let (tx, rx) = mpsc::unbounded_channel();
	// dedicated reader: `receive()` is not cancel-safe, so it is only ever awaited here, to completion
	tokio::spawn(async move {
		loop {
			match receiver.receive().await {
				Ok(ReceivedMessage::Text(s)) => {
					if tx.send(Some(s)).is_err() {
						break;
					}
				}
				Ok(ReceivedMessage::Bytes(_)) | Ok(ReceivedMessage::Pong) => {}
				Err(_) => {
					let _ = tx.send(None);
					break;
				}
			}
		}
	});
	Some(Conn { sender, rx, next_req: 1 })
}

fn note(f: &mut Facts, e: bool) {
	if e {
		f.timeouts += 1;
	} else {
		f.engine += 1;
	}
}

/// Every connection subscribes `subs` times.  Returns the subscription ids per connection, or None when the case has to end.
fn subscribe_phase(rt: &Handle, conns: &mut [Conn], subs: usize, shared: &Arc<Shared>, f: &mut Facts) -> Option<Vec<Vec<u64>>> {
	let mut ids = Vec::new();
	let mut accepted = 0usize;
	for c in conns.iter_mut() {
		let reqs: Vec<(u64, String)> = (0..subs).map(|_| c.req("sub", None)).collect();
		let got = match rt.block_on(c.round_trip(&reqs)) {
			Ok(g) => g,
			Err(e) => {
				note(f, e);
				return None;
			}
		};
		let mut mine = Vec::new();
		for (id, _) in &reqs {
			let v = &got[id];
			if let Some(sid) = v.get("result").and_then(|r| r.as_u64()) {
				mine.push(sid);
			} else if v.get("error").and_then(|e| e.get("code")).and_then(|c| c.as_i64()) == Some(-32006) {
				f.refused += 1;
			} else {
				f.engine += 1;
			}
		}
		accepted += mine.len();
		ids.push(mine);
	}
	// the answer is sent from inside accept(): wait until every handler has parked its sink
	let deadline = Instant::now() + WAIT;
	loop {
		let n = shared.sinks.lock().unwrap().len() + shared.accept_failed.load(Ordering::SeqCst);
		if n >= accepted {
			break;
		}
		if Instant::now() > deadline {
			f.timeouts += 1;
			return None;
		}
		std::thread::sleep(Duration::from_micros(200));
	}
	if shared.accept_failed.load(Ordering::SeqCst) > 0 {
		f.engine += 1;
		return None;
	}
	f.subs += accepted as u64;
	Some(ids)
}

fn run_case(rt: &Runtime, nconns: usize, subs: usize, threads: usize, rounds: usize, seed: u64) -> Facts {
	let mut f = Facts::default();
	let mut rng = Rng(seed.wrapping_mul(0x9E3779B97F4A7C15) | 1);
	let h = rt.handle().clone();
	let shared = Arc::new(Shared { sinks: Mutex::new(Vec::new()), accept_failed: AtomicUsize::new(0) });

	let mut module = RpcModule::new(shared.clone());
	module
		.register_subscription("sub", "note", "unsub", |_params, pending: PendingSubscriptionSink, ctx: Arc<Arc<Shared>>, _ext| async move {
			match pending.accept().await {
				Ok(sink) => ctx.sinks.lock().unwrap().push(sink),
				Err(_) => {
					ctx.accept_failed.fetch_add(1, Ordering::SeqCst);
				}
			}
			SubscriptionCloseResponse::None
		})
		.unwrap();
	module.register_method("sync", |_p, _ctx, _ext| 0u8).unwrap();
	let cfg = ServerConfig::builder()
		.max_subscriptions_per_connection(subs as u32)
		.set_id_provider(CountingIds(AtomicU64::new(0)))
		.build();
	let started: Option<(std::net::SocketAddr, ServerHandle)> = rt.block_on(async {
		for attempt in 0..5u64 {
			if let Ok(Ok(s)) = timeout(Duration::from_secs(5), Server::builder().set_config(cfg.clone()).build("127.0.0.1:0")).await {
				let addr = s.local_addr().ok()?;
				return Some((addr, s.start(module)));
			}
			tokio::time::sleep(Duration::from_millis(20 * (attempt + 1))).await;
		}
		None
	});
	let Some((addr, handle)) = started else {
		f.engine += 1;
		return f;
	};
	let mut conns: Vec<Conn> = Vec::new();
	for _ in 0..nconns {
		match rt.block_on(connect(addr)) {
			Some(c) => conns.push(c),
			None => {
				f.engine += 1;
				return f;
			}
		}
	}

	// contention amplifier (see the module comment)
	let holders: usize = if seed % 2 == 0 { 0 } else { 1 + ((seed / 2) % 2) as usize };
	let big_len: usize = (1usize << 20) << ((seed / 4) % 3);
	let mut hconns: Vec<Conn> = Vec::new();
	for _ in 0..holders {
		match rt.block_on(connect(addr)) {
			Some(c) => hconns.push(c),
			None => {
				f.engine += 1;
				return f;
			}
		}
	}
	let big: Arc<String> = Arc::new("a".repeat(if holders > 0 { big_len } else { 0 }));

	'rounds: for _round in 0..rounds {
		let Some(ids) = subscribe_phase(&h, &mut conns, subs, &shared, &mut f) else { break };
		// ---- 2. everything at once
		let mut all: Vec<SubscriptionSink> = std::mem::take(&mut *shared.sinks.lock().unwrap());
		rng.shuffle(&mut all);
		let barrier = Arc::new(Barrier::new(threads + nconns + holders));
		let (done_tx, done_rx) = std::sync::mpsc::channel::<()>();
		let mut droppers = Vec::new();
		let per = all.len().div_ceil(threads.max(1)).max(1);
		for _ in 0..threads {
			let at = all.len().saturating_sub(per);
			let mine = all.split_off(at);
			let barrier = barrier.clone();
			let done = done_tx.clone();
			let delay = Duration::from_micros(rng.below(300) + if holders > 0 { 500 + rng.below(3000) } else { 0 });
			let mut trng = Rng(rng.next() | 1);
			// with holders: spread the drops over ~10 ms
			let pace_ns: u64 = if holders > 0 { 10_000_000 / (mine.len() as u64 + 1) } else { 0 };
			droppers.push(std::thread::spawn(move || {
				barrier.wait();
				spin(delay);
				for sink in mine {
					drop(sink);
					if pace_ns > 0 {
						if trng.below(4) == 0 {
							std::thread::yield_now();
						} else {
							spin(Duration::from_nanos(trng.below(2 * pace_ns)));
						}
					} else if trng.below(8) == 0 {
						spin(Duration::from_nanos(200 + trng.below(2000)));
					}
				}
				let _ = done.send(());
			}));
		}
		drop(all);
		let mut issuers = Vec::new();
		for (ci, mut conn) in conns.drain(..).enumerate() {
			let mut mine: Vec<u64> = ids[ci].clone();
			rng.shuffle(&mut mine);
			mine.truncate(mine.len() / 2);
			let barrier = barrier.clone();
			let done = done_tx.clone();
			let h = h.clone();
			issuers.push(std::thread::spawn(move || {
				let reqs: Vec<(u64, String, u64)> = mine
					.iter()
					.map(|sid| {
						let (id, text) = conn.req("unsub", Some(*sid));
						(id, text, *sid)
					})
					.collect();
				let plain: Vec<(u64, String)> = reqs.iter().map(|(id, t, _)| (*id, t.clone())).collect();
				barrier.wait();
				let got = h.block_on(conn.round_trip(&plain));
				let _ = done.send(());
				let answers: Result<Vec<(u64, Option<bool>)>, bool> =
					got.map(|g| reqs.iter().map(|(id, _, sid)| (*sid, g[id].get("result").and_then(|r| r.as_bool()))).collect());
				(conn, answers)
			}));
		}
		let mut holder_threads = Vec::new();
		for (hi, mut conn) in hconns.drain(..).enumerate() {
			let barrier = barrier.clone();
			let done = done_tx.clone();
			let h = h.clone();
			let big = big.clone();
			let n_req = (12usize << 20) / big_len.max(1);
			holder_threads.push(std::thread::spawn(move || {
				let reqs: Vec<(u64, String)> = (0..n_req.max(4))
					.map(|k| {
						let id = conn.next_req;
						conn.next_req += 1;
						(id, format!(r#"{{"jsonrpc":"2.0","id":{},"method":"unsub","params":["{}-{}-{}"]}}"#, id, big, hi, k))
					})
					.collect();
				barrier.wait();
				let got = h.block_on(conn.round_trip(&reqs));
				let _ = done.send(());
				let answers: Result<Vec<Option<bool>>, bool> =
					got.map(|g| reqs.iter().map(|(id, _)| g[id].get("result").and_then(|r| r.as_bool())).collect());
				(conn, answers)
			}));
		}
		drop(done_tx);
		// ---- 3. quiescence (bounded)
		// every thread reports right before it ends; a thread that panicked drops its sender instead, so the channel
		// disconnects once all of them are over.  Only a wait that really ran out leaves threads unjoined.
		let deadline = Instant::now() + WAIT + WAIT;
		let mut hung = false;
		for _ in 0..(threads + nconns + holders) {
			let left = deadline.saturating_duration_since(Instant::now());
			match done_rx.recv_timeout(left) {
				Ok(()) => {}
				Err(std::sync::mpsc::RecvTimeoutError::Disconnected) => break,
				Err(std::sync::mpsc::RecvTimeoutError::Timeout) => {
					hung = true;
					break;
				}
			}
		}
		if hung {
			f.timeouts += 1;
			break 'rounds;
		}
		for t in droppers {
			if t.join().is_err() {
				f.panics += 1;
			}
		}
		let mut conc: HashMap<u64, bool> = HashMap::new();
		for t in issuers {
			match t.join() {
				Err(_) => f.panics += 1,
				Ok((conn, answers)) => {
					conns.push(conn);
					match answers {
						Err(e) => note(&mut f, e),
						Ok(a) => {
							for (sid, b) in a {
								match b {
									Some(true) => {
										f.conc_true += 1;
										conc.insert(sid, true);
									}
									Some(false) => {
										f.conc_false += 1;
										conc.insert(sid, false);
									}
									None => f.engine += 1,
								}
							}
						}
					}
				}
			}
		}
		for t in holder_threads {
			match t.join() {
				Err(_) => f.panics += 1,
				Ok((conn, answers)) => {
					hconns.push(conn);
					match answers {
						Err(e) => note(&mut f, e),
						Ok(a) => {
							for b in a {
								match b {
									Some(false) => f.holder_false += 1,
									// an id nobody ever subscribed to
									Some(true) => f.stale_true += 1,
									None => f.engine += 1,
								}
							}
						}
					}
				}
			}
		}
		if hconns.len() != holders {
			break 'rounds;
		}
		if conns.len() != nconns || f.timeouts + f.engine + f.panics > 0 {
			break 'rounds;
		}
		for c in conns.iter_mut() {
			let r = c.req("sync", None);
			if let Err(e) = h.block_on(c.round_trip(&[r])) {
				note(&mut f, e);
				break 'rounds;
			}
		}
		if !shared.sinks.lock().unwrap().is_empty() {
			f.engine += 1;
			break 'rounds;
		}
		// ---- 4. sweep: nothing is active any more
		for (ci, c) in conns.iter_mut().enumerate() {
			let reqs: Vec<(u64, String, u64)> = ids[ci]
				.iter()
				.map(|sid| {
					let (id, text) = c.req("unsub", Some(*sid));
					(id, text, *sid)
				})
				.collect();
			let plain: Vec<(u64, String)> = reqs.iter().map(|(id, t, _)| (*id, t.clone())).collect();
			match h.block_on(c.round_trip(&plain)) {
				Err(e) => {
					note(&mut f, e);
					break 'rounds;
				}
				Ok(g) => {
					for (id, _, sid) in &reqs {
						match g[id].get("result").and_then(|r| r.as_bool()) {
							Some(false) => f.sweep_false += 1,
							Some(true) => {
								if conc.get(sid) == Some(&true) {
									f.double_true += 1;
								} else {
									f.stale_true += 1;
								}
							}
							None => f.engine += 1,
						}
					}
				}
			}
		}
		f.rounds_done += 1;
	}
	// ---- finally: every slot is back
	if f.timeouts + f.engine + f.panics == 0 && conns.len() == nconns {
		let _ = subscribe_phase(&h, &mut conns, subs, &shared, &mut f);
	}
	let rest: Vec<SubscriptionSink> = std::mem::take(&mut *shared.sinks.lock().unwrap());
	drop(rest);
	drop(conns);
	drop(hconns);
	let _ = handle.stop();
	let _ = rt.block_on(async { timeout(Duration::from_secs(5), handle.stopped()).await });
	f
}

fn handle_line(line: &str) -> String {
	let p: Vec<u64> = line.split_whitespace().filter_map(|t| t.parse::<u64>().ok()).collect();
	if p.len() != 5 || p[0] == 0 || p[1] == 0 || p[2] == 0 || p[0] > 64 || p[1] > 100_000 || p[2] > 256 {
		return r#"{"fatal":"bad-case"}"#.into();
	}
	let (nconns, subs, threads, rounds, seed) = (p[0] as usize, p[1] as usize, p[2] as usize, p[3] as usize, p[4]);
	let workers = threads.clamp(4, 8);
	let rt = match tokio::runtime::Builder::new_multi_thread().worker_threads(workers).enable_all().build() {
		Ok(rt) => rt,
		Err(_) => return r#"{"fatal":"runtime"}"#.into(),
	};
	let t0 = Instant::now();
	let r = std::panic::catch_unwind(std::panic::AssertUnwindSafe(|| run_case(&rt, nconns, subs, threads, rounds, seed)));
	rt.shutdown_timeout(Duration::from_secs(5));
	let f = match r {
		Ok(f) => f,
		Err(_) => Facts { panics: 1, ..Facts::default() },
	};
	let _ = hex; // (jrv helpers: only for_each_line is used)
	format!(
		r#"{{"double_true":{},"engine":{},"info":{{"conc_false":{},"conc_true":{},"holder_false":{},"ms":{},"rounds_done":{},"subs":{},"sweep_false":{},"workers":{}}},"panics":{},"refused":{},"stale_true":{},"timeouts":{}}}"#,
		f.double_true,
		f.engine,
		f.conc_false,
		f.conc_true,
		f.holder_false,
		t0.elapsed().as_millis(),
		f.rounds_done,
		f.subs,
		f.sweep_false,
		workers,
		f.panics,
		f.refused,
		f.stale_true,
		f.timeouts
	)
}

fn main() {
	std::panic::set_hook(Box::new(|_| {}));
	for_each_line(|l| handle_line(l));
	// threads of a case that ran out of time may still be parked
	std::process::exit(0);
}
