//! Engine `wire` (C15): the real jsonrpsee-types parsers/serialisers on given texts,
//! printed in the canonical line format shared with modelrun/wire_driver.ml.
//! `wire sweep` walks all 2^32 i32 error codes.
use jrv::*;
use jsonrpsee_types::error::{ErrorCode, ErrorObject};
use jsonrpsee_types::params::{Id, SubscriptionId};
use jsonrpsee_types::request::{InvalidRequest, Notification, Request};
use jsonrpsee_types::response::{Response, ResponsePayload, SubscriptionError, SubscriptionResponse};
use serde_json::value::RawValue;

fn id_s(i: &Id) -> String {
	match i {
		Id::Null => "id:null".into(),
		Id::Number(n) => format!("id:n:{}", n),
		Id::Str(s) => format!("id:s:{}", hex(s.as_bytes())),
	}
}
fn subid_s(i: &SubscriptionId) -> String {
	match i {
		SubscriptionId::Num(n) => format!("sid:n:{}", n),
		SubscriptionId::Str(s) => format!("sid:s:{}", hex(s.as_bytes())),
	}
}
fn err_s(e: &ErrorObject) -> String {
	format!("e:{}:{}:{}", e.code(), hex(e.message().as_bytes()), opt_hex(e.data().map(|d| d.get().as_bytes())))
}
fn kind_s(k: ErrorCode) -> String {
	match k {
		ErrorCode::ParseError => "ParseError".into(),
		ErrorCode::OversizedRequest => "OversizedRequest".into(),
		ErrorCode::InvalidRequest => "InvalidRequest".into(),
		ErrorCode::MethodNotFound => "MethodNotFound".into(),
		ErrorCode::ServerIsBusy => "ServerIsBusy".into(),
		ErrorCode::InvalidParams => "InvalidParams".into(),
		ErrorCode::InternalError => "InternalError".into(),
		ErrorCode::ServerError(c) => format!("ServerError({})", c),
	}
}

fn handle(line: &str) -> String {
	let mut it = line.split_whitespace();
	let kind = it.next().unwrap_or("");
	let b = unhex(it.next().unwrap_or("-"));
	match kind {
		"json" => match serde_json::from_slice::<serde_json::Value>(&b) {
			// the Value is not re-serialised here (map order / float formatting are serde_json's, not the library's)
			Ok(_) => "ok".into(),
			Err(_) => "-".into(),
		},
		"raw" => match serde_json::from_slice::<&RawValue>(&b) {
			Ok(r) => format!("ok {}", hex(r.get().as_bytes())),
			Err(_) => "-".into(),
		},
		"id" => match serde_json::from_slice::<Id>(&b) {
			Ok(i) => format!("{} {}", id_s(&i), hex(&serde_json::to_vec(&i).unwrap())),
			Err(_) => "-".into(),
		},
		"subid" => match serde_json::from_slice::<SubscriptionId>(&b) {
			Ok(i) => format!("{} {}", subid_s(&i), hex(&serde_json::to_vec(&i).unwrap())),
			Err(_) => "-".into(),
		},
		"req" => match serde_json::from_slice::<Request>(&b) {
			Ok(r) => format!(
				"req {} m:{} p:{} {}",
				id_s(&r.id),
				hex(r.method.as_bytes()),
				opt_hex(r.params.as_ref().map(|p| p.get().as_bytes())),
				hex(&serde_json::to_vec(&r).unwrap())
			),
			Err(_) => "-".into(),
		},
		"notif" => match serde_json::from_slice::<Notification<Option<&RawValue>>>(&b) {
			Ok(r) => format!(
				"notif m:{} p:{} {}",
				hex(r.method.as_bytes()),
				opt_hex(r.params.map(|p| p.get().as_bytes())),
				hex(&serde_json::to_vec(&r).unwrap())
			),
			Err(_) => "-".into(),
		},
		"inv" => match serde_json::from_slice::<InvalidRequest>(&b) {
			Ok(r) => format!("inv {}", id_s(&r.id)),
			Err(_) => "-".into(),
		},
		"resp" => match serde_json::from_slice::<Response<&RawValue>>(&b) {
			Ok(r) => format!(
				"resp j:{} {} {} {}",
				if r.jsonrpc.is_some() { 1 } else { 0 },
				id_s(&r.id),
				match &r.payload {
					ResponsePayload::Success(raw) => format!("r:{}", hex(raw.get().as_bytes())),
					ResponsePayload::Error(e) => err_s(e),
				},
				hex(&serde_json::to_vec(&r).unwrap())
			),
			Err(_) => "-".into(),
		},
		"err" => match serde_json::from_slice::<ErrorObject>(&b) {
			Ok(e) => format!("{} {}", err_s(&e), hex(&serde_json::to_vec(&e).unwrap())),
			Err(_) => "-".into(),
		},
		"subn" => match serde_json::from_slice::<SubscriptionResponse<&RawValue>>(&b) {
			Ok(n) => format!(
				"sub m:{} {} {} {}",
				hex(n.method.as_bytes()),
				subid_s(&n.params.subscription),
				hex(n.params.result.get().as_bytes()),
				hex(&serde_json::to_vec(&n).unwrap())
			),
			Err(_) => "-".into(),
		},
		"sube" => match serde_json::from_slice::<SubscriptionError<&RawValue>>(&b) {
			Ok(n) => format!(
				"sub m:{} {} {} {}",
				hex(n.method.as_bytes()),
				subid_s(&n.params.subscription),
				hex(n.params.error.get().as_bytes()),
				hex(&serde_json::to_vec(&n).unwrap())
			),
			Err(_) => "-".into(),
		},
		// an error object built through the public constructors from a data text: serialise, parse back, compare
		"mkerr" => {
			let data: Option<Box<RawValue>> = if b.is_empty() { None } else { RawValue::from_string(String::from_utf8(b).unwrap()).ok() };
			let e1 = ErrorObject::owned(-32000, "m", data.clone());
			let e2 = ErrorObject::borrowed(-32000, "m", data.as_deref());
			let mut out = Vec::new();
			for e in [e1, e2] {
				let ser = serde_json::to_vec(&e).unwrap();
				let back: ErrorObject = serde_json::from_slice(&ser).unwrap();
				let reser = serde_json::to_vec(&back).unwrap();
				out.push(format!("eq={} same_bytes={} {}", back == e, reser == ser, hex(&ser)));
			}
			out.join(" ; ")
		}
		// values built through the public API: serialise, parse back, compare, re-serialise ("rt <what> <args...>")
		"rt" => {
			let rest: Vec<String> = it.map(|x| x.to_string()).collect();
			return roundtrip(&String::from_utf8(b).unwrap_or_default(), &rest);
		}
		// error code <-> kind, on one code
		"code" => {
			let c: i32 = String::from_utf8(b).unwrap().parse().unwrap();
			let k = ErrorCode::from(c);
			format!("code {} {} {}", c, kind_s(k), k.code())
		}
		_ => "?unknown-kind".into(),
	}
}

fn id_of(spec: &str) -> Id<'static> {
	if spec == "null" {
		Id::Null
	} else if let Some(n) = spec.strip_prefix('n') {
		Id::Number(n.parse().unwrap())
	} else {
		Id::Str(String::from_utf8(unhex(&spec[1..])).unwrap().into())
	}
}
fn subid_of(spec: &str) -> SubscriptionId<'static> {
	if let Some(n) = spec.strip_prefix('n') {
		SubscriptionId::Num(n.parse().unwrap())
	} else {
		SubscriptionId::Str(String::from_utf8(unhex(&spec[1..])).unwrap().into())
	}
}
fn raw_of(h: &str) -> Box<RawValue> {
	RawValue::from_string(String::from_utf8(unhex(h)).unwrap()).unwrap()
}

/// `what` names the type; `args` are its parts.  Prints `eq=<bool> same=<bool>` (value equal after the round trip,
/// re-serialisation byte-identical) or `ERR <why>`.
fn roundtrip(what: &str, args: &[String]) -> String {
	fn fin(eq: bool, ser: &[u8], reser: &[u8]) -> String {
		format!("eq={} same={} {}", eq, ser == reser, hex(ser))
	}
	match what {
		"id" => {
			let v = id_of(&args[0]);
			let ser = serde_json::to_vec(&v).unwrap();
			match serde_json::from_slice::<Id>(&ser) {
				Ok(b) => fin(b == v, &ser, &serde_json::to_vec(&b).unwrap()),
				Err(_) => format!("ERR parse {}", hex(&ser)),
			}
		}
		"subid" => {
			let v = subid_of(&args[0]);
			let ser = serde_json::to_vec(&v).unwrap();
			match serde_json::from_slice::<SubscriptionId>(&ser) {
				Ok(b) => fin(b == v, &ser, &serde_json::to_vec(&b).unwrap()),
				Err(_) => format!("ERR parse {}", hex(&ser)),
			}
		}
		"req" => {
			let id = id_of(&args[0]);
			let method = String::from_utf8(unhex(&args[1])).unwrap();
			let params = if args[2] == "-" { None } else { Some(raw_of(&args[2])) };
			let v = Request::owned(method.clone(), params.clone(), id.clone());
			let ser = serde_json::to_vec(&v).unwrap();
			match serde_json::from_slice::<Request>(&ser) {
				Ok(b) => {
					let eq = b.id == id && b.method == method && b.params.as_ref().map(|p| p.get()) == params.as_ref().map(|p| p.get());
					fin(eq, &ser, &serde_json::to_vec(&b).unwrap())
				}
				Err(_) => format!("ERR parse {}", hex(&ser)),
			}
		}
		"notif" => {
			let method = String::from_utf8(unhex(&args[0])).unwrap();
			let params = if args[1] == "-" { None } else { Some(raw_of(&args[1])) };
			let v = Notification::new(method.clone().into(), params.clone());
			let ser = serde_json::to_vec(&v).unwrap();
			match serde_json::from_slice::<Notification<Option<Box<RawValue>>>>(&ser) {
				Ok(b) => {
					let eq = b.method == method && b.params.as_ref().map(|p| p.get()) == params.as_ref().map(|p| p.get());
					fin(eq, &ser, &serde_json::to_vec(&b).unwrap())
				}
				Err(_) => format!("ERR parse {}", hex(&ser)),
			}
		}
		"resp" => {
			let id = id_of(&args[0]);
			let v: Response<Box<RawValue>> = if args[1] == "r" {
				Response::new(ResponsePayload::success(raw_of(&args[2])), id.clone())
			} else {
				let data = if args.len() > 4 && args[4] != "-" { Some(raw_of(&args[4])) } else { None };
				let code: i32 = args[2].parse().unwrap();
				let msg = String::from_utf8(unhex(&args[3])).unwrap();
				Response::new(ResponsePayload::error(ErrorObject::owned(code, msg, data)), id.clone())
			};
			let ser = serde_json::to_vec(&v).unwrap();
			match serde_json::from_slice::<Response<Box<RawValue>>>(&ser) {
				Ok(b) => {
					let eq = b.id == id
						&& b.jsonrpc.is_some()
						&& match (&b.payload, &v.payload) {
							(ResponsePayload::Success(x), ResponsePayload::Success(y)) => x.get() == y.get(),
							(ResponsePayload::Error(x), ResponsePayload::Error(y)) => x == y,
							_ => false,
						};
					fin(eq, &ser, &serde_json::to_vec(&b).unwrap())
				}
				Err(_) => format!("ERR parse {}", hex(&ser)),
			}
		}
		"subn" | "sube" => {
			let sid = subid_of(&args[0]);
			let method = String::from_utf8(unhex(&args[1])).unwrap();
			let raw = raw_of(&args[2]);
			if what == "subn" {
				let v = SubscriptionResponse::new(
					method.clone().into(),
					jsonrpsee_types::response::SubscriptionPayload { subscription: sid.clone(), result: raw.clone() },
				);
				let ser = serde_json::to_vec(&v).unwrap();
				match serde_json::from_slice::<SubscriptionResponse<Box<RawValue>>>(&ser) {
					Ok(b) => fin(
						b.method == method && b.params.subscription == sid && b.params.result.get() == raw.get(),
						&ser,
						&serde_json::to_vec(&b).unwrap(),
					),
					Err(_) => format!("ERR parse {}", hex(&ser)),
				}
			} else {
				let v = SubscriptionError::new(
					method.clone().into(),
					jsonrpsee_types::response::SubscriptionPayloadError { subscription: sid.clone(), error: raw.clone() },
				);
				let ser = serde_json::to_vec(&v).unwrap();
				match serde_json::from_slice::<SubscriptionError<Box<RawValue>>>(&ser) {
					Ok(b) => fin(
						b.method == method && b.params.subscription == sid && b.params.error.get() == raw.get(),
						&ser,
						&serde_json::to_vec(&b).unwrap(),
					),
					Err(_) => format!("ERR parse {}", hex(&ser)),
				}
			}
		}
		_ => "?unknown-rt".into(),
	}
}

fn sweep() {
	// all 2^32 codes: code(from(c)) == c ; from(code(from(c))) == from(c); and the list of codes
	// whose kind is not ServerError(c) (the "named" ones), printed for comparison with the model table.
	let mut bad: Vec<i32> = Vec::new();
	let mut named: Vec<(i32, String)> = Vec::new();
	let mut n: u64 = 0;
	let mut c = i32::MIN;
	loop {
		let k = ErrorCode::from(c);
		n += 1;
		if k.code() != c || ErrorCode::from(k.code()) != k {
			if bad.len() < 16 {
				bad.push(c);
			}
		}
		match k {
			ErrorCode::ServerError(x) if x == c => {}
			_ => named.push((c, kind_s(k))),
		}
		if c == i32::MAX {
			break;
		}
		c += 1;
	}
	println!("swept {}", n);
	for (c, k) in named {
		println!("named {} {}", c, k);
	}
	for c in bad {
		println!("bad {}", c);
	}
	// every kind the library defines (canonical representatives) -> code -> kind
	let kinds = [
		ErrorCode::ParseError,
		ErrorCode::OversizedRequest,
		ErrorCode::InvalidRequest,
		ErrorCode::MethodNotFound,
		ErrorCode::ServerIsBusy,
		ErrorCode::InvalidParams,
		ErrorCode::InternalError,
	];
	for k in kinds {
		println!("kind {} {} {}", kind_s(k), k.code(), kind_s(ErrorCode::from(k.code())));
	}
}

fn main() {
	if std::env::args().nth(1).as_deref() == Some("sweep") {
		sweep();
		return;
	}
	for_each_line_catch(handle);
}
