//! Shared glue for the correspondence engines.
use std::io::{BufRead, Write};

pub fn hex(b: &[u8]) -> String {
	let mut s = String::with_capacity(b.len() * 2);
	for x in b {
		s.push_str(&format!("{:02x}", x));
	}
	s
}

pub fn unhex(h: &str) -> Vec<u8> {
	if h == "-" {
		return Vec::new();
	}
	let b = h.as_bytes();
	let v = |c: u8| -> u8 {
		match c {
			b'0'..=b'9' => c - 48,
			b'a'..=b'f' => c - 87,
			b'A'..=b'F' => c - 55,
			_ => panic!("bad hex"),
		}
	};
	(0..b.len() / 2).map(|i| v(b[2 * i]) * 16 + v(b[2 * i + 1])).collect()
}

pub fn opt_hex(b: Option<&[u8]>) -> String {
	match b {
		None => "-".to_string(),
		Some(b) => format!("h{}", hex(b)),
	}
}

/// Run `f` on every stdin line, print its result as one stdout line.
pub fn for_each_line(mut f: impl FnMut(&str) -> String) {
	let stdin = std::io::stdin();
	let stdout = std::io::stdout();
	let mut out = std::io::BufWriter::new(stdout.lock());
	for line in stdin.lock().lines() {
		let line = line.expect("stdin");
		let r = f(&line);
		writeln!(out, "{}", r).unwrap();
	}
	out.flush().unwrap();
}

/// Like `for_each_line`, catching panics of `f` and reporting them as `PANIC <msg>`.
pub fn for_each_line_catch(f: impl Fn(&str) -> String + std::panic::RefUnwindSafe) {
	std::panic::set_hook(Box::new(|_| {}));
	for_each_line(|l| match std::panic::catch_unwind(|| f(l)) {
		Ok(s) => s,
		Err(e) => {
			let msg = e.downcast_ref::<&str>().map(|s| s.to_string()).or_else(|| e.downcast_ref::<String>().cloned()).unwrap_or_default();
			format!("PANIC {}", hex(msg.as_bytes()))
		}
	});
}
