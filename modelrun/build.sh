#!/bin/sh
# build.sh <name>: compile modelrun/gen/<name>_model.ml + <name>_driver.ml -> bin/<name>
set -e
cd "$(dirname "$0")"
n="$1"
mkdir -p bin _build/$n
cp common.ml gen/${n}_model.ml gen/${n}_model.mli ${n}_driver.ml _build/$n/
cd _build/$n
ocamlfind ocamlopt -O2 -w -a -package str ${n}_model.mli ${n}_model.ml common.ml ${n}_driver.ml -o ../../bin/$n 2>/dev/null || \
ocamlfind ocamlopt -w -a ${n}_model.mli ${n}_model.ml common.ml ${n}_driver.ml -o ../../bin/$n
