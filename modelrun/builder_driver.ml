(* Engine `builder` (C20), model side: same line protocol as harness/src/bin/builder.rs.
   `builder old` runs insert_old / insert_named_old (the code before the C20 repair). *)
open Common
open Builder_model

let () =
  for i = 0 to 255 do
    match of_N (to_N (byte_of_int i)) with
    | Some b when int_of_byte b = i -> ()
    | _ -> failwith "byte representation self-check failed"
  done

let old_mode = Array.length Sys.argv > 1 && Sys.argv.(1) = "old"
let ins b v = if old_mode then insert_old b v else insert b v
let ins_named b k v = if old_mode then insert_named_old b k v else insert_named b k v

let split_on c s = String.split_on_char c s

(* item -> sres *)
let parse_item tok : sres =
  match split_on ':' tok with
  | [("v" | "r" | "t"); h] -> SOk (bytes_of_hex h)
  | ["f"; p; _; _] -> SFail (bytes_of_hex p)
  | ["x"; p] -> SFail (bytes_of_hex p)
  | _ -> failwith ("bad item " ^ tok)

let parse_kv tok : 'a * sres =
  match String.index_opt tok '=' with
  | Some i ->
    let k = String.sub tok 1 (i - 1) in
    (bytes_of_hex k, parse_item (String.sub tok (i + 1) (String.length tok - i - 1)))
  | None -> failwith ("bad pair " ^ tok)

let partial_s = function SFail p -> ":p=" ^ hex_of_bytes p | SOk _ -> ""
let tok_result v ok = (if ok then "ok" else "err") ^ partial_s v
let tok_plain = function SFail p -> "p=" ^ hex_of_bytes p | SOk _ -> "-"

type built = Tres of tres | MacroPanic

let built_s = function
  | Tres (TOk None) -> "none"
  | Tres (TOk (Some t)) -> "some:" ^ hex_of_bytes t
  | Tres TErr -> "err"
  | Tres TPanic -> "PANIC"
  | MacroPanic -> "MACRO-PANIC"

(* (tokens, outcome of to_rpc_params) *)
let run_kind kind toks : string list * built =
  match kind with
  | "array" | "arrayd" ->      (* arrayd / objectd: built through Default instead of new(): the same builder *)
    let items = List.map parse_item toks in
    let b, out = List.fold_left (fun (b, out) v -> let (b', ok) = ins b v in (b', tok_result v ok :: out)) (positional, []) items in
    (List.rev out, Tres (builder_to_rpc_params b))
  | "object" | "objectd" ->
    let items = List.map parse_kv toks in
    let b, out = List.fold_left (fun (b, out) (k, v) -> let (b', ok) = ins_named b k v in (b', tok_result v ok :: out)) (named, []) items in
    (List.rev out, Tres (builder_to_rpc_params b))
  | "map" ->
    let items = List.map parse_kv toks in
    (* serde_json::Map: last insert of a key wins, iteration in byte order of the keys *)
    let tbl = List.fold_left (fun acc (k, v) -> (k, v) :: List.filter (fun (k', _) -> k' <> k) acc) [] items in
    let sorted = List.sort (fun (a, _) (b, _) -> compare (string_of_bytes a) (string_of_bytes b)) tbl in
    (List.map (fun _ -> "-") items, Tres (map_to_rpc_params sorted))
  | "tuple" | "slice" | "vec" | "arr" ->
    let items = List.map parse_item toks in
    (List.map tok_plain items, Tres (seq_to_rpc_params items))
  | "rpc" ->
    let items = List.map parse_item toks in
    (List.map tok_plain items,
     match (if old_mode then
              (* the macro stops at the first failing insert in either version *)
              List.fold_left (fun acc v -> match acc with None -> None | Some b -> let (b', ok) = insert_old b v in if ok then Some b' else None) (Some positional) items
            else rpc_params items) with
     | Some b -> Tres (builder_to_rpc_params b)
     | None -> MacroPanic)
  | _ -> failwith "unknown kind"

let rec split_bar acc cur = function
  | [] -> List.rev (List.rev cur :: acc)
  | "|" :: r -> split_bar (List.rev cur :: acc) [] r
  | x :: r -> split_bar acc (x :: cur) r

let join_tokens out = match out with [] -> "" | _ -> String.concat " " out ^ " "

let handle line =
  match split_ws line with
  | [] -> print_endline "?bad-line"
  | "batch" :: rest ->
    let entries = if rest = [] then [] else split_bar [] [] rest in
    let l, outs = List.fold_left (fun (l, outs) e ->
      match e with
      | m :: kind :: toks ->
        let mb = bytes_of_hex (String.sub m 1 (String.length m - 1)) in
        let out, built = run_kind kind toks in
        (match built with
         | MacroPanic -> (l, (join_tokens out ^ "-> MACRO-PANIC") :: outs)
         | Tres r ->
           let (l', o) = batch_insert l mb r in
           (l', (join_tokens out ^ (match o with OOk -> "-> ok" | OErr -> "-> err" | OPanic -> "-> PANIC")) :: outs))
      | _ -> failwith "bad entry") ([], []) entries in
    let listed = List.map (fun (m, p) ->
      "m" ^ hex_of_bytes m ^ (match p with None -> ":none" | Some t -> ":some:" ^ hex_of_bytes t)) l in
    let built = match batch_build l with None -> "built:empty" | Some v -> "built:" ^ string_of_int (List.length v) in
    print_endline (String.concat " | " (List.rev outs) ^ " || " ^ string_of_int (List.length l) ^ " " ^ built
                   ^ String.concat "" (List.map (fun s -> " " ^ s) listed))
  | kind :: toks ->
    let out, built = run_kind kind toks in
    print_endline (join_tokens out ^ "=> " ^ built_s built)

let () = iter_lines (fun l -> try handle l with Failure m -> print_endline ("?model-error " ^ m))
