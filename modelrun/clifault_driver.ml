open Common
open Clifault_model

let () =
  for i = 0 to 255 do
    match of_N (to_N (byte_of_int i)) with
    | Some b when int_of_byte b = i -> ()
    | _ -> failwith "byte representation self-check failed"
  done

let nstr n = string_of_bytes (print_N n)
let zstr z = string_of_bytes (print_Z z)
let n_of_string s = digits_val (bytes_of_string s)
let hnum h = int_of_string (nstr h)

let subid_s = function SubNum n -> "n" ^ nstr n | SubStr s -> "s" ^ hex_of_bytes s
let err_s e = Printf.sprintf "call:%s:%s:%s" (zstr e.e_code) (hex_of_bytes e.e_message) (opt_hex e.e_data)
let resp_s r = match r.rs_payload with PResult raw -> "ok:" ^ hex_of_bytes raw | PError e -> err_s e
let cerr_s = function
  | EOccupied -> "occupied" | ECall e -> err_s e | EParse -> "parse" | EInvalidSubId -> "invalidsubid"
  | EAlreadyRegistered -> "already" | ENameConflict -> "conflict" | EEmptyBatch -> "emptybatch" | EDisconnected -> "disc"
let cres_s = function
  | CResp r -> resp_s r
  | CBatch rs ->
    let ok = List.length (List.filter (fun r -> match r.rs_payload with PResult _ -> true | _ -> false) rs) in
    Printf.sprintf "batch:s=%d/f=%d:[%s]" ok (List.length rs - ok) (String.concat "," (List.map resp_s rs))
  | CSubOk s -> "sub:" ^ subid_s s
  | CRegOk -> "reg"
  | CDone -> "done"
  | CErr e -> cerr_s e
let fatal_s = function
  | FNotPending -> "notpending" | FUnparseable -> "unparseable" | FEmptyBatch -> "emptybatch"
  | FBadBatchId -> "badbatchid" | FTransport -> "transport"
let cause_s = function CSend -> "sendfault" | CRecv -> "recvfault" | CPeer -> "peerclosed" | CFrame f -> fatal_s f | CInactive -> "inactive"
let next_s = function
  | NItem x -> "item:" ^ hex_of_bytes x | NEndLagged -> "endlag" | NEndClosed -> "endclosed" | NPending -> "pending"

(* the ping configuration of the line: (interval ms, limit ms, max_failures) *)
let ping_cfg : (int * int * int) option ref = ref None

(* the engine names its methods after the handle; one step of the script is a list of model commands:
   `quiet <ms> die|alive` = the ticks of the two interval streams that the silence certainly produces (the python side
   only emits the two safe classes: die = enough stale ticks to reach max_failures, alive = no stale tick) *)
let rec parse_step toks =
  match toks with
  | ["pong"] -> [KPong]
  | ["quiet"; ms; cls] ->
    (match !ping_cfg with
     | None -> [KSettle]
     | Some (interval, _, maxf) ->
       (if int_of_string ms >= 2 * interval then [KPing] else [])
       @ (match cls with
           | "die" -> List.init maxf (fun _ -> KInact true)
           | "stale1" -> [KInact true]          (* a silence with at least one stale tick; the flattened comparison only *)
           | _ -> [KInact false]))
  | ["failping"; _] -> [KFailSend; KPing]
  | _ -> [parse_cmd toks]
and parse_cmd toks =
  match toks with
  | ["call"; h] | ["newcall"; h] -> KCall0 (n_of_string h, FCall (n_of_string h, bytes_of_string ("m" ^ h), None))
  | ["batch"; h; n] ->
    let ents = List.init (int_of_string n) (fun j -> (bytes_of_string (Printf.sprintf "b%s_%d" h j), None)) in
    KCall0 (n_of_string h, FBatch (n_of_string h, ents))
  | ["sub"; h] -> KCall0 (n_of_string h, FSubscribe (n_of_string h, bytes_of_string ("sub" ^ h), bytes_of_string ("unsub" ^ h), None))
  | ["ondisc"; h] -> KOnDisc (n_of_string h)
  | ["isconn"] -> KIsConn
  | ["next"; h] -> KNext (n_of_string h)
  | ["back"; hx] -> KBack (bytes_of_hex (if hx = "-" then "" else hx))
  (* a frame that arrives in two halves <ms> apart: the model delivers frames whole (Props/C09.v
     C09_receive_future_persistent: the receive future lives across the iterations of read_task's select loop) *)
  | ["backsplit"; hx; _ms] -> KBack (bytes_of_hex hx)
  | ["failsend"] -> KFailSend
  | ["recvfault"] -> KRecvFault
  | ["peerclose"] -> KPeerClose
  | ["release-close"] -> KReleaseClose
  | ["dropclient"] -> KDropClient
  | ["settle"] -> KSettle
  | _ -> failwith ("bad step: " ^ String.concat " " toks)

let show_step outs =
  let ws = List.filter_map (function YWire raw -> Some ("W" ^ hex_of_bytes raw) | _ -> None) outs in
  let cs = List.filter_map (function
      | YComp (h, r) -> Some (hnum h, cres_s r)
      | YFail (h, OCause c) -> Some (hnum h, "disc:" ^ cause_s c)
      | YFail (h, OPlaceholder) -> Some (hnum h, "PLACEHOLDER")
      | _ -> None) outs in
  let cs = List.stable_sort (fun (a, _) (b, _) -> compare a b) cs in
  let cs = List.map (fun (h, r) -> Printf.sprintf "C%d=%s" h r) cs in
  let ds = List.filter_map (function
      | YDisc (h, OCause c) -> Some (hnum h, cause_s c)
      | YDisc (h, OPlaceholder) -> Some (hnum h, "PLACEHOLDER")
      | _ -> None) outs in
  let ds = List.stable_sort (fun (a, _) (b, _) -> compare a b) ds in
  let ds = List.map (fun (h, r) -> Printf.sprintf "D%d=%s" h r) ds in
  let ex = List.filter_map (function
      | YConn b -> Some (if b then "I1" else "I0")
      | YNext r -> Some ("N" ^ next_s r)
      | _ -> None) outs in
  let xs = List.filter_map (function YX k -> Some (hnum k) | _ -> None) outs in
  let xs = List.filter_map (fun (k, name) -> if List.mem k xs then Some name else None)
      [(0, "Xclosing"); (1, "Xsdrop"); (2, "Xrdrop")] in
  let ps = if List.exists (function YPing -> true | _ -> false) outs then ["Wping"] else [] in
  String.concat "," (ps @ ws @ cs @ ds @ ex @ xs)

let handle line =
  match String.split_on_char '|' line with
  | [cfg; script] ->
    let cfgt = split_ws cfg in
    ping_cfg := None;
    List.iter (fun t ->
        if String.length t > 1 && t.[0] = 'P' then
          match String.split_on_char ',' (String.sub t 1 (String.length t - 1)) with
          | [a; b; c] -> ping_cfg := Some (int_of_string a, int_of_string b, int_of_string c)
          | _ -> failwith ("bad ping config: " ^ t)) cfgt;
    let y0 = sys_init (List.mem "1" cfgt)
        (match !ping_cfg with Some (_, _, m) -> Some (n_of_string (string_of_int m)) | None -> None) in
    let steps = List.filter (fun t -> t <> []) (List.map split_ws (String.split_on_char ';' script)) in
    let (yf, outs) = List.fold_left (fun (y, acc) toks ->
        let (y', o) = List.fold_left (fun (y1, o1) k -> let (y2, o2) = script_step y1 k in (y2, o1 @ o2)) (y, []) (parse_step toks) in
        (y', show_step o :: acc)) (y0, []) steps in
    let pend = List.sort compare (List.map hnum (pending_handles yf)) in
    let p = "P" ^ String.concat "." (List.map string_of_int pend) in
    print_endline (String.concat " | " (List.rev outs @ [p]))
  | _ -> print_endline "?bad-line"

let () = iter_lines handle
