open Common
open Clihist_model

let () =
  for i = 0 to 255 do
    match of_N (to_N (byte_of_int i)) with
    | Some b when int_of_byte b = i -> ()
    | _ -> failwith "byte representation self-check failed"
  done

let nstr n = string_of_bytes (print_N n)
let zstr z = string_of_bytes (print_Z z)
let n_of_string s = digits_val (bytes_of_string s)
let rec nat_of_int i = if i <= 0 then O else S (nat_of_int (i - 1))
let opt_bytes s = if s = "-" then None else Some (bytes_of_hex s)

let subid_s = function SubNum n -> "n" ^ nstr n | SubStr s -> "s" ^ hex_of_bytes s
let err_s e = Printf.sprintf "call:%s:%s:%s" (zstr e.e_code) (hex_of_bytes e.e_message) (opt_hex e.e_data)
let resp_s r = match r.rs_payload with PResult raw -> "ok:" ^ hex_of_bytes raw | PError e -> err_s e
let cerr_s = function
  | EOccupied -> "occupied" | ECall e -> err_s e | EParse -> "parse" | EInvalidSubId -> "invalidsubid"
  | EAlreadyRegistered -> "already" | ENameConflict -> "conflict" | EEmptyBatch -> "emptybatch" | EDisconnected -> "disc"
let cres_s = function
  | CResp r -> resp_s r
  | CBatch rs ->
    let ok = List.length (List.filter (fun r -> match r.rs_payload with PResult _ -> true | _ -> false) rs) in
    Printf.sprintf "batch:s=%d/f=%d:[%s]" ok (List.length rs - ok) (String.concat "," (List.map resp_s rs))
  | CSubOk s -> "sub:" ^ subid_s s
  | CRegOk -> "reg"
  | CDone -> "done"
  | CErr e -> cerr_s e
let fatal_s = function
  | FNotPending -> "notpending" | FUnparseable -> "unparseable" | FEmptyBatch -> "emptybatch"
  | FBadBatchId -> "badbatchid" | FTransport -> "transport"
let next_s = function
  | NItem x -> "item:" ^ hex_of_bytes x | NEndLagged -> "endlag" | NEndClosed -> "endclosed" | NPending -> "pending"

let parse_ev toks =
  match toks with
  | ["call"; h; m; p] -> FCall (n_of_string h, bytes_of_hex m, opt_bytes p)
  | ["notify"; m; p] -> FNotify (bytes_of_hex m, opt_bytes p)
  | "batch" :: h :: rest ->
    let rec go = function m :: p :: r -> (bytes_of_hex m, opt_bytes p) :: go r | _ -> [] in
    FBatch (n_of_string h, go rest)
  | ["sub"; h; s; u; p] -> FSubscribe (n_of_string h, bytes_of_hex s, bytes_of_hex u, opt_bytes p)
  | ["subm"; h; m] -> FSubMethod (n_of_string h, bytes_of_hex m)
  | ["next"; sh] -> FNext (n_of_string sh)
  | ["unsub"; h; sh] -> FUnsub (n_of_string h, n_of_string sh)
  | ["drop"; sh] -> FDrop (n_of_string sh)
  | ["giveup"; h] -> FGiveUp (n_of_string h)
  | ["release"] -> Release
  | ["back"; hx] -> Back (bytes_of_hex (if hx = "-" then "" else hx))
  | ["fault"] -> Fault
  | ["failsend"] -> FailSend
  | _ -> failwith ("bad event: " ^ String.concat " " toks)

(* `hold` .. `unhold` are harness events, unknown to the model: the front-end futures are not polled in between, so the
   completions the model produces in that window are observed (sorted by handle, like every event's) at `unhold` *)
let is_completion = function OComplete _ -> true | _ -> false

let show_event (outs, nr) =
  let ws = List.filter_map (function OWire raw -> Some ("W" ^ hex_of_bytes raw) | _ -> None) outs in
  let cs = List.filter_map (function OComplete (h, r) -> Some (int_of_string (nstr h), cres_s r) | _ -> None) outs in
  let cs = List.stable_sort (fun (a, _) (b, _) -> compare a b) cs in
  let cs = List.map (fun (h, r) -> Printf.sprintf "C%d=%s" h r) cs in
  let fs = List.filter_map (function OFatal f -> Some ("F" ^ fatal_s f) | _ -> None) outs in
  let ns = match nr with Some r -> ["N" ^ next_s r] | None -> [] in
  String.concat "," (ws @ cs @ fs @ ns)

let handle line =
  match String.split_on_char '|' line with
  | [cfg; script] ->
    (match split_ws cfg with
     | [idstr; qc; bc; gate] ->
       let s0 = init (idstr = "1") (nat_of_int (int_of_string qc)) (nat_of_int (int_of_string bc)) (gate = "1") in
       let evs = List.filter (fun t -> t <> []) (List.map split_ws (String.split_on_char ';' script)) in
       let held = ref false and buf = ref [] in
       let (sf, outs) = List.fold_left (fun (s, acc) toks ->
           match toks with
           | ["hold"] -> held := true; (s, "" :: acc)
           | ["unhold"] -> held := false; let o = !buf in buf := []; (s, show_event (o, None) :: acc)
           | _ ->
             let ((s', o), nr) = step s (parse_ev toks) in
             let o = if !held then (buf := !buf @ List.filter is_completion o; List.filter (fun x -> not (is_completion x)) o) else o in
             (s', show_event (o, nr) :: acc)) (s0, []) evs in
       let (((a, b), c), d) = table_sizes sf in
       let t = if sf.dead then "Tdead" else Printf.sprintf "T%s,%s,%s,%s" (nstr a) (nstr b) (nstr c) (nstr d) in
       print_endline (String.concat " | " (List.rev outs @ [t]))
     | _ -> print_endline "?bad-cfg")
  | _ -> print_endline "?bad-line"

let () = iter_lines handle
