(* Glue shared by the model drivers.  The extracted `byte` type is a 256-constructor
   variant of constant constructors x00..xff, represented by OCaml as the ints 0..255;
   each driver self-checks that with the extracted Byte.to_N at start-up. *)
let byte_of_int (i : int) : 'b = Obj.magic i
let int_of_byte (b : 'b) : int = Obj.magic b

let hexval c = match c with
  | '0'..'9' -> Char.code c - 48 | 'a'..'f' -> Char.code c - 87 | 'A'..'F' -> Char.code c - 55
  | _ -> failwith "bad hex"

let bytes_of_hex (h : string) : 'b list =
  let n = String.length h / 2 in
  let rec go i acc = if i < 0 then acc else
    go (i - 1) (byte_of_int (hexval h.[2*i] * 16 + hexval h.[2*i+1]) :: acc) in
  go (n - 1) []

let hex_of_bytes (l : 'b list) : string =
  let b = Buffer.create 64 in
  List.iter (fun x -> Buffer.add_string b (Printf.sprintf "%02x" (int_of_byte x))) l;
  Buffer.contents b

let bytes_of_string (s : string) : 'b list =
  let rec go i acc = if i < 0 then acc else go (i - 1) (byte_of_int (Char.code s.[i]) :: acc) in
  go (String.length s - 1) []

let string_of_bytes (l : 'b list) : string =
  let b = Buffer.create 64 in
  List.iter (fun x -> Buffer.add_char b (Char.chr (int_of_byte x))) l;
  Buffer.contents b

let split_ws (s : string) : string list =
  List.filter (fun x -> x <> "") (String.split_on_char ' ' s)

let opt_hex = function None -> "-" | Some l -> "h" ^ hex_of_bytes l

let iter_lines (f : string -> unit) : unit =
  (try while true do f (input_line stdin) done with End_of_file -> ());
  flush stdout
