(* Engine `connguard` (C11), model side: replays a script on the extracted Model/ConnGuard.v.
   Input line:  <max> <both|http|ws|ping> <op>.<i>.<hint> ...      (hints are for the real side only)
   Output line: one `<status|->:<avail>:<handlers>` per step, space separated. *)
open Common
open Connguard_model

let rec nat_of_int i = if i <= 0 then O else S (nat_of_int (i - 1))
let rec pos_of_int i = if i = 1 then XH else if i land 1 = 0 then XO (pos_of_int (i lsr 1)) else XI (pos_of_int (i lsr 1))
let n_of_int i = if i = 0 then N0 else Npos (pos_of_int i)
let rec int_of_pos = function XH -> 1 | XO p -> 2 * int_of_pos p | XI p -> 2 * int_of_pos p + 1
let int_of_n = function N0 -> 0 | Npos p -> int_of_pos p

let step_of tok =
  match String.split_on_char '.' tok with
  | op :: i :: rest ->
    let i = nat_of_int (int_of_string i) in
    let k = match rest with _ :: k :: _ -> nat_of_int (int_of_string k) | _ -> O in
    (match op with
     | "hu" -> SHBurst (i, k)
     | "ho" -> SHOpen i | "hb" -> SHBody i | "hr" -> SHRel i | "ha" | "hf" -> SHAbort i | "hx" -> SHRelAbort i | "hg" -> SHGet i
     | "wo" -> SWOpen i | "wb" -> SWBad i | "we" | "w0" -> SWEarly i | "wc" -> SWCall i | "wr" -> SWRel i | "wl" -> SWClose i
     | "wa" | "wf" -> SWAbort i | "wg" -> SWGarbage i | "wx" -> SWCloseAbort i | "wi" -> SWIdle i
     | _ -> failwith ("bad op " ^ op))
  | _ -> failwith ("bad token " ^ tok)

let handle line =
  match split_ws line with
  | mx :: mode :: toks ->
    let c = { c_max = n_of_int (int_of_string mx); c_http = (mode <> "ws"); c_ws = (mode <> "http") } in
    let obs = script_run (init c) (List.map step_of toks) in
    let s o = Printf.sprintf "%s:%d:%d" (let st = int_of_n o.o_status in if st = 0 then "-" else if st = 1 then "c" else if st = 2 then "o" else if st >= 1000 then "b" ^ string_of_int (st - 1000) else string_of_int st)
        (int_of_n o.o_avail) (int_of_n o.o_handlers) in
    print_endline (String.concat " " (List.map s obs))
  | _ -> print_endline "?bad-line"

let () = iter_lines handle
