(* Engine `connq` (C04, connection-level back-pressure), model side: one script line replayed on the extracted
   Model/ConnQueue.v.  Same line protocol as harness/src/bin/connq.rs:
     in : <cap> | step step ...
            S<c>  a<h>  j<h>:<code>  s<h>:<x>  t<h>:<x>  x<h>  x<h>:n|o<x>|e<x>  r<h>:n|o<x>|e<x>  u<c>:<h>  c<c>  w  C
     out: one group of tokens per step, groups separated by ` ; `, tokens sorted bytewise, `q<n>` (places in use;
          `q-` once closed) last:
            <l><h>=parked|ok|err|done|full|closed|busy|na|gone|nosub     R<c>=<s|m><hex of answer>
            F<hex of frame> | empty | gone      closed
   Subscription ids are 1000 + handle, the notification method is "note". *)
open Common
open Connq_model

let () =
  for i = 0 to 255 do
    match of_N (to_N (byte_of_int i)) with
    | Some b when int_of_byte b = i -> ()
    | _ -> failwith "byte representation self-check failed"
  done

let rec nat_of_int i = if i <= 0 then O else S (nat_of_int (i - 1))
let rec int_of_nat = function O -> 0 | S n -> 1 + int_of_nat n
let nstr n = string_of_bytes (print_N n)
let is_num s = s <> "" && String.length s <= 15 && (let ok = ref true in String.iter (fun c -> if c < '0' || c > '9' then ok := false) s; !ok)
let n_of_string s = digits_val (bytes_of_string s)
let tail s k = String.sub s k (String.length s - k)

exception Bad

let num s = if is_num s then n_of_string s else raise Bad
let hnd s = if is_num s then nat_of_int (int_of_string s) else raise Bad

let closing s =
  if s = "n" then CNone
  else if String.length s >= 2 && s.[0] = 'o' then CNotif (num (tail s 1))
  else if String.length s >= 2 && s.[0] = 'e' then CErr (num (tail s 1))
  else raise Bad

let parse_step t =
  if t = "w" then W
  else if t = "C" then Close
  else if String.length t < 2 then raise Bad
  else
    let l = t.[0] and rest = tail t 1 in
    let a, b = match String.index_opt rest ':' with
      | Some i -> String.sub rest 0 i, Some (tail rest (i + 1))
      | None -> rest, None in
    match l, b with
    | 'S', None -> Subscribe (num a)
    | 'c', None -> Call (num a)
    | 'u', Some h -> Unsub (num a, hnd h)
    | 'a', None -> Acc (hnd a)
    | 'j', Some code -> if is_num code && String.length code <= 9 then Rej (hnd a, num code) else raise Bad
    | 's', Some x -> Send (hnd a, num x)
    | 't', Some x -> Try (hnd a, num x)
    | 'r', Some c -> Ret (hnd a, closing c)
    | 'x', None -> Cancel (hnd a, None)
    | 'x', Some c -> Cancel (hnd a, Some (closing c))
    | _ -> raise Bad

let res_s = function
  | RParked -> "parked" | ROk -> "ok" | RErr -> "err" | RDone -> "done" | RFull -> "full" | RClosed -> "closed"
  | RBusy -> "busy" | RNa -> "na" | RGone -> "gone" | RNosub -> "nosub"

let me = bytes_of_string "note"
let cmd l h r = Printf.sprintf "%c%d=%s" l (int_of_nat h) (res_s r)

let out_s = function
  | OAcc (h, r) -> cmd 'a' h r
  | ORej (h, r) -> cmd 'j' h r
  | OSend (h, _, r) -> cmd 's' h r
  | OTry (h, _, r) -> cmd 't' h r
  | OCancel (h, r) -> cmd 'x' h r
  | ORet (h, r) -> cmd 'r' h r
  | OCall (c, k, f) -> "R" ^ nstr c ^ "=" ^ (if k then "s" else "m") ^ hex_of_bytes (render me f)
  | OFrame f -> "F" ^ hex_of_bytes (render me f)
  | OEmpty -> "empty"
  | OWGone -> "gone"
  | OClosed -> "closed"

let base = n_of_string "1000"

let handle line =
  match String.index_opt line '|' with
  | None -> print_endline "?bad-line"
  | Some i ->
    (try
       let head = split_ws (String.sub line 0 i) and script = split_ws (tail line (i + 1)) in
       match head with
       | [cap] when is_num cap && int_of_string cap >= 1 && int_of_string cap <= 100000 ->
         let cap = nat_of_int (int_of_string cap) in
         let ops = List.map parse_step script in
         let s = ref init and groups = ref [] in
         List.iter (fun o ->
             let (s', outs) = step cap base !s o in
             s := s';
             let toks = List.sort compare (List.map out_s outs) in
             let qn = if closed s' then "q-" else "q" ^ string_of_int (List.length (q s')) in
             groups := String.concat " " (toks @ [qn]) :: !groups) ops;
         print_endline (String.concat " ; " (List.rev !groups))
       | _ -> print_endline "?bad-line"
     with Bad -> print_endline "?bad-line")

let () = iter_lines handle
