(* Engine `hostfilter` (C14), model side: same line protocol as harness/src/bin/hostfilter.rs. *)
open Common
open Hostfilter_model

let () =
  for i = 0 to 255 do
    match of_N (to_N (byte_of_int i)) with
    | Some b when int_of_byte b = i -> ()
    | _ -> failwith "byte representation self-check failed"
  done

let nstr n = string_of_bytes (print_N n)

let port_s = function PDefault -> "D" | PAny -> "A" | PFixed n -> "F" ^ nstr n
let auth_s a = "h" ^ hex_of_bytes a.a_host ^ ":" ^ port_s a.a_port

let strip_h t =
  if String.length t >= 1 && t.[0] = 'h' then String.sub t 1 (String.length t - 1) else failwith "item prefix"

let items tok =
  if tok = "-" then [] else List.map (fun t -> bytes_of_hex (strip_h t)) (String.split_on_char ',' tok)

let handle line =
  match split_ws line with
  | ["auth"; h] ->
    print_endline (match run_auth (bytes_of_hex (strip_h h)) with
      | None -> "nostr"
      | Some None -> "err"
      | Some (Some a) -> Printf.sprintf "ok h%s %s" (hex_of_bytes a.a_host) (port_s a.a_port))
  | ["req"; filter; hosts; uri] ->
    let f = if filter = "off" then None else Some (items filter) in
    let u = if uri = "-" then None else Some (bytes_of_hex (strip_h uri)) in
    print_endline (match run_req f (items hosts) u with
      | ONoStr -> "nostr" | ONoHdr -> "nohdr" | ONoUri -> "nouri" | OBadList -> "badlist"
      | OOut (st, ran, a) ->
        Printf.sprintf "%s %d %s" (nstr st) (if ran then 1 else 0) (match a with None -> "none" | Some a -> auth_s a))
  | _ -> print_endline "?bad-line"

let () = iter_lines handle
