(* Engine `httpbatch`, model side (Model/HttpBatch.v).  One case per line:
     <idkind:n|s> <pre> <n> <item> <item> ...
   the client (ids Number / String) has consumed `pre` ids before a batch of n entries is made (ids pre .. pre+n);
   the server answers with the array of the items, in this order:
     <idspec>:<payload>   idspec  = p<k>  the id of request position k exactly as the client wrote it (k may be >= n)
                                  | n<dec> the number <dec> | s<hex|-> the string <hex> | z  null
                          payload = r<hex>  "result":<raw JSON text>
                                  | e<code>:<msghex|->:<datahex|->   "error":{code,message[,data]}
     x<hex>               an array element given verbatim
     B<hex|->             (only item) the whole body given verbatim
   Output:  batch:s=<ok>/f=<failed>:[<entry>,...]   entry = ok:<rawhex> | call:<code>:<msghex>:<-|h<datahex>>
        or  err:transport | err:parse | err:invalidid | err:notpending
   Single call:  single <idkind:n|s> <pre> <item>
   the client makes ONE call whose id is `pre`; the server's body is the element text of the item (not wrapped in an
   array; p<k> = id pre+k in the client's kind; x<hex> / B<hex|-> = the body verbatim).
   Output:  ok:<rawhex> | call:<code>:<msghex>:<-|h<datahex>> | err:transport | err:parse | err:notpending *)
open Common
open Httpbatch_model

let () =
  for i = 0 to 255 do
    match of_N (to_N (byte_of_int i)) with
    | Some b when int_of_byte b = i -> ()
    | _ -> failwith "byte representation self-check failed"
  done

let nstr n = string_of_bytes (print_N n)
let zstr z = string_of_bytes (print_Z z)
let n_of_string s = digits_val (bytes_of_string s)
let z_of_string s =
  let neg = String.length s > 0 && s.[0] = '-' in
  let d = if neg then String.sub s 1 (String.length s - 1) else s in
  match n_of_string d with
  | N0 -> Z0
  | Npos p -> if neg then Zneg p else Zpos p
let rec nat_to_int = function O -> 0 | S n -> 1 + nat_to_int n
let hexb s = if s = "-" then [] else bytes_of_hex s
let tail s k = String.sub s k (String.length s - k)

let err_s e = Printf.sprintf "call:%s:%s:%s" (zstr e.e_code) (hex_of_bytes e.e_message) (opt_hex e.e_data)
let resp_s r = match r.rs_payload with PResult raw -> "ok:" ^ hex_of_bytes raw | PError e -> err_s e

let elem idstr lo item : 'b list =
  if item.[0] = 'x' then hexb (tail item 1)
  else
    match String.split_on_char ':' item with
    | idspec :: pay ->
      let id = match idspec.[0] with
        | 'p' -> http_mk_id idstr (N.add lo (n_of_string (tail idspec 1)))
        | 'n' -> IdNum (n_of_string (tail idspec 1))
        | 's' -> IdStr (hexb (tail idspec 1))
        | 'z' -> IdNull
        | _ -> failwith "bad idspec" in
      let payload = match pay with
        | [r] when r.[0] = 'r' -> PResult (hexb (tail r 1))
        | [c; m; d] when c.[0] = 'e' ->
          PError { e_code = z_of_string (tail c 1); e_message = hexb m; e_data = (if d = "-" then None else Some (hexb d)) }
        | _ -> failwith "bad payload" in
      ser_response { rs_jsonrpc = true; rs_payload = payload; rs_id = id }
    | [] -> failwith "bad item"

let herr_s = function
  | HTransport -> "err:transport" | HParse -> "err:parse" | HBadId -> "err:invalidid" | HNotPending -> "err:notpending"

let handle line =
  match split_ws line with
  | ["single"; kind; pre; item] ->
    let idstr = (kind = "s") in
    let lo = n_of_string pre in
    let body = if item.[0] = 'B' then hexb (tail item 1) else elem idstr lo item in
    print_endline (match http_single (http_mk_id idstr lo) body with
      | SOk raw -> "ok:" ^ hex_of_bytes raw
      | SCall e -> err_s e
      | SErr e -> herr_s e)
  | kind :: pre :: n :: items ->
    let idstr = (kind = "s") in
    let lo = n_of_string pre and n = n_of_string n in
    let body = match items with
      | [b] when b.[0] = 'B' -> hexb (tail b 1)
      | _ ->
        bytes_of_string "[" @ List.concat (List.mapi (fun i it -> (if i > 0 then bytes_of_string "," else []) @ elem idstr lo it) items)
        @ bytes_of_string "]" in
    print_endline (match http_reply lo n body with
      | HOk l -> Printf.sprintf "batch:s=%d/f=%d:[%s]" (nat_to_int (count_ok l)) (nat_to_int (count_err l))
                   (String.concat "," (List.map resp_s l))
      | HErr HTransport -> "err:transport"
      | HErr HParse -> "err:parse"
      | HErr HBadId -> "err:invalidid"
      | HErr HNotPending -> "err:notpending")
  | _ -> print_endline "?bad-line"

let () = iter_lines handle
