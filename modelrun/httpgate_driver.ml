(* Engine `httpgate` (C19), model side.  Same line protocol as harness/src/bin/httpgate.rs:
   input : <method-hex> <max> <content-types> <content-lengths> <frames>
   output: <status> <read_body> | <status_old> <read_body_old>
   (the part after `|` is the function as it stood before fixes/C19.patch) *)
open Common
open Httpgate_model

let () =
  for i = 0 to 255 do
    match of_N (to_N (byte_of_int i)) with
    | Some b when int_of_byte b = i -> ()
    | _ -> failwith "byte representation self-check failed"
  done

let nstr n = string_of_bytes (print_N n)
let n_of_string s = digits_val (bytes_of_string s)

let list s = if s = "-" then [] else String.split_on_char ',' s
let hval s = if s = "e" then [] else bytes_of_hex s

let frame s =
  if s = "t" then FTrailers
  else if String.length s >= 1 && s.[0] = 'd' then FData (bytes_of_hex (String.sub s 1 (String.length s - 1)))
  else failwith "bad frame"

let rb_s = function
  | RbOk (body, single) -> Printf.sprintf "ok:%d:%s" (if single then 1 else 0) (hex_of_bytes body)
  | RbTooLarge -> "toolarge"
  | RbMalformed -> "malformed"
  | RbStream -> "stream"

let handle line =
  match split_ws line with
  | [m; max; cts; cls; fs] | [m; max; cts; cls; fs; "H"] ->      (* H: the body carries an exact size hint; no such notion in the model *)
    let m = bytes_of_hex m and max = n_of_string max in
    let cts = List.map hval (list cts) and cls = List.map hval (list cls) in
    let fs = List.map frame (list fs) in
    let rpc body single = (body, single) in
    let st = outcome_status (call_with_service rpc m cts cls fs max) in
    let st_old = outcome_status (call_with_service_old rpc m cts cls fs max) in
    print_endline (Printf.sprintf "%s %s | %s %s" (nstr st) (rb_s (read_body cls fs max)) (nstr st_old) (rb_s (read_body_old cls fs max)))
  | _ -> print_endline "?bad-line"

let () = iter_lines handle
