(* C17 model driver.  Line protocol (same as harness/src/bin/macroapi.rs, plus the value the recording handler returns):
     stub <api> <m|s><idx> <hex JSON array of arguments> <outcome> - <hex ret|->
     raw  <api> <hex method name> <hex params text|-> <outcome> <hex unsubscribe name|-> <hex ret|->
     heck <hex name>                                    (snake_case and lowerCamelCase of a parameter name)
   outcome = ok | err:<code>:<hex message>:<hex data|->
   ret = what the trait method returns for the arguments it received (for a subscription: the JSON array of its items);
   it is the handler's behaviour, an input of the model. *)
open Common
open Macroapi_model

let () =
  for i = 0 to 255 do
    match of_N (to_N (byte_of_int i)) with
    | Some b when int_of_byte b = i -> ()
    | _ -> failwith "byte representation self-check failed"
  done

let nstr n = string_of_bytes (print_N n)
let zstr z = string_of_bytes (print_Z z)
let rec nat_of_int i = if i <= 0 then O else S (nat_of_int (i - 1))
let z_of_string s =
  if String.length s > 0 && s.[0] = '-' then
    Z.opp (Z.of_N (digits_val (bytes_of_string (String.sub s 1 (String.length s - 1)))))
  else Z.of_N (digits_val (bytes_of_string s))

let unhex_opt h = if h = "-" then None else Some (bytes_of_hex h)
let hex_or_dash = function None -> "-" | Some b -> hex_of_bytes b

let behaviour outcome ret =
  if outcome = "ok" then
    (match ret with
     | "-" -> BReturn JNull
     | h -> (match parse_text (bytes_of_hex h) with Some j -> BReturn j | None -> failwith "ret is not JSON"))
  else
    match String.split_on_char ':' outcome with
    | ["err"; c; m; d] ->
      BFail { e_code = z_of_string c; e_message = bytes_of_hex m; e_data = unhex_opt d }
    | _ -> failwith "bad outcome"

let err_s (e : errobj) = Printf.sprintf "c:err:%s:%s:%s" (zstr e.e_code) (hex_of_bytes e.e_message) (hex_or_dash e.e_data)

let args_s (l : json option list) =
  hex_of_bytes (ser (JArr (List.map (function Some j -> j | None -> JNull) l)))

let handler_s api (a : japi) (b : binding) =
  let nm = List.length (a_methods a) in
  let t = int_of_string (nstr b.b_tag) in
  if t < nm then Printf.sprintf "%d.m%d" api t else Printf.sprintf "%d.s%d" api (t - nm)

let out_s api a (o : case_out) =
  let w = match o.co_wire with
    | Some (m, p) -> Printf.sprintf "w:%s:%s" (hex_of_bytes m) (hex_or_dash p)
    | None -> "w:-:-" in
  let h = match o.co_handler with Some b -> handler_s api a b | None -> "-" in
  let ar = match o.co_args with Some l -> args_s l | None -> "-" in
  let c = match o.co_client with
    | VOk j -> "c:ok:" ^ hex_of_bytes (ser j)
    | VErr e -> err_s e
    | VNotif -> "c:notif"
    | VFail -> "c:fail"
    | VSub (nn, items, unsub, ur) ->
      Printf.sprintf "c:sub:%s:%s:u:%s:%s" (hex_or_dash nn) (hex_of_bytes (ser (JArr items))) (hex_of_bytes unsub)
        (match ur with
         | None -> "e:-32601"
         | Some None -> "?"
         | Some (Some true) -> "r:" ^ hex_of_bytes (bytes_of_string "true")
         | Some (Some false) -> "r:" ^ hex_of_bytes (bytes_of_string "false")) in
  Printf.sprintf "%s h:%s a:%s %s" w h ar c

let handle line =
  match split_ws line with
  | ["heck"; h] ->
    let n = bytes_of_hex h in
    print_endline (hex_of_bytes (snake_case n) ^ " " ^ hex_of_bytes (lower_camel_case n))
  | [mode; api; target; payload; outcome; unsub; ret] ->
    let ai = int_of_string api in
    (match List.nth_opt family ai with
     | None -> print_endline "?bad-api"
     | Some a ->
       let beh = behaviour outcome ret in
       (match mode with
        | "stub" ->
          let is_sub = target.[0] = 's' in
          let idx = int_of_string (String.sub target 1 (String.length target - 1)) in
          (match parse_text (bytes_of_hex payload) with
           | Some (JArr js) -> print_endline (out_s ai a (run_stub a is_sub (nat_of_int idx) js beh))
           | _ -> print_endline "?bad-args")
        | "raw" ->
          let u = match unhex_opt unsub with Some u -> u | None -> [] in
          print_endline (out_s ai a (run_raw a (bytes_of_hex target) (unhex_opt payload) beh u))
        | _ -> print_endline "?unknown-mode"))
  | _ -> print_endline "?bad-line"

let () = iter_lines handle
