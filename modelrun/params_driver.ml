(* Engine `params` (C16), model side: same line protocol as harness/src/bin/params.rs.
   line   = <params text as hex | "-" for None | "e" for the empty text> { " " <read> }
   read   = next:<ty> | opt:<ty> | parse:<ty> | one:<ty>
   ty     = u64 | i64 | bool | str | val | opt(<ty>) | vec(<ty>) | pair(<ty>,<ty>)
   output = obj=<0|1> { " " <result> } ; result = ok:<hex of canonical compact JSON> | absent | err:<code>
   The sequence (params.sequence()) is created once per line; next/opt advance it, parse/one do not. *)
open Common
open Params_model

let () =
  for i = 0 to 255 do
    match of_N (to_N (byte_of_int i)) with
    | Some b when int_of_byte b = i -> ()
    | _ -> failwith "byte representation self-check failed"
  done

(* ---- type syntax ---- *)
let parse_ty (s : string) : ty =
  let n = String.length s in
  let pos = ref 0 in
  let eat c = if !pos < n && s.[!pos] = c then incr pos else failwith ("bad type " ^ s) in
  let word () =
    let b = !pos in
    while !pos < n && (match s.[!pos] with 'a'..'z' | '0'..'9' -> true | _ -> false) do incr pos done;
    String.sub s b (!pos - b) in
  let rec go () =
    match word () with
    | "u64" -> TU64 | "i64" -> TI64 | "bool" -> TBool | "str" -> TStr | "val" -> TValue
    | "opt" -> eat '('; let t = go () in eat ')'; TOpt t
    | "vec" -> eat '('; let t = go () in eat ')'; TVec t
    | "pair" -> eat '('; let a = go () in eat ','; let b = go () in eat ')'; TPair (a, b)
    | _ -> failwith ("bad type " ^ s) in
  let t = go () in
  if !pos <> n then failwith ("bad type " ^ s); t

(* ---- canonical compact JSON of a decoded value: what serde_json::to_string prints.
   serde_json::Map (no preserve_order) is a BTreeMap: last duplicate wins, keys in byte order. ---- *)
let rec canon (j : json) : json =
  match j with
  | JArr l -> JArr (List.map canon l)
  | JObj m ->
    let tbl = Hashtbl.create 8 in
    List.iter (fun (k, v) -> Hashtbl.replace tbl k (canon v)) m;
    let ks = List.sort_uniq compare (List.map fst m) in
    JObj (List.map (fun k -> (k, Hashtbl.find tbl k)) ks)
  | x -> x

let rec val_s (v : val0) : string =
  match v with
  | VU64 n -> string_of_bytes (print_N n)
  | VI64 z -> string_of_bytes (print_Z z)
  | VBool b -> if b then "true" else "false"
  | VStr s -> string_of_bytes (ser_str s)
  | VValue j -> string_of_bytes (ser (canon j))
  | VNone -> "null"
  | VSome v -> val_s v
  | VVec l -> "[" ^ String.concat "," (List.map val_s l) ^ "]"
  | VPair (a, b) -> "[" ^ val_s a ^ "," ^ val_s b ^ "]"

let hex_of_string s = hex_of_bytes (bytes_of_string s)

let out_s = function
  | OVal v -> "ok:" ^ hex_of_string (val_s v)
  | OAbsent -> "absent"
  | OErr c -> "err:" ^ string_of_bytes (print_Z c)

let handle line =
  match split_ws line with
  | [] -> print_endline "?bad-line"
  | text :: reads ->
    let raw = match text with "-" -> None | "e" -> Some [] | h -> Some (bytes_of_hex h) in
    (match raw with
     | Some b when not (utf8_valid b) -> print_endline "badutf8"
     | _ ->
       let p = params_new raw in
       let st = ref (sequence p) in
       let res = List.map (fun r ->
         match String.index_opt r ':' with
         | None -> "?bad-read"
         | Some i ->
           let k = String.sub r 0 i and t = parse_ty (String.sub r (i + 1) (String.length r - i - 1)) in
           (match k with
            | "next" -> let (o, s') = next t !st in st := s'; out_s o
            | "opt" -> let (o, s') = optional_next t !st in st := s'; out_s o
            | "parse" -> out_s (parse t p)
            | "one" -> out_s (one t p)
            | _ -> "?bad-read")) reads in
       print_endline (String.concat " " (("obj=" ^ (if is_object p then "1" else "0")) :: res)))

let () = iter_lines handle
