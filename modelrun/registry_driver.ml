(* Engine `registry` (C13): one line = one op sequence (see tools/props/c13.py for the grammar);
   prints, per op, `<observation>@<dump of all modules>` as computed by the extracted Registry.run_trace. *)
open Common
open Registry_model

let () =
  for i = 0 to 255 do
    match of_N (to_N (byte_of_int i)) with
    | Some b when int_of_byte b = i -> ()
    | _ -> failwith "byte representation self-check failed"
  done

let rec nat_of_int i = if i <= 0 then O else S (nat_of_int (i - 1))
let rec int_of_nat = function O -> 0 | S n -> 1 + int_of_nat n
let rec pos_of_int i = if i = 1 then XH else if i land 1 = 1 then XI (pos_of_int (i lsr 1)) else XO (pos_of_int (i lsr 1))
let n_of_int i = if i = 0 then N0 else Npos (pos_of_int i)
let rec int_of_pos = function XH -> 1 | XO p -> 2 * int_of_pos p | XI p -> 2 * int_of_pos p + 1
let int_of_n = function N0 -> 0 | Npos p -> int_of_pos p

let name_of h = bytes_of_hex (if h = "-" then "" else h)
let hex_name n = match n with [] -> "-" | _ -> hex_of_bytes n
let modi s = nat_of_int (int_of_string s)
let tag s = n_of_int (int_of_string s)

let reg_of = function
  | ["m"; n; t] -> RMethod (name_of n, tag t)
  | ["a"; n; t] -> RAsync (name_of n, tag t)
  | ["b"; n; t] -> RBlocking (name_of n, tag t)
  | ["s"; s; u; t] -> RSub (false, name_of s, name_of u, tag t)
  | ["r"; s; u; t] -> RSub (true, name_of s, name_of u, tag t)
  | _ -> failwith "bad reg"

let op_of tok =
  match String.split_on_char ':' tok with
  | [("m" | "a" | "b") as k; m; n; t] -> Reg (modi m, reg_of [k; n; t])
  | [("s" | "r") as k; m; s; u; t] -> Reg (modi m, reg_of [k; s; u; t])
  | ["al"; m; a; e] -> Alias (modi m, name_of a, name_of e)
  | ["mm"; m; j] -> MergeMod (modi m, modi j)
  | ["mn"; m; rs] ->
    let rs = if rs = "_" then [] else List.map (fun r -> reg_of (String.split_on_char '.' r)) (String.split_on_char ',' rs) in
    MergeNew (modi m, rs)
  | ["rv"; m; n] -> Remove (modi m, name_of n)
  | ["cl"; m] -> Clone (modi m)
  | ["nw"] -> New
  | ["ca"; m; n] -> Call (modi m, name_of n)
  | _ -> failwith ("bad op " ^ tok)

let kind_s = function
  | KSync -> "Sync" | KAsync -> "Async" | KBlocking -> "Async" | KSub -> "Subscription" | KUnsub -> "Unsubscription"
let bind_s b = Printf.sprintf "%s:%d" (kind_s b.b_kind) (int_of_n b.b_tag)

let err_s merge = function
  | None -> "ok"
  | Some (AlreadyRegistered n) -> (if merge then "E:already-merge:" else "E:already:") ^ hex_name n
  | Some (SubscriptionNameConflict n) -> "E:conflict:" ^ hex_name n
  | Some (MethodNotFound n) -> "E:notfound:" ^ hex_name n

let obs_s o = function
  | ORes r -> err_s (match o with MergeMod _ -> true | _ -> false) r
  | OMergeNew (es, r) -> "mn[" ^ String.concat "," (List.map (err_s false) es) ^ "]" ^ err_s true r
  | ORemoved None -> "rm:none"
  | ORemoved (Some b) -> "rm:" ^ bind_s b
  | OHandle i -> "h:" ^ string_of_int (int_of_nat i)
  | OCall None -> "call:nf"
  | OCall (Some b) -> "call:" ^ bind_s b
  | OBad -> "bad"

let dump_s d =
  String.concat "/" (List.map (fun ms ->
    match ms with
    | [] -> "_"
    | _ -> String.concat "," (List.map (fun (n, b) -> hex_name n ^ "." ^ kind_s b.b_kind) ms)) d)

let handle line =
  match split_ws line with
  | [] -> print_endline "?empty"
  | toks ->
    (try
       let ops = List.map op_of toks in
       let tr = run_trace ops in
       print_endline (String.concat " " (List.map2 (fun o (ob, d) -> obs_s o ob ^ "@" ^ dump_s d) ops tr))
     with Failure m -> print_endline ("?" ^ m))

let () = iter_lines handle
