(* reqlimit: size decisions of Model/ReqLimit.v (with the generated wiring) for the srvlimits scenarios *)
open Common
open Reqlimit_model

let () =
  for i = 0 to 255 do
    match of_N (to_N (byte_of_int i)) with
    | Some b when int_of_byte b = i -> ()
    | _ -> failwith "byte representation self-check failed"
  done

let n_of_string s = digits_val (bytes_of_string s)
let nstr n = string_of_bytes (print_N n)
let ep_of = function
  | "server" -> EpServer | "tower" -> EpTower | "wsconnect" -> EpWsConnect
  | "httpbuilder" -> EpHttpCallBuilder | "httpcall" -> EpHttpCall | _ -> failwith "bad ep"
let list_of s = if s = "-" then [] else List.map n_of_string (String.split_on_char ',' s)

let handle line =
  try
    match split_ws line with
    | ["ws"; e; rq; rs; msgs] ->
      let c = { max_request = n_of_string rq; max_response = n_of_string rs } in
      (match ws_session (ep_of e) c (list_of msgs) with
       | None -> print_endline "-"
       | Some evs ->
         print_endline (String.concat " " (List.map (function
           | EvDispatched _ -> "D"
           | EvTooBig l -> "T:" ^ hex_of_bytes (too_big_request_frame l)
           | EvClosed -> "X") evs)))
    | ["http"; e; rq; rs; cl; frames] ->
      let c = { max_request = n_of_string rq; max_response = n_of_string rs } in
      let cl = if cl = "-" then None else Some (n_of_string cl) in
      (match http_result (ep_of e) c cl (list_of frames) with
       | None -> print_endline "-"
       | Some r ->
         print_endline (nstr (http_status r) ^ (match http_reject_body r with None -> "" | Some b -> ":" ^ hex_of_bytes b)))
    | _ -> print_endline "?bad-line"
  with e -> print_endline ("?model-error " ^ Printexc.to_string e)

let () = iter_lines handle
