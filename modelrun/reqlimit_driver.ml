(* reqlimit: size decisions of Model/ReqLimit.v (with the generated wiring) for the srvlimits scenarios *)
open Common
open Reqlimit_model

let () =
  for i = 0 to 255 do
    match of_N (to_N (byte_of_int i)) with
    | Some b when int_of_byte b = i -> ()
    | _ -> failwith "byte representation self-check failed"
  done

let n_of_string s = digits_val (bytes_of_string s)
let nstr n = string_of_bytes (print_N n)
let ep_of = function
  | "server" -> EpServer | "tower" -> EpTower | "wsconnect" -> EpWsConnect
  | "httpbuilder" -> EpHttpCallBuilder | "httpcall" -> EpHttpCall | _ -> failwith "bad ep"
let list_of s = if s = "-" then [] else List.map n_of_string (String.split_on_char ',' s)

let handle line =
  try
    match split_ws line with
    | ["ws"; e; rq; rs; msgs] ->
      let c = { max_request = n_of_string rq; max_response = n_of_string rs } in
      (match ws_session (ep_of e) c (list_of msgs) with
       | None -> print_endline "-"
       | Some evs ->
         print_endline (String.concat " " (List.map (function
           | EvDispatched _ -> "D"
           | EvTooBig l -> "T:" ^ hex_of_bytes (too_big_request_frame l)
           | EvClosed -> "X") evs)))
    | ["wsp"; e; rq; rs; cap; msgs] ->
      (* pipelined session under back-pressure: id:size,id:size,...  -> the reply multiset, sorted.  Two computations that
         must agree (theorem C07_pipeline_session): the run of the connection model with its bounded queue of capacity
         `cap` under the most back-pressured schedule, and the per-message outcome list. *)
      let c = { max_request = n_of_string rq; max_response = n_of_string rs } in
      let pm s = match String.split_on_char ':' s with
        | [i; n] -> { pm_id = n_of_string i; pm_size = n_of_string n }
        | _ -> failwith "bad pmsg" in
      let ms = if msgs = "-" then [] else List.map pm (String.split_on_char ',' msgs) in
      let show = function
        | PRejected l -> "T:" ^ hex_of_bytes (too_big_request_frame l)
        | PAnswered i -> "D:" ^ nstr i in
      let sorted l = List.sort compare (List.map show l) in
      (match ws_pipeline_session (ep_of e) c (n_of_string cap) ms with
       | None -> print_endline "-"
       | Some ((wire, idle), _parked) ->
         let a = sorted wire and b = sorted (ws_pipeline_replies c ms) in
         if not idle then print_endline "?model-not-at-rest"
         else if a <> b then print_endline "?model-run-differs-from-outcome-list"
         else print_endline (String.concat " " a))
    | ["wsf"; e; rq; rs; items] ->
      (* fragmented messages: the client's frames in wire order, t<fin>:<len> text, c<fin>:<len> continuation, p:<len> ping,
         o:<len> pong, r:<n> n unframed bytes.  The reader never looks at payload bytes: they are zeros here. *)
      let c = { max_request = n_of_string rq; max_response = n_of_string rs } in
      let zeros k = List.init (int_of_string k) (fun _ -> byte_of_int 0) in
      let item s = match String.split_on_char ':' s with
        | ["t0"; k] -> WData (true, false, zeros k) | ["t1"; k] -> WData (true, true, zeros k)
        | ["c0"; k] -> WData (false, false, zeros k) | ["c1"; k] -> WData (false, true, zeros k)
        | ["p"; k] -> WPing (zeros k) | ["o"; k] -> WPong (zeros k)
        | ["r"; k] -> WRaw (n_of_string k)
        | _ -> failwith "bad frame item" in
      let fs = if items = "-" then [] else List.map item (String.split_on_char ',' items) in
      (match ws_frag_session (ep_of e) c fs with
       | None -> print_endline "-"
       | Some evs ->
         print_endline (String.concat " " (List.map (function
           | FDispatched t -> "D:" ^ string_of_int (List.length t)
           | FTooBig l -> "T:" ^ hex_of_bytes (too_big_request_frame l)
           | FPong p -> "P:" ^ string_of_int (List.length p)
           | FProtoErr -> "E"
           | FDesync -> "Z"
           | FStalled -> "S") evs)))
    | ["http"; e; rq; rs; cl; frames] ->
      let c = { max_request = n_of_string rq; max_response = n_of_string rs } in
      let cl = if cl = "-" then None else Some (n_of_string cl) in
      (match http_result (ep_of e) c cl (list_of frames) with
       | None -> print_endline "-"
       | Some r ->
         print_endline (nstr (http_status r) ^ (match http_reject_body r with None -> "" | Some b -> ":" ^ hex_of_bytes b)))
    | _ -> print_endline "?bad-line"
  with e -> print_endline ("?model-error " ^ Printexc.to_string e)

let () = iter_lines handle
