(* respsize: line protocol of harness/src/bin/respsize.rs over the extracted Model/RespSize.v *)
open Common
open Respsize_model

let () =
  for i = 0 to 255 do
    match of_N (to_N (byte_of_int i)) with
    | Some b when int_of_byte b = i -> ()
    | _ -> failwith "byte representation self-check failed"
  done

let n_of_string s = digits_val (bytes_of_string s)
let z_of_string s =
  let neg = String.length s > 0 && s.[0] = '-' in
  let d = if neg then String.sub s 1 (String.length s - 1) else s in
  match n_of_string d with
  | N0 -> Z0
  | Npos p -> if neg then Zneg p else Zpos p
let zstr z = string_of_bytes (print_Z z)

(* hex*count+hex*count... ; "-" = empty *)
let segs (s : string) : 'b list =
  if s = "-" || s = "" then [] else
  let parts = String.split_on_char '+' s in
  let b = Buffer.create 256 in
  List.iter (fun p ->
    match String.split_on_char '*' p with
    | [h] -> Buffer.add_string b (string_of_bytes (bytes_of_hex h))
    | [h; c] -> let u = string_of_bytes (bytes_of_hex h) in for _ = 1 to int_of_string c do Buffer.add_string b u done
    | _ -> failwith "bad segment") parts;
  bytes_of_string (Buffer.contents b)

let crc_table = Array.init 256 (fun n ->
  let c = ref n in
  for _ = 0 to 7 do
    if !c land 1 = 1 then c := 0xEDB88320 lxor (!c lsr 1) else c := !c lsr 1
  done; !c)
let crc32 (s : string) : int =
  let c = ref 0xFFFFFFFF in
  String.iter (fun ch -> c := crc_table.((!c lxor Char.code ch) land 0xFF) lxor (!c lsr 8)) s;
  !c lxor 0xFFFFFFFF

let hex_of_string s =
  let b = Buffer.create (2 * String.length s) in
  String.iter (fun c -> Buffer.add_string b (Printf.sprintf "%02x" (Char.code c))) s;
  Buffer.contents b

let digest (l : 'b list) : string =
  let s = string_of_bytes l in
  let n = String.length s in
  let head = if n <= 300 then s else String.sub s 0 300 in
  let tail = if n <= 300 then "-" else hex_of_string (String.sub s (n - 64) 64) in
  Printf.sprintf "%d %08x %s %s" n (crc32 s) (if n = 0 then "-" else hex_of_string head) tail

let id_of (s : string) : id =
  if s = "null" then IdNull
  else if String.length s > 2 && s.[0] = 'n' then IdNum (n_of_string (String.sub s 2 (String.length s - 2)))
  else if String.length s >= 2 && s.[0] = 's' then IdStr (segs (String.sub s 2 (String.length s - 2)))
  else failwith "bad id"

let payload_of (s : string) : rpayload =
  let rest = String.sub s 2 (String.length s - 2) in
  match s.[0] with
  | 'r' -> RResult (segs rest)
  | 's' -> RResult (ser_str (segs rest))
  | 'f' -> RFail (byte_of_int 0x5b :: ser_str (segs rest))
  | 'e' -> (match String.split_on_char ':' rest with
      | [code; msg; data] ->
        RError { e_code = z_of_string code; e_message = segs msg; e_data = (if data = "-" then None else Some (segs data)) }
      | _ -> failwith "bad error payload")
  | _ -> failwith "bad payload"

let flag_s = function FSuccess -> "ok" | FFailed c -> "err:" ^ zstr c

(* split l at the (increasing) cut positions *)
let split_at (l : 'b list) (cuts : int list) : 'b list list =
  let a = Array.of_list l in
  let n = Array.length a in
  let cuts = List.filter (fun c -> c >= 0 && c <= n) cuts in
  let bounds = (0 :: cuts) @ [n] in
  let rec go = function
    | x :: (y :: _ as tl) -> (if y >= x then Array.to_list (Array.sub a x (y - x)) else []) :: go tl
    | _ -> [] in
  go bounds

let handle line =
  try
    match split_ws line with
    | "single" :: i :: p :: max :: rest ->
      let i = id_of i and p = payload_of p and max = n_of_string max in
      let (b, f) = match rest with
        | [cuts] ->
          let cuts = List.map int_of_string (String.split_on_char ',' cuts) in
          method_response_chunked (split_at (full_ser i p) cuts) i p max
        | _ -> method_response i p max in
      print_endline (digest b ^ " " ^ flag_s f)
    | ["error"; i; code; msg; data] ->
      let e = { e_code = z_of_string code; e_message = segs msg; e_data = (if data = "-" then None else Some (segs data)) } in
      print_endline (digest (error_response (id_of i) e) ^ " err:" ^ zstr e.e_code)
    | ["batch"; max; entries] ->
      let max = n_of_string max in
      let es = if entries = "-" then [] else String.split_on_char ';' entries in
      let rs = List.map (fun e -> match String.split_on_char ',' e with
        | [i; p] -> fst (method_response (id_of i) (payload_of p) max)
        | _ -> failwith "bad entry") es in
      let fi = match batch_fail_index batch_new max rs N0 with None -> "-" | Some k -> string_of_bytes (print_N k) in
      print_endline (digest (batch_response max rs) ^ " " ^ fi)
    | _ -> print_endline "?bad-line"
  with e -> print_endline ("?model-error " ^ Printexc.to_string e)

let () = iter_lines handle
