(* Engine `srvmsg`, model side: Model/Server.v `handle` under the registry and the handler function of
   harness/src/bin/srvmsg.rs (same line protocol, same output format). *)
open Common
open Server_model

let () =
  for i = 0 to 255 do
    match of_N (to_N (byte_of_int i)) with
    | Some b when int_of_byte b = i -> ()
    | _ -> failwith "byte representation self-check failed"
  done

let n_of_string s = digits_val (bytes_of_string s)
let z_of_int (i : int) = if i >= 0 then Z.of_N (n_of_string (string_of_int i)) else Z.opp (Z.of_N (n_of_string (string_of_int (- i))))
let bs = bytes_of_string

let contains (hay : string) (needle : string) : bool =
  let n = String.length needle and m = String.length hay in
  let rec go i = i + n <= m && (String.sub hay i n = needle || go (i + 1)) in
  go 0

(* the registry of harness/src/bin/srvmsg.rs *)
let reg (name : 'b list) =
  match string_of_bytes name with
  | "echo" | "hexs" | "x\"y" | "parse1" | "__barrier" -> Some KSync
  | "aecho" -> Some KAsync
  | "becho" | "bpanic" -> Some KBlocking
  | "sub" -> Some KSub
  | "unsub" -> Some KUnsub
  | _ -> None

let hex_string (s : string) : string =
  let b = Buffer.create 64 in
  String.iter (fun c -> Buffer.add_string b (Printf.sprintf "%02x" (Char.code c))) s;
  Buffer.contents b

(* the handler function of harness/src/bin/srvmsg.rs: a function of (method, params text) *)
let h (name : 'b list) (p : 'b list option) =
  let m = string_of_bytes name in
  let ps = match p with Some x -> Some (string_of_bytes x) | None -> None in
  let text = match ps with Some s -> s | None -> "null" in
  let has needle = match ps with Some s -> contains s needle | None -> false in
  match m with
  | "__barrier" -> HOk (bs "0")
  | "unsub" -> HOk (bs "false")     (* no subscription outlives its call in this engine *)
  | "sub" -> if has "rej" then HErr (z_of_int 43, bs "rejected", None) else HOk (bs "\"S#1\"")
  | "parse1" ->
    (match parse_text (bs text) with
     | Some (JArr [JNum (NPos n)]) -> HOk (print_N n)
     | _ -> HBadParams (Some (bs "\"?\"")))   (* data = serde's message: not compared *)
  | _ ->
    if m = "bpanic" && not (has "calm") then HPanic
    else if has "err" then HErr (z_of_int 42, bs ("handler error in " ^ m), Some (bs text))
    else if has "fail" then
      let code = if has "failmin" then Z.opp (Z.of_N (n_of_string "2147483648"))
        else if has "failmax" then z_of_int 2147483647 else z_of_int (-32099) in
      HErr (code, bs "failed \"q\" \\ \n \xc3\xa9\xf0\x9f\x98\x80", None)
    else HOk (bs (match m with
      | "aecho" -> "{\"method\":\"aecho\",\"params\":" ^ text ^ "}"
      | "becho" | "bpanic" -> "[" ^ text ^ "]"
      | "hexs" -> "\"" ^ hex_string (match ps with Some s -> s | None -> "") ^ "\""
      | _ -> text))

let batch_cfg s =
  if s = "d" then Some BDisabled
  else if s = "u" then Some BUnlimited
  else if String.length s > 1 && s.[0] = 'l' then Some (BLimit (n_of_string (String.sub s 1 (String.length s - 1))))
  else None

let log_s l =
  if l = [] then "-" else
  String.concat ";" (List.map (fun (m, p) ->
    hex_of_bytes m ^ ":" ^ (match p with Some x -> hex_of_bytes x | None -> "-")) l)

let handle_line line =
  match split_ws line with
  | tr :: cfg :: hx :: _ ->
    let cfg, rs =
      (match String.index_opt cfg '+' with
       | Some i when i + 2 <= String.length cfg && cfg.[i + 1] = 'r' ->
         (String.sub cfg 0 i, String.sub cfg (i + 2) (String.length cfg - i - 2))
       | _ -> (cfg, "10485760")) in
    (match batch_cfg cfg, (match tr with "http" | "httpl" | "httpc" | "httpk" -> Some Http | "ws" | "wsb" -> Some Ws | _ -> None) with
     | Some bc, Some t ->
       let c = { sc_max_response = n_of_string rs; sc_batch = bc } in
       let b = bytes_of_hex (if hx = "-" then "" else hx) in
       let o = handle reg h t c b in
       let fr = o.o_frames in
       Printf.printf "s=%s f=%s l=%s a=1\n"
         (match o.o_status with Some n -> string_of_bytes (print_N n) | None -> "-")
         (if fr = [] then "-" else String.concat "," (List.map (fun f -> if f = [] then "e" else hex_of_bytes f) fr))
         (log_s o.o_log)
     | _ -> print_endline "?bad-line")
  | _ -> print_endline "?bad-line"

let () = iter_lines handle_line
