(* Engine `sinkbp` (C04, back-pressure), model side: one script line replayed on the extracted Model/SinkQueue.v.
   Same line protocol as harness/src/bin/sinkbp.rs:
     in : <cap> <sid> <raw|sub> | op op ...
            <sid> = decimal number (SubscriptionId::Num)  |  s<hex of the UTF-8 text> (SubscriptionId::Str, raw mode only)
            s<x> t<x> o<x>      fresh message of payload x through send / try_send / send_timeout, slot x
            Rs<k> Rt<k> Ro<k>   re-send of the message held in slot k through send / try_send / send_timeout
            r                   recv          c   close
     out: id=<sid> tok tok ...       (string id: id=j<hex of the id as JSON text, i.e. Wire.ser_subid = `result` of the accepting response>)
            ok | full=<m> | timeout=<m> | closed=<m> | wouldblock | na      <m> = C<hex json> | N<hex raw>
            F<hex frame> (raw) | I<sid>:<hex result> (sub: Wire.parse_sub_notif of the frame) | E | empty | end
            done
   The subscription id is an input here: a numeric id is drawn at random by the implementation and reported, the
   python glue copies it into the model's line; a string id is configured by the case line on both sides (the harness
   installs an IdProvider that returns it).  The notification method is "note". *)
open Common
open Sinkbp_model

let () =
  for i = 0 to 255 do
    match of_N (to_N (byte_of_int i)) with
    | Some b when int_of_byte b = i -> ()
    | _ -> failwith "byte representation self-check failed"
  done

let rec nat_of_int i = if i <= 0 then O else S (nat_of_int (i - 1))
let nstr n = string_of_bytes (print_N n)
let is_num s = s <> "" && String.length s <= 18 && (let ok = ref true in String.iter (fun c -> if c < '0' || c > '9' then ok := false) s; !ok)
let n_of_string s = digits_val (bytes_of_string s)
let tail s k = String.sub s k (String.length s - k)

exception Bad

let path_of = function 's' -> PSend | 't' -> PTry | 'o' -> PTimeout | _ -> raise Bad
let num s = if is_num s then n_of_string s else raise Bad
let is_hex s = String.length s mod 2 = 0 && (let ok = ref true in String.iter (fun c -> match c with '0'..'9' | 'a'..'f' -> () | _ -> ok := false) s; !ok)

(* <sid> -> (subid, the `id=` token) *)
let sid_of mode s =
  if is_num s then (SubNum (n_of_string s), "id=" ^ s)
  else if mode = "raw" && String.length s >= 1 && s.[0] = 's' && is_hex (tail s 1) then
    (let i = SubStr (bytes_of_hex (tail s 1)) in (i, "id=j" ^ hex_of_bytes (ser_subid i)))
  else raise Bad

let parse_op t =
  if t = "r" then ORecv
  else if t = "c" then OClose
  else if String.length t >= 3 && t.[0] = 'R' then OResend (path_of t.[1], num (tail t 2))
  else if String.length t >= 2 then (let x = num (tail t 1) in OSend (path_of t.[0], x, x))
  else raise Bad

let msg_s = function Complete j -> "C" ^ hex_of_bytes j | NeedsData r -> "N" ^ hex_of_bytes r

let res_s sub = function
  | ROk -> "ok"
  | RFull m -> "full=" ^ msg_s m
  | RTimeout m -> "timeout=" ^ msg_s m
  | RClosed m -> "closed=" ^ msg_s m
  | RWouldBlock -> "wouldblock"
  | RNa -> "na"
  | RFrame f ->
    if not sub then "F" ^ hex_of_bytes f
    else (match parse_sub_notif k_result f with
        | Some ((_, SubNum n), raw) -> "I" ^ nstr n ^ ":" ^ hex_of_bytes raw
        | Some ((_, SubStr s), raw) -> "I\"" ^ string_of_bytes s ^ "\":" ^ hex_of_bytes raw
        | None -> "E")
  | REmpty -> "empty"
  | REnd -> "end"
  | RDone -> "done"

let handle line =
  match String.index_opt line '|' with
  | None -> print_endline "?bad-line"
  | Some i ->
    (try
       let head = split_ws (String.sub line 0 i) and script = split_ws (tail line (i + 1)) in
       match head with
       | [cap; sid; mode] when (mode = "raw" || mode = "sub") && is_num cap && int_of_string cap >= 1 ->
         let (sid, idtok) = sid_of mode sid in
         let ops = List.map parse_op script in
         let (_, tr) = run sid (bytes_of_string "note") (init (nat_of_int (int_of_string cap))) ops in
         print_endline (String.concat " " (idtok :: List.map (fun (_, r) -> res_s (mode = "sub") r) tr))
       | _ -> print_endline "?bad-line"
     with Bad -> print_endline "?bad-line")

let () = iter_lines handle
