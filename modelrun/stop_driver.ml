(* C10 model driver: one script per line (same ops as harness/src/bin/srvstop.rs), one output line:
   (extra ops here: B<n> = message_buffer_capacity n, first op only; cW = WS connection whose client has a tiny
   receive buffer; P<n> reply padding in KiB; q<c>/g<c> client reader paused/resumed; A = open every gate at once)
   the SET of canonical fact lines the extracted LTS (coq/Model/Stop.v) can produce for that script, over every
   interleaving of the server's internal steps between and after the scripted client/owner operations,
   sorted and joined by " | ".  The implementation's line must be a member.
   Driver-level bookkeeping (not in the Coq model): which gates are open (CFinish k is only explored when the
   script has released k), the observer task that logs `stopped` (it may lag behind StoppedResolves), the
   classification letters, the script-connection -> model-connection map. *)
open Common
open Stop_model

let rec nat_of_int i = if i <= 0 then O else S (nat_of_int (i - 1))
let rec int_of_nat = function O -> 0 | S n -> 1 + int_of_nat n
let n_of_int i = N.of_nat (nat_of_int i)
let int_of_n x = int_of_nat (N.to_nat x)

type call = { conn : int; mid : int option; late : bool; s : char; f : char }

type d = {
  m : state;
  cmap : int option list;      (* script connection -> model connection *)
  readn : int list;            (* script connection -> replies the client's reader task has taken off the wire *)
  dropped : int list;          (* script connections dropped by the client *)
  released : int list;         (* script call numbers whose gate is open *)
  all_released : bool;
  calls : call list;           (* script call k = k-th element *)
  stops : string list;         (* reversed *)
  hh : int;                    (* handles held by the script owner *)
  watchers : int;              (* observers that have not logged yet (each owns a handle) *)
  have_watch : bool;
  sig_logged : bool;
  stopped_logged : bool;
  tmo : string list;           (* reversed *)
}

let d0 = { m = init; cmap = []; readn = []; dropped = []; released = []; all_released = false; calls = []; stops = []; hh = 1;
           watchers = 0; have_watch = false; sig_logged = false; stopped_logged = false; tmo = [] }

let apply m a = let (m', o) = step m a in (m', o)
let ok = function OOk | OStopOk -> true | _ -> false

let call_of_mid (st : d) (id : int) : int option =
  let rec go i = function
    | [] -> None
    | c :: r -> if c.mid = Some id then Some i else go (i + 1) r in
  go 0 st.calls

let set_call st k f = { st with calls = List.mapi (fun i c -> if i = k then f c else c) st.calls }

(* all successors of st by one internal step *)
let rec succs (st : d) : d list =
  (* CHyperDone commutes with every other step, disables none and is invisible: taken first (sound reduction) *)
  let rec hyper i = function
    | [] -> None
    | (x : conn) :: r -> if x.c_kind = KWs && x.c_tok then Some i else hyper (i + 1) r in
  match hyper 0 st.m.s_conns with
  | Some i -> [{ st with m = fst (apply st.m (Conn (nat_of_int i, CHyperDone))) }]
  | None -> succs_all st
and succs_all (st : d) : d list =
  let acc = ref [] in
  let push x = acc := x :: !acc in
  let try_act a post =
    let (m', o) = apply st.m a in
    if ok o then push (post { st with m = m' }) in
  List.iteri (fun i (x : conn) ->
      let ci = nat_of_int i in
      List.iter (fun ca -> try_act (Conn (ci, ca)) (fun s -> s))
        [CRead; CWrite; CSeeStop; CGracefulEnd; CReaderClosed; CWriterStop; CWriterFail; CBgDone; CHyperDone];
      let seen = ref [] in
      List.iter (fun (k, ts) ->
          if not (List.mem (k, ts) !seen) then begin
            seen := (k, ts) :: !seen;
            let id = int_of_n k in
            match ts with
            | TSpawned ->
              try_act (Conn (ci, CStart k)) (fun s ->
                  match call_of_mid s id with
                  | Some c ->
                    let cls = if not st.sig_logged then 'a' else if not st.stopped_logged then 'b' else 'c' in
                    set_call s c (fun cl -> { cl with s = cls })
                  | None -> s)
            | TExec ->
              (match call_of_mid st id with
               | Some c when st.all_released || List.mem c st.released ->
                 try_act (Conn (ci, CFinish k)) (fun s ->
                     set_call s c (fun cl -> { cl with f = (if st.stopped_logged then '>' else '<') }))
               | _ -> ())
            | TRet -> try_act (Conn (ci, CEnqueue k)) (fun s -> s)
          end) x.c_tasks)
    st.m.s_conns;
  (* the client's reader task takes the next reply off the wire (it lags behind the server's write) *)
  List.iteri (fun j mc ->
      match mc with
      | Some i when not (List.mem j st.dropped) ->
        (match List.nth_opt st.m.s_conns i with
         | Some x ->
           let r = List.nth st.readn j in
           if r < List.length x.c_wire then
             push { st with readn = List.mapi (fun j' v -> if j' = j then v + 1 else v) st.readn }
         | None -> ())
      | _ -> ()) st.cmap;
  try_act AcceptSeeStop (fun s -> s);
  try_act AcceptDone (fun s -> s);
  try_act StoppedResolves (fun s -> s);
  (* the observer task notices that `stopped()` resolved, logs it and drops its handle *)
  if st.m.s_resolved && st.watchers > 0 then begin
    let m = ref st.m in
    for _ = 1 to st.watchers do m := fst (apply !m DropHandle) done;
    push { st with m = !m; watchers = 0; stopped_logged = true }
  end;
  !acc

exception Too_big
let cap = 150000

(* the capacities are constants of an exploration (and 1024 is a long unary numeral): left out of the key *)
let strip (m : state) : state =
  { m with s_cap = O; s_conns = List.map (fun (x : conn) -> { x with c_cap = O }) m.s_conns }
let key (st : d) : string = Marshal.to_string { st with m = strip st.m } [Marshal.No_sharing]

(* reflexive-transitive closure under internal steps; also returns which states are quiescent *)
let closure (sts : d list) : (d * bool) list =
  let tbl = Hashtbl.create 1024 in
  let out = ref [] in
  let todo = Stack.create () in
  List.iter (fun s -> let k = key s in if not (Hashtbl.mem tbl k) then (Hashtbl.add tbl k (); Stack.push s todo)) sts;
  while not (Stack.is_empty todo) do
    let s = Stack.pop todo in
    let nx = succs s in
    out := (s, nx = []) :: !out;
    if Hashtbl.length tbl > cap then raise Too_big;
    List.iter (fun s' -> let k = key s' in if not (Hashtbl.mem tbl k) then (Hashtbl.add tbl k (); Stack.push s' todo)) nx
  done;
  !out

let dedup (l : d list) : d list =
  let tbl = Hashtbl.create 256 in
  List.filter (fun s -> let k = key s in if Hashtbl.mem tbl k then false else (Hashtbl.add tbl k (); true)) l

let model_conn st c = match List.nth_opt st.cmap c with Some (Some i) -> Some i | _ -> None
let get_conn st i = List.nth_opt st.m.s_conns i

(* has the client read the reply to model id `id` on script connection c? *)
let has_read st c id =
  match model_conn st c with
  | Some i ->
    (match get_conn st i with
     | Some x ->
       let r = List.nth st.readn c in
       let rec go n = function
         | [] -> false
         | k :: rest -> if n >= r then false else if int_of_n k = id then true else go (n + 1) rest in
       go 0 x.c_wire
     | None -> false)
  | None -> false

let wait op (cond : d -> bool) (cl : (d * bool) list) : d list =
  List.filter_map (fun (s, quiet) ->
      if cond s then Some s
      else if quiet then Some { s with tmo = op :: s.tmo }
      else None) cl

let arg op = int_of_string (String.sub op 1 (String.length op - 1))

let log_sig st = { st with sig_logged = true }

let do_op (op : string) (sts : d list) : d list =
  let cl = closure sts in
  let all = List.map fst cl in
  let each f = dedup (List.map f all) in
  match op with
  | "cw" | "cW" | "ch" ->
    each (fun st ->
        let (m', o) = apply st.m (Connect (if op = "ch" then KHttp else KWs)) in
        if ok o then { st with m = m'; cmap = st.cmap @ [Some (List.length st.m.s_conns)]; readn = st.readn @ [0] }
        else { st with cmap = st.cmap @ [None]; readn = st.readn @ [0] })
  | "S" ->
    each (fun st ->
        if st.hh = 0 then { st with stops = "nohandle" :: st.stops }
        else
          let st = log_sig st in
          let (m', o) = apply st.m Stop in
          let r = match o with OStopOk -> "ok" | OStopAlready -> "already" | _ -> "nohandle" in
          { st with m = m'; stops = r :: st.stops })
  | "C" -> each (fun st -> if st.hh = 0 then st else { st with m = fst (apply st.m CloneHandle); hh = st.hh + 1 })
  | "D" ->
    each (fun st ->
        if st.hh = 0 then st
        else
          let st' = { st with m = fst (apply st.m DropHandle); hh = st.hh - 1 } in
          if st.hh = 1 && st.watchers = 0 then log_sig st' else st')
  | "W" ->
    each (fun st ->
        if st.hh = 0 then st
        else if st.stopped_logged then
          (* cannot happen before a first observer exists; kept total *)
          { st with have_watch = true }
        else { st with m = fst (apply st.m CloneHandle); watchers = st.watchers + 1; have_watch = true })
  | "p" -> dedup all
  | "N" -> dedup all      (* the harness checks that `stopped` has not resolved yet: invisible to the model *)
  | "A" -> each (fun st -> { st with released = List.init (List.length st.calls) (fun i -> i) })
  | "Z" -> dedup (wait op (fun s -> s.have_watch && s.stopped_logged) cl)
  | _ ->
    let n = arg op in
    (match op.[0] with
     | 'B' ->
       (* message_buffer_capacity: only as the first op *)
       each (fun st -> if st == d0 || st = d0 then { st with m = init_cap (nat_of_int n) } else failwith "B must come first")
     | 'P' | 'q' | 'g' | 'I' | 'T' -> dedup all      (* reply padding / client reader paused / resumed / WebSocket pings enabled / keep-alive timeout: invisible to the model *)
     | 's' ->
       each (fun st ->
           let late = st.stopped_logged in
           let base = { conn = n; mid = None; late; s = '-'; f = '-' } in
           match model_conn st n with
           | Some i when not (List.mem n st.dropped) ->
             let id = int_of_n st.m.s_next in
             let (m', o) = apply st.m (ClientSend (nat_of_int i)) in
             if ok o then { st with m = m'; calls = st.calls @ [{ base with mid = Some id }] }
             else { st with calls = st.calls @ [base] }
           | _ -> { st with calls = st.calls @ [base] })
     | 'a' -> dedup (wait op (fun s -> match List.nth_opt s.calls n with Some c -> c.s <> '-' | None -> false) cl)
     | 'f' -> dedup (wait op (fun s -> match List.nth_opt s.calls n with Some c -> c.f <> '-' | None -> false) cl)
     | 'y' ->
       dedup (wait op (fun s ->
           match List.nth_opt s.calls n with
           | Some { conn; mid = Some id; _ } -> has_read s conn id
           | _ -> false) cl)
     | 'r' -> each (fun st -> if List.mem n st.released then st else { st with released = List.sort compare (n :: st.released) })
     | 'd' ->
       each (fun st ->
           match model_conn st n with
           | Some i when not (List.mem n st.dropped) ->
             { st with m = fst (apply st.m (Conn (nat_of_int i, CDisconnect))); dropped = List.sort compare (n :: st.dropped) }
           | _ -> st)
     | 'u' ->
       each (fun st ->
           match model_conn st n with
           | Some i ->
             (match get_conn st i with
              | Some x when x.c_kind = KWs ->
                let (m', o) = apply st.m (Conn (nat_of_int i, CSubOpen)) in
                if ok o then { st with m = m' } else { st with tmo = op :: st.tmo }
              | _ -> st)
           | None -> st)
     | _ -> failwith "bad op")

let facts (st : d) : string =
  let join l = if l = [] then "-" else String.concat "," l in
  let stopped = if not st.have_watch then "nowatch" else if st.stopped_logged then "yes" else "no" in
  let conns = List.mapi (fun j mc ->
      if List.mem j st.dropped then "x"
      else match mc with
        | None -> "c"
        | Some i -> (match get_conn st i with Some x when x.c_phase = PDone -> "c" | _ -> "o")) st.cmap in
  let calls = List.map (fun c ->
      let r = match c.mid with Some id when has_read st c.conn id -> 'R' | _ -> '-' in
      Printf.sprintf "%c%c%c%s" c.s c.f r (if c.late then "L" else "")) st.calls in
  Printf.sprintf "stops=%s;stopped=%s;conns=%s;calls=%s;to=%s" (join (List.rev st.stops)) stopped (join conns) (join calls)
    (join (List.rev st.tmo))

let handle line =
  let ops = split_ws line in
  let out =
    try
      let sts = List.fold_left (fun sts op -> do_op op sts) [d0] ops in
      (* settle: every gate is opened, then the system runs until nothing is enabled.  When a stop signal was
         logged and an observer exists the harness waits for `stopped` (a timeout is reported as Zfinal) *)
      let sts = List.map (fun s -> { s with all_released = true; released = [] }) sts in
      let cl = closure (dedup sts) in
      let fin = List.filter_map (fun (s, quiet) ->
          if not quiet then None
          else if s.sig_logged && s.have_watch && not s.stopped_logged then Some { s with tmo = "Zfinal" :: s.tmo }
          else Some s) cl in
      let lines = List.sort_uniq compare (List.map facts fin) in
      String.concat " | " lines
    with
    | Too_big -> "TOOBIG"
    | Failure m -> "?bad-line " ^ m
    | Invalid_argument m -> "?bad-line " ^ m in
  print_endline out

let () = iter_lines handle
