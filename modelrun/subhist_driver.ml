(* Engine `subhist` (C04, C06), model side: replays one script line on the extracted SubBook LTS.
   Same line protocol as harness/src/bin/subhist.rs:
     in : [E<server|tower|towermw>[+r]] K<cap> C<nconns> step step ...
          (E = the entry point the REAL server is assembled through; the model is entry-point independent -- one
           semaphore per connection, Model/SubBook.v -- and ignores the token)
     out: {"c":[[frames of conn 0],..],"end":[..],"r":[result of every step]}
   A script step is a macro over model steps (accept = Accept1;Accept2, send = SendCheck;SendEnqueue,
   return = HandlerReturn;CloseNotify; ab,s,k|d = AbandonCall; dp,s = DropPending); after every script step the writer drains all queues (drain_trace), which is
   what polling to quiescence does on the real side.  `subhist old` runs the unrepaired Drop (step_old). *)
open Common
open Subhist_model

let rec nat_of_int i = if i <= 0 then O else S (nat_of_int (i - 1))
let rec int_of_nat = function O -> 0 | S n -> 1 + int_of_nat n
let rec pos_of_int i = if i <= 1 then XH else if i land 1 = 1 then XI (pos_of_int (i lsr 1)) else XO (pos_of_int (i lsr 1))
let rec int_of_pos = function XH -> 1 | XO p -> 2 * int_of_pos p | XI p -> 2 * int_of_pos p + 1
let n_of_int i = if i <= 0 then N0 else Npos (pos_of_int i)
let int_of_n = function N0 -> 0 | Npos p -> int_of_pos p
let z_of_int i = if i = 0 then Z0 else if i > 0 then Zpos (pos_of_int i) else Zneg (pos_of_int (-i))
let int_of_z = function Z0 -> 0 | Zpos p -> int_of_pos p | Zneg p -> - (int_of_pos p)

let id_base = 1000

let frame_json = function
  | FSubOk (req, sid) -> Printf.sprintf "{\"id\":%d,\"jsonrpc\":\"2.0\",\"result\":%d}" (int_of_n req) (int_of_n sid)
  | FErr (req, e) ->
    (* Model/SubBookWire.v: the library's codes and messages are the constants generated from types/src/error.rs *)
    let code, msg = (let (c, m) = errkind_wire e in int_of_z c, string_of_bytes m) in
    Printf.sprintf "{\"error\":{\"code\":%d,\"message\":\"%s\"},\"id\":%d,\"jsonrpc\":\"2.0\"}" code msg (int_of_n req)
  | FUnsub (req, b) -> Printf.sprintf "{\"id\":%d,\"jsonrpc\":\"2.0\",\"result\":%s}" (int_of_n req) (if b then "true" else "false")
  | FNotif (_, sid, x, _) ->
    Printf.sprintf "{\"jsonrpc\":\"2.0\",\"method\":\"note\",\"params\":{\"result\":%d,\"subscription\":%d}}" (int_of_n x) (int_of_n sid)
  | FNotifErr (_, sid, x) ->
    Printf.sprintf "{\"jsonrpc\":\"2.0\",\"method\":\"note\",\"params\":{\"error\":\"e%d\",\"subscription\":%d}}" (int_of_n x) (int_of_n sid)

exception Bad of string

let handle old line =
  let stp = if old then step_old else step in
  let cap = ref 0 and nconns = ref 1 and steps = ref [] in
  List.iter (fun tok ->
      if tok.[0] = 'K' then cap := int_of_string (String.sub tok 1 (String.length tok - 1))
      else if tok.[0] = 'C' then nconns := int_of_string (String.sub tok 1 (String.length tok - 1))
      else if tok.[0] = 'E' then ()
      else steps := tok :: !steps) (split_ws line);
  let steps = List.rev !steps in
  let s = ref (init (List.init !nconns (fun _ -> nat_of_int !cap)) (n_of_int id_base) N0) in
  let do_act a = let (s', o) = stp !s a in s := s'; o in
  let drain () = List.iter (fun a -> ignore (do_act a)) (drain_trace !s) in
  let results = ref [] in
  let res r = results := r :: !results in
  (try
     List.iter (fun tok ->
         let f = Array.of_list (String.split_on_char ',' tok) in
         let i k = if k < Array.length f then int_of_string f.(k) else raise (Bad tok) in
         let nat k = nat_of_int (i k) and n k = n_of_int (i k) in
         (match f.(0) with
          | "sub" ->
            (match do_act (SubscribeCall (nat 1, n 2)) with
             | OHandler (h, _, _) :: _ -> res (Printf.sprintf "h%d" (int_of_nat h))
             | ORefused _ :: _ -> res "refused"
             | _ -> res "na")
          | "uns" ->
            (match do_act (UnsubscribeCall (nat 1, n 2, n 3)) with
             | OUnsubAnswer (_, _, _, b) :: _ -> res (if b then "t" else "f")
             | _ -> res "na")
          | "acc" ->
            (match do_act (Accept1 (nat 1)) with
             | [] -> res "na"
             | OAccept (_, false) :: _ -> res "err"
             | _ -> (match do_act (Accept2 (nat 1)) with
                 | OAccept (_, true) :: _ -> res "ok"
                 | _ -> res "model-bug"))
          | "rej" -> (match do_act (Reject (nat 1, z_of_int (i 2))) with [] -> res "na" | _ -> res "ok")
          | "ab" ->
            (* the subscribe call is abandoned; k: the pending sink lives on in a task of its own, d: it dies with the handler *)
            let keep = match (if Array.length f > 2 then f.(2) else "k") with "k" -> true | "d" -> false | _ -> raise (Bad tok) in
            (match do_act (AbandonCall (nat 1, keep)) with [] -> res "na" | _ -> res "ok")
          | "dp" -> (match do_act (DropPending (nat 1)) with [] -> res "na" | _ -> res "ok")
          | "cl" -> (match do_act (CloneSink (nat 1, n 2, n 3)) with [] -> res "na" | _ -> res "ok")
          | "dr" -> (match do_act (DropSink (nat 1, n 2)) with [] -> res "na" | _ -> res "ok")
          | "snd" | "tsnd" ->
            (match do_act (SendCheck (nat 1, n 2, n 3)) with
             | [] -> res "na"
             | OSendResult (_, _, _, false) :: _ -> res "err"
             | _ -> (match do_act (SendEnqueue (nat 1, n 2)) with
                 | OSendResult (_, _, _, ok) :: _ -> res (if ok then "ok" else "err")
                 | _ -> res "model-bug"))
          | "isc" ->
            (match do_act (IsClosed (nat 1, n 2)) with
             | OClosed (_, _, b) :: _ -> res (if b then "1" else "0")
             | _ -> res "na")
          | "ret" ->
            let v = match f.(2) with "n" -> CNone | "m" -> CNotif (n 3) | "e" -> CNotifErr (n 3) | _ -> raise (Bad tok) in
            (match do_act (HandlerReturn (nat 1, v)) with
             | [] -> res "na"
             | _ -> ignore (do_act (CloseNotify (nat 1))); res "ok")
          | "cd" -> (match do_act (ConnDrop (nat 1)) with [] -> res "na" | _ -> res "ok")
          | "stop" -> (match do_act ServerStop with [] -> res "na" | _ -> res "ok")
          | _ -> raise (Bad tok));
         drain ()) steps;
     let conns_s = List.map (fun cn -> "[" ^ String.concat "," (List.map frame_json (c_wire cn)) ^ "]") (conns !s) in
     let ends = List.map (fun cn -> if c_ended cn then "true" else "false") (conns !s) in
     let rs = List.map (fun r -> "\"" ^ r ^ "\"") (List.rev !results) in
     print_endline (Printf.sprintf "{\"c\":[%s],\"end\":[%s],\"r\":[%s]}" (String.concat "," conns_s) (String.concat "," ends) (String.concat "," rs))
   with
   | Bad t -> print_endline (Printf.sprintf "{\"fatal\":\"bad-step:%s\"}" t)
   | Failure _ -> print_endline "{\"fatal\":\"bad-line\"}")

let () =
  let old = Array.length Sys.argv > 1 && Sys.argv.(1) = "old" in
  iter_lines (handle old)
