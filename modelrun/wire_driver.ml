open Common
open Wire_model

let () =
  for i = 0 to 255 do
    match of_N (to_N (byte_of_int i)) with
    | Some b when int_of_byte b = i -> ()
    | _ -> failwith "byte representation self-check failed"
  done

let nstr n = string_of_bytes (print_N n)
let zstr z = string_of_bytes (print_Z z)
let n_of_string s = digits_val (bytes_of_string s)

let id_s = function
  | IdNull -> "id:null" | IdNum n -> "id:n:" ^ nstr n | IdStr s -> "id:s:" ^ hex_of_bytes s
let subid_s = function SubNum n -> "sid:n:" ^ nstr n | SubStr s -> "sid:s:" ^ hex_of_bytes s
let err_s e = Printf.sprintf "e:%s:%s:%s" (zstr e.e_code) (hex_of_bytes e.e_message) (opt_hex e.e_data)

let handle line =
  match split_ws line with
  | [kind; h] | [kind; h; _] ->
    let b = bytes_of_hex (if h = "-" then "" else h) in
    let out = match kind with
      | "json" -> (match parse_text b with Some v -> "ok " ^ hex_of_bytes (ser v) | None -> "-")
      | "raw" -> (match raw_text b with Some t -> "ok " ^ hex_of_bytes t | None -> "-")
      | "id" -> (match parse_id b with Some i -> id_s i ^ " " ^ hex_of_bytes (ser_id i) | None -> "-")
      | "subid" -> (match parse_subid b with Some i -> subid_s i ^ " " ^ hex_of_bytes (ser_subid i) | None -> "-")
      | "req" -> (match parse_request b with
          | Some r -> Printf.sprintf "req %s m:%s p:%s %s" (id_s r.rq_id) (hex_of_bytes r.rq_method) (opt_hex r.rq_params) (hex_of_bytes (ser_request r))
          | None -> "-")
      | "notif" -> (match parse_notification b with
          | Some (m, p) -> Printf.sprintf "notif m:%s p:%s %s" (hex_of_bytes m) (opt_hex p) (hex_of_bytes (ser_notification m p))
          | None -> "-")
      | "inv" -> (match parse_invalid b with Some i -> "inv " ^ id_s i | None -> "-")
      | "resp" -> (match parse_response b with
          | Some r -> Printf.sprintf "resp j:%d %s %s %s" (if r.rs_jsonrpc then 1 else 0) (id_s r.rs_id)
                        (match r.rs_payload with PResult raw -> "r:" ^ hex_of_bytes raw | PError e -> err_s e)
                        (hex_of_bytes (ser_response r))
          | None -> "-")
      | "err" -> (match parse_errobj b with Some e -> err_s e ^ " " ^ hex_of_bytes (ser_errobj e) | None -> "-")
      | "subn" | "sube" ->
        let key = bytes_of_string (if kind = "subn" then "result" else "error") in
        (match parse_sub_notif key b with
         | Some ((m, s), r) -> Printf.sprintf "sub m:%s %s %s %s" (hex_of_bytes m) (subid_s s) (hex_of_bytes r)
                                 (hex_of_bytes (ser_sub_notif m s (kind = "sube") r))
         | None -> "-")
      | _ -> "?unknown-kind"
    in print_endline out
  | _ -> print_endline "?bad-line"

let () = iter_lines handle
