#!/bin/sh
# Regenerate coq/_CoqProject (every .v under coq/) and the Makefile.  Idempotent.
set -e
cd "$(dirname "$0")/../coq"
{ echo "-Q . JV"; find Base Json Model Gen Proofs Props Extract -name '*.v' 2>/dev/null | sort; } > _CoqProject.new
if ! cmp -s _CoqProject.new _CoqProject 2>/dev/null || [ ! -f Makefile ]; then
  mv _CoqProject.new _CoqProject
  coq_makefile -f _CoqProject -o Makefile >/dev/null
else
  rm -f _CoqProject.new
fi
