"""Random JSON *texts* (bytes) with the features that matter to the models: every escape form,
multi-byte UTF-8, surrogate pairs, lone surrogates (lenient-only), numbers at the u64/i64/i32
boundaries and floats, interior whitespace of the four JSON kinds, nested and empty containers,
strings containing structural characters.  All randomness comes from the rng passed in."""

WS = [b" ", b"\t", b"\n", b"\r"]
INTS = [0, 1, 2, 7, 42, 255, 2**31 - 1, 2**31, 2**32, 2**53, 2**63 - 1, 2**63, 2**64 - 1]
BIG = [2**64, 2**64 + 1, 10**30]
FLOATS = [b"1.0", b"0.5", b"-0", b"-0.0", b"1e3", b"1E+2", b"2.5e-3", b"0e0", b"123.456", b"-1.5", b"1e308", b"9007199254740993.0"]
STR_ATOMS = [b"a", b"b", b"xyz", b"", b" ", b"[", b"]", b"{", b"}", b",", b":", b"\\\\", b"\\\"", b"\\/", b"\\b", b"\\f", b"\\n", b"\\r",
             b"\\t", b"\\u0041", b"\\u00e9", b"\\u0000", b"\\u001f", b"\\u2028", b"\\ud83d\\ude00", b"\xc3\xa9", b"\xe2\x82\xac",
             b"\xf0\x9f\x98\x80", b"\x7f", b"null", b"2.0", b"id", b"\\u002e", b"/"]


def ws(rng, p=0.3):
    if rng.random() < p:
        return b"".join(rng.choice(WS) for _ in range(rng.randint(1, 3)))
    return b""


def string(rng, lenient=False):
    parts = [rng.choice(STR_ATOMS) for _ in range(rng.choice([0, 1, 1, 2, 3, 5]))]
    if lenient and rng.random() < 0.3:
        parts.append(rng.choice([b"\\ud800", b"\\udc00", b"\\ud800\\u0041", b"\\ud800x"]))
    return b'"' + b"".join(parts) + b'"'


def number(rng):
    r = rng.random()
    if r < 0.5:
        n = rng.choice(INTS) + rng.choice([0, 0, 0, -1, 1])
        return str(max(n, 0)).encode()
    if r < 0.7:
        n = rng.choice(INTS + BIG)
        return b"-" + str(n).encode()
    if r < 0.8:
        return str(rng.choice(BIG)).encode()
    return rng.choice(FLOATS)


def value(rng, depth=3, lenient=False, wsp=0.3):
    r = rng.random()
    if depth <= 0 or r < 0.45:
        k = rng.random()
        if k < 0.12:
            return b"null"
        if k < 0.24:
            return rng.choice([b"true", b"false"])
        if k < 0.6:
            return number(rng)
        return string(rng, lenient)
    n = rng.choice([0, 1, 1, 2, 3, 4])
    if r < 0.75:
        items = [ws(rng, wsp) + value(rng, depth - 1, lenient, wsp) + ws(rng, wsp) for _ in range(n)]
        return b"[" + (b",".join(items) if items else ws(rng, wsp)) + b"]"
    items = [ws(rng, wsp) + string(rng) + ws(rng, wsp) + b":" + ws(rng, wsp) + value(rng, depth - 1, lenient, wsp) + ws(rng, wsp) for _ in range(n)]
    return b"{" + (b",".join(items) if items else ws(rng, wsp)) + b"}"


def deep(rng, n):
    """n nested arrays around a scalar (crosses the recursion limit at 128)"""
    return b"[" * n + rng.choice([b"1", b"", b"null"]) + b"]" * n


def mutate_bytes(rng, b):
    if not b:
        return rng.choice([b"", b"x", b"\x00"])
    b = bytearray(b)
    for _ in range(rng.choice([1, 1, 2, 3])):
        k = rng.random()
        i = rng.randrange(len(b)) if b else 0
        if k < 0.3 and b:
            del b[i]
        elif k < 0.6:
            b.insert(i, rng.choice(b' \t\n\r"\\{}[],:0123456789eE.-+ntfau\x00\x1f\x7f\x80\xc3\xe2\xf0\xff'))
        elif k < 0.8 and b:
            b[i] = rng.choice(b' "\\{}[],:09eE.-nu\x00\xff')
        elif b:
            j = rng.randrange(len(b))
            b[i], b[j] = b[j], b[i]
    return bytes(b)


def id_text(rng):
    r = rng.random()
    if r < 0.15:
        return b"null"
    if r < 0.55:
        return str(rng.choice(INTS + [rng.randrange(0, 1000)])).encode()
    if r < 0.9:
        return string(rng)
    return rng.choice([b"1.0", b"-1", b"18446744073709551616", b"true", b"[]", b"{}", b"[1]", b"1e2", b"-0"])
