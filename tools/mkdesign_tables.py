#!/usr/bin/env python3
"""Regenerates sections 10.3 (theorem inventory) and 10.4 (seeded changes) of DESIGN.md between their markers."""
import json, os, re
ROOT = os.path.dirname(os.path.dirname(os.path.abspath(__file__)))
p = os.path.join(ROOT, "DESIGN.md")
s = open(p).read()
rows, total = [], 0
for f in sorted(os.listdir(os.path.join(ROOT, "tools", "pinned"))):
    pid = f.split(".")[0]
    lines = open(os.path.join(ROOT, "tools", "pinned", f)).read().split("\n")
    ths = [l.split()[1] for l in lines if l.startswith("Theorem ")]
    exs = [l.split()[1] for l in lines if l.startswith("Example ")]
    total += len(ths)
    rows.append("* **%s** (%d theorems, %d examples): %s" % (pid, len(ths), len(exs), ", ".join("`%s`" % t for t in ths)))
inv = "Generated from `tools/pinned/*.statements` by `tools/mkdesign_tables.py`: **%d property theorems**, each `exact <lemma>` in\n`coq/Props/Cxx.v`, `Print Assumptions` = \"Closed under the global context\" for all of them (no axioms anywhere; `coqchk` clean in the\nthorough tier).  `_refuted` = the full-strength statement is false of the faithful model of the current tree (known finding or\ndocumented reading); `_refuted_old` = it was false of the pre-repair code (witness kept).\n\n%s\n" % (total, "\n".join(rows))
seeds = []
for d in sorted(os.listdir(os.path.join(ROOT, "seeded"))):
    mp = os.path.join(ROOT, "seeded", d, "meta.json")
    if not os.path.exists(mp):
        continue
    m = json.load(open(mp))
    clean = lambda x: str(x).replace("\n", " ").replace("|", "/")
    seeds.append("| %s | %s | %s |" % (d, clean(m.get("needs") or "")[:260], clean("; ".join(m.get("caught_by", [])))[:420]))
st = "| seed | needs | caught by |\n|---|---|---|\n" + "\n".join(seeds) + "\n"
for name, body in (("inventory", inv), ("seeds", st)):
    b, e = "<!-- BEGIN:%s -->" % name, "<!-- END:%s -->" % name
    assert b in s and e in s, name
    s = s[:s.index(b) + len(b)] + "\n" + body + s[s.index(e):]
open(p, "w").write(s)
print("theorems:", total, "seeds:", len(seeds))
