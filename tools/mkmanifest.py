#!/usr/bin/env python3
"""Writes MANIFEST.json from the per-property table below (kept here so the manifest is always valid)."""
import json, os, sys
ROOT = os.path.dirname(os.path.dirname(os.path.abspath(__file__)))
sys.path.insert(0, os.path.join(ROOT, "tools"))

ALL = ["C%02d" % i for i in range(1, 21)]

NOTE_COMMON = ("Trusted: Coq 8.16.1 kernel (no axioms under the property theorems, checked by Print Assumptions on every run), "
               "ExtrOcamlBasic extraction + hand-written OCaml driver, the Rust correspondence harness and Python generators/oracles. "
               "Third-party behaviour (serde_json, tokio, hyper, soketto) is modelled and validated differentially, not verified.")

CHECKS = json.load(open(os.path.join(ROOT, "tools", "checks.json")))

REASON_PENDING = "check not built yet in this session (planned, see DESIGN.md section 9); nothing is claimed for it"


def main():
    checks = []
    for p in ALL:
        if p not in CHECKS:
            continue
        c = CHECKS[p]
        checks.append({
            "property_id": p,
            "quick_cmd": "python3 tools/vcheck.py %s --tier quick" % p,
            "thorough_cmd": "python3 tools/vcheck.py %s --tier thorough" % p,
            "evidence_file": "/verif/evidence/%s.json" % p,
            "replay_cmd_template": "python3 tools/vcheck.py %s --replay {path}" % p,
            "engine": c.get("engine", ""),
            "level_claimed": {"category": "proof", "text": c["text"], "design_ref": c["design"]},
            "level_note": c.get("note", NOTE_COMMON),
            "technique": c["technique"],
        })
    m = {
        "version": 1,
        "setup_cmd": "python3 tools/vcheck.py --setup",
        "hooks": {
            "guard": "cargo feature `verif-hooks` (jsonrpsee-core); off by default",
            "enable": "the harness crate depends on /repo's crates by path; engines that need a hook build with `--features hooks` which turns on jsonrpsee-core/verif-hooks",
            "baseline_off_cmd": "cd /repo && cargo test --workspace --no-fail-fast --offline",
            "source_commits": [],
            "add_only": True,
        },
        "engines": [],
        "checks": checks,
        "not_applicable": [{"property_id": p, "reason": REASON_PENDING} for p in ALL if p not in CHECKS],
        "notes": "All checks: machine-checked Coq proofs about executable models + correspondence harness; see DESIGN.md.",
    }
    hooks_file = os.path.join(ROOT, "tools", "hook_commits.txt")
    if os.path.exists(hooks_file):
        m["hooks"]["source_commits"] = [l.strip() for l in open(hooks_file) if l.strip()]
    json.dump(m, open(os.path.join(ROOT, "MANIFEST.json"), "w"), indent=1)
    print("MANIFEST.json: %d checks, %d not_applicable" % (len(checks), len(m["not_applicable"])))


if __name__ == "__main__":
    main()
