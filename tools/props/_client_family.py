"""Shared pieces of the five client-side property modules (C03, C05, C09, C12, C18)."""
import vlib
from props import clihist_common as C

# Model/ClientMgr.v interprets the dispatch of handle_recv_message (order of the readers, what each arm does, close mode of the
# array loop, rules after the loop) as read from the source by tools/translators/client_dispatch.py -> Gen/ClientDispatchGen.v
TRANSLATORS = ["client_dispatch"]
MODELS = ["clihist"]
BINS = {"release": ["clihist"]}
TRUSTED = [
    "modelled, not verified: tokio mpsc/oneshot channel semantics, task scheduling (the harness fixes one schedule: poll to quiescence on a current-thread runtime), serde parsing (Model/Wire.v)",
    "hook H1 (feature verif-hooks): Client::verif_table_sizes, weak handle to the manager",
    "mock transport of harness/src/bin/clihist.rs (gate = transport write blocks until released)",
]
ASSUMPTIONS = [
    "front-end handles in a history are pairwise distinct (the harness numbers them)",
    "schedules inside one locked manager step and tokio's choice among ready tasks are outside the model; the harness polls to quiescence after every event",
]


def n_random(ctx, quick, thorough):
    return ctx.scale(quick, thorough)


def random_histories(ctx, n, **kw):
    return [C.gen_history(ctx.rng, **kw) for _ in range(n)]


def replay(payload):
    import json
    print(json.dumps(payload, indent=1)[:4000])
    case = payload.get("case")
    if isinstance(case, dict) and "idmt" in case:      # thread-level stress case of the id allocator (C12, C03)
        from props import idmt_common
        return idmt_common.replay_case(payload)
    if isinstance(case, dict) and "history" in case:
        for name, cmd in (("impl ", vlib.rust_bin("clihist")), ("model", vlib.model_bin("clihist"))):
            rc, out = vlib.sh([cmd], input=case["history"] + "\n")
            print(name, "->", out.strip())
    return 0
