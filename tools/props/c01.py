"""C01 -- server: every message gets at most one well-formed reply carrying its own id."""
import json
import vlib
from gen import jsongen as G
from props import srvmsg_common as S

TRANSLATORS = ["error_codes", "sniff", "error_consts", "batch_gate"]   # Model/Server.v: generated constants, interpreted batch gate
MODELS = ["server"]
BINS = {"release": ["srvmsg"]}
RULE = ("cases = (transport, message bytes) delivered as ONE message to a real jsonrpsee server -- HTTP socket-free through "
        "ServerBuilder::to_service_builder().build(methods, stop).call(POST application/json; body as one frame with exact size hint, "
        "a sample again with an explicit Content-Length and as 1..3 frames of unknown total length = chunked; a sample of every generated "
        "class plus a fixed list (valid calls, notifications, invalid requests, non-JSON text, empty and whitespace-only bodies, bodies "
        "starting with other bytes) again as transport `httpk`: POST over ONE persistent raw-TCP HTTP/1.1 keep-alive connection to a real "
        "Server on 127.0.0.1:0, one response read, then a barrier call on the SAME connection -- same status/body/log as socket-free, and the "
        "barrier must be answered), WebSocket over 127.0.0.1:0 with a "
        "raw soketto client (text frames, binary frames for non-UTF-8 bytes), all frames collected until the connection is quiet "
        "(barrier round-trips + silence window) -- and to the extracted Coq model (Model/Server.v `handle`) under the same "
        "registry (sync/async/blocking/panicking-blocking/subscription/unsubscription handlers, results a function of method and "
        "params text); reply frames, HTTP status and handler log compared byte for byte (only the serde message inside the genuine "
        "-32602 of `parse1` is masked).  Generated from: well-formed requests over all id forms (null, 0, 2^64-1, strings with "
        "every escape, surrogate pairs), ids outside the domain (2^64, -1, 1.0, true, [], {}), every registered method and unknown "
        "ones, params of every handler class; structural mutations (drop/duplicate/reorder/retype each member, unknown members, "
        "trailing bytes, byte mutations); 0..130 leading whitespace bytes of each ASCII kind incl. form feed; token-level texts over "
        "a 14-token alphabet (exhaustive to 3 tokens, sampled to 12); arbitrary bytes incl. invalid UTF-8.  distinct non-trivial = "
        "distinct result lines other than the bare -32700/null answer")
TRUSTED = [
    "translators error_codes, sniff (regex readers of types/src/error.rs, transport/ws.rs, http_helpers.rs); the "
    "codes, the window (126..130 bytes of each whitespace kind) and the first bytes are exercised by the differential run",
    "modelled, not verified: serde/serde_json derive semantics of Request/Notification/InvalidRequest and the untagged Id (Model/Wire.v, "
    "Json/*.v), tokio task scheduling, soketto framing; tied by the differential run only",
    "error MESSAGE texts and the response member order are transcribed by hand in Model/Server.v / Model/Wire.v (compared byte for byte "
    "with the server on every case)",
    "the handler function of the registry exists three times (Rust harness, OCaml driver, Python oracle); a disagreement shows as a diff",
]
ASSUMPTIONS = [
    "messages within max_request_body_size (C07) and responses within max_response_body_size (C08; the theorems carry the size rule, the "
    "engines use the 10 MiB default)",
    "a handler panics only inside register_blocking_method (spawn_blocking); a panic in a sync/async handler unwinds the polling task "
    "and is outside the model (hypothesis panics_only_blocking)",
    "handlers produce JSON texts (hypothesis handlers_wf: result/data are complete raw JSON values, error messages are UTF-8, codes are i32)",
    "readings adopted: two or more `id` members => notification (C01_duplicate_id_is_notification); the sniffers skip "
    "u8::is_ascii_whitespace, which includes form feed; members the request structs do not know are skipped leniently (lone surrogate "
    "escapes / invalid UTF-8 inside them are not rejected) -- the Python oracle does not judge such texts, the model diff does",
    "'exactly one reply' on WebSocket is observed over a quiet period after each message; the model has no late duplicates caused by the runtime",
]

PARSE_ERR = b'{"jsonrpc":"2.0","id":null,"error":{"code":-32700,"message":"Parse error"}}'


def gen_messages(ctx):
    rng = ctx.rng
    n = ctx.scale(20000, 450000)
    msgs = []

    def add(m, tag):
        msgs.append((m, tag))

    # well-formed requests: every id form x method x params class
    for idt in S.ID_FORMS + S.NON_IDS:
        for m in S.METHODS[:10]:
            add(S.wellformed_request(rng, method=m, idt=idt), "wellformed-grid")
    for m in S.METHODS:
        for p in S.PARAMS:
            add(S.obj(rng, S.request_members(rng, method=m, params=p), 0), "method-x-params")
    for _ in range(n * 25 // 100):
        add(S.wellformed_request(rng), "wellformed")
    # notifications (no id)
    for _ in range(n * 5 // 100):
        ms = [x for x in S.request_members(rng) if x[0] != b'"id"']
        rng.shuffle(ms)
        add(S.obj(rng, ms), "no-id")
    # duplicate ids
    for _ in range(n * 3 // 100):
        ms = S.request_members(rng)
        ms.insert(rng.randrange(len(ms) + 1), (b'"id"', rng.choice(S.ID_FORMS + S.NON_IDS)))
        add(S.obj(rng, ms), "duplicate-id")
    for _ in range(n * 30 // 100):
        add(S.mutated_request(rng), "mutated")
    for m in S.leading_ws_cases(rng, n * 2 // 100):
        add(m, "leading-whitespace")
    for m in S.token_texts(rng, n * 12 // 100):
        add(m, "token-text")
    for m in S.arbitrary_bytes(rng, n * 6 // 100):
        add(m, "arbitrary-bytes")
    # objects that are JSON but not requests
    for _ in range(n * 5 // 100):
        add(G.ws(rng) + S.obj(rng, [(G.string(rng), G.value(rng, 2)) for _ in range(rng.choice([0, 1, 2, 3]))]
                              + ([(b'"id"', rng.choice(S.ID_FORMS + S.NON_IDS))] if rng.random() < 0.6 else [])) + G.ws(rng), "json-not-request")
    # deep nesting in params / unknown members / id
    for d in (100, 127, 128, 129, 200):
        add(b'{"jsonrpc":"2.0","id":1,"method":"echo","params":' + G.deep(rng, d) + b"}", "deep")
        add(b'{"jsonrpc":"2.0","id":1,"method":"echo","zz":' + G.deep(rng, d) + b"}", "deep")
        add(b'{"jsonrpc":"2.0","id":' + b"[" * d + b"]" * d + b',"method":"echo"}', "deep")
    return msgs


# transport `httpk`: messages every run delivers over the persistent HTTP/1.1 connection, whatever the sample holds
KEEPALIVE_FIXED = [
    b'{"jsonrpc":"2.0","id":1,"method":"echo","params":[1]}', b'{"jsonrpc":"2.0","id":"a","method":"aecho"}',
    b'{"jsonrpc":"2.0","id":2,"method":"becho","params":["err"]}', b'{"jsonrpc":"2.0","id":3,"method":"bpanic"}',
    b'{"jsonrpc":"2.0","id":4,"method":"nope"}', b'{"jsonrpc":"2.0","id":5,"method":"parse1","params":["x"]}',
    b'{"jsonrpc":"2.0","id":6,"method":"sub"}',
    b'{"jsonrpc":"2.0","method":"echo"}', b'{"jsonrpc":"2.0","method":"echo","params":[1],"id":1.5}', b'{"jsonrpc":"2.0","method":"nope"}',
    b'{"jsonrpc":"2.0","id":7}', b'{"id":8,"method":"echo"}', b'{"jsonrpc":"1.0","id":9,"method":"echo"}', b"{}", b'{"jsonrpc":"2.0","id":1,"method":1}',
    b"hello", b"42", b'"say_hello"', b"null", b"true", b"-", b"x{}", b"\x00", b"\xff\xfe", b"\xef\xbb\xbf{}", b"]", b"}", b",", b":",
    b"GET / HTTP/1.1", b"POST / HTTP/1.1\r\nHost: x\r\nContent-Length: 0\r\n\r\n", b"\r\n\r\n", b"0\r\n\r\n",
    b"{", b"[", b'{"jsonrpc":"2.0","id":1,"method":"echo"', b'{"jsonrpc":"2.0","id":1,"method":"echo"}x', b"{]", b'{"a"',
    b"", b" ", b"\n", b"\r\n", b"\t", b"\x0c", b"   ", b" \t\n\r\x0c" * 5, b" " * 127, b" " * 128, b" " * 129, b" " * 1000,
    b" " * 127 + b"{}", b" " * 128 + b"{}", b" 1", b"\n\nhello\n",
]


def oracle_single(ctx, transport, cfg, msg, o, tag, via=None):
    """C01 restated on the implementation's output alone (via = the engine transport when it is not `transport` itself)"""
    case = {"transport": via or transport, "cfg": cfg, "msg_hex": msg.hex(), "msg": S.show(msg), "tag": tag}
    reps = S.replies_of(transport, o)
    sn = S.sniffed(msg)
    if sn is not None and sn[0] == "batch":
        return "batch"      # C02's
    if len(reps) > 1:
        ctx.fail("oracle", "more-than-one-reply", case, [r.decode("latin1") for r in reps])
        return
    for f in reps:
        if not S.wellformed(f)[0]:
            ctx.fail("oracle", "reply-not-wellformed", case, f.decode("latin1"))
            return
    if not o["alive"]:
        ctx.fail("oracle", "http-connection-stops-serving" if via == "httpk" else "connection-stops-serving", case,
                 "no answer to a later call on the same connection")

    def expect_error(codes, want_id, why):
        if len(reps) != 1:
            ctx.fail("oracle", "unanswered-but-not-a-notification", case, why)
            return
        ok, i, kind, payload = S.wellformed(reps[0])
        if kind != "error" or payload[0] not in codes or not S.same_id(i, want_id):
            ctx.fail("oracle", "wrong-error-for-class", case, {"why": why, "want_codes": codes, "want_id": want_id, "got": reps[0].decode("latin1")})

    def expect_log(want):
        if o["log"] != want:
            ctx.fail("oracle", "handler-ran-without-its-valid-call" if len(o["log"]) > len(want) else "handler-log-differs", case,
                     {"want": want, "got": o["log"]})

    if sn is None:
        expect_error((-32700,), None, "first non-whitespace byte inside the window is neither { nor [")
        expect_log([])
        return "garbage"
    text = sn[1]
    try:
        v, isjson = S.parse_domain(text)
    except S.OutOfDomain:
        return "out-of-oracle-domain"
    if not isjson:
        expect_error((-32700,), None, "text is not JSON")
        expect_log([])
        return "not-json"
    k = S.classify_value(v, text)
    if k[0] == "call":
        _, want_id, method, praw = k
        if len(reps) != 1:
            ctx.fail("oracle", "valid-call-not-answered", case, "no reply")
        else:
            why = S.reply_matches(reps[0], want_id, S.expected_call_reply(transport, method, praw))
            if why:
                ctx.fail("oracle", "call-reply-wrong", case, {"why": why, "got": reps[0].decode("latin1")})
        expect_log(S.expected_log(transport, [(method, praw)]))
        return "call:" + (S.REG.get(method) or "unknown-method")
    if k[0] == "notif":
        if reps:
            ctx.fail("oracle", "notification-answered", case, reps[0].decode("latin1"))
        if transport == "http" and (o["status"] != "200" or o["frames"] not in ([], [b"null"])):
            ctx.fail("oracle", "http-notification-ack", case, {"status": o["status"], "body": [f.decode("latin1") for f in o["frames"]]})
        expect_log([])
        return "notification"
    _, inv_id, recoverable = k
    expect_error((-32600, -32700), inv_id if recoverable else None, "JSON that is not a request")
    expect_log([])
    return "invalid:" + ("id" if recoverable else "no-id")


def run(ctx):
    ctx.engines = ["srvmsg (harness/src/bin/srvmsg.rs vs modelrun/server_driver.ml over coq/Model/Server.v), single messages, HTTP (socket-free; keep-alive over TCP) + WebSocket"]
    rng = ctx.rng
    msgs = gen_messages(ctx)
    n_ws = ctx.scale(4000, 60000)
    cases = [("http", "u", m, tag) for m, tag in msgs]
    # the same message with the other HTTP framings: explicit Content-Length, and a body of unknown length in several frames
    # (chunked / HTTP/2 without Content-Length): the reply must not depend on how the body is framed
    for i in rng.sample(range(len(msgs)), min(ctx.scale(3000, 40000), len(msgs))):
        m, tag = msgs[i]
        cases.append((rng.choice(["httpc", "httpc", "httpl"]), "u", m, tag))
    ws_pick = rng.sample(range(len(msgs)), min(n_ws, len(msgs)))
    for i in ws_pick:
        m, tag = msgs[i]
        mode = "wsb" if rng.random() < 0.1 else "ws"
        cases.append((mode, rng.choice(["u", "u", "d", "l2"]), m, tag))
    # the same message over ONE persistent HTTP/1.1 keep-alive connection of a real Server (transport `httpk`): the answer is
    # the socket-free one and the connection answers the barrier call that follows.  Every generator class is sampled
    # (quota per class first, the rest at random) and a fixed list of bodies is always there.
    n_k = min(ctx.scale(3000, 40000), len(msgs))
    by_tag = {}
    for i, (_, tag) in enumerate(msgs):
        by_tag.setdefault(tag, []).append(i)
    k_pick = []
    for tag in sorted(by_tag):
        k_pick += rng.sample(by_tag[tag], min(len(by_tag[tag]), max(20, n_k // (2 * len(by_tag)))))
    chosen = set(k_pick)
    rest = [i for i in range(len(msgs)) if i not in chosen]
    k_pick += rng.sample(rest, min(len(rest), max(0, n_k - len(k_pick))))
    rng.shuffle(k_pick)
    have = {m for m, _ in msgs}
    fixed = [m for m in KEEPALIVE_FIXED if m not in have]
    cases += [("http", "u", m, "keepalive-fixed") for m in fixed]
    k_cases = [("httpk", "u", m, "keepalive-fixed") for m in KEEPALIVE_FIXED] + [("httpk", "u") + msgs[i] for i in k_pick]
    # the fixed bodies at the start and again at the end of the list (a fresh connection / one that has served many messages)
    cases += k_cases + [("httpk", "u", m, "keepalive-fixed") for m in KEEPALIVE_FIXED]
    res = S.run_engine(ctx, [(t, c, m) for t, c, m, _ in cases])
    by_msg = {}
    for (t, c, m, tag), (a, b) in zip(cases, res):
        tr = "http" if t.startswith("http") else "ws"
        ctx.count(tr if t in ("http", "ws", "wsb") else t)
        ctx.count("gen:" + tag)
        case = {"transport": t, "cfg": c, "msg_hex": m.hex(), "msg": S.show(m), "tag": tag}
        o = S.parse_out(a)
        if o is None:
            ctx.fail("oracle", "engine-crash", case, a)
            continue
        if S.canon(a) != b:
            ctx.fail("diff", "srvmsg-model-differs:" + tr, case, {"impl": a[:1500], "model": b[:1500]})
        cls = oracle_single(ctx, tr, c, m, o, tag, via=t if t == "httpk" else None)
        ctx.count("class:" + str(cls))
        if t == "httpk":
            ctx.count("httpk-class:" + str(cls))
        trivial = S.replies_of(tr, o) == [PARSE_ERR]
        ctx.record({"transport": t, "msg": S.show(m)}, a, nontrivial=not trivial)
        if t in ("httpc", "httpl", "httpk"):
            ref = by_msg.get(m, {}).get("http")
            if ref is None:
                ctx.fail("oracle", "engine-crash", case, "no plain http result of the same message to compare with")
            if ref is not None and (ref[0]["status"], ref[0]["frames"], ref[0]["log"]) != (o["status"], o["frames"], o["log"]):
                ctx.fail("oracle", "http-framing-changes-answer", case,
                         {"plain": [ref[0]["status"]] + [f.decode("latin1") for f in ref[0]["frames"]], t: [o["status"]] + [f.decode("latin1") for f in o["frames"]]})
            continue
        by_msg.setdefault(m, {})[tr] = (o, cls)
    # WS and HTTP give the same response object (non-subscription methods)
    for m, d in by_msg.items():
        if "http" in d and "ws" in d:
            (oh, cls), (ow, _) = d["http"], d["ws"]
            if cls in ("batch", "call:sub", "call:unsub") or (cls == "out-of-oracle-domain" and b"sub" in m):
                continue
            if S.replies_of("http", oh) != S.replies_of("ws", ow) or oh["log"] != ow["log"]:
                ctx.fail("oracle", "ws-http-disagree", {"msg_hex": m.hex(), "msg": S.show(m)},
                         {"http": [f.decode("latin1") for f in S.replies_of("http", oh)], "ws": [f.decode("latin1") for f in S.replies_of("ws", ow)],
                          "http_log": oh["log"], "ws_log": ow["log"]})
            ctx.count("ws-http-pairs-compared")


def replay(payload):
    case = payload["case"]
    print(json.dumps(payload, indent=1)[:3000])
    if isinstance(case, dict) and "msg_hex" in case:
        ts = [case["transport"]] if "transport" in case else ["http", "ws"]
        for t in ts:
            line = "%s %s %s 250\n" % (t, case.get("cfg", "u"), case["msg_hex"] or "-")
            for name, cmd in (("impl", S.impl_bin()), ("model", vlib.model_bin("server"))):
                rc, out = vlib.sh([cmd], input=line)
                o = S.parse_out(out.strip().split("\n")[-1])
                print(t, name, "->", out.strip())
                if o:
                    print("   frames:", [f.decode("latin1") for f in o["frames"]], "log:", o["log"])
    return 0
