"""C02 -- server: a batch is answered by one array with exactly one reply per call entry."""
import itertools, json
import vlib
from gen import jsongen as G
from props import srvmsg_common as S

TRANSLATORS = ["error_codes", "sniff", "error_consts", "batch_gate"]   # Model/Server.v interprets Gen/BatchGateGen.v (C02_gate_order)
MODELS = ["server"]
BINS = {"release": ["srvmsg"]}
RULE = ("cases = (transport, batch config, JSON array bytes) delivered as ONE message to a real jsonrpsee server (HTTP socket-free "
        "through the tower service, WebSocket over loop-back with a raw soketto client collecting EVERY frame until the connection is "
        "quiet) and to the extracted Coq model (Model/Server.v) under the same registry; frames, status and handler log compared byte "
        "for byte.  Generated from: all arrays up to length 3 (thorough: 4) over an alphabet of entry kinds {valid calls to "
        "sync/async/blocking/panicking/unknown methods, handler errors, calls to the subscription and unsubscription methods, "
        "notifications (no id, id outside the domain, duplicate id), invalid objects with and without a recoverable id, non-objects "
        "(scalars, arrays incl. the sequence forms of the request structs), duplicate ids}, all 120 permutations of 5-entry batches, "
        "random batches up to 40 entries, malformed arrays; x batch config {Disabled, Limit(0,1,2,3,5,40), Unlimited} x {HTTP, WS}; a family with a small max_response_body_size (array crossing the limit at every entry position: whole array entry-by-entry equal to the answers alone, or the single -32011 object); "
        "every distinct call entry is also sent alone (entry == single reply).  distinct non-trivial = distinct result lines other "
        "than the fixed gate answers (-32005 / -32010 / -32600 / -32700 with id null)")
TRUSTED = [
    "translators error_codes, sniff (regex readers of the Rust sources), exercised by the differential run; Model/RespSize.v (C08) also imports Gen/LimitsWiringGen.v, none of whose definitions is used here",
    "modelled, not verified: serde_json's Vec<&RawValue> reader and the derive semantics of the request structs (Json/*.v, Model/Wire.v, "
    "Model/Server.v), tokio scheduling, soketto framing; tied by the differential run only",
    "the batch builder is C08's model (Model/RespSize.v); error message texts are transcribed by hand and compared byte for byte",
    "the handler function of the registry exists three times (Rust harness, OCaml driver, Python oracle); a disagreement shows as a diff",
]
ASSUMPTIONS = [
    "messages within max_request_body_size (C07); the response-size limit (C08, -32011) is carried by the theorems, the engines use the "
    "10 MiB default so that it never fires",
    "deterministic handlers (entry == single reply); a handler panics only inside register_blocking_method",
    "KNOWN FINDING ws-batch-entry-calls-subscription-method: a call to a subscription method inside a WebSocket batch is answered "
    "both by a frame of its own (PendingSubscriptionSink::accept/reject write to the connection) and inside the array; "
    "C02_nothing_outside_array is stated outside that class, C02_sub_refuted is the witness",
    "'nothing outside the array' on WebSocket is observed over a quiet period after each batch",
]

GATES = (b'"code":-32005,', b'"code":-32010,', b'{"jsonrpc":"2.0","id":null,"error":{"code":-32600,', b'{"jsonrpc":"2.0","id":null,"error":{"code":-32700,')

# entry kinds -> generator of one entry text given (rng, a fresh id text)
KINDS = {
    "call": lambda rng, i: S.obj(rng, S.request_members(rng, method=rng.choice(["echo", "aecho", "becho", "hexs", 'x"y']), idt=i,
                                                        params=rng.choice([None, b"[1]", b"[1, 2]", b'{"a":1}', b'["calm"]'])), 0),
    "call-err": lambda rng, i: S.obj(rng, S.request_members(rng, method=rng.choice(["echo", "aecho", "becho"]), idt=i,
                                                            params=rng.choice([b'["err"]', b'["fail"]'])), 0),
    "call-panic": lambda rng, i: S.obj(rng, S.request_members(rng, method="bpanic", idt=i, params=rng.choice([None, b"[1]"])), 0),
    "call-parse1": lambda rng, i: S.obj(rng, S.request_members(rng, method="parse1", idt=i, params=rng.choice([b"[7]", b'["x"]', None])), 0),
    "call-unknown": lambda rng, i: S.obj(rng, S.request_members(rng, method="nope", idt=i, params=None), 0),
    "call-sub": lambda rng, i: S.obj(rng, S.request_members(rng, method="sub", idt=i, params=rng.choice([None, b"[1]", b'["rej"]'])), 0),
    "call-unsub": lambda rng, i: S.obj(rng, S.request_members(rng, method="unsub", idt=i, params=rng.choice([b'["S#1"]', b"[1]", None])), 0),
    "dup-id": lambda rng, i: S.obj(rng, S.request_members(rng, method="echo", idt=b"1", params=b"[0]"), 0),
    "notif": lambda rng, i: rng.choice([b'{"jsonrpc":"2.0","method":"echo","params":[1]}', b'{"jsonrpc":"2.0","method":"nope"}',
                                        b'{"jsonrpc":"2.0","id":1.5,"method":"echo"}', b'{"jsonrpc":"2.0","id":[],"method":"bpanic"}',
                                        b'{"jsonrpc":"2.0","id":1,"id":2,"method":"echo"}', b'{"method":"sub","jsonrpc":"2.0"}']),
    "invalid-id": lambda rng, i: rng.choice([b'{"id":' + i + b"}", b'{"jsonrpc":"1.0","id":' + i + b',"method":"echo"}',
                                             b'{"jsonrpc":"2.0","id":' + i + b',"method":1}', b'{"jsonrpc":"2.0","id":' + i + b"}",
                                             b'{"jsonrpc":"2.0","id":' + i + b',"method":"echo","params":1,"params":2}']),
    "invalid-noid": lambda rng, i: rng.choice([b"{}", b'{"foo":1}', b'{"jsonrpc":"2.0","method":1}', b'{"id":1.5}', b'{"id":1,"id":2}',
                                               b'{"jsonrpc":"2.0","method":"echo","method":"echo"}']),
    "nonobject": lambda rng, i: rng.choice([b"1", b'"x"', b"null", b"true", b"[]", b"[1]", b'["2.0",5,"echo",[1]]', b'["2.0","echo",[1]]',
                                            b"[null]", b'["2.0",' + i + b',"echo",null]', b'["2.0","bpanic",null]', b'["a"]', b"-0", b"1e5"]),
}
SMALL = ["call", "call-sub", "notif", "invalid-id", "invalid-noid", "nonobject", "dup-id", "call-unsub"]
CFGS = ["d", "u", "l0", "l1", "l2", "l3", "l5", "l40"]


def fresh_id(rng, k):
    return rng.choice([str(100 + k).encode(), b'"id%d"' % k, str(100 + k).encode(), b"null" if rng.random() < 0.1 else str(k).encode()])


def build(rng, kinds, wsp=0.0):
    es = [KINDS[kd](rng, fresh_id(rng, k)) for k, kd in enumerate(kinds)]
    return b"[" + b",".join(G.ws(rng, wsp) + e + G.ws(rng, wsp) for e in es) + b"]" if es else b"[" + G.ws(rng, wsp) + b"]"


def gen_cases(ctx):
    rng = ctx.rng
    cases = []   # (transport, cfg, msg, tag)
    batches = []

    # all arrays up to length L over the small alphabet
    L = 4 if ctx.thorough else 3
    for n in range(0, L + 1):
        for kinds in itertools.product(SMALL, repeat=n):
            batches.append((build(rng, kinds), "exhaustive-le%d" % L))
    if not (ctx.thorough or ctx.search_mode):
        keep = [b for b in batches if b[0].count(b"jsonrpc") <= 1 or rng.random() < 0.8]
        batches = keep
    # all permutations of 5-entry batches
    for _ in range(ctx.scale(8, 150)):
        kinds = [rng.choice(list(KINDS)) for _ in range(5)]
        es = [KINDS[kd](rng, fresh_id(rng, k)) for k, kd in enumerate(kinds)]
        for perm in itertools.permutations(es):
            batches.append((b"[" + b",".join(perm) + b"]", "permutations-5"))
    # random longer ones
    for _ in range(ctx.scale(1500, 40000)):
        n = rng.choice([1, 2, 2, 3, 3, 4, 4, 5, 6, 8, 13, 20, 39, 40, 41])
        batches.append((build(rng, [rng.choice(list(KINDS)) for _ in range(n)], wsp=rng.choice([0, 0, 0.3])), "random"))
    # notification-only and mostly-notification batches
    for _ in range(ctx.scale(150, 1500)):
        n = rng.choice([1, 2, 3, 4, 9])
        batches.append((build(rng, [rng.choice(["notif"] * 6 + ["call", "nonobject"]) for _ in range(n)], wsp=rng.choice([0, 0.3])), "mostly-notifications"))
    # malformed arrays / odd spacing / encodings
    base = b'{"jsonrpc":"2.0","id":1,"method":"echo"}'
    for m in [b"[", b"[]x", b"[] ]", b"[,]", b"[1,]", b"[1 2]", b"[" + base, b"[" + base + b",]", b"[" + base + b"]]", b"[" + base + b"] x",
              b"[" + base + b"]\n\t ", b" \n[ " + base + b" , " + base + b" ]", b"[[" + base + b"]]", b"[" + base + b',"\xff"]',
              b'[{"jsonrpc":"2.0","id":1,"method":"echo","zz":"\xff"}]', b'[{"jsonrpc":"2.0","id":1,"method":"echo","zz":"\\ud800"}]',
              b"[nul]", b"[" + base + b",nul]", b"\x0c[" + base + b"]", b"[" + b"[" * 200 + b"]" * 200 + b"]", b"[" + base * 2 + b"]",
              b"[\x0c" + base + b"]", b'[{"jsonrpc":"2.0","id":1,"method":"echo"} {"jsonrpc":"2.0","id":2,"method":"echo"}]']:
        batches.append((m, "malformed"))
    for _ in range(ctx.scale(150, 3000)):
        batches.append((G.mutate_bytes(rng, build(rng, [rng.choice(list(KINDS)) for _ in range(rng.choice([1, 2, 3]))])), "byte-mutated"))

    # a small response-size limit: 2..5 echo calls whose answers each fit on their own while the array crosses the limit at
    # every entry position (with room left / no room left for a small error object): the reply is the whole array, entry by
    # entry equal to the answers the calls get alone, or the single -32011 object -- never an array with an altered entry
    limited = []
    for _ in range(ctx.scale(60, 1200)):
        n = rng.choice([2, 3, 4, 5])
        sizes = [rng.choice([10, 60, 130, 300]) for _ in range(n)]
        es = [b'{"jsonrpc":"2.0","id":%d,"method":"%s","params":["%s"]}' % (k + 1, rng.choice([b"echo", b"aecho", b"becho"]), b"p" * z) for k, z in enumerate(sizes)]
        if rng.random() < 0.3:
            es.insert(rng.randrange(len(es) + 1), b'{"jsonrpc":"2.0","method":"echo","params":[0]}')
        if rng.random() < 0.3:
            es.insert(rng.randrange(len(es) + 1), rng.choice([b"1", b'{"id":7,"method":1}', b'{"id":"q","foo":true}']))
        approx = [z + 45 for z in sizes]
        pos = rng.randrange(1, n + 1)
        limit = max(max(approx) + 60, sum(approx[:pos]) + rng.choice([-20, 5, 60, 125, 200]))
        limited.append((b"[" + b",".join(es) + b"]", "response-limit", "u+r%d" % limit))

    n_ws = ctx.scale(3000, 100000)
    ws_idx = set(rng.sample(range(len(batches)), min(n_ws, len(batches))))
    for k, (m, tag) in enumerate(batches):
        cfgs = CFGS if (tag == "malformed" or rng.random() < 0.08) else [rng.choice(["u"] * 9 + ["l40"] * 3 + ["l5", "l5", "l3", "l3", "l2", "l1", "l0", "d", "d"])]
        for c in cfgs:
            cases.append(("http", c, m, tag))
            if k in ws_idx:
                cases.append(("ws", c, m, tag))
    # only invalid entries under a small response limit
    for n in (1, 2, 3, 6, 20):
        ents = [rng.choice([b"1", b'{"id":7,"method":1}', b'{"id":"q","foo":true}']) for _ in range(n)]
        for limit in (50, 79, 80, 81, 85 * n - 30, 85 * n + 40):
            limited.append((b"[" + b",".join(ents) + b"]", "response-limit", "u+r%d" % max(limit, 1)))
    for m, tag, c in limited:
        cases.append(("http", c, m, tag))
        cases.append(("ws", c, m, tag))
    return cases


def seq_form_entry(v):
    """the class batch-entry-array-read-as-struct: an array that matches the sequence form of Request / Notification / InvalidRequest"""
    if not isinstance(v, list) or isinstance(v, S.Obj):
        return False
    if len(v) == 4 and v[0] == "2.0" and S.in_id_domain(v[1]) and isinstance(v[2], str):
        return True
    if len(v) == 3 and v[0] == "2.0" and isinstance(v[1], str):
        return True
    return len(v) == 1 and S.in_id_domain(v[0])


def oracle_batch(ctx, transport, cfg, msg, o, tag, want_single):
    """C02 restated on the implementation's output alone.  want_single: (transport, entry text) pairs to send alone are appended."""
    case = {"transport": transport, "cfg": cfg, "msg_hex": msg.hex(), "msg": S.show(msg), "tag": tag}
    reps = S.replies_of(transport, o)
    sn = S.sniffed(msg)
    if sn is None or sn[0] != "batch":
        return "not-a-batch", None
    text = sn[1]
    if not o["alive"]:
        ctx.fail("oracle", "connection-stops-serving", case, "no answer to a later call on the same connection")

    def gate(code, why):
        good = len(reps) == 1
        if good:
            ok, i, kind, payload = S.wellformed(reps[0])
            good = ok and kind == "error" and payload[0] == code and i is None
        if not good:
            ctx.fail("oracle", "batch-gate-answer", case, {"why": why, "want": code, "got": [r.decode("latin1") for r in reps]})
        if o["log"]:
            ctx.fail("oracle", "batch-gate-executed-entries", case, {"why": why, "log": o["log"]})

    cfg, _, rs = cfg.partition("+r")          # optional response-size limit of the case
    if cfg == "d":
        gate(-32005, "batching disabled")
        return "gate:disabled", None
    try:
        v, isjson = S.parse_domain(text)
    except S.OutOfDomain:
        return "out-of-oracle-domain", None
    if not isjson or not isinstance(v, list) or isinstance(v, S.Obj):
        gate(-32700, "not a JSON array")
        return "not-json", None
    if cfg.startswith("l") and len(v) > int(cfg[1:]):
        gate(-32010, "batch longer than the limit")
        return "gate:too-long", None
    if len(v) == 0:
        gate(-32600, "empty batch")
        return "gate:empty", None
    spans = S.array_spans(text)
    entries = [S.classify_value(x, sp) for x, sp in zip(v, spans)]
    answered = [(k, e) for k, e in enumerate(entries) if e[0] != "notif"]
    calls = [(e[2], e[3]) for e in entries if e[0] == "call"]
    in_sub_class = transport == "ws" and any(S.REG.get(m) == "sub" for m, _ in calls)
    in_seq_class = any(seq_form_entry(x) for x in v)

    def fail(key, detail):
        if in_seq_class:
            key = "batch-entry-array-read-as-struct"
        ctx.fail("oracle", key, case, detail)

    want_log = S.expected_log(transport, calls)
    if rs and len(reps) >= 1:
        ok, i, kind, payload = S.wellformed(reps[-1])
        if ok and kind == "error" and payload[0] == -32011 and i is None:
            # "only the response-size limit (C08) may replace the array by a single error": whether it was right to do so is
            # judged by the model (diff) and by C08; here: nothing else was sent, and the handlers that ran are a prefix
            if len(reps) != 1 and not in_sub_class:
                fail("batch-frames-outside-array", [r.decode("latin1") for r in reps])
            if o["log"] != want_log[:len(o["log"])]:
                fail("batch-handler-log", {"want_prefix_of": want_log, "got": o["log"]})
            return "replaced-by-32011", None
    if o["log"] != want_log:
        fail("batch-handler-log", {"want": want_log, "got": o["log"]})
    if not answered:
        if reps:
            fail("notification-only-batch-answered", [r.decode("latin1") for r in reps])
        if transport == "http" and (o["status"] != "200" or o["frames"] not in ([], [b"null"])):
            fail("http-notification-ack", {"status": o["status"], "body": [f.decode("latin1") for f in o["frames"]]})
        return "all-notifications", None
    if not reps:
        fail("batch-not-answered", "no reply")
        return "answered", None
    arr = reps[-1]
    els = S.array_spans(arr)
    if els is None:
        fail("batch-reply-not-an-array", arr.decode("latin1"))
        return "answered", None
    if len(els) != len(answered):
        fail("batch-array-shape", {"entries_to_answer": len(answered), "responses": len(els), "reply": arr.decode("latin1")[:600]})
        return "answered", None
    if len(reps) != 1:
        # the known class, exactly: over WebSocket, the frames outside the array are the responses of the entries that
        # are valid calls to a subscription method (each also present in the array), in entry order -- anything else
        # outside the array is a different failure
        sub_els = [el for (k, e), el in zip(answered, els) if e[0] == "call" and S.REG.get(e[2]) == "sub"]
        if in_sub_class and reps[:-1] == sub_els:
            ctx.fail("oracle", "ws-batch-entry-calls-subscription-method", case,
                     {"frames": [r.decode("latin1") for r in reps], "why": "a response to a batch entry was delivered outside the array"})
        else:
            fail("batch-frames-outside-array", [r.decode("latin1") for r in reps])
    for (k, e), el in zip(answered, els):
        if e[0] == "call":
            why = S.reply_matches(el, e[1], S.expected_call_reply(transport, e[2], e[3]))
            if why:
                fail("batch-entry-reply-wrong", {"entry": k, "why": why, "got": el.decode("latin1")})
            want_single.append((transport, spans[k], el, case))
        else:
            ok, i, kind, payload = S.wellformed(el)
            want_id = e[1] if e[2] else None
            if not ok or kind != "error" or payload[0] != -32600 or not S.same_id(i, want_id):
                fail("batch-invalid-entry-reply-wrong", {"entry": k, "want_id": want_id, "got": el.decode("latin1")})
    return "answered", None


def run(ctx):
    ctx.engines = ["srvmsg (harness/src/bin/srvmsg.rs vs modelrun/server_driver.ml over coq/Model/Server.v), batches, HTTP + WebSocket"]
    cases = gen_cases(ctx)
    res = S.run_engine(ctx, [(t, c, m) for t, c, m, _ in cases])
    want_single = []
    for (t, c, m, tag), (a, b) in zip(cases, res):
        ctx.count(t)
        ctx.count("cfg:" + ("limit" if c.startswith("l") else "response-limit" if "+r" in c else c))
        ctx.count("gen:" + tag)
        case = {"transport": t, "cfg": c, "msg_hex": m.hex(), "msg": S.show(m), "tag": tag}
        o = S.parse_out(a)
        if o is None:
            ctx.fail("oracle", "engine-crash", case, a)
            continue
        if S.canon(a) != b:
            ctx.fail("diff", "srvmsg-model-differs:" + t, case, {"impl": a[:1500], "model": b[:1500]})
        cls, _ = oracle_batch(ctx, t, c, m, o, tag, want_single)
        ctx.count("class:" + cls)
        reps = S.replies_of(t, o)
        trivial = len(reps) == 1 and any(g in reps[0][:60] for g in GATES) and not reps[0].startswith(b"[")
        ctx.record({"transport": t, "cfg": c, "msg": S.show(m)}, a, nontrivial=not trivial)
    # the response to a valid call entry equals the response that entry gets when sent alone
    singles = {}
    for t, entry, el, case in want_single:
        singles.setdefault((t, entry), []).append((el, case))
    keys = sorted(singles)
    if not (ctx.thorough or ctx.search_mode) and len(keys) > 2500:
        keys = ctx.rng.sample(keys, 2500)
    res = S.run_engine(ctx, [(t, "u", entry) for t, entry in keys])
    for (t, entry), (a, b) in zip(keys, res):
        ctx.count("single-resend:" + t)
        o = S.parse_out(a)
        if S.canon(a) != b:
            ctx.fail("diff", "srvmsg-model-differs:" + t, {"transport": t, "cfg": "u", "msg_hex": entry.hex(), "msg": S.show(entry)},
                     {"impl": a[:1500], "model": b[:1500]})
        if o is None:
            continue
        reps = S.replies_of(t, o)
        ctx.record({"transport": t, "single": S.show(entry)}, a)
        for el, case in singles[(t, entry)]:
            if reps != [el]:
                ctx.fail("oracle", "batch-entry-differs-from-single", case,
                         {"entry": S.show(entry), "in_batch": el.decode("latin1"), "alone": [r.decode("latin1") for r in reps]})
                break


def replay(payload):
    from props import c01
    return c01.replay(payload)
