"""C03 -- each client call completes with exactly the response bearing its own id."""
from props import clihist_common as C
from props._client_family import *  # noqa

TRANSLATORS = ["http_gate", "sniff", "client_dispatch", "id_alloc", "shutdown_order"]     # id_alloc: Gen/IdAllocGen.v, how next_request_id / next_batch_id_range touch the shared id counter (Model/IdAlloc.v, theorems in Props/C12.v); client_dispatch: Gen/ClientDispatchGen.v, the dispatch of handle_recv_message read from the source (Model/ClientMgr.v interprets it)
MODELS = ["clihist", "httpbatch", "clifault"]
BINS = {"release": ["clihist", "httpbatch", "idmt", "clifault"], "debug": ["clifault"]}

RULE = ("histories of the real async client over a scripted mock transport vs the extracted ClientMgr model: random "
        "histories (calls, batches, subscriptions, notifications; answers in any order, duplicated, omitted, foreign ids; "
        "both id kinds; gated transport) + every permutation of the answers to k<=3 (quick) / k<=4 (thorough) concurrent calls with one "
        "answer duplicated/omitted.  Oracle on the implementation alone: payload markers tie every completion to the id its call "
        "put on the wire; at most one completion per call; wire ids pairwise distinct.  Family c03_held_histories: 1..3 calls (or a call and "
        "a batch / a subscribe call) are on the wire, their callers are then NOT polled (harness ops hold .. unhold; the model driver "
        "reports the completions of that window at unhold) while the server answers some / all of them and the connection dies "
        "(receive error, unparseable frame, response with no pending id; control without): a request answered before the fatal event "
        "completes with that answer, never with the disconnect error (oracle key answered-call-completed-with-disconnect).  distinct non-trivial = distinct output "
        "lines with >= 2 completions/stream polls.  HTTP client (engine httpbatch, single-call mode, Model/HttpBatch.v http_single): "
        "one call answered with its own id / another id of either kind / null id, result or error object, and verbatim bodies; "
        "oracle: a result is delivered iff the response bears the call's own id (derived PartialEq: 1 and \"1\" differ).  "
        "Engine clifault, family recv-cancel-safety (a response delivered in two halves while other arms of the read task's select fire): "
        "the call completes with exactly that response")


def run(ctx):
    ctx.engines = ["clihist (harness/src/bin/clihist.rs vs modelrun/clihist_driver.ml over coq/Model/ClientMgr.v)",
                   "httpbatch single-call mode (harness/src/bin/httpbatch.rs vs modelrun/httpbatch_driver.ml over coq/Model/HttpBatch.v)"]
    hs = C.c03_permutation_histories(ctx.rng, kmax=ctx.scale(3, 4))
    hs += random_histories(ctx, ctx.scale(1500, 150000))
    # a batch entry is a call too: every id sequence of length n from the batch's own range (n <= 3 quick, 4 thorough);
    # the batch oracle checks that no entry completes with a response bearing another entry's id
    hs += C.c12_idseq_histories(ctx.rng, nmax=ctx.scale(3, 4))
    # a batch reply sharing its array with a notification for a full (lagging) subscription
    hs += C.c12_mixed_array_histories(ctx.rng, nmax=ctx.scale(3, 4))
    # a response whose id is the pending id written in the other JSON kind
    hs += C.c03_idkind_histories(ctx.rng)
    # the callers are not polled (harness ops hold .. unhold) while the server answers and the connection then dies
    hs += C.c03_held_histories(ctx.rng)
    # serde's SEQUENCE forms: calls / batch entries answered with error objects written `[code,message,data]`, notifications
    # written `["2.0",method,params]` / params `[sid,value]` next to them
    hs += C.seqform_histories(ctx.rng, reps=ctx.scale(3, 40))
    C.run_histories(ctx, hs, ["c03", "c12"])
    from props import httpbatch_common as HB
    HB.run_single(ctx)
    # a response that arrives in two halves while the read task's other select arms fire (receive is not cancel-safe)
    from props import clifault_common as CF
    CF.run_cancel(ctx)
    ctx.exhaustive = False
    from props import idmt_common
    idmt_common.run(ctx)      # last (ctx.record draws from ctx.rng): thread-level stress test of the id allocator (ids in flight pairwise distinct), all facts must be zero
