"""C04 -- Server: a subscription's notifications are its own, ordered, and stop at close."""
import json
import vlib
from props import subhist_common as S
from props import sinkbp_common as BP
from props import connq_common as CQ

TRANSLATORS = ["accept_order", "table_ops", "error_consts"]     # Model/SubBook.v interprets the order of accept()'s steps and how each site takes the subscriber table's mutex (Gen/TableOpsGen.v), both read from the source; Model/SubBookWire.v (engine subhist) prints the generated codes/messages
MODELS = ["subhist", "sinkbp", "connq"]
BINS = {"release": ["subhist", "sinkbp", "connq"]}
RULE = ("cases = one script line each (subscribe/accept/reject/abandoned call/drop pending/clone/drop/send/try_send/is_closed/return/unsubscribe/"
        "connection drop/server stop over 1..2 connections, several concurrent subscriptions), run on a real "
        "jsonrpsee_server::Server over loop-back WebSocket with a remote-controlled handler (harness/src/bin/subhist.rs) "
        "and replayed on the extracted SubBook LTS (modelrun/subhist_driver.ml); results diffed line by line; the C04 "
        "oracle (tools/props/subhist_common.py:oracles) is evaluated on the implementation output alone.  Sources: fixed "
        "corpus, random walks (+ the same walk with a connection drop injected), long multi-subscription walks, and the "
        "exhaustive space of short scripts (sampled in the quick tier), and the multi-connection families of C06's entry-point "
        "dimension (script token E<server|tower|towermw>: the same script on a Server::start server and on tower services built from clones of one "
        "TowerServiceBuilder, see tools/props/subhist_common.py:entry_cases).  Family id-reuse (entry suffix +r: an IdProvider that hands out ONE id every time; one generation per connection in the table at a time, earlier generations' sinks used / cloned / dropped later; the glue maps unsubscribe targets to the shared id on the wire and renames the ids of the output by generation -- subhist_common.py:rename_by_generation -- before oracle and comparison).  distinct non-trivial = distinct result lines in "
        "which at least one notification frame was delivered.  Back-pressure (engine sinkbp): cases = one script line each "
        "(send/try_send/send_timeout of fresh messages, re-send of a handed-back message through each path, recv, close; "
        "capacities 1..4) run on a real SubscriptionSink over the bounded channel of Methods::raw_json_request / "
        "Methods::subscribe (harness/src/bin/sinkbp.rs, no server) and on the extracted SinkQueue model "
        "(modelrun/sinkbp_driver.ml) with the subscription id the implementation reported; diffed token by token; the "
        "oracle tools/props/sinkbp_common.py:oracle (every received frame is exactly the notification of a produced "
        "payload with the subscription's own id and method, received sequence = payloads of the accepted sends in order, "
        "accepted minus received <= capacity, nothing sent after close is delivered) is evaluated on the implementation "
        "output alone.  Sources: all short scripts, the fill/fail/recv/re-send family, random walks.  Connection queue (engine connq): "
        "cases = one script line each (subscribe / accept / reject / send / try_send / cancel of the parked future with or without a "
        "closing value returned in the same poll / return / unsubscribe / ordinary call / writer takes one frame / connection gone; "
        "capacities 1..4, several subscriptions) run on the subscribe/unsubscribe/method callbacks of a real RpcModule over ONE bounded "
        "MethodSink with the harness as the connection's writer (harness/src/bin/connq.rs, no server) and on the extracted ConnQueue model "
        "(modelrun/connq_driver.ml, accept interpreted from the generated accept_steps); diffed group by group; the oracle "
        "tools/props/connq_common.py:oracle (no notification of a subscription leaves the queue before the successful answer to its "
        "subscribe call; a subscription whose accept never returned Ok is never named by a frame; items = the sends that reported ok, in "
        "order; places in use <= capacity; a closing notification is the value the handler returned, at most once) is evaluated on the "
        "implementation output alone.  Sources: all scripts of <= 4 steps, the parked-and-cancelled accept/reject family with every closing "
        "value and the queue filled by call answers or by another subscription's notifications, random walks")
TRUSTED = [
    "modelled, not verified: tokio mpsc/oneshot/semaphore semantics and the WS writer (Model/SubBook.v), tied by the differential run only",
    "harness: handler remote control, quiescence detection (barrier round-trips / idle rounds), counting IdProvider, frame canonicalisation (error.data dropped)",
    "family id-reuse: the constant-id IdProvider of the harness and the glue that renames the shared id by generation (subhist_common.py: impl_line_of / rename_by_generation); sound only for the family's scripts (a connection subscribes again only after its previous subscription is out of the table; only the latest generation's handler returns a closing value), the model itself numbers subscriptions distinctly",
    "sinkbp: tokio's bounded mpsc (capacity, FIFO, close) is modelled by Model/SinkQueue.v and tied by the differential run only; the harness reads "
    "the kind (Complete/NeedsData) and text of a handed-back SubscriptionMessage off its Debug output, reports a `send` that does not finish in 25 ms "
    "as wouldblock and drops it, uses send_timeout(30 ms), and passes the randomly drawn subscription id from the implementation's output to the model",
    "connq: tokio's bounded mpsc with its first-come-first-served line of waiting senders, the oneshot of the subscribe call and try_join in the "
    "spawned task of register_subscription are modelled by Model/ConnQueue.v and tied by the differential run only; the harness re-implements the "
    "few lines of the WS transport that decide which answers are written to the sink (method-call kind: yes, subscription kind: no), polls to "
    "quiescence by a fixed number of yield rounds on a current-thread runtime, cancels a parked handler command by dropping its future in a select!, "
    "and uses a counting IdProvider (subscription id = 1000 + handle)",
]
ASSUMPTIONS = [
    "partial: real interleavings inside tokio are sampled (one harness-sequenced schedule on a current-thread runtime), not enumerated; "
    "the all-traces theorems cover the LTS, whose steps keep the code's seams (accept = enqueue then insert; send = check then enqueue; writer pops one; return then close-notify)",
    "the window between 'response enqueued' and 'table entry inserted' is a model step that the runtime harness does not reproduce",
    "subscribe calls inside batches are out of scope here (C02); payload size limits are C08",
    "engine subhist still has the unbounded queue (its harness uses the default 1024-message buffer and never fills it, so try_send is exercised there only where it equals send); "
    "back-pressure -- a full queue, the try_send / send_timeout failures, the message they hand back and its re-send through send / try_send / send_timeout, close of the receiving end -- "
    "is covered by engine sinkbp over Model/SinkQueue.v (theorems C04_bp_*) for ONE subscription with one handler and one receiver acting strictly in turn, on the bounded channel of "
    "Methods::raw_json_request / Methods::subscribe (capacity = buf_size), not over a socket and not interleaved with other subscriptions, unsubscribe or the closing notification",
    "'own id and method' is about messages the library completes (From<Box<RawValue>>) and the closing notification; SubscriptionMessage::new lets a handler name any id itself and is not used by the harness",
    "after ServerHandle::stop a connection with an unanswered subscribe call stays open until that call is answered (graceful stop, C10); its subscriptions are closed from then on (theorem C04_stop_closes_idle_connections)",
    "a handler that returned but handed a clone of its sink to another task can still send after the closing notification: the property lists unsubscribe / connection end / server stop as closing events, not handler return",
    "the connection-level queue shared by several subscriptions and calls, with accept / reject / send PARKED on a full queue and CANCELLED by the handler "
    "(tokio::time::timeout / select!), is covered by engine connq over Model/ConnQueue.v (theorems C04_cq_*, for all step sequences, capacities and numbers "
    "of subscriptions): one connection, steps observed at quiescence (one schedule per script; somebody waits only while the queue is full), no abandoned "
    "subscribe call, no sink clones, no send_timeout there; C04_cq_never_accepted_is_silent is proved through `head_ok accept_steps = true`, computed on the "
    "order of accept()'s two sends read from the source, and stops compiling when the subscribe call is notified before the answer is handed to the queue; "
    "the closing notification of a handler that returns after unsubscribe is still written (as in engine subhist: it is the handler's own closing value)",
]


def has_notification(out_text):
    return '"method":"note"' in out_text


def run(ctx):
    ctx.engines = ["subhist (harness/src/bin/subhist.rs on a real Server vs modelrun/subhist_driver.ml over coq/Model/SubBook.v)"]
    cases = S.gen_cases(ctx)
    lines = [l for l, _ in cases]
    ri, rm, cached = S.run_engine(lines)
    ctx.extra["engine_cache_hit"] = cached
    skipped = 0
    found = []
    for (line, tag), a, b in zip(cases, ri, rm):
        ctx.count(tag)
        o = S.oracles(line, a)
        known_c06 = any(k == S.KNOWN_KEY for k, _ in o["C06"])
        if a != b:
            if known_c06:
                # the model has the repaired drop (C06); histories on which the implementation shows the old clone-drop
                # behaviour belong to C06's finding, C04's own oracle below still applies to them
                skipped += 1
            else:
                ctx.fail("diff", "subhist-model-differs", {"line": line, "tag": tag}, {"impl": a[:1500], "model": b[:1500]})
        for key, detail in o["C04"]:
            found.append((key, line, tag, detail))
        nfr = a.count('"method":"note"')
        ctx.count("notifications:%s" % ("0" if nfr == 0 else "1-3" if nfr <= 3 else "4+"))
        ctx.record({"line": line}, a, nontrivial=has_notification(a), validated=(a == b))
    S.report_oracle_failures(ctx, "C04", found)
    if skipped:
        ctx.note("%d histories show the C06 clone-drop defect (key %s); excluded from C04's model diff, C04 oracle still applied" % (skipped, S.KNOWN_KEY))
    BP.run(ctx)
    CQ.run(ctx)


def replay(payload):
    case = payload.get("case")
    if isinstance(case, dict) and "bp" in case:
        return BP.replay_case(case)
    if isinstance(case, dict) and "cq" in case:
        return CQ.replay_case(case)
    return S.replay_case(payload, "C04")
