"""C04 -- Server: a subscription's notifications are its own, ordered, and stop at close."""
import json
import vlib
from props import subhist_common as S
from props import sinkbp_common as BP

TRANSLATORS = ["accept_order"]     # Model/SubBook.v interprets the order of accept()'s steps read from the source
MODELS = ["subhist", "sinkbp"]
BINS = {"release": ["subhist", "sinkbp"]}
RULE = ("cases = one script line each (subscribe/accept/reject/abandoned call/drop pending/clone/drop/send/try_send/is_closed/return/unsubscribe/"
        "connection drop/server stop over 1..2 connections, several concurrent subscriptions), run on a real "
        "jsonrpsee_server::Server over loop-back WebSocket with a remote-controlled handler (harness/src/bin/subhist.rs) "
        "and replayed on the extracted SubBook LTS (modelrun/subhist_driver.ml); results diffed line by line; the C04 "
        "oracle (tools/props/subhist_common.py:oracles) is evaluated on the implementation output alone.  Sources: fixed "
        "corpus, random walks (+ the same walk with a connection drop injected), long multi-subscription walks, and the "
        "exhaustive space of short scripts (sampled in the quick tier).  distinct non-trivial = distinct result lines in "
        "which at least one notification frame was delivered.  Back-pressure (engine sinkbp): cases = one script line each "
        "(send/try_send/send_timeout of fresh messages, re-send of a handed-back message through each path, recv, close; "
        "capacities 1..4) run on a real SubscriptionSink over the bounded channel of Methods::raw_json_request / "
        "Methods::subscribe (harness/src/bin/sinkbp.rs, no server) and on the extracted SinkQueue model "
        "(modelrun/sinkbp_driver.ml) with the subscription id the implementation reported; diffed token by token; the "
        "oracle tools/props/sinkbp_common.py:oracle (every received frame is exactly the notification of a produced "
        "payload with the subscription's own id and method, received sequence = payloads of the accepted sends in order, "
        "accepted minus received <= capacity, nothing sent after close is delivered) is evaluated on the implementation "
        "output alone.  Sources: all short scripts, the fill/fail/recv/re-send family, random walks")
TRUSTED = [
    "modelled, not verified: tokio mpsc/oneshot/semaphore semantics and the WS writer (Model/SubBook.v), tied by the differential run only",
    "harness: handler remote control, quiescence detection (barrier round-trips / idle rounds), counting IdProvider, frame canonicalisation (error.data dropped)",
    "sinkbp: tokio's bounded mpsc (capacity, FIFO, close) is modelled by Model/SinkQueue.v and tied by the differential run only; the harness reads "
    "the kind (Complete/NeedsData) and text of a handed-back SubscriptionMessage off its Debug output, reports a `send` that does not finish in 25 ms "
    "as wouldblock and drops it, uses send_timeout(30 ms), and passes the randomly drawn subscription id from the implementation's output to the model",
]
ASSUMPTIONS = [
    "partial: real interleavings inside tokio are sampled (one harness-sequenced schedule on a current-thread runtime), not enumerated; "
    "the all-traces theorems cover the LTS, whose steps keep the code's seams (accept = enqueue then insert; send = check then enqueue; writer pops one; return then close-notify)",
    "the window between 'response enqueued' and 'table entry inserted' is a model step that the runtime harness does not reproduce",
    "subscribe calls inside batches are out of scope here (C02); payload size limits are C08",
    "engine subhist still has the unbounded queue (its harness uses the default 1024-message buffer and never fills it, so try_send is exercised there only where it equals send); "
    "back-pressure -- a full queue, the try_send / send_timeout failures, the message they hand back and its re-send through send / try_send / send_timeout, close of the receiving end -- "
    "is covered by engine sinkbp over Model/SinkQueue.v (theorems C04_bp_*) for ONE subscription with one handler and one receiver acting strictly in turn, on the bounded channel of "
    "Methods::raw_json_request / Methods::subscribe (capacity = buf_size), not over a socket and not interleaved with other subscriptions, unsubscribe or the closing notification",
    "'own id and method' is about messages the library completes (From<Box<RawValue>>) and the closing notification; SubscriptionMessage::new lets a handler name any id itself and is not used by the harness",
    "after ServerHandle::stop a connection with an unanswered subscribe call stays open until that call is answered (graceful stop, C10); its subscriptions are closed from then on (theorem C04_stop_closes_idle_connections)",
    "a handler that returned but handed a clone of its sink to another task can still send after the closing notification: the property lists unsubscribe / connection end / server stop as closing events, not handler return",
]


def has_notification(out_text):
    return '"method":"note"' in out_text


def run(ctx):
    ctx.engines = ["subhist (harness/src/bin/subhist.rs on a real Server vs modelrun/subhist_driver.ml over coq/Model/SubBook.v)"]
    cases = S.gen_cases(ctx)
    lines = [l for l, _ in cases]
    ri, rm, cached = S.run_engine(lines)
    ctx.extra["engine_cache_hit"] = cached
    skipped = 0
    found = []
    for (line, tag), a, b in zip(cases, ri, rm):
        ctx.count(tag)
        o = S.oracles(line, a)
        known_c06 = any(k == S.KNOWN_KEY for k, _ in o["C06"])
        if a != b:
            if known_c06:
                # the model has the repaired drop (C06); histories on which the implementation shows the old clone-drop
                # behaviour belong to C06's finding, C04's own oracle below still applies to them
                skipped += 1
            else:
                ctx.fail("diff", "subhist-model-differs", {"line": line, "tag": tag}, {"impl": a[:1500], "model": b[:1500]})
        for key, detail in o["C04"]:
            found.append((key, line, tag, detail))
        nfr = a.count('"method":"note"')
        ctx.count("notifications:%s" % ("0" if nfr == 0 else "1-3" if nfr <= 3 else "4+"))
        ctx.record({"line": line}, a, nontrivial=has_notification(a), validated=(a == b))
    S.report_oracle_failures(ctx, "C04", found)
    if skipped:
        ctx.note("%d histories show the C06 clone-drop defect (key %s); excluded from C04's model diff, C04 oracle still applied" % (skipped, S.KNOWN_KEY))
    BP.run(ctx)


def replay(payload):
    case = payload.get("case")
    if isinstance(case, dict) and "bp" in case:
        return BP.replay_case(case)
    return S.replay_case(payload, "C04")
