"""C05 -- a client subscription stream yields exactly its own notifications, in order."""
import json
from props import clihist_common as C
from props._client_family import *  # noqa

RULE = ("push-heavy histories: random ones; lag scenarios (buffer 1..3, with a gated/busy send task and late pushes); for n<=5 "
        "(quick) / n<=7 (thorough) pushes EVERY grouping of the pushes into arrays (metamorphic: identical stream observations "
        "required across the family).  Oracle on the implementation alone: yielded items are a prefix of the server's pushes for that "
        "subscription id after acceptance; an unsubscribe request is sent at most once per subscription and exactly once after an "
        "explicit unsubscribe; lagging ends the stream with reason lagged.  Sequence-form family (serde visit_seq): items as object form / "
        "params-sequence `[sid,v]` / element-sequence `[\"2.0\",m,{..}]` inside arrays / both, closing error notifications and method "
        "notifications in sequence form, sequence-form error objects in call and batch answers, arrays of the wrong length")


def stream_obs(H, line):
    evs, tables, panic = C.parse_out(line)
    obs = []
    for idx, (t, m) in enumerate(H.ev):
        if m.get("kind") == "next" and idx < len(evs):
            obs.append(evs[idx]["N"])
    unsubs = sum(1 for k, o in C.wire_requests(evs) if isinstance(o, dict) and str(o.get("method", "")).startswith("unsub"))
    return obs, unsubs


def run(ctx):
    ctx.engines = ["clihist"]
    hs = C.c05_lag_histories(ctx.rng)
    hs += C.c05_drop_full_queue_histories(ctx.rng)
    hs += C.c12_mixed_array_histories(ctx.rng, nmax=2)
    hs += C.c18_sid_reuse_histories(ctx.rng)
    hs += C.c05_dup_sid_histories(ctx.rng)
    # serde's SEQUENCE forms of the derived structs (Notification / SubscriptionPayload / ErrorObject as JSON arrays)
    hs += C.seqform_histories(ctx.rng, reps=ctx.scale(3, 40))
    hs += random_histories(ctx, ctx.scale(1500, 150000))
    outs = C.run_histories(ctx, hs, ["c05"])
    # lag scenarios: the stream must end, and end as lagged
    for H, line in zip(hs, outs):
        if getattr(H, "expect_lag", None):
            obs, unsubs = stream_obs(H, line)
            if "endlag" not in obs:
                ctx.fail("oracle", "lagging-stream-not-ended-as-lagged", {"history": H.text()}, "stream observations %s" % obs)
            if unsubs != 1:
                ctx.fail("oracle", "lag-closure-unsubscribe-count", {"history": H.text()}, "%d unsubscribe requests on the wire" % unsubs)
    # grouping families
    fams = []
    for n in range(1, ctx.scale(5, 7) + 1):
        for bufcap in (1, 2, n, 8):
            for idstr in (0, 1):
                fams.append(C.c05_grouping_family(ctx.rng, n, bufcap, idstr))
    flat = [H for f in fams for H in f]
    outs = C.run_histories(ctx, flat, ["c05"], tag="grouping-family")
    pos = 0
    for f in fams:
        ref = None
        for H in f:
            o = stream_obs(H, outs[pos])
            pos += 1
            if ref is None:
                ref = (o, H)
            elif o != ref[0]:
                ctx.fail("oracle", "grouping-changes-stream", {"history": H.text(), "reference": ref[1].text()},
                         "observations %s vs %s for the same pushes grouped differently" % (o, ref[0]))
    ctx.count("grouping-families", len(fams))
    # several subscriptions in one array: per-stream observations must not depend on the packing, and a stream whose
    # buffer overflowed must end as lagged
    mfams = []
    pats = [[0, 0, 1, 1], [0, 1, 0, 1], [0, 0, 0, 1, 1, 1], [1, 0, 0, 1, 2, 2, 2], [0, 1, 2], [0, 0, 1, 2, 2, 1]]
    for pat in pats:
        for bufcap in (1, 2, 8):
            for idstr in (0, 1):
                mfams.append((pat, bufcap, C.c05_multi_sub_family(ctx.rng, bufcap, idstr, pat)))
    flat = [H for _, _, f in mfams for H in f]
    outs = C.run_histories(ctx, flat, ["c05"], tag="multi-sub-family")
    pos = 0
    for pat, bufcap, f in mfams:
        ref = None
        for H in f:
            evs, tables, panic = C.parse_out(outs[pos])
            pos += 1
            per = {}
            for idx, (t, m) in enumerate(H.ev):
                if m.get("kind") == "next" and idx < len(evs):
                    per.setdefault(int(t.split()[1]), []).append(evs[idx]["N"])
            unsubs = sum(1 for k, o in C.wire_requests(evs) if isinstance(o, dict) and str(o.get("method", "")).startswith("unsub"))
            obs = (sorted(per.items()), unsubs)
            for k, sh in enumerate(H.family_subs):
                pushed = sum(1 for x in pat if x == k)
                if pushed > bufcap and "endlag" not in per.get(sh, []):
                    ctx.fail("oracle", "lagging-stream-not-ended-as-lagged", {"history": H.text()},
                             "subscription %d got %d pushes with buffer %d unread, stream observations %s" % (sh, pushed, bufcap, per.get(sh)))
            if ref is None:
                ref = (obs, H)
            elif obs != ref[0]:
                ctx.fail("oracle", "grouping-changes-stream", {"history": H.text(), "reference": ref[1].text()},
                         "per-stream observations differ between packings of the same pushes")
    ctx.count("multi-sub-families", len(mfams))
