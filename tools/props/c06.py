"""C06 -- Server: subscription bookkeeping is exact and respects the per-connection cap."""
import vlib
from props import subhist_common as S

TRANSLATORS = ["accept_order", "error_consts"]     # error_consts: Model/SubBookWire.v (what the engine prints for the too-many-subscriptions refusal)
MODELS = ["subhist"]
BINS = {"release": ["subhist"]}
RULE = ("cases = one script line each over {subscribe, accept, reject, handler return, abandoned subscribe call (pending sink "
        "kept / dying with the handler), drop of the pending sink, sink clone/drop, send, is_closed, "
        "unsubscribe(own / foreign / stale / unknown id), connection drop, server stop}, 1..2 connections, caps 0..3, the same "
        "random walk re-run with a connection drop injected (every position in the thorough tier), the targeted family around "
        "an abandoned call (abandon; [conn drop | stop | slot probe]; accept / reject / drop / nothing; unsubscribe of that id; "
        "subscribe again up to the cap and one more), plus the exhaustive space of "
        "short scripts; run on a real jsonrpsee_server::Server with max_subscriptions_per_connection(cap) and a counting "
        "IdProvider (harness/src/bin/subhist.rs) and on the extracted SubBook LTS (modelrun/subhist_driver.ml); results diffed "
        "line by line; the C06 oracle (tools/props/subhist_common.py:oracles: unsubscribe truth table, unsubscribe true only for "
        "a subscription whose accept reported success on that connection, cap, slot return incl. abandoned calls, stays "
        "active) is evaluated on the implementation output alone.  distinct non-trivial = distinct result lines in which at "
        "least one subscribe call reached the handler")
TRUSTED = [
    "modelled, not verified: tokio mpsc/oneshot/semaphore semantics and the WS writer (Model/SubBook.v), tied by the differential run only",
    "harness: handler remote control, quiescence detection (barrier round-trips / idle rounds), counting IdProvider, frame canonicalisation (error.data dropped)",
    "harness: the rpc middleware `Abandon` installed on every server (races the subscribe-call future against a script-controlled signal, polls the inner "
    "future first, answers an abandoned call with error 44); its transparency was checked by byte-comparing the corpus before/after; `ab,s,k` moves the pending "
    "sink to a detached task from the Drop of the handler future's state",
    "translator tools/translators/accept_order.py: textual anchors for the four effectful steps of PendingSubscriptionSink::accept (exactly one match each, both "
    "sends still behind `?`, exactly one await); Model/SubBook.v interprets the emitted order (accept_run)",
]
ASSUMPTIONS = [
    "partial: real interleavings inside tokio are sampled (one harness-sequenced schedule on a current-thread runtime), not enumerated",
    "the window between 'response enqueued' and 'table entry inserted' is a separate model step (an unsubscribe landing there answers false); "
    "on the real runtime that window is a few hundred ns and is not reproduced",
    "the unsubscribe callback's table removal and the enqueueing of its answer are one model step; calls are read only while the connection is open and the server not stopped",
    "subscribe calls inside batches are out of scope here (C02)",
    "'the handler holds a sink' is any live clone of the SubscriptionSink, also one handed to another task after the handler returned; "
    "the model and the theorems describe the repaired drop (fixes/C06.patch: entry removed with the LAST clone); the unrepaired drop is kept as "
    "step_old with the witness C06_stays_active_refuted_old, and the oracle key 'sink-clone-dropped' reports it if it returns",
    "one subscription method (one subscriber table); subscription ids from a counting IdProvider, so ids never collide",
    "abandoned subscribe call = the future returned by the subscribe callback is dropped unanswered while the connection stays open (modelled on what the harness's "
    "middleware does; the error answer 44 is the middleware's); the library then drops the handler future at once, so accept() can only run on a pending sink the "
    "handler had handed to another task (ab,s,k); a call abandoned while the handler is suspended INSIDE accept().await (full outgoing buffer) is not modelled "
    "(the queue is unbounded here); the model keeps one seam inside accept (after the last fallible step), the steps before it are one atomic step",
    "observed, outside the property text: accept() on an abandoned call returns Err AFTER the success response was handed to the connection (the `TODO: #1052` "
    "double send): the client reads error 44 and then {result: <sid>} for the same call id although no subscription exists; model and implementation agree on it",
]


def run(ctx):
    ctx.engines = ["subhist (harness/src/bin/subhist.rs on a real Server vs modelrun/subhist_driver.ml over coq/Model/SubBook.v)"]
    cases = S.gen_cases(ctx)
    lines = [l for l, _ in cases]
    ri, rm, cached = S.run_engine(lines)
    ctx.extra["engine_cache_hit"] = cached
    found = []
    for (line, tag), a, b in zip(cases, ri, rm):
        ctx.count(tag)
        cap = line.split()[0]
        ctx.count("cap:" + cap[1:])
        o = S.oracles(line, a)
        keys = [k for k, _ in o["C06"]]
        if a != b:
            key = S.KNOWN_KEY if S.KNOWN_KEY in keys else "subhist-model-differs"
            ctx.fail("diff", key, {"line": line, "tag": tag}, {"impl": a[:1500], "model": b[:1500]})
        for key, detail in o["C06"]:
            found.append((key, line, tag, detail))
        for key, detail in o["C04"]:
            if key.startswith("engine"):
                ctx.fail("oracle", key, {"line": line, "tag": tag}, detail)
        ctx.record({"line": line}, a, nontrivial=('"h0"' in a), validated=(a == b))
    S.report_oracle_failures(ctx, "C06", found)


def replay(payload):
    return S.replay_case(payload, "C06")
