"""C06 -- Server: subscription bookkeeping is exact and respects the per-connection cap."""
import json, os, random
import vlib
from props import subhist_common as S

TRANSLATORS = ["accept_order", "table_ops", "error_consts", "sub_limiter"]     # sub_limiter: Gen/SubLimiterGen.v, WHERE server/src creates the BoundedSubscriptions limiter (C06_limiter_created_per_connection); table_ops: Gen/TableOpsGen.v, how each site takes the subscriber table's mutex (Model/SubBook.v interprets it); error_consts: Model/SubBookWire.v (what the engine prints for the too-many-subscriptions refusal)
MODELS = ["subhist"]
BINS = {"release": ["subhist", "submt"]}
RULE = ("cases = one script line each over {subscribe, accept, reject, handler return, abandoned subscribe call (pending sink "
        "kept / dying with the handler), drop of the pending sink, sink clone/drop, send, is_closed, "
        "unsubscribe(own / foreign / stale / unknown id), connection drop, server stop}, 1..2 connections, caps 0..3, the same "
        "random walk re-run with a connection drop injected (every position in the thorough tier), the targeted family around "
        "an abandoned call (abandon; [conn drop | stop | slot probe]; accept / reject / drop / nothing; unsubscribe of that id; "
        "subscribe again up to the cap and one more), plus the exhaustive space of "
        "short scripts; run on a real jsonrpsee_server::Server with max_subscriptions_per_connection(cap) and a counting "
        "IdProvider (harness/src/bin/subhist.rs) and on the extracted SubBook LTS (modelrun/subhist_driver.ml); results diffed "
        "line by line; the C06 oracle (tools/props/subhist_common.py:oracles: unsubscribe truth table, unsubscribe true only for "
        "a subscription whose accept reported success on that connection, cap, slot return incl. abandoned calls, a subscribe is "
        "never refused with -32006 on a connection whose OWN live count is below the cap (subscribe-refused-below-own-cap when other "
        "connections hold subscriptions at that moment, slot-not-returned otherwise), stays "
        "active) is evaluated on the implementation output alone.  ENTRY POINT (script token E<server|tower|towermw>, default server): the "
        "multi-connection families -- the targeted own-cap family (A fills its cap and is refused one more; B, holding nothing, "
        "subscribes up to ITS OWN cap; A ends k by reject / drop pending / return / abandon / unsubscribe + last sink dropped / connection drop; B still at its "
        "own count is still refused; A starts k new ones; B ends j and starts j; a third connection that holds nothing is admitted; caps 1..3), "
        "random walks over 2..3 connections, the exhaustive short scripts with 2 connections, the 2-connection corpus and abandon-family "
        "lines -- run each script under ALL THREE entry points: `server` = Server::builder().build(addr) + Server::start(module); `tower` = ONE "
        "TowerServiceBuilder (ServerBuilder::to_service_builder(), same config: cap, id provider, abandon middleware) per history, CLONED "
        "for every accepted TCP connection (.clone().build(methods, stop_handle)) and served from the harness's own accept loop with "
        "serve_with_graceful_shutdown; `towermw` = the same, but the shared builder carries no rpc middleware and every connection's service is built as shared.clone().set_rpc_middleware(mw).build(..) without an explicit connection_id (the connection ids, which key the subscription table, must still come from the one shared counter: an unsubscribe naming another connection's id answers false); the model is entry-point independent (one semaphore per connection, theorem "
        "C06_cap_is_per_connection) and ignores the token.  distinct non-trivial = distinct result lines in which at "
        "least one subscribe call reached the handler.  "
        "THREADS (engine submt; a STRESS TEST in support of the search for a concrete failing schedule, not an enumeration): cases = one "
        "line `<conns> <subs_per_conn> <threads> <rounds> <seed>` each, run on a real Server on a MULTI-thread tokio runtime "
        "(harness/src/bin/submt.rs): every connection fills its cap (= subs_per_conn) with subscriptions whose handlers park the sink; "
        "then, released by one barrier, `threads` OS threads drop ALL sinks while one thread per connection issues unsubscribe calls "
        "for a random half of the ids (cases with an odd seed add 1-2 holder connections that stream unsubscribe calls naming unknown 1-4 MiB string ids, "
        "whose hashing happens inside the table's critical section, while the drops are paced over the same milliseconds: a public-API contention "
        "amplifier that keeps an overlap likely on a loaded machine); after quiescence EVERY id is unsubscribed on its own still-open connection and must answer "
        "false; then every connection fills its cap again and must not be refused.  The counts {stale true, double true, refused "
        "re-subscriptions, panics} are compared with the all-zero line that follows from C06_table_ops_unconditional (every site of the "
        "subscriber table takes a blocking lock(), read from the source by tools/translators/table_ops.py, hence the truth table and "
        "the slot accounting hold for ALL thread-level traces) and C06_cap_under_contention")
TRUSTED = [
    "harness, entry points `tower` / `towermw`: the accept loop of harness/src/bin/subhist.rs (one TowerService per accepted TCP connection, built from a clone of the "
    "history's single TowerServiceBuilder; tower::service_fn cloning that service per request; TCP_NODELAY set by the harness); its outputs were "
    "byte-identical to the `server` entry point on every script of the quick and thorough case sets",
    "translator tools/translators/sub_limiter.py: textual (regex + brace matching over the comment-stripped server/src/**/*.rs): every `BoundedSubscriptions::new(` must sit "
    "in TowerServiceNoHttp::call's `if .. enable_ws && is_upgrade_request {` block or in ws::connect, sized by <cfg>.max_subscriptions_per_connection, and every "
    "construction of RpcServiceCfg::CallsAndSubscriptions must create its limiter on the spot; that ONE upgrade request = ONE connection, and that nothing else "
    "(unsafe, a global) shares the semaphore, is read off those two functions by hand",
    "modelled, not verified: tokio mpsc/oneshot/semaphore semantics and the WS writer (Model/SubBook.v), tied by the differential run only",
    "harness: handler remote control, quiescence detection (barrier round-trips / idle rounds), counting IdProvider, frame canonicalisation (error.data dropped)",
    "harness: the rpc middleware `Abandon` installed on every server (races the subscribe-call future against a script-controlled signal, polls the inner "
    "future first, answers an abandoned call with error 44); its transparency was checked by byte-comparing the corpus before/after; `ab,s,k` moves the pending "
    "sink to a detached task from the Drop of the handler future's state",
    "translator tools/translators/table_ops.py: every mention of `subscribers`/`Subscribers` in core/src/server/{subscription,rpc_module}.rs is classified "
    "(3 table accesses: accept insert, unsubscribe remove, SubscriptionGuard::drop remove; the rest declarations / Arc moves and clones); an unknown mention, an "
    "unknown shape at a site, or a mention in another library source file is a translation error; textual (regex over the comment-stripped source), "
    "parking_lot::Mutex semantics of lock()/try_lock() assumed",
    "engine submt: barrier-released OS threads, bounded waits (60 s), a case whose waits ran out is re-run (3 attempts) before it is reported as engine-problem",
    "translator tools/translators/accept_order.py: textual anchors for the four effectful steps of PendingSubscriptionSink::accept (exactly one match each, both "
    "sends still behind `?`, exactly one await); Model/SubBook.v interprets the emitted order (accept_run)",
]
ASSUMPTIONS = [
    "partial: real interleavings inside tokio are sampled (one harness-sequenced schedule on a current-thread runtime), not enumerated",
    "thread-level model: every event carries one bit `contended` (another thread is inside a critical section of the same table); a blocking lock() "
    "then waits and performs its operation, a try_lock skips it; each table access with its surrounding bookkeeping is still ONE atomic step (the mutex "
    "makes the access atomic; accept's seam between the answer and the insert is the existing Accept1/Accept2 split).  The theorems quantify over all "
    "flag assignments; the engine submt samples real schedules (multi-thread runtime + OS threads) as a stress test and cannot show their absence",
    "the window between 'response enqueued' and 'table entry inserted' is a separate model step (an unsubscribe landing there answers false); "
    "on the real runtime that window is a few hundred ns and is not reproduced",
    "the unsubscribe callback's table removal and the enqueueing of its answer are one model step; calls are read only while the connection is open and the server not stopped",
    "subscribe calls inside batches are out of scope here (C02)",
    "'the handler holds a sink' is any live clone of the SubscriptionSink, also one handed to another task after the handler returned; "
    "the model and the theorems describe the repaired drop (fixes/C06.patch: entry removed with the LAST clone); the unrepaired drop is kept as "
    "step_old with the witness C06_stays_active_refuted_old, and the oracle key 'sink-clone-dropped' reports it if it returns",
    "one subscription method (one subscriber table); subscription ids from a counting IdProvider, so ids never collide",
    "abandoned subscribe call = the future returned by the subscribe callback is dropped unanswered while the connection stays open (modelled on what the harness's "
    "middleware does; the error answer 44 is the middleware's); the library then drops the handler future at once, so accept() can only run on a pending sink the "
    "handler had handed to another task (ab,s,k); a call abandoned while the handler is suspended INSIDE accept().await (full outgoing buffer) is not modelled "
    "(the queue is unbounded here); the model keeps one seam inside accept (after the last fallible step), the steps before it are one atomic step",
    "observed, outside the property text: accept() on an abandoned call returns Err AFTER the success response was handed to the connection (the `TODO: #1052` "
    "double send): the client reads error 44 and then {result: <sid>} for the same call id although no subscription exists; model and implementation agree on it",
]


# ---------------------------------------------------------------------------------------------- engine submt (threads)
# fact -> (oracle key, what the theorems say)
SUBMT_FACTS = [
    ("stale_true", "unsubscribe-true-for-gone-handler-under-contention",
     "C06_table_ops_unconditional: over every thread-level trace unsubscribe answers true iff the id is active on that connection; "
     "all sinks were dropped, so no id is active"),
    ("double_true", "unsubscribe-true-twice",
     "C06_table_ops_unconditional: the first `true` removed the entry (active_here needs s_unsubscribed = false), the second answer is false"),
    ("refused", "slot-not-returned-under-contention",
     "C06_cap_under_contention + C06_slot_returns: count_live + free permits = cap on every thread-level trace; nothing is live, so cap subscribes are admitted"),
    ("panics", "panic-under-contention", "no step of the model panics"),
]
SUBMT_ENGINE = ("timeouts", "engine")


def submt_bin():
    """VERIF_SUBMT_BIN overrides the stress engine's binary (a harness copy built against another tree)."""
    return os.environ.get("VERIF_SUBMT_BIN") or vlib.rust_bin("submt")


def submt_cases(ctx):
    """[(line, tag)]; own generator so that the subhist case set (and its cache key) does not move"""
    rng = random.Random(ctx.seed * 7919 + 606)
    cases = [("2 200 8 3 %d" % rng.randrange(1 << 30), "2x200x8"), ("2 400 8 3 %d" % rng.randrange(1 << 30), "2x400x8"),
             ("1 300 8 3 %d" % rng.randrange(1 << 30), "1x300x8"), ("4 100 8 3 %d" % rng.randrange(1 << 30), "4x100x8"),
             ("2 200 4 3 %d" % rng.randrange(1 << 30), "2x200x4"), ("2 50 16 4 %d" % rng.randrange(1 << 30), "2x50x16")]
    for _ in range(ctx.scale(30, 400)):
        conns = rng.choice([1, 2, 2, 3, 4])
        subs = rng.choice([20, 50, 100, 200, 200, 400] + ([800, 1500] if (ctx.thorough or ctx.search_mode) else []))
        threads = rng.choice([2, 4, 8, 8, 8, 12, 16])
        rounds = rng.choice([2, 3, 3, 5])
        cases.append(("%d %d %d %d %d" % (conns, subs, threads, rounds, rng.randrange(1 << 30)), "%dx%dx%d" % (conns, subs, threads)))
    return cases


def submt_run_one(line):
    rc, out = vlib.sh([submt_bin()], input=line + "\n", timeout=900)
    out = out.strip().split("\n")[-1] if out.strip() else ""
    try:
        d = json.loads(out)
        if "fatal" in d:
            return None, out
        return d, out
    except Exception:
        return None, "rc=%d %s" % (rc, out[-300:])


def submt_canonical(d):
    return " ".join("%s=%d" % (k, d[k]) for k in ("stale_true", "double_true", "refused", "panics", "timeouts", "engine"))


SUBMT_EXPECTED = "stale_true=0 double_true=0 refused=0 panics=0 timeouts=0 engine=0"      # what the theorems say, for every schedule


def run_submt(ctx):
    cases = submt_cases(ctx)
    mixed = 0
    for line, tag in cases:
        f = line.split()
        ctx.count("submt:conns=%s" % f[0])
        ctx.count("submt:threads=%s" % f[2])
        ctx.count("submt:holders" if int(f[4]) % 2 else "submt:plain")
        d = raw = None
        for attempt in range(3):
            d, raw = submt_run_one(line)
            # only waits that ran out / transport trouble are retried; a property fact is never retried away
            if d is not None and (any(d[k] for k, _, _ in SUBMT_FACTS) or not any(d[k] for k in SUBMT_ENGINE)):
                break
        case = {"submt": line, "tag": tag}
        if d is None:
            ctx.fail("oracle", "engine-problem", case, raw)
            continue
        facts = submt_canonical(d)
        for k, key, why in SUBMT_FACTS:
            if d[k]:
                ctx.fail("oracle", key, case, "%s=%d (%s); expected 0: %s; info %s" % (k, d[k], facts, why, json.dumps(d.get("info"))))
        if not any(d[k] for k, _, _ in SUBMT_FACTS) and any(d[k] for k in SUBMT_ENGINE):
            ctx.fail("oracle", "engine-problem", case, "%s after 3 attempts; info %s" % (facts, json.dumps(d.get("info"))))
        info = d.get("info", {})
        both = bool(info.get("conc_true")) and bool(info.get("conc_false"))
        mixed += both
        # non-trivial (deterministic): the concurrent phase ran and its unsubscribe calls were answered
        ran = bool(info.get("conc_true", 0) + info.get("conc_false", 0)) and info.get("rounds_done", 0) > 0
        ctx.record(case, "submt %s -> %s" % (line, facts), nontrivial=ran, validated=(facts == SUBMT_EXPECTED))
    ctx.extra["submt_cases"] = len(cases)
    ctx.extra["submt_cases_with_both_orders"] = mixed      # concurrent unsubscribes that won and that lost against the drop of the same id


def run(ctx):
    ctx.engines = ["subhist (harness/src/bin/subhist.rs on a real Server vs modelrun/subhist_driver.ml over coq/Model/SubBook.v)",
                   "submt (harness/src/bin/submt.rs: stress test on a multi-thread runtime, barrier-released OS threads; expected facts = the all-zero line "
                   "derived from C06_table_ops_unconditional / C06_cap_under_contention)"]
    cases = S.gen_cases(ctx)
    lines = [l for l, _ in cases]
    ri, rm, cached = S.run_engine(lines)
    ctx.extra["engine_cache_hit"] = cached
    found = []
    for (line, tag), a, b in zip(cases, ri, rm):
        ctx.count(tag)
        ctx.count("cap:%d" % S.parse_line(line)[0])
        ctx.count("entry:" + S.entry_of(line))
        o = S.oracles(line, a)
        keys = [k for k, _ in o["C06"]]
        if a != b:
            key = S.KNOWN_KEY if S.KNOWN_KEY in keys else "subhist-model-differs"
            ctx.fail("diff", key, {"line": line, "tag": tag}, {"impl": a[:1500], "model": b[:1500]})
        for key, detail in o["C06"]:
            found.append((key, line, tag, detail))
        for key, detail in o["C04"]:
            if key.startswith("engine"):
                ctx.fail("oracle", key, {"line": line, "tag": tag}, detail)
        ctx.record({"line": line}, a, nontrivial=('"h0"' in a), validated=(a == b))
    S.report_oracle_failures(ctx, "C06", found)
    run_submt(ctx)      # last: ctx.record draws from ctx.rng, the subhist case set above must not move


def replay(payload):
    case = payload.get("case")
    if isinstance(case, dict) and "submt" in case:
        line = case["submt"]
        print("stress case (conns subs_per_conn threads rounds seed):", line)
        if os.environ.get("VERIF_SUBMT_BIN"):
            print("implementation binary overridden:", submt_bin())
        print("expected for every schedule (C06_table_ops_unconditional, C06_cap_under_contention):", SUBMT_EXPECTED)
        bad = 0
        for i in range(10):
            d, raw = submt_run_one(line)
            facts = submt_canonical(d) if d is not None else raw
            hit = d is None or facts != SUBMT_EXPECTED
            bad += hit
            print("run %2d: %s%s" % (i + 1, facts, "   <-- differs" if hit else ""))
        print("the schedule is the OS scheduler's: %d of 10 runs differ from the expected line" % bad)
        return 1 if bad else 0
    return S.replay_case(payload, "C06")
